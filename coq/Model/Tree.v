(* Model of prosemirror/model/fragment.py, node.py (structure part), content.py
   (matcher side), resolvedpos.py and replace.py. *)
From Coq Require Import ZArith NArith List Bool Arith Lia.
From PM Require Import Model.Data Model.Mark.
Import ListNotations.

(* ---------------------------------------------------------------- results *)
Inductive err := ErrReplace | ErrValue | ErrTransform | ErrSyntax | ErrInternal.
Inductive res (A : Type) := Ok (a : A) | Err (e : err).
Arguments Ok {A} a.
Arguments Err {A} e.
Definition bind {A B} (r : res A) (f : A -> res B) : res B :=
  match r with Ok a => f a | Err e => Err e end.
Notation "'do' x <- r ; k" := (bind r (fun x => k)) (at level 200, x pattern, r at level 100, k at level 200).

Definition err_eqb (a b : err) : bool :=
  match a, b with
  | ErrReplace, ErrReplace | ErrValue, ErrValue | ErrTransform, ErrTransform
  | ErrSyntax, ErrSyntax | ErrInternal, ErrInternal => true
  | _, _ => false
  end.

(* ---------------------------------------------------------------- UTF-16 text cuts *)
Inductive unit16 := UBmp (c : N) | UHi (c : N) | ULo (c : N).
Fixpoint units (s : cps) : list unit16 :=
  match s with
  | [] => []
  | c :: r => if N.leb 65536 c then UHi c :: ULo c :: units r else UBmp c :: units r
  end.
Fixpoint decode (l : list unit16) : option cps :=
  match l with
  | [] => Some []
  | UBmp c :: r => match decode r with Some x => Some (c :: x) | None => None end
  | UHi c :: ULo _ :: r => match decode r with Some x => Some (c :: x) | None => None end
  | _ => None
  end.

(* text.encode("utf-16-le")[2*from:2*to].decode("utf-16-le"): ValueError when a pair is split *)
Definition cut_text (s : cps) (from to : nat) : res cps :=
  match decode (firstn (to - from) (skipn from (units s))) with
  | Some x => Ok x
  | None => Err ErrValue
  end.

(* slices *)
Record slice := { sl_content : list node; sl_open_start : nat; sl_open_end : nat }.
Notation SL := Build_slice.

Section WithSchema.
Variable s : schema.

Notation nsize := (node_size s).
Notation fsize := (frag_size s).

(* Node.same_markup *)
Definition same_markup (a b : node) : bool :=
  match a, b with
  | Text _ m, Text _ m' => marks_eqb m m'
  | Elem t a m _, Elem t' a' m' _ => Nat.eqb t t' && attrs_eqb a a' && marks_eqb m m'
  | _, _ => false
  end.

(* TextNode.cut(from, to) *)
Definition text_cut (t : cps) (m : list mark) (from to : nat) : res node :=
  if (from =? 0) && (to =? text_length t) then Ok (Text t m)
  else do x <- cut_text t from to;
       match x with [] => Err ErrValue (* empty text nodes are not allowed *) | _ => Ok (Text x m) end.

(* Fragment.find_index(pos) with round = -1: (index, offset) *)
Fixpoint find_index_go (l : list node) (i cur pos : nat) : res (nat * nat) :=
  match l with
  | [] => Err ErrInternal
  | c :: r =>
    let e := cur + nsize c in
    if pos <=? e then (if e =? pos then Ok (S i, e) else Ok (i, cur))
    else find_index_go r (S i) e pos
  end.
Definition find_index (l : list node) (pos : nat) : res (nat * nat) :=
  if pos =? 0 then Ok (0, 0)
  else if pos =? fsize l then Ok (length l, pos)
  else if fsize l <? pos then Err ErrValue
  else find_index_go l 0 0 pos.

(* Fragment.cut / Node.cut, mutually through the content list *)
Fixpoint node_cut (n : node) (from to : nat) {struct n} : res node :=
  match n with
  | Text t m => text_cut t m from to
  | Elem ty a m cs =>
    if (from =? 0) && (to =? fsize cs) then Ok n
    else
      if to <=? from then Ok (Elem ty a m [])
      else
        do cs' <- (fix go (l : list node) (pos : nat) {struct l} : res (list node) :=
               if pos <? to then
                 match l with
                 | [] => Err ErrInternal
                 | c :: r =>
                   let e := pos + nsize c in
                   if from <? e then
                     do c' <- (if (pos <? from) || (to <? e) then
                                 match c with
                                 | Text t' m' => text_cut t' m' (from - pos) (Nat.min (text_length t') (to - pos))
                                 | Elem _ _ _ cc => node_cut c (from - pos - 1) (Nat.min (fsize cc) (to - pos - 1))
                                 end
                               else Ok c);
                     do rest <- go r e;
                     Ok (c' :: rest)
                   else go r e
                 end
               else Ok []) cs 0;
        Ok (Elem ty a m cs')
  end.

Fixpoint frag_cut_go (l : list node) (pos from to : nat) : res (list node) :=
  if pos <? to then
    match l with
    | [] => Err ErrInternal
    | c :: r =>
      let e := pos + nsize c in
      if from <? e then
        do c' <- (if (pos <? from) || (to <? e) then
                    match c with
                    | Text t' m' => text_cut t' m' (from - pos) (Nat.min (text_length t') (to - pos))
                    | Elem _ _ _ cc => node_cut c (from - pos - 1) (Nat.min (fsize cc) (to - pos - 1))
                    end
                  else Ok c);
        do rest <- frag_cut_go r e from to;
        Ok (c' :: rest)
      else frag_cut_go r e from to
    end
  else Ok [].

Definition frag_cut (l : list node) (from to : nat) : res (list node) :=
  if (from =? 0) && (to =? fsize l) then Ok l
  else if to <=? from then Ok []
  else frag_cut_go l 0 from to.

(* Fragment.append *)
Definition frag_append (a b : list node) : list node :=
  match b with
  | [] => a
  | first :: b' =>
    match a with
    | [] => b
    | _ =>
      let last := List.last a first in
      match last, first with
      | Text t m, Text t' m' =>
        if marks_eqb m m' then removelast a ++ [Text (t ++ t') m] ++ b' else a ++ b
      | _, _ => a ++ b
      end
    end
  end.

(* Fragment.from_array: adjacent same-markup text merged, later marks object kept *)
Definition join_text (x : node) (acc : list node) : list node :=
  match x, acc with
  | Text t m, Text t' m' :: rest => if marks_eqb m m' then Text (t ++ t') m' :: rest else x :: acc
  | _, _ => x :: acc
  end.
Definition from_array (l : list node) : list node := fold_right join_text [] l.

(* replace.add_node: append to a target list, merging text *)
Definition add_node (child : node) (target : list node) : list node :=
  match child with
  | Text t m =>
    match rev target with
    | Text t' m' :: _ => if marks_eqb m m' then removelast target ++ [Text (t' ++ t) m] else target ++ [child]
    | _ => target ++ [child]
    end
  | _ => target ++ [child]
  end.

Definition replace_child (l : list node) (index : nat) (n : node) : list node :=
  firstn index l ++ [n] ++ skipn (S index) l.

(* Node.copy(content) *)
Definition node_copy (n : node) (content : list node) : node :=
  match n with
  | Text t m => Text t m
  | Elem ty a m _ => Elem ty a m content
  end.

(* ---------------------------------------------------------------- content matching *)
Fixpoint assoc_nat (l : list (nat * nat)) (k : nat) : option nat :=
  match l with [] => None | (a, b) :: r => if Nat.eqb a k then Some b else assoc_nat r k end.

Definition match_type (q : nat) (t : nat) : option nat := assoc_nat (cs_next (state_of s q)) t.

Fixpoint match_types (q : nat) (ts : list nat) : option nat :=
  match ts with
  | [] => Some q
  | t :: r => match match_type q t with Some q' => match_types q' r | None => None end
  end.

(* ContentMatch.match_fragment(frag, start, end) *)
Definition types_of (l : list node) : list nat := List.map (node_ty s) l.
Definition match_fragment (q : nat) (l : list node) (start end_ : nat) : option nat :=
  match_types q (types_of (firstn (end_ - start) (skipn start l))).

Definition valid_end (q : nat) : bool := cs_valid (state_of s q).

(* NodeType.valid_content *)
Definition valid_content (ty : nat) (l : list node) : bool :=
  match match_fragment (nt_start (ntype_of s ty)) l 0 (length l) with
  | Some q => valid_end q && forallb (fun c => allows_marks s ty (node_marks c)) l
  | None => false
  end.

(* ContentMatch.compatible / NodeType.compatible_content *)
Definition compatible (q1 q2 : nat) : bool :=
  existsb (fun e1 => existsb (fun e2 => Nat.eqb (fst e1) (fst e2)) (cs_next (state_of s q2))) (cs_next (state_of s q1)).
Definition compatible_content (t1 t2 : nat) : bool :=
  Nat.eqb t1 t2 || compatible (nt_start (ntype_of s t1)) (nt_start (ntype_of s t2)).

(* Node.check: ValueError on invalid content or non-canonical marks, anywhere in the tree *)
Fixpoint check (n : node) : bool :=
  match n with
  | Text _ m => marks_canonical s m
  | Elem ty _ m cs =>
    valid_content ty cs && marks_canonical s m &&
    (fix all (l : list node) : bool := match l with [] => true | c :: r => check c && all r end) cs
  end.


(* ---------------------------------------------------------------- validity questions (C07) *)
Definition node_start_state (n : node) : nat := nt_start (ntype_of s (node_ty s n)).

(* Node.content_match_at(index): ValueError when the prefix does not match *)
Definition content_match_at (n : node) (index : nat) : res nat :=
  match match_fragment (node_start_state n) (node_content n) 0 index with
  | Some q => Ok q
  | None => Err ErrValue
  end.

Definition sub_list {A} (l : list A) (from to : nat) : list A := firstn (to - from) (skipn from l).

(* Node.can_replace(from, to, replacement, start, end) *)
Definition can_replace (n : node) (from to : nat) (repl : list node) (start end_ : nat) : res bool :=
  do q <- content_match_at n from;
  match match_fragment q repl start end_ with
  | None => Ok false
  | Some q1 =>
    match match_fragment q1 (node_content n) to (length (node_content n)) with
    | None => Ok false
    | Some q2 =>
      if negb (valid_end q2) then Ok false
      else Ok (forallb (fun c => allows_marks s (node_ty s n) (node_marks c)) (sub_list repl start end_))
    end
  end.

(* Node.can_replace_with(from, to, type, marks) *)
Definition can_replace_with (n : node) (from to : nat) (ty : nat) (ms : list mark) : res bool :=
  if (match ms with [] => false | _ => true end) && negb (allows_marks s (node_ty s n) ms) then Ok false
  else
    do q <- content_match_at n from;
    match match_type q ty with
    | None => Ok false
    | Some q1 =>
      match match_fragment q1 (node_content n) to (length (node_content n)) with
      | None => Ok false
      | Some q2 => Ok (valid_end q2)
      end
    end.

(* Node.can_append(other) *)
Definition can_append (n other : node) : res bool :=
  if negb (fsize (node_content other) =? 0) then
    can_replace n (length (node_content n)) (length (node_content n)) (node_content other) 0 (length (node_content other))
  else Ok (compatible_content (node_ty s n) (node_ty s other)).

(* ---------------------------------------------------------------- resolved positions *)
Record rpos := { rp_pos : nat; rp_path : list (node * nat * nat); rp_parent_offset : nat }.

Definition rp_depth (r : rpos) : nat := length (rp_path r) - 1.

(* ResolvedPos.resolve: structural on the document, find_index fused into the walk *)
Fixpoint resolve_in (n : node) (po start : nat) {struct n} : res (list (node * nat * nat) * nat) :=
  match n with
  | Text _ _ => Err ErrInternal
  | Elem _ _ _ cs =>
    if po =? 0 then Ok ([(n, 0, start)], po) else
    (fix walk (l : list node) (i cur : nat) {struct l} : res (list (node * nat * nat) * nat) :=
       match l with
       | [] => Err ErrValue
       | c :: r =>
         let e := cur + nsize c in
         if e =? po then Ok ([(n, S i, start + e)], po)
         else if po <? e then
           match c with
           | Text _ _ => Ok ([(n, i, start + cur)], po)
           | Elem _ _ _ _ =>
             do rest <- resolve_in c (po - cur - 1) (start + cur + 1);
             Ok ((n, i, start + cur) :: fst rest, snd rest)
           end
         else walk r (S i) e
       end) cs 0 0
  end.

Definition resolve (doc : node) (pos : nat) : res rpos :=
  if fsize (node_content doc) <? pos then Err ErrValue
  else do r <- resolve_in doc pos 0;
       Ok {| rp_pos := pos; rp_path := fst r; rp_parent_offset := snd r |}.

Definition dummy_node : node := Elem 0 [] [] [].
Definition path_at (r : rpos) (d : nat) : option (node * nat * nat) := nth_error (rp_path r) d.

Definition rp_node (r : rpos) (d : nat) : res node :=
  match path_at r d with Some (n, _, _) => Ok n | None => Err ErrInternal end.
Definition rp_index (r : rpos) (d : nat) : res nat :=
  match path_at r d with Some (_, i, _) => Ok i | None => Err ErrInternal end.
Definition rp_offset (r : rpos) (d : nat) : res nat :=
  match path_at r d with Some (_, _, o) => Ok o | None => Err ErrInternal end.

Definition rp_start (r : rpos) (d : nat) : res nat :=
  match d with 0 => Ok 0 | S d' => do o <- rp_offset r d'; Ok (o + 1) end.
Definition rp_end (r : rpos) (d : nat) : res nat :=
  do st <- rp_start r d; do n <- rp_node r d; Ok (st + fsize (node_content n)).
Definition rp_parent (r : rpos) : res node := rp_node r (rp_depth r).
Definition rp_last_offset (r : rpos) : nat :=
  match path_at r (rp_depth r) with Some (_, _, o) => o | None => 0 end.
Definition rp_text_offset (r : rpos) : nat := rp_pos r - rp_last_offset r.

(* before/after: ValueError at depth 0 *)
Definition rp_before (r : rpos) (d : nat) : res nat :=
  match d with
  | 0 => Err ErrValue
  | S d' => if d =? rp_depth r + 1 then Ok (rp_pos r) else rp_offset r d'
  end.
Definition rp_after (r : rpos) (d : nat) : res nat :=
  match d with
  | 0 => Err ErrValue
  | S d' => if d =? rp_depth r + 1 then Ok (rp_pos r)
            else do o <- rp_offset r d'; do n <- rp_node r d; Ok (o + nsize n)
  end.

Definition rp_index_after (r : rpos) (d : nat) : res nat :=
  do i <- rp_index r d;
  Ok (i + (if (d =? rp_depth r) && (rp_text_offset r =? 0) then 0 else 1)).

Definition child_at (n : node) (i : nat) : option node := nth_error (node_content n) i.

Definition rp_node_after (r : rpos) : res (option node) :=
  do parent <- rp_parent r;
  do index <- rp_index r (rp_depth r);
  match child_at parent index with
  | None => if index =? length (node_content parent) then Ok None else Err ErrInternal
  | Some child =>
    let doff := rp_text_offset r in
    if doff =? 0 then Ok (Some child)
    else match child with
         | Text t m => do c <- text_cut t m doff (text_length t); Ok (Some c)
         | Elem _ _ _ cc => do c <- node_cut child doff (fsize cc); Ok (Some c)
         end
  end.

Definition rp_node_before (r : rpos) : res (option node) :=
  do parent <- rp_parent r;
  do index <- rp_index r (rp_depth r);
  let doff := rp_text_offset r in
  if negb (doff =? 0) then
    match child_at parent index with
    | Some (Text t m) => do c <- text_cut t m 0 doff; Ok (Some c)
    | Some ((Elem _ _ _ _) as c0) => do c <- node_cut c0 0 doff; Ok (Some c)
    | None => Err ErrInternal
    end
  else match index with
       | 0 => Ok None
       | S i' => match child_at parent i' with Some c => Ok (Some c) | None => Err ErrInternal end
       end.

(* ResolvedPos.shared_depth(pos) *)
Fixpoint shared_depth_go (r : rpos) (pos : nat) (d : nat) : res nat :=
  match d with
  | 0 => Ok 0
  | S d' =>
    do st <- rp_start r d; do en <- rp_end r d;
    if (st <=? pos) && (pos <=? en) then Ok d else shared_depth_go r pos d'
  end.
Definition shared_depth (r : rpos) (pos : nat) : res nat := shared_depth_go r pos (rp_depth r).

(* ResolvedPos.pos_at_index *)
Definition rp_pos_at_index (r : rpos) (index d : nat) : res nat :=
  do n <- rp_node r d; do st <- rp_start r d;
  if length (node_content n) <? index then Err ErrInternal
  else Ok (st + fsize (firstn index (node_content n))).

(* ---------------------------------------------------------------- slices *)
Definition slice_empty : slice := SL [] 0 0.
(* Slice.size (an int in the code; may be negative for a malformed slice) *)
Definition slice_size (sl : slice) : Z :=
  (Z.of_nat (fsize (sl_content sl)) - Z.of_nat (sl_open_start sl) - Z.of_nat (sl_open_end sl))%Z.

(* Node.slice(from, to) *)
Definition node_slice (doc : node) (from to : nat) : res slice :=
  if from =? to then Ok slice_empty
  else
    do rf <- resolve doc from;
    do rt <- resolve doc to;
    do depth <- shared_depth rf to;
    do start <- rp_start rf depth;
    do n <- rp_node rf depth;
    do content <- frag_cut (node_content n) (from - start) (to - start);
    Ok (SL content (rp_depth rf - depth) (rp_depth rt - depth)).

(* ---------------------------------------------------------------- replace *)
Definition close (n : node) (content : list node) : res node :=
  if valid_content (node_ty s n) content then Ok (node_copy n content) else Err ErrReplace.

Definition check_join (main sub : node) : res unit :=
  if compatible_content (node_ty s sub) (node_ty s main) then Ok tt else Err ErrReplace.

Definition joinable (before after : rpos) (depth : nat) : res node :=
  do n <- rp_node before depth;
  do a <- rp_node after depth;
  do _ <- check_join n a;
  Ok n.

Fixpoint add_all (l : list node) (target : list node) : list node :=
  match l with [] => target | c :: r => add_all r (add_node c target) end.

(* add_range(start, end, depth, target) *)
Definition add_range (start end_ : option rpos) (depth : nat) (target : list node) : res (list node) :=
  do n <- (match end_, start with
           | Some e, _ => rp_node e depth
           | None, Some st => rp_node st depth
           | None, None => Err ErrInternal end);
  do end_index <- (match end_ with Some e => rp_index e depth | None => Ok (length (node_content n)) end);
  do st <- (match start with
            | None => Ok (0, target)
            | Some sp =>
              do si <- rp_index sp depth;
              if depth <? rp_depth sp then Ok (S si, target)
              else if negb (rp_text_offset sp =? 0) then
                do na <- rp_node_after sp;
                match na with Some x => Ok (S si, add_node x target) | None => Err ErrInternal end
              else Ok (si, target)
            end);
  let '(start_index, target1) := st in
  do _ <- (if length (node_content n) <? end_index then Err ErrInternal else Ok tt);
  let target2 := add_all (firstn (end_index - start_index) (skipn start_index (node_content n))) target1 in
  match end_ with
  | Some e =>
    if (rp_depth e =? depth) && negb (rp_text_offset e =? 0) then
      do nb <- rp_node_before e;
      match nb with Some x => Ok (add_node x target2) | None => Err ErrInternal end
    else Ok target2
  | None => Ok target2
  end.

Fixpoint replace_two_way (fuel : nat) (from to : rpos) (depth : nat) : res (list node) :=
  match fuel with
  | 0 => Err ErrInternal
  | S fuel' =>
    do c1 <- add_range None (Some from) depth [];
    do c2 <- (if depth <? rp_depth from then
                do ty <- joinable from to (S depth);
                do inner <- replace_two_way fuel' from to (S depth);
                do cl <- close ty inner;
                Ok (add_node cl c1)
              else Ok c1);
    add_range (Some to) None depth c2
  end.

Fixpoint replace_three_way (fuel : nat) (from start end_ to : rpos) (depth : nat) : res (list node) :=
  match fuel with
  | 0 => Err ErrInternal
  | S fuel' =>
    do open_start <- (if depth <? rp_depth from then do n <- joinable from start (S depth); Ok (Some n) else Ok None);
    do open_end <- (if depth <? rp_depth to then do n <- joinable end_ to (S depth); Ok (Some n) else Ok None);
    do c1 <- add_range None (Some from) depth [];
    do c2 <-
      (match open_start, open_end with
       | Some os, Some oe =>
         do si <- rp_index start depth;
         do ei <- rp_index end_ depth;
         if si =? ei then
           do _ <- check_join os oe;
           do inner <- replace_three_way fuel' from start end_ to (S depth);
           do cl <- close os inner;
           Ok (add_node cl c1)
         else
           do inner <- replace_two_way fuel' from start (S depth);
           do cl <- close os inner;
           do c' <- add_range (Some start) (Some end_) depth (add_node cl c1);
           do inner2 <- replace_two_way fuel' end_ to (S depth);
           do cl2 <- close oe inner2;
           Ok (add_node cl2 c')
       | _, _ =>
         do c' <- (match open_start with
                   | Some os => do inner <- replace_two_way fuel' from start (S depth);
                                do cl <- close os inner; Ok (add_node cl c1)
                   | None => Ok c1 end);
         do c'' <- add_range (Some start) (Some end_) depth c';
         match open_end with
         | Some oe => do inner2 <- replace_two_way fuel' end_ to (S depth);
                      do cl2 <- close oe inner2; Ok (add_node cl2 c'')
         | None => Ok c''
         end
       end);
    add_range (Some to) None depth c2
  end.

(* prepare_slice_for_replace *)
Fixpoint wrap_up (along : rpos) (i : nat) (n : node) : res node :=
  match i with
  | 0 => Ok n
  | S i' => do a <- rp_node along i'; wrap_up along i' (node_copy a [n])
  end.

Definition prepare_slice0 (sl : slice) (along : rpos) : res (rpos * rpos) :=
  let extra := rp_depth along - sl_open_start sl in
  do parent <- rp_node along extra;
  do n <- wrap_up along extra (node_copy parent (sl_content sl));
  let size := fsize (node_content n) in
  if size <? sl_open_end sl + extra then Err ErrValue else
  do st <- resolve n (sl_open_start sl + extra);
  do en <- resolve n (size - sl_open_end sl - extra);
  Ok (st, en).
(* the slice must really be as open as it claims: both resolved positions sit at the depths the open sides
   promise (ReplaceError otherwise) *)
Definition prepare_slice (sl : slice) (along : rpos) : res (rpos * rpos) :=
  do se <- prepare_slice0 sl along;
  let '(st, en) := se in
  if negb (rp_depth st =? rp_depth along)
     || negb (rp_depth en =? sl_open_end sl + (rp_depth along - sl_open_start sl))
  then Err ErrReplace else Ok (st, en).

Fixpoint replace_outer (fuel : nat) (from to : rpos) (sl : slice) (depth : nat) : res node :=
  match fuel with
  | 0 => Err ErrInternal
  | S fuel' =>
    do index <- rp_index from depth;
    do n <- rp_node from depth;
    do tindex <- rp_index to depth;
    if (index =? tindex) && (depth <? rp_depth from - sl_open_start sl) then
      do inner <- replace_outer fuel' from to sl (S depth);
      Ok (node_copy n (replace_child (node_content n) index inner))
    else if fsize (sl_content sl) =? 0 then
      do c <- replace_two_way (S (rp_depth from)) from to depth; close n c
    else if (sl_open_start sl =? 0) && (sl_open_end sl =? 0) && (rp_depth from =? depth) && (rp_depth to =? depth) then
      do parent <- rp_parent from;
      let content := node_content parent in
      do a <- frag_cut content 0 (rp_parent_offset from);
      do b <- frag_cut content (rp_parent_offset to) (fsize content);
      close parent (frag_append (frag_append a (sl_content sl)) b)
    else
      do se <- prepare_slice sl from;
      let '(start, end_) := se in
      do c <- replace_three_way (S (rp_depth from + rp_depth to + rp_depth start)) from start end_ to depth;
      close n c
  end.

(* replace.replace($from, $to, slice) *)
Definition replace_rp (from to : rpos) (sl : slice) : res node :=
  if rp_depth from <? sl_open_start sl then Err ErrReplace
  else if negb (Z.eqb (Z.of_nat (rp_depth from) - Z.of_nat (sl_open_start sl))
                      (Z.of_nat (rp_depth to) - Z.of_nat (sl_open_end sl))) then Err ErrReplace
  else if rp_pos to <? rp_pos from then Err ErrReplace     (* a range whose end lies before its start *)
  else if (fsize (sl_content sl) =? 0) && ((0 <? sl_open_start sl) || (0 <? sl_open_end sl)) then Err ErrReplace
       (* an empty slice has no nodes to be open into *)
  else replace_outer (S (rp_depth from)) from to sl 0.

(* Node.replace(from, to, slice) *)
Definition node_replace (doc : node) (from to : nat) (sl : slice) : res node :=
  do rf <- resolve doc from;
  do rt <- resolve doc to;
  replace_rp rf rt sl.

End WithSchema.
