(* Model of ContentMatch.fill_before, NodeType.create_and_fill and
   ContentMatch.find_wrapping / compute_wrapping (C15). *)
From Coq Require Import ZArith List Bool Arith.
From PM Require Import Model.Data Model.Mark Model.Tree Model.Step.
Import ListNotations.

Section WithSchema.
Variable s : schema.

Definition generatable (t : nat) : bool :=
  negb (is_text_ty s t || has_required_attrs (nt_attrs (ntype_of s t))).

Definition nat_mem (x : nat) (l : list nat) : bool := existsb (Nat.eqb x) l.

(* the depth-first search of fill_before; the visited list is threaded through *)
Fixpoint fb_search (fuel : nat) (after : list node) (to_end : bool) (start : nat)
  (q : nat) (types : list nat) (seen : list nat) : option (list nat) * list nat :=
  match fuel with
  | 0 => (None, seen)
  | S f =>
    let finished := match_fragment s q after start (length after) in
    if match finished with Some qf => negb to_end || valid_end s qf | None => false end
    then (Some types, seen)
    else
      (fix edges (l : list (nat * nat)) (seen : list nat) : option (list nat) * list nat :=
         match l with
         | [] => (None, seen)
         | (t, nx) :: r =>
           if generatable t && negb (nat_mem nx seen) then
             match fb_search f after to_end start nx (types ++ [t]) (nx :: seen) with
             | (Some x, seen') => (Some x, seen')
             | (None, seen') => edges r seen'
             end
           else edges r seen
         end) (cs_next (state_of s q)) seen
  end.

(* fill_before as a list of node types (the nodes are [create_and_fill] of each) *)
Definition fill_before_types (q : nat) (after : list node) (to_end : bool) (start : nat) : option (list nat) :=
  fst (fb_search (S (length (s_states s))) after to_end start q [] [q]).

(* NodeType.create_and_fill() without arguments, and fill_before producing nodes; fuel bounds the
   nesting of required content (a schema that is not well-founded recurses forever in the code) *)
Fixpoint create_and_fill0 (fuel : nat) (ty : nat) : res (option node) :=
  match fuel with
  | 0 => Err ErrInternal
  | S f =>
    do attrs <- compute_attrs (nt_attrs (ntype_of s ty)) [];
    match fill_before_types (nt_start (ntype_of s ty)) [] true 0 with
    | None => Ok None
    | Some tys =>
      do kids <- (fix go (l : list nat) : res (list node) :=
                    match l with
                    | [] => Ok []
                    | t :: r =>
                      do n <- create_and_fill0 f t;
                      match n with
                      | None => Err ErrInternal     (* fill_before dereferences the missing node *)
                      | Some x => do rest <- go r; Ok (x :: rest)
                      end
                    end) tys;
      Ok (Some (Elem ty attrs [] (from_array kids)))
    end
  end.

Definition fill_nodes (fuel : nat) (tys : list nat) : res (list node) :=
  do kids <- (fix go (l : list nat) : res (list node) :=
                match l with
                | [] => Ok []
                | t :: r =>
                  do n <- create_and_fill0 fuel t;
                  match n with
                  | None => Err ErrInternal
                  | Some x => do rest <- go r; Ok (x :: rest)
                  end
                end) tys;
  Ok (from_array kids).

Definition fill_before (fuel : nat) (q : nat) (after : list node) (to_end : bool) (start : nat)
  : res (option (list node)) :=
  match fill_before_types q after to_end start with
  | None => Ok None
  | Some tys => do l <- fill_nodes fuel tys; Ok (Some l)
  end.

(* NodeType.create_and_fill(attrs, content, marks) *)
Definition create_and_fill (fuel : nat) (ty : nat) (a : attrs) (content : list node) (ms : list mark)
  : res (option node) :=
  do attrs <- compute_attrs (nt_attrs (ntype_of s ty)) a;
  let q0 := nt_start (ntype_of s ty) in
  do frag <- (if frag_size s content =? 0 then Ok (Some content)
              else do before <- fill_before fuel q0 content false 0;
                   match before with
                   | None => Ok None
                   | Some bf => Ok (Some (frag_append bf content))
                   end);
  match frag with
  | None => Ok None
  | Some fr =>
    match match_fragment s q0 fr 0 (length fr) with
    | None => Ok None
    | Some matched =>
      do after <- fill_before fuel matched [] true 0;
      match after with
      | None => Ok None
      | Some af => Ok (Some (Elem ty attrs (set_from ms) (frag_append fr af)))
      end
    end
  end.

(* ContentMatch.compute_wrapping(target): breadth-first over wrapper types *)
Fixpoint wrap_bfs (fuel : nat) (target : nat) (active : list (nat * list nat * bool)) (seen : list nat)
  : option (list nat) :=
  (* active entries: (match state, wrapper chain innermost-first, is-the-initial-entry) *)
  match fuel with
  | 0 => None
  | S f =>
    match active with
    | [] => None
    | (q, chain, initial) :: rest =>
      match match_type s q target with
      | Some _ => Some (rev chain)
      | None =>
        let step :=
          fold_left (fun (acc : list (nat * list nat * bool) * list nat) (e : nat * nat) =>
            let '(added, sn) := acc in
            let '(t, nx) := e in
            if negb (is_leaf_ty s t) && negb (has_required_attrs (nt_attrs (ntype_of s t)))
               && negb (nat_mem t sn) && (initial || valid_end s nx)
            then (added ++ [(nt_start (ntype_of s t), t :: chain, false)], t :: sn)
            else (added, sn)) (cs_next (state_of s q)) ([], seen) in
        wrap_bfs f target (rest ++ fst step) (snd step)
      end
    end
  end.

Definition find_wrapping (q : nat) (target : nat) : option (list nat) :=
  wrap_bfs (S (S (length (s_nodes s)))) target [(q, [], true)] [].

End WithSchema.
