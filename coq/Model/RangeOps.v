(* Model of transform/replace.py: covered_depths and of Transform.delete_range (transform.py): which range
   it hands to Transform.delete (= replace with the empty slice, planned by Model.Fitter.replace_step). *)
From Coq Require Import ZArith NArith List Bool Arith.
From PM Require Import Model.Data Model.Mark Model.Tree Model.Resolve Model.StepMap Model.Step Model.Fill Model.Fitter.
Import ListNotations.
Local Open Scope nat_scope.

Section WithSchema.
Variable s : schema.

Definition iso_node (n : node) : bool := nt_isolating (ntype_of s (node_ty s n)).
Definition inline_content_node (n : node) : bool := nt_inline_content (ntype_of s (node_ty s n)).

(* covered_depths(from, to): depths d = k-1 .. 0 *)
Fixpoint covered_go (rf rt : rpos) (k : nat) : res (list nat) :=
  match k with
  | 0 => Ok []
  | S d =>
    do start <- rp_start rf d;
    do te <- rp_end s rt d;
    do nf <- rp_node rf d;
    do nt <- rp_node rt d;
    if (start <? rp_pos rf - (rp_depth rf - d)) || (rp_pos rt + (rp_depth rt - d) <? te) || iso_node nf || iso_node nt
    then Ok []
    else
      do ts <- rp_start rt d;
      do hit <-
        (if start =? ts then Ok true
         else if (d =? rp_depth rf) && (d =? rp_depth rt) then
           do pf <- rp_parent rf; do pt <- rp_parent rt;
           if inline_content_node pf && inline_content_node pt && (0 <? d) then
             do ts1 <- rp_start rt (d - 1); Ok (ts1 =? start - 1)
           else Ok false
         else Ok false);
      do rest <- covered_go rf rt d;
      Ok (if hit then d :: rest else rest)
  end.

Definition covered_depths (rf rt : rpos) : res (list nat) :=
  covered_go rf rt (S (Nat.min (rp_depth rf) (rp_depth rt))).

(* Transform.delete_range(from, to): the range handed to Transform.delete *)
Fixpoint dr_covered (rf rt : rpos) (covered : list nat) : res (option (nat * nat)) :=
  match covered with
  | [] => Ok None
  | depth :: rest =>
    let last := match rest with [] => true | _ => false end in
    do n <- rp_node rf depth;
    if (last && (depth =? 0)) || valid_end s (nt_start (ntype_of s (node_ty s n))) then
      do a <- rp_start rf depth; do b <- rp_end s rt depth; Ok (Some (a, b))
    else
      do second <-
        (match depth with
         | 0 => Ok false
         | S dm1 =>
           if last then Ok true
           else
             do p <- rp_node rf dm1; do i <- rp_index rf dm1; do j <- rp_index_after rt dm1;
             can_replace s p i j [] 0 0
         end);
      if second then do a <- rp_before rf depth; do b <- rp_after s rt depth; Ok (Some (a, b))
      else dr_covered rf rt rest
  end.

Fixpoint dr_open (rf rt : rpos) (from to : nat) (k d : nat) : res (option (nat * nat)) :=
  match k with
  | 0 => Ok None
  | S k' =>
    if (d <=? rp_depth rf) && (d <=? rp_depth rt) then
      do fs <- rp_start rf d; do fe <- rp_end s rf d; do te <- rp_end s rt d;
      if (from - fs =? rp_depth rf - d) && (fe <? to) && negb (te - to =? rp_depth rt - d) then
        do a <- rp_before rf d; Ok (Some (a, to))
      else dr_open rf rt from to k' (S d)
    else Ok None
  end.

Definition delete_range_bounds (doc : node) (from to : nat) : res (nat * nat) :=
  do rf <- resolve s doc from;
  do rt <- resolve s doc to;
  do covered <- covered_depths rf rt;
  do a <- dr_covered rf rt covered;
  match a with
  | Some r => Ok r
  | None =>
    do b <- dr_open rf rt from to (S (rp_depth rf)) 1;
    match b with Some r => Ok r | None => Ok (from, to) end
  end.

Definition delete_range_step (doc : node) (from to : nat) : res (option step) :=
  do ft <- delete_range_bounds doc from to;
  replace_step s doc (fst ft) (snd ft) slice_empty.

(* ------------------------------------------------------------------ Transform.replace / replace_range *)
(* Transform.replace: plan with replace_step, record through Transform.step (TransformError when it fails) *)
Definition try_replace (doc : node) (from to : nat) (sl : slice) : res (option step) :=
  do r <- replace_step s doc from to sl;
  match r with
  | None => Ok None
  | Some st =>
    match apply s st doc with
    | ROk _ => Ok (Some st)
    | RFail => Err ErrTransform
    | RErr e => Err e
    end
  end.

(* target depths: (expand, depth); a negative entry -d of the code is (false, d) *)
Definition td_eqb (a b : bool * nat) : bool := Bool.eqb (fst a) (fst b) && (snd a =? snd b).
Fixpoint td_index (l : list (bool * nat)) (x : bool * nat) (i : nat) : option nat :=
  match l with [] => None | y :: r => if td_eqb y x then Some i else td_index r x (S i) end.
Definition insert_at_1 {A} (l : list A) (x : A) : list A :=
  match l with [] => [x] | y :: r => y :: x :: r end.

Definition ctx_defining (n : node) : bool :=
  let t := ntype_of s (node_ty s n) in nt_defining_ctx t || nt_isolating t.

(* the `while d > 0` loop of replace_range; pos is an int *)
Fixpoint rr_targets (rf : rpos) (k d : nat) (pos : Z) (tds : list (bool * nat)) (preferred : bool * nat)
  : res (list (bool * nat) * (bool * nat)) :=
  match k with
  | 0 => Ok (tds, preferred)
  | S k' =>
    if d =? 0 then Ok (tds, preferred)
    else
      do n <- rp_node rf d;
      if ctx_defining n then Ok (tds, preferred)
      else if existsb (td_eqb (true, d)) tds then rr_targets rf k' (d - 1) (pos - 1)%Z tds (true, d)
      else
        do b <- rp_before rf d;
        rr_targets rf k' (d - 1) (pos - 1)%Z
          (if (Z.of_nat b =? pos)%Z then insert_at_1 tds (false, d) else tds) preferred
  end.

(* left_nodes: content.first_child along the open start of the slice (None ends the list) *)
Fixpoint rr_left (k i : nat) (content : list node) : list (option node) :=
  match k with
  | 0 => []
  | S k' =>
    match content with
    | [] => [None]
    | n :: _ => if k' =? 0 then [Some n] else Some n :: rr_left k' (S i) (node_content n)
    end
  end.

Definition defines_content (n : node) : bool := nt_defining_content (ntype_of s (node_ty s n)).

(* the `while d >= 0` loop choosing preferred_depth: d = k-1 .. 0 *)
Fixpoint rr_pref (rf : rpos) (left : list (option node)) (pt : nat) (k : nat) (preferred_depth : nat) : res nat :=
  match k with
  | 0 => Ok preferred_depth
  | S d =>
    do ln <- (match nth_error left d with Some (Some n) => Ok n | _ => Err ErrInternal end);
    let def := defines_content ln in
    do ctxn <- rp_node rf (pt - 1);
    if def && negb (same_markup ln ctxn) then rr_pref rf left pt d d
    else if def || negb (is_textblock_ty s (node_ty s ln)) then Ok preferred_depth
    else rr_pref rf left pt d preferred_depth
  end.

(* replace.close_fragment(fragment, depth, old_open, new_open, parent) *)
Fixpoint close_fragment (fuel : nat) (l : list node) (depth old_open new_open : nat) (parent : option node) : res (list node) :=
  match fuel with
  | 0 => Err ErrInternal
  | S f =>
    do l1 <- (if depth <? old_open then
                match l with
                | first :: _ =>
                  do inner <- close_fragment f (node_content first) (S depth) old_open new_open (Some first);
                  Ok (replace_child l 0 (node_copy first inner))
                | [] => Err ErrInternal
                end
              else Ok l);
    if new_open <? depth then
      do p <- assert_some parent;
      do q <- content_match_at s p 0;
      do fb1 <- fb s q l1 false 0;
      do fb1 <- assert_some fb1;
      let start := frag_append fb1 l1 in
      do q2 <- assert_some (match_fragment s q start 0 (List.length start));
      do fb2 <- fb s q2 [] true 0;
      do fb2 <- assert_some fb2;
      Ok (frag_append start fb2)
    else Ok l1
  end.

(* the search `for j ... for i ...`: the first (open_depth, target) whose parent accepts the node *)
Fixpoint rr_try_targets (rf : rpos) (insert : node) (tds : list (bool * nat)) (pti n i : nat) : res (option (bool * nat)) :=
  match n with
  | 0 => Ok None
  | S n' =>
    match nth_error tds ((i + pti) mod List.length tds) with
    | None => Err ErrInternal
    | Some (expand, td) =>
      do parent <- rp_node rf (td - 1);
      do index <- rp_index rf (td - 1);
      do ok <- can_replace_with s parent index index (node_ty s insert) (node_marks insert);
      if ok then Ok (Some (expand, td)) else rr_try_targets rf insert tds pti n' (S i)
    end
  end.

Fixpoint rr_search (rf : rpos) (left : list (option node)) (tds : list (bool * nat)) (pti preferred_depth os : nat) (k : nat)
  : res (option (nat * (bool * nat))) :=
  (* j = k-1 .. 0 *)
  match k with
  | 0 => Ok None
  | S j =>
    let open_depth := (j + preferred_depth + 1) mod (os + 1) in
    match nth_error left open_depth with
    | Some (Some insert) =>
      do r <- rr_try_targets rf insert tds pti (List.length tds) 0;
      match r with
      | Some t => Ok (Some (open_depth, t))
      | None => rr_search rf left tds pti preferred_depth os j
      end
    | _ => rr_search rf left tds pti preferred_depth os j
    end
  end.

(* the final loop: replace with ever wider ranges until a step is recorded; i = k-1 .. 0 *)
Fixpoint rr_widen (doc : node) (rf rt : rpos) (sl : slice) (tds : list (bool * nat)) (k : nat) (from to : nat) : res (option step) :=
  match k with
  | 0 => Ok None
  | S i =>
    do r <- try_replace doc from to sl;
    match r with
    | Some st => Ok (Some st)
    | None =>
      match nth_error tds i with
      | None => Err ErrInternal
      | Some (false, _) => rr_widen doc rf rt sl tds i from to
      | Some (true, depth) =>
        do a <- rp_before rf depth; do b <- rp_after s rt depth;
        rr_widen doc rf rt sl tds i a b
      end
    end
  end.

Definition replace_range_step (doc : node) (from to : nat) (sl : slice) : res (option step) :=
  if (slice_size s sl =? 0)%Z then
    do r <- delete_range_step doc from to;
    match r with
    | None => Ok None
    | Some st => match apply s st doc with ROk _ => Ok (Some st) | RFail => Err ErrTransform | RErr e => Err e end
    end
  else
    do rf <- resolve s doc from;
    do rt <- resolve s doc to;
    do triv <- fits_trivially s rf rt sl;
    if triv then
      let st := SReplace from to sl false in
      match apply s st doc with ROk _ => Ok (Some st) | RFail => Err ErrTransform | RErr e => Err e end
    else
      do cov <- covered_depths rf rt;
      let cov := match rev cov with 0 :: r => rev r | _ => cov end in
      let pref0 := (false, S (rp_depth rf)) in
      let tds0 := pref0 :: List.map (fun d => (true, d)) cov in
      do tp <- rr_targets rf (rp_depth rf) (rp_depth rf) (Z.of_nat (rp_pos rf) - 1)%Z tds0 pref0;
      let '(tds, preferred) := tp in
      do pti <- assert_some (td_index tds preferred 0);
      let os := sl_open_start sl in
      let left := rr_left (S os) 0 (sl_content sl) in
      do preferred_depth <- rr_pref rf left (snd preferred) os os;
      do found <- rr_search rf left tds pti preferred_depth os (S os);
      match found with
      | Some (open_depth, (expand, td)) =>
        do a <- rp_before rf td;
        do b <- (if expand then rp_after s rt td else Ok to);
        do c <- close_fragment (S (S os)) (sl_content sl) 0 os open_depth None;
        try_replace doc a b (SL c open_depth (sl_open_end sl))
      | None => rr_widen doc rf rt sl tds (List.length tds) from to
      end.

End WithSchema.
