(* Model of prosemirror/transform/step.py, replace_step.py, mark_step.py,
   attr_step.py, doc_attr_step.py: apply / get_map / invert / map / merge of the
   eight built-in step types. *)
From Coq Require Import ZArith NArith List Bool Arith String.
From PM Require Import Model.Data Model.Mark Model.Tree Model.Resolve Model.StepMap.
Import ListNotations.
Local Open Scope nat_scope.

Inductive step :=
| SReplace (from to : nat) (sl : slice) (structure : bool)
| SReplaceAround (from to gap_from gap_to : nat) (sl : slice) (insert : nat) (structure : bool)
| SAddMark (from to : nat) (m : mark)
| SRemoveMark (from to : nat) (m : mark)
| SAddNodeMark (pos : nat) (m : mark)
| SRemoveNodeMark (pos : nat) (m : mark)
| SAttr (pos : nat) (attr : string) (value : json)
| SDocAttr (attr : string) (value : json).

(* StepResult: ok(doc) | fail(message); exceptions escape as RErr *)
Inductive sresult := ROk (d : node) | RFail | RErr (e : err).

Section WithSchema.
Variable s : schema.
Notation nsize := (node_size s).
Notation fsize := (frag_size s).

(* schema.compute_attrs(attrs, value) *)
Fixpoint lookup_attr (a : attrs) (k : string) : option json :=
  match a with [] => None | (k', v) :: r => if String.eqb k' k then Some v else lookup_attr r k end.

Fixpoint compute_attrs (decls : list attrdecl) (value : attrs) : res attrs :=
  match decls with
  | [] => Ok []
  | d :: r =>
    do rest <- compute_attrs r value;
    match lookup_attr value (ad_name d) with
    | Some JNull | None =>
      match ad_default d with
      | Some v => Ok ((ad_name d, v) :: rest)
      | None => Err ErrValue
      end
    | Some v => Ok ((ad_name d, v) :: rest)
    end
  end.

Fixpoint set_attr (a : attrs) (k : string) (v : json) : attrs :=
  match a with
  | [] => [(k, v)]
  | (k', v') :: r => if String.eqb k' k then (k, v) :: r else (k', v') :: set_attr r k v
  end.

(* NodeType.create(attrs, content, marks) for non-text types *)
Definition type_create (ty : nat) (a : attrs) (content : list node) (ms : list mark) : res node :=
  if is_text_ty s ty then Err ErrValue
  else do a' <- compute_attrs (nt_attrs (ntype_of s ty)) a;
       Ok (Elem ty a' (set_from ms) content).

(* StepResult.from_replace *)
Definition from_replace (doc : node) (from to : nat) (sl : slice) : sresult :=
  match node_replace s doc from to sl with
  | Ok d => ROk d
  | Err ErrReplace => RFail
  | Err e => RErr e
  end.

(* replace_step.content_between(doc, from, to) *)
Fixpoint cb_up (r : rpos) (dist depth : nat) : res (nat * nat) :=
  match depth with
  | 0 => Ok (dist, 0)
  | S d' =>
    if dist =? 0 then Ok (dist, depth)
    else
      do ia <- rp_index_after r depth;
      do n <- rp_node r depth;
      if ia =? List.length (node_content n) then cb_up r (dist - 1) d' else Ok (dist, depth)
  end.

Fixpoint cb_down (next : option node) (dist : nat) : bool :=
  match dist with
  | 0 => false
  | S d' =>
    match next with
    | None => true
    | Some n =>
      if is_leaf_ty s (node_ty s n) then true
      else cb_down (match node_content n with [] => None | c :: _ => Some c end) d'
    end
  end.

Definition content_between (doc : node) (from to : nat) : res bool :=
  do r <- resolve s doc from;
  do dd <- cb_up r (to - from) (rp_depth r);
  let '(dist, depth) := dd in
  if dist =? 0 then Ok false
  else
    do n <- rp_node r depth;
    do ia <- rp_index_after r depth;
    Ok (cb_down (child_at n ia) dist).

(* replace.insert_into(content, dist, insert, parent=None) / Slice.insert_at *)
Fixpoint insert_into (fuel : nat) (content : list node) (dist : nat) (ins : list node) : res (option (list node)) :=
  match fuel with
  | 0 => Err ErrInternal
  | S fuel' =>
    do io <- find_index s content dist;
    let '(index, offset) := io in
    let child := nth_error content index in
    if (offset =? dist) || (match child with Some c => node_is_text c | None => false end) then
      match child with
      | None => if offset =? dist then
                  do a <- frag_cut s content 0 dist;
                  do b <- frag_cut s content dist (fsize content);
                  Ok (Some (frag_append (frag_append a ins) b))
                else Err ErrInternal
      | Some _ =>
        do a <- frag_cut s content 0 dist;
        do b <- frag_cut s content dist (fsize content);
        Ok (Some (frag_append (frag_append a ins) b))
      end
    else
      match child with
      | None => Err ErrInternal
      | Some c =>
        do inner <- insert_into fuel' (node_content c) (dist - offset - 1) ins;
        match inner with
        | Some l => Ok (Some (replace_child content index (node_copy c l)))   (* a Fragment object is always truthy *)
        | None => Ok None
        end
      end
  end.

Definition insert_at (sl : slice) (pos : nat) (frag : list node) : res (option slice) :=
  do c <- insert_into (S (fsize (sl_content sl))) (sl_content sl) (pos + sl_open_start sl) frag;
  match c with
  | Some l => Ok (Some (SL l (sl_open_start sl) (sl_open_end sl)))
  | None => Ok None
  end.

(* replace.remove_range / Slice.remove_between *)
Fixpoint remove_range (fuel : nat) (content : list node) (from to : nat) : res (list node) :=
  match fuel with
  | 0 => Err ErrInternal
  | S fuel' =>
    do io <- find_index s content from;
    let '(index, offset) := io in
    let child := nth_error content index in
    do io2 <- find_index s content to;
    let '(index_to, offset_to) := io2 in
    if (offset =? from) || (match child with Some c => node_is_text c | None => false end) then
      do _ <- (if negb (offset_to =? to) then
                 match nth_error content index_to with
                 | Some c => if node_is_text c then Ok tt else Err ErrValue
                 | None => Err ErrInternal
                 end
               else Ok tt);
      do a <- frag_cut s content 0 from;
      do b <- frag_cut s content to (fsize content);
      Ok (frag_append a b)
    else
      match child with
      | None => Err ErrInternal
      | Some c =>
        if negb (index =? index_to) then Err ErrValue
        else
          do inner <- remove_range fuel' (node_content c) (from - offset - 1) (to - offset - 1);
          Ok (replace_child content index (node_copy c inner))
      end
  end.

Definition remove_between (sl : slice) (from to : nat) : res slice :=
  do c <- remove_range (S (fsize (sl_content sl))) (sl_content sl) (from + sl_open_start sl) (to + sl_open_start sl);
  Ok (SL c (sl_open_start sl) (sl_open_end sl)).

(* mark_step.map_fragment(fragment, f, parent) *)
Definition node_mark (n : node) (ms : list mark) : node :=
  match n with Text t _ => Text t ms | Elem ty a _ c => Elem ty a ms c end.

Fixpoint map_node (f : node -> node -> node) (parent : node) (n : node) {struct n} : node :=
  let n1 :=
    match n with
    | Text _ _ => n
    | Elem ty a m cs =>
      if fsize cs =? 0 then n
      else Elem ty a m (from_array ((fix go (l : list node) : list node :=
                                       match l with [] => [] | c :: r => map_node f n c :: go r end) cs))
    end in
  if is_inline_ty s (node_ty s n1) then f n1 parent else n1.

Definition map_fragment (f : node -> node -> node) (parent : node) (l : list node) : list node :=
  from_array (List.map (map_node f parent) l).

Definition add_mark_f (m : mark) (n parent : node) : node :=
  if negb (is_atom_ty s (node_ty s n)) || negb (allows_mark_type s (node_ty s parent) (m_ty m)) then n
  else node_mark n (add_to_set s m (node_marks n)).
Definition remove_mark_f (m : mark) (n _parent : node) : node := node_mark n (remove_from_set m (node_marks n)).

Definition lift {A} (r : res A) (k : A -> sresult) : sresult :=
  match r with Ok a => k a | Err e => RErr e end.

Definition node_step (doc : node) (pos : nat) (upd : node -> res node) (failmsg : unit) : sresult :=
  lift (node_at s (S (nsize doc)) doc pos) (fun on =>
    match on with
    | None => RFail
    | Some n =>
      lift (upd n) (fun updated =>
        from_replace doc pos (pos + 1) (SL [updated] 0 (if is_leaf_ty s (node_ty s n) then 0 else 1)))
    end).

Definition apply (st : step) (doc : node) : sresult :=
  match st with
  | SReplace from to sl structure =>
    lift (if structure then content_between doc from to else Ok false) (fun cb =>
      if cb then RFail else from_replace doc from to sl)
  | SReplaceAround from to gf gt sl ins structure =>
    lift (if structure then
            do a <- content_between doc from gf;
            if a then Ok true else content_between doc gt to
          else Ok false) (fun cb =>
      if cb then RFail
      else lift (node_slice s doc gf gt) (fun gap =>
        if negb (sl_open_start gap =? 0) || negb (sl_open_end gap =? 0) then RFail
        else lift (insert_at sl ins (sl_content gap)) (fun inserted =>
          match inserted with
          | None => RFail
          | Some sl' => from_replace doc from to sl'
          end)))
  | SAddMark from to m =>
    lift (node_slice s doc from to) (fun old =>
      lift (resolve s doc from) (fun rf =>
        lift (shared_depth s rf to) (fun sd =>
          lift (rp_node rf sd) (fun parent =>
            from_replace doc from to
              (SL (map_fragment (add_mark_f m) parent (sl_content old)) (sl_open_start old) (sl_open_end old))))))
  | SRemoveMark from to m =>
    lift (node_slice s doc from to) (fun old =>
      from_replace doc from to
        (SL (map_fragment (remove_mark_f m) doc (sl_content old)) (sl_open_start old) (sl_open_end old)))
  | SAddNodeMark pos m =>
    node_step doc pos (fun n => type_create (node_ty s n) (node_attrs n) [] (add_to_set s m (node_marks n))) tt
  | SRemoveNodeMark pos m =>
    node_step doc pos (fun n => type_create (node_ty s n) (node_attrs n) [] (remove_from_set m (node_marks n))) tt
  | SAttr pos attr value =>
    node_step doc pos (fun n => type_create (node_ty s n) (set_attr (node_attrs n) attr value) [] (node_marks n)) tt
  | SDocAttr attr value =>
    lift (type_create (node_ty s doc) (set_attr (node_attrs doc) attr value) (node_content doc) (node_marks doc)) ROk
  end.

(* Step.get_map *)
Definition get_map (st : step) : stepmap :=
  match st with
  | SReplace from to sl _ =>
    {| ranges := [(Z.of_nat from, Z.of_nat to - Z.of_nat from, slice_size s sl)]%Z; inverted := false |}
  | SReplaceAround from to gf gt sl ins _ =>
    {| ranges := [(Z.of_nat from, Z.of_nat gf - Z.of_nat from, Z.of_nat ins);
                  (Z.of_nat gt, Z.of_nat to - Z.of_nat gt, slice_size s sl - Z.of_nat ins)]%Z;
       inverted := false |}
  | _ => empty_map
  end.

(* Step.invert(doc) *)
Definition invert_step (st : step) (doc : node) : res step :=
  match st with
  | SReplace from to sl _ =>
    do old <- node_slice s doc from to;
    Ok (SReplace from (Z.to_nat (Z.of_nat from + slice_size s sl)) old false)
  | SReplaceAround from to gf gt sl ins structure =>
    let gap := gt - gf in
    do old <- node_slice s doc from to;
    do rem <- remove_between old (gf - from) (gt - from);
    Ok (SReplaceAround from (Z.to_nat (Z.of_nat from + slice_size s sl + Z.of_nat gap)) (from + ins) (from + ins + gap)
          rem (gf - from) structure)
  | SAddMark from to m => Ok (SRemoveMark from to m)
  | SRemoveMark from to m => Ok (SAddMark from to m)
  | SAddNodeMark pos m =>
    do on <- node_at s (S (nsize doc)) doc pos;
    match on with
    | Some n =>
      let new_set := add_to_set s m (node_marks n) in
      if List.length new_set =? List.length (node_marks n) then
        match find (fun x => negb (is_in_set x new_set)) (node_marks n) with
        | Some x => Ok (SAddNodeMark pos x)
        | None => Ok (SAddNodeMark pos m)
        end
      else Ok (SRemoveNodeMark pos m)
    | None => Ok (SRemoveNodeMark pos m)
    end
  | SRemoveNodeMark pos m =>
    do on <- node_at s (S (nsize doc)) doc pos;
    match on with
    | Some n => if is_in_set m (node_marks n) then Ok (SAddNodeMark pos m) else Ok st
    | None => Ok st
    end
  | SAttr pos attr value =>
    do on <- node_at s (S (nsize doc)) doc pos;
    match on with
    | Some n => match lookup_attr (node_attrs n) attr with
                | Some v => Ok (SAttr pos attr v)
                | None => Err ErrInternal
                end
    | None => Err ErrInternal
    end
  | SDocAttr attr value =>
    match lookup_attr (node_attrs doc) attr with
    | Some v => Ok (SDocAttr attr v)
    | None => Err ErrInternal
    end
  end.

(* Step.map(mapping) over a single step map *)
Definition step_map (st : step) (m : stepmap) : option step :=
  let mr p a := map_result m (Z.of_nat p) a in
  match st with
  | SReplace from to sl structure =>
    let f := mr from 1%Z in let t := mr to (-1)%Z in
    if deleted f && deleted t then None
    else Some (SReplace (Z.to_nat (mr_pos f)) (Z.to_nat (Z.max (mr_pos f) (mr_pos t))) sl false)
  | SReplaceAround from to gf gt sl ins structure =>
    let f := mr from 1%Z in let t := mr to (-1)%Z in
    let gf' := map m (Z.of_nat gf) (-1)%Z in let gt' := map m (Z.of_nat gt) 1%Z in
    if (deleted f && deleted t) || (gf' <? mr_pos f)%Z || (mr_pos t <? gt')%Z then None
    else Some (SReplaceAround (Z.to_nat (mr_pos f)) (Z.to_nat (mr_pos t)) (Z.to_nat gf') (Z.to_nat gt') sl ins structure)
  | SAddMark from to mk =>
    let f := mr from 1%Z in let t := mr to (-1)%Z in
    if (deleted f && deleted t) || (mr_pos t <? mr_pos f)%Z then None
    else Some (SAddMark (Z.to_nat (mr_pos f)) (Z.to_nat (mr_pos t)) mk)
  | SRemoveMark from to mk =>
    let f := mr from 1%Z in let t := mr to (-1)%Z in
    if (deleted f && deleted t) || (mr_pos t <? mr_pos f)%Z then None
    else Some (SRemoveMark (Z.to_nat (mr_pos f)) (Z.to_nat (mr_pos t)) mk)
  | SAddNodeMark pos mk =>
    let p := mr pos 1%Z in if deleted_after p then None else Some (SAddNodeMark (Z.to_nat (mr_pos p)) mk)
  | SRemoveNodeMark pos mk =>
    let p := mr pos 1%Z in if deleted_after p then None else Some (SRemoveNodeMark (Z.to_nat (mr_pos p)) mk)
  | SAttr pos a v =>
    let p := mr pos 1%Z in if deleted_after p then None else Some (SAttr (Z.to_nat (mr_pos p)) a v)
  | SDocAttr a v => Some st
  end.

(* Step.merge(other) *)
Definition merge (a b : step) : option step :=
  match a, b with
  | SReplace f1 t1 s1 st1, SReplace f2 t2 s2 st2 =>
    if st1 || st2 then None
    else if (Z.of_nat f1 + slice_size s s1 =? Z.of_nat f2)%Z && (sl_open_end s1 =? 0) && (sl_open_start s2 =? 0) then
      let sl := if (slice_size s s1 + slice_size s s2 =? 0)%Z then slice_empty
                else SL (frag_append (sl_content s1) (sl_content s2)) (sl_open_start s1) (sl_open_end s2) in
      Some (SReplace f1 (t1 + (t2 - f2)) sl false)
    else if (t2 =? f1) && (sl_open_start s1 =? 0) && (sl_open_end s2 =? 0) then
      let sl := if (slice_size s s1 + slice_size s s2 =? 0)%Z then slice_empty
                else SL (frag_append (sl_content s2) (sl_content s1)) (sl_open_start s2) (sl_open_end s1) in
      Some (SReplace f2 t1 sl false)
    else None
  | SAddMark f1 t1 m1, SAddMark f2 t2 m2 =>
    if mark_eqb m2 m1 && (f1 <=? t2) && (f2 <=? t1) then Some (SAddMark (Nat.min f1 f2) (Nat.max t1 t2) m1) else None
  | SRemoveMark f1 t1 m1, SRemoveMark f2 t2 m2 =>
    if mark_eqb m2 m1 && (f1 <=? t2) && (f2 <=? t1) then Some (SRemoveMark (Nat.min f1 f2) (Nat.max t1 t2) m1) else None
  | _, _ => None
  end.

End WithSchema.
