(* transform.py: the planners of Transform.add_mark and Transform.remove_mark - the steps they hand to Transform.step,
   in order.  Both walk Node.nodes_between(from, to) (Model/Resolve.v) with a callback that never returns False. *)
From Coq Require Import ZArith NArith List Bool Arith Lia.
From PM Require Import Model.Data Model.Mark Model.Tree Model.Resolve Model.Step.
Import ListNotations.

Section WithSchema.
Variable s : schema.
Notation nsize := (node_size s).

Definition node_is_inline (n : node) : bool := is_inline_ty s (node_ty s n).

(* ------------------------------------------------------------------ add_mark
   [removed] and [added] are kept most-recent-first: the variables `removing` / `adding` of the source always point at
   the step appended last, i.e. at the head of these lists *)
Definition am_remove_one (start end_ : nat) (new_set : list mark) (removed : list step) (x : mark) : list step :=
  if is_in_set x new_set then removed
  else match removed with
       | SRemoveMark f t m0 :: rest =>
         if (t =? start) && mark_eqb m0 x then SRemoveMark f end_ m0 :: rest else SRemoveMark start end_ x :: removed
       | _ => SRemoveMark start end_ x :: removed
       end.

Definition am_visit (mk : mark) (from to : nat) (st : list step * list step) (v : visit) : list step * list step :=
  let '(removed, added) := st in
  let node := v_node v in
  if negb (node_is_inline node) then st
  else
    let marks := node_marks node in
    if negb (is_in_set mk marks) &&
       match v_parent v with Some p => allows_mark_type s (node_ty s p) (m_ty mk) | None => false end
    then
      let start := Nat.max (v_pos v) from in
      let end_ := Nat.min (v_pos v + nsize node) to in
      let new_set := add_to_set s mk marks in
      let removed' := fold_left (am_remove_one start end_ new_set) marks removed in
      let added' := match added with
                    | SAddMark f t m0 :: rest =>
                      if t =? start then SAddMark f end_ m0 :: rest else SAddMark start end_ mk :: added
                    | _ => SAddMark start end_ mk :: added
                    end in
      (removed', added')
    else st.

Definition plan_add_mark (doc : node) (from to : nat) (mk : mark) : res (list step) :=
  do vs <- nodes_between_node s (fun _ => true) doc from to 0;
  let '(removed, added) := fold_left (am_visit mk from to) vs ([], []) in
  Ok (rev removed ++ rev added).

(* ------------------------------------------------------------------ remove_mark *)
Inductive rm_sel := RMark (m : mark) | RType (t : nat) | RAll.

Record matched := { mt_style : mark; mt_from : nat; mt_to : nat; mt_step : nat }.

(* the `while True` loop over a MarkType: the first mark of the type, then the first of what is left after removing
   every mark equal to it, ... ; fuel = the number of marks, each round removes at least the found one *)
Fixpoint type_marks_go (fuel : nat) (t : nat) (set : list mark) : list mark :=
  match fuel with
  | 0 => []
  | S k => match type_is_in_set t set with
           | Some found => found :: type_marks_go k t (remove_from_set found set)
           | None => []
           end
  end.

Definition rm_to_remove (sel : rm_sel) (marks : list mark) : list mark :=
  match sel with
  | RType t => type_marks_go (S (List.length marks)) t marks
  | RMark m => if is_in_set m marks then [m] else []
  | RAll => marks
  end.

(* `for m in matched: if m.step == step - 1 and style.eq(m.style): found = m` keeps the LAST match; [ms] is in list
   order, so: rewrite the last matching entry, or report that there is none *)
Fixpoint rm_update_last (ms : list matched) (style : mark) (step end_ : nat) : option (list matched) :=
  match ms with
  | [] => None
  | m :: r =>
    match rm_update_last r style step end_ with
    | Some r' => Some (m :: r')
    | None =>
      if (mt_step m =? step - 1) && mark_eqb style (mt_style m)
      then Some ({| mt_style := mt_style m; mt_from := mt_from m; mt_to := end_; mt_step := step |} :: r)
      else None
    end
  end.

Definition rm_one (from pos end_ step : nat) (ms : list matched) (style : mark) : list matched :=
  match rm_update_last ms style step end_ with
  | Some ms' => ms'
  | None => ms ++ [{| mt_style := style; mt_from := Nat.max pos from; mt_to := end_; mt_step := step |}]
  end.

Definition rm_visit (sel : rm_sel) (from to : nat) (st : list matched * nat) (v : visit) : list matched * nat :=
  let '(ms, step) := st in
  let node := v_node v in
  if negb (node_is_inline node) then st
  else
    let step := S step in
    let end_ := Nat.min (v_pos v + nsize node) to in
    (fold_left (rm_one from (v_pos v) end_ step) (rm_to_remove sel (node_marks node)) ms, step).

Definition plan_remove_mark (doc : node) (from to : nat) (sel : rm_sel) : res (list step) :=
  do vs <- nodes_between_node s (fun _ => true) doc from to 0;
  let '(ms, _) := fold_left (rm_visit sel from to) vs ([], 0) in
  Ok (List.map (fun m => SRemoveMark (mt_from m) (mt_to m) (mt_style m)) ms).

(* Transform.step over the planned steps: the steps that got recorded (it raises at the first one that fails) *)
Fixpoint applied_prefix (doc : node) (sts : list step) : list step :=
  match sts with
  | [] => []
  | st :: r => match apply s st doc with ROk d' => st :: applied_prefix d' r | _ => [] end
  end.

End WithSchema.
