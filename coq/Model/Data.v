(* Core data model shared by all properties: JSON values, attributes, marks,
   nodes, schemas (with their compiled content automata as data). *)
From Coq Require Import ZArith NArith List Bool String Ascii.
Import ListNotations.

(* text is a list of Unicode scalar values (code points); names are ASCII strings *)
Definition cps := list N.

Inductive json :=
| JNull
| JBool (b : bool)
| JInt (z : Z)
| JStr (s : cps)
| JArr (l : list json)
| JObj (l : list (string * json)).

Definition attrs := list (string * json).

Record mark := { m_ty : nat; m_attrs : attrs }.

Inductive node :=
| Text (s : cps) (marks : list mark)
| Elem (ty : nat) (a : attrs) (marks : list mark) (content : list node).

Record attrdecl := { ad_name : string; ad_default : option json }.   (* None = required *)

Record mtype := {
  mt_name : string;
  mt_attrs : list attrdecl;
  mt_excluded : list nat;            (* compiled exclusion set (indices into s_marks) *)
  mt_inclusive_false : bool;         (* spec.get("inclusive") is False *)
  mt_group : list string;
  mt_excludes_spec : option (list string)  (* the spec's "excludes" split on spaces; None = absent *)
}.

Record cstate := { cs_valid : bool; cs_next : list (nat * nat) }.   (* edges: (node type, next state) *)

Record ntype := {
  nt_name : string;
  nt_attrs : list attrdecl;
  nt_start : nat;                    (* content match start state; state 0 is ContentMatch.empty *)
  nt_inline : bool;                  (* not is_block *)
  nt_inline_content : bool;
  nt_markset : option (list nat);    (* None = all marks allowed *)
  nt_groups : list string;
  nt_isolating : bool;
  nt_atom_spec : bool;
  nt_defining_ctx : bool;            (* definingAsContext or defining *)
  nt_defining_content : bool;        (* definingForContent or defining *)
  nt_code : bool;
  nt_marks_spec : option (list string)
}.

Record schema := {
  s_nodes : list ntype;
  s_marks : list mtype;
  s_states : list cstate;
  s_top : nat;
  s_text : nat
}.

Notation MK := Build_mark.
Notation AD := Build_attrdecl.
Notation MT := Build_mtype.
Notation CS := Build_cstate.
Notation NT := Build_ntype.

(* ---------------------------------------------------------------- equality *)
(* Python's == on JSON data: bool is an int (True == 1); dict comparison ignores
   order, but attribute dicts are always built in declaration order by
   compute_attrs, so ordered comparison is exact for them. *)
Definition string_eqb := String.eqb.

Fixpoint cps_eqb (a b : cps) : bool :=
  match a, b with
  | [], [] => true
  | x :: a', y :: b' => N.eqb x y && cps_eqb a' b'
  | _, _ => false
  end.

Fixpoint json_eqb (a b : json) {struct a} : bool :=
  let fix arr (l1 l2 : list json) {struct l1} : bool :=
    match l1, l2 with
    | [], [] => true
    | x :: l1', y :: l2' => json_eqb x y && arr l1' l2'
    | _, _ => false
    end in
  let fix obj (l1 l2 : list (string * json)) {struct l1} : bool :=
    match l1, l2 with
    | [], [] => true
    | (k, x) :: l1', (k', y) :: l2' => string_eqb k k' && json_eqb x y && obj l1' l2'
    | _, _ => false
    end in
  match a, b with
  | JNull, JNull => true
  | JBool x, JBool y => Bool.eqb x y
  | JInt x, JInt y => Z.eqb x y
  | JBool x, JInt y => Z.eqb (if x then 1 else 0) y
  | JInt x, JBool y => Z.eqb x (if y then 1 else 0)
  | JStr x, JStr y => cps_eqb x y
  | JArr x, JArr y => arr x y
  | JObj x, JObj y => obj x y
  | _, _ => false
  end.

Fixpoint attrs_eqb (a b : attrs) : bool :=
  match a, b with
  | [], [] => true
  | (k, x) :: a', (k', y) :: b' => string_eqb k k' && json_eqb x y && attrs_eqb a' b'
  | _, _ => false
  end.

Definition mark_eqb (a b : mark) : bool := Nat.eqb (m_ty a) (m_ty b) && attrs_eqb (m_attrs a) (m_attrs b).

Fixpoint marks_eqb (a b : list mark) : bool :=
  match a, b with
  | [], [] => true
  | x :: a', y :: b' => mark_eqb x y && marks_eqb a' b'
  | _, _ => false
  end.

Fixpoint node_eqb (a b : node) {struct a} : bool :=
  let fix frag (l1 l2 : list node) {struct l1} : bool :=
    match l1, l2 with
    | [], [] => true
    | x :: l1', y :: l2' => node_eqb x y && frag l1' l2'
    | _, _ => false
    end in
  match a, b with
  | Text s m, Text s' m' => cps_eqb s s' && marks_eqb m m'
  | Elem t a m c, Elem t' a' m' c' => Nat.eqb t t' && attrs_eqb a a' && marks_eqb m m' && frag c c'
  | _, _ => false
  end.

Fixpoint frag_eqb (l1 l2 : list node) : bool :=
  match l1, l2 with
  | [], [] => true
  | x :: l1', y :: l2' => node_eqb x y && frag_eqb l1' l2'
  | _, _ => false
  end.

(* ---------------------------------------------------------------- schema lookups *)
Definition dummy_ntype : ntype :=
  {| nt_name := ""; nt_attrs := []; nt_start := 0; nt_inline := false; nt_inline_content := false;
     nt_markset := Some []; nt_groups := []; nt_isolating := false; nt_atom_spec := false;
     nt_defining_ctx := false; nt_defining_content := false; nt_code := false; nt_marks_spec := None |}.
Definition dummy_mtype : mtype :=
  {| mt_name := ""; mt_attrs := []; mt_excluded := []; mt_inclusive_false := false; mt_group := [];
     mt_excludes_spec := None |}.
Definition dummy_state : cstate := {| cs_valid := false; cs_next := [] |}.

Definition ntype_of (s : schema) (t : nat) : ntype := nth t (s_nodes s) dummy_ntype.
Definition mtype_of (s : schema) (t : nat) : mtype := nth t (s_marks s) dummy_mtype.
Definition state_of (s : schema) (q : nat) : cstate := nth q (s_states s) dummy_state.

Definition is_leaf_ty (s : schema) (t : nat) : bool := Nat.eqb (nt_start (ntype_of s t)) 0.
Definition is_text_ty (s : schema) (t : nat) : bool := Nat.eqb t (s_text s).
Definition is_inline_ty (s : schema) (t : nat) : bool := nt_inline (ntype_of s t).
Definition is_block_ty (s : schema) (t : nat) : bool := negb (nt_inline (ntype_of s t)).
Definition is_textblock_ty (s : schema) (t : nat) : bool :=
  is_block_ty s t && nt_inline_content (ntype_of s t).
Definition is_atom_ty (s : schema) (t : nat) : bool := is_leaf_ty s t || nt_atom_spec (ntype_of s t).
Definition has_required_attrs (ads : list attrdecl) : bool :=
  existsb (fun d => match ad_default d with None => true | Some _ => false end) ads.

Definition node_ty (s : schema) (n : node) : nat := match n with Text _ _ => s_text s | Elem t _ _ _ => t end.
Definition node_marks (n : node) : list mark := match n with Text _ m => m | Elem _ _ m _ => m end.
Definition node_content (n : node) : list node := match n with Text _ _ => [] | Elem _ _ _ c => c end.
Definition node_attrs (n : node) : attrs := match n with Text _ _ => [] | Elem _ a _ _ => a end.
Definition node_is_text (n : node) : bool := match n with Text _ _ => true | _ => false end.

(* UTF-16 length of a code point list (utils.text_length) *)
Definition cp_units (c : N) : nat := if N.leb 65536 c then 2 else 1.
Fixpoint text_length (s : cps) : nat :=
  match s with [] => 0 | c :: rest => cp_units c + text_length rest end.

(* node_size / Fragment.size *)
Fixpoint node_size (s : schema) (n : node) : nat :=
  match n with
  | Text t _ => text_length t
  | Elem ty _ _ c =>
    if is_leaf_ty s ty then 1
    else 2 + (fix fs (l : list node) : nat := match l with [] => 0 | x :: r => node_size s x + fs r end) c
  end.
Fixpoint frag_size (s : schema) (l : list node) : nat :=
  match l with [] => 0 | x :: r => node_size s x + frag_size s r end.

Lemma node_size_elem s ty a m c :
  node_size s (Elem ty a m c) = if is_leaf_ty s ty then 1 else 2 + frag_size s c.
Proof.
  simpl. destruct (is_leaf_ty s ty); auto. f_equal. f_equal.
  induction c; simpl; auto.
Qed.
