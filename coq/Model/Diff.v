(* Model of prosemirror/model/diff.py.  [same_obj] is the object-identity fast
   path (child_a == child_b on objects without __eq__); any oracle that only
   answers true on equal nodes is admissible. *)
From Coq Require Import ZArith NArith List Bool Arith.
From PM Require Import Model.Data Model.Mark Model.Tree Spec.Tokens.
Import ListNotations.

Section WithSchema.
Variable s : schema.
Variable same_obj : node -> node -> bool.

Notation nsize := (node_size s).
Notation fsize := (frag_size s).

(* length of the longest common prefix, in UTF-16 units *)
Fixpoint lcp_units (a b : list unit16) : nat :=
  match a, b with
  | x :: a', y :: b' => if unit_eqb x y then S (lcp_units a' b') else 0
  | _, _ => 0
  end.

(* difference inside a pair of same-markup nodes starting at pos; None = none *)
Fixpoint node_diff_start (x y : node) (pos : nat) {struct x} : option nat :=
  match x, y with
  | Text t _, Text t' _ => if cps_eqb t t' then None else Some (pos + lcp_units (units t) (units t'))
  | Elem _ _ _ cx, Elem _ _ _ cy =>
    if (fsize cx =? 0) && (fsize cy =? 0) then None
    else
      (fix go (a b : list node) (pos : nat) {struct a} : option nat :=
         match a, b with
         | [], [] => None
         | [], _ :: _ | _ :: _, [] => Some pos
         | x' :: a', y' :: b' =>
           if same_obj x' y' then go a' b' (pos + nsize x')
           else if negb (same_markup x' y') then Some pos
           else match node_diff_start x' y' pos with
                | Some p => Some p
                | None => go a' b' (pos + nsize x')
                end
         end) cx cy (pos + 1)
  | _, _ => None
  end.

Fixpoint find_diff_start (a b : list node) (pos : nat) : option nat :=
  match a, b with
  | [], [] => None
  | [], _ :: _ | _ :: _, [] => Some pos
  | x :: a', y :: b' =>
    if same_obj x y then find_diff_start a' b' (pos + nsize x)
    else if negb (same_markup x y) then Some pos
    else match node_diff_start x y pos with
         | Some p => Some p
         | None => find_diff_start a' b' (pos + nsize x)
         end
  end.

(* from the end.  To keep the recursion structural the scan runs over the
   mirrored tree (children lists reversed at every level, [rev_node]); text is
   compared from its last unit; positions count down. *)
Fixpoint rev_node (n : node) : node :=
  match n with
  | Text t m => Text t m
  | Elem ty a m cs =>
    Elem ty a m ((fix go (l : list node) : list node := match l with [] => [] | c :: r => go r ++ [rev_node c] end) cs)
  end.
Fixpoint rev_frag (l : list node) : list node :=
  match l with [] => [] | c :: r => rev_frag r ++ [rev_node c] end.

Fixpoint node_diff_end (x y : node) (pa pb : nat) {struct x} : option (nat * nat) :=
  match x, y with
  | Text t _, Text t' _ =>
    if cps_eqb t t' then None
    else let k := lcp_units (rev (units t)) (rev (units t')) in Some (pa - k, pb - k)
  | Elem _ _ _ cx, Elem _ _ _ cy =>
    if (fsize cx =? 0) && (fsize cy =? 0) then None
    else
      (fix go (a b : list node) (pa pb : nat) {struct a} : option (nat * nat) :=
         match a, b with
         | [], [] => None
         | [], _ :: _ | _ :: _, [] => Some (pa, pb)
         | x' :: a', y' :: b' =>
           if same_obj (rev_node x') (rev_node y') then go a' b' (pa - nsize x') (pb - nsize x')
           else if negb (same_markup x' y') then Some (pa, pb)
           else match node_diff_end x' y' pa pb with
                | Some r => Some r
                | None => go a' b' (pa - nsize x') (pb - nsize x')
                end
         end) cx cy (pa - 1) (pb - 1)
  | _, _ => None
  end.

Fixpoint diff_end_go (a b : list node) (pa pb : nat) : option (nat * nat) :=
  match a, b with
  | [], [] => None
  | [], _ :: _ | _ :: _, [] => Some (pa, pb)
  | x :: a', y :: b' =>
    if same_obj (rev_node x) (rev_node y) then diff_end_go a' b' (pa - nsize x) (pb - nsize x)
    else if negb (same_markup x y) then Some (pa, pb)
    else match node_diff_end x y pa pb with
         | Some r => Some r
         | None => diff_end_go a' b' (pa - nsize x) (pb - nsize x)
         end
  end.
Definition find_diff_end (a b : list node) (pa pb : nat) : option (nat * nat) :=
  diff_end_go (rev_frag a) (rev_frag b) pa pb.

End WithSchema.
