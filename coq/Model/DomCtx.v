(* Model of ParseContext.matches_context (from_dom.py) for a closed parse (not "open", no context
   option): the open node stack is the list of node types from the root to the current node. *)
From Coq Require Import ZArith List Bool Arith String.
From PM Require Import Model.Data.
Import ListNotations.
Local Open Scope string_scope.
Local Open Scope nat_scope.

Section WithSchema.
Variable s : schema.

Definition type_matches (t : nat) (part : string) : bool :=
  String.eqb (nt_name (ntype_of s t)) part || existsb (String.eqb part) (nt_groups (ntype_of s t)).

(* parts of one alternative, e.g. "blockquote/paragraph/" -> ["blockquote"; "paragraph"; ""];
   [rparts] is that list reversed (the scan runs from the last part to the first);
   depth is an index into the stack, None = below the root *)
Fixpoint mc (stack : list nat) (rparts : list string) (is_last : bool) (depth : option nat) {struct rparts} : bool :=
  match rparts with
  | [] => true
  | part :: rest =>
    if String.eqb part "" then
      match rest with
      | [] => true                                   (* i == 0: skipped, nothing left *)
      | _ =>
        if is_last then mc stack rest false depth    (* trailing "/" : skipped *)
        else
          (* "//": any number of levels may be skipped *)
          match depth with
          | None => false
          | Some d => existsb (fun k => mc stack rest false (Some (d - k))) (seq 0 (S d))
          end
      end
    else
      match depth with
      | None => false
      | Some d =>
        match nth_error stack d with
        | None => false
        | Some t =>
          if type_matches t part then mc stack rest false (match d with 0 => None | S d' => Some d' end)
          else false
        end
      end
  end.

Definition matches_context_alt (stack : list nat) (parts : list string) : bool :=
  mc stack (rev parts) true (Some (List.length stack - 1)).

(* alternatives separated by "|" *)
Definition matches_context (stack : list nat) (alts : list (list string)) : bool :=
  existsb (matches_context_alt stack) alts.

End WithSchema.
