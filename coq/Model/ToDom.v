(* to_dom.py: DOMSerializer.serialize_fragment / serialize_node_inner - how marks become nested wrapper elements.
   Rendering of a single node or mark (render_spec on the schema's toDOM output) is abstracted: a node is rendered with a
   content hole ([DElem], children = its serialised content) or without one ([DLeafN] / [DText]); a mark whose type has a
   renderer becomes a wrapper [DMark] around the nodes that carry it. *)
From Coq Require Import List Bool Arith.
From PM Require Import Model.Data Model.Mark.
Import ListNotations.

Inductive dom :=
| DText (t : cps)
| DLeafN (ty : nat) (a : attrs)
| DElem (ty : nat) (a : attrs) (kids : list dom)
| DMark (m : mark) (kids : list dom).

Section WithSchema.
Variable s : schema.
Variable rendered : mark -> bool.      (* the serializer has a renderer for the mark's type *)
Variable spanning : mark -> bool.      (* the mark type's spec does not say spanning: False *)

(* the open wrappers, innermost first: (mark, children appended so far); [done]: children of the target so far *)
Definition frame := (mark * list dom)%type.
Definition sstate := (list frame * list dom)%type.

Definition add_child (d : dom) (st : sstate) : sstate :=
  match st with
  | ([], done) => ([], done ++ [d])
  | ((m, kids) :: r, done) => ((m, kids ++ [d]) :: r, done)
  end.

Definition pop (st : sstate) : sstate :=
  match st with
  | ((m, kids) :: r, done) => add_child (DMark m kids) (r, done)
  | ([], done) => ([], done)
  end.

Fixpoint pop_n (n : nat) (st : sstate) : sstate :=
  match n with 0 => st | S k => pop_n k (pop st) end.

(* the `while keep < len(active) and rendered < len(node.marks)` loop: [active] outermost first; returns how many active
   wrappers are kept and which of the node's marks are still to be opened *)
Fixpoint match_keep (active : list mark) (marks : list mark) {struct marks} : nat * list mark :=
  match marks with
  | [] => (0, [])
  | m :: mr =>
    match active with
    | [] => (0, marks)
    | a :: ar =>
      if negb (rendered m) then match_keep active mr
      else if negb (mark_eqb m a) || negb (spanning m) then (0, marks)
      else let '(k, rest) := match_keep ar mr in (S k, rest)
    end
  end.

Definition open_marks (ms : list mark) (st : sstate) : sstate :=
  fold_left (fun st m => if rendered m then ((m, []) :: fst st, snd st) else st) ms st.

Definition has_hole (n : node) : bool :=
  match n with Text _ _ => false | Elem ty _ _ _ => negb (is_leaf_ty s ty) end.

Fixpoint ser_node (n : node) : dom :=
  match n with
  | Text t _ => DText t
  | Elem ty a _ cs =>
    if is_leaf_ty s ty then DLeafN ty a
    else DElem ty a
           (let st := (fix go (l : list node) (st : sstate) : sstate :=
                         match l with
                         | [] => st
                         | c :: r =>
                           let active := rev (List.map fst (fst st)) in
                           let '(keep, rest) := match_keep active (node_marks c) in
                           let st1 := pop_n (length active - keep) st in
                           let st2 := open_marks rest st1 in
                           go r (add_child (ser_node c) st2)
                         end) cs ([], []) in
            snd (pop_n (length (fst st)) st))
  end.

Definition ser_step (st : sstate) (c : node) : sstate :=
  let active := rev (List.map fst (fst st)) in
  let '(keep, rest) := match_keep active (node_marks c) in
  let st1 := pop_n (length active - keep) st in
  let st2 := open_marks rest st1 in
  add_child (ser_node c) st2.

Definition close_all (st : sstate) : list dom := snd (pop_n (length (fst st)) st).

Definition ser_fragment (l : list node) : list dom := close_all (fold_left ser_step l ([], [])).

End WithSchema.
