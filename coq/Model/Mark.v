(* Model of prosemirror/model/mark.py and the mark part of schema.py
   (MarkType.excludes/remove_from_set/is_in_set, NodeType.allows_mark_type,
   allows_marks, allowed_marks, gather_marks, exclusion compilation). *)
From Coq Require Import ZArith NArith List Bool String.
From PM Require Import Model.Data.
Import ListNotations.

Section WithSchema.
Variable s : schema.

(* MarkType.excludes: name comparison against the compiled exclusion list *)
Definition excludes (a b : nat) : bool := existsb (Nat.eqb b) (mt_excluded (mtype_of s a)).

(* Mark.add_to_set, single pass with the `copy` / `placed` locals made explicit.
   copy = None models "no copy made yet" *)
Fixpoint add_go (m : mark) (rest : list mark) (pre : list mark) (copy : option (list mark)) (placed : bool)
  (orig : list mark) : list mark :=
  match rest with
  | [] =>
    let c := match copy with Some c => c | None => orig end in
    if placed then c else c ++ [m]
  | other :: rest' =>
    if mark_eqb m other then orig
    else if excludes (m_ty m) (m_ty other) then
      add_go m rest' (pre ++ [other]) (Some (match copy with Some c => c | None => pre end)) placed orig
    else if excludes (m_ty other) (m_ty m) then orig
    else
      if negb placed && Nat.ltb (m_ty m) (m_ty other) then
        let c := match copy with Some c => c | None => pre end in
        add_go m rest' (pre ++ [other]) (Some (c ++ [m] ++ [other])) true orig
      else
        add_go m rest' (pre ++ [other])
          (match copy with Some c => Some (c ++ [other]) | None => None end) placed orig
  end.

Definition add_to_set (m : mark) (set : list mark) : list mark := add_go m set [] None false set.

Definition remove_from_set (m : mark) (set : list mark) : list mark :=
  filter (fun item => negb (mark_eqb item m)) set.

Definition is_in_set (m : mark) (set : list mark) : bool := existsb (fun item => mark_eqb item m) set.

Definition same_set (a b : list mark) : bool := marks_eqb a b.

(* Mark.set_from on a list: stable sort by rank (= type index) *)
Fixpoint insert_sorted (m : mark) (l : list mark) : list mark :=
  match l with
  | [] => [m]
  | x :: r => if Nat.ltb (m_ty m) (m_ty x) then m :: l else x :: insert_sorted m r
  end.
Definition set_from (ms : list mark) : list mark := fold_left (fun acc m => insert_sorted m acc) ms [].

(* MarkType.remove_from_set / is_in_set *)
Definition type_remove_from_set (t : nat) (set : list mark) : list mark :=
  filter (fun item => negb (Nat.eqb (m_ty item) t)) set.
Definition type_is_in_set (t : nat) (set : list mark) : option mark :=
  find (fun item => Nat.eqb (m_ty item) t) set.

(* NodeType.allows_mark_type / allows_marks / allowed_marks *)
Definition allows_mark_type (nt : nat) (mt : nat) : bool :=
  match nt_markset (ntype_of s nt) with
  | None => true
  | Some l => existsb (Nat.eqb mt) l
  end.
Definition allows_marks (nt : nat) (ms : list mark) : bool :=
  match nt_markset (ntype_of s nt) with
  | None => true
  | Some _ => forallb (fun m => allows_mark_type nt (m_ty m)) ms
  end.

Fixpoint allowed_go (nt : nat) (rest pre : list mark) (copy : option (list mark)) : option (list mark) :=
  match rest with
  | [] => copy
  | m :: rest' =>
    if negb (allows_mark_type nt (m_ty m)) then
      allowed_go nt rest' (pre ++ [m]) (Some (match copy with Some c => c | None => pre end))
    else allowed_go nt rest' (pre ++ [m]) (match copy with Some c => Some (c ++ [m]) | None => None end)
  end.
Definition allowed_marks (nt : nat) (ms : list mark) : list mark :=
  match nt_markset (ntype_of s nt) with
  | None => ms
  | Some _ => match allowed_go nt ms [] None with None => ms | Some c => c end
  end.

(* the test Node.check applies to a mark list: re-adding every mark gives the same list *)
Definition readd (ms : list mark) : list mark := fold_left (fun acc m => add_to_set m acc) ms [].
Definition marks_canonical (ms : list mark) : bool := same_set (readd ms) ms.

End WithSchema.

(* ---------------------------------------------------------------- compilation *)
(* gather_marks(schema, names): names resolve to a mark of that name, else to
   every mark when the name is "_" or names one of the mark's groups;
   None = SyntaxError (a name matched nothing) *)
Fixpoint find_index_by {A} (f : A -> bool) (l : list A) (i : nat) : option nat :=
  match l with [] => None | x :: r => if f x then Some i else find_index_by f r (S i) end.

Fixpoint indices_where {A} (f : A -> bool) (l : list A) (i : nat) : list nat :=
  match l with [] => [] | x :: r => if f x then i :: indices_where f r (S i) else indices_where f r (S i) end.

Definition gather_one (ms : list mtype) (name : string) : option (list nat) :=
  match find_index_by (fun m => String.eqb (mt_name m) name) ms 0 with
  | Some i => Some [i]
  | None =>
    let l := indices_where (fun m => String.eqb name "_" || existsb (String.eqb name) (mt_group m)) ms 0 in
    match l with [] => None | _ => Some l end
  end.

Fixpoint gather_marks (ms : list mtype) (names : list string) : option (list nat) :=
  match names with
  | [] => Some []
  | n :: rest =>
    match gather_one ms n, gather_marks ms rest with
    | Some a, Some b => Some (a ++ b)
    | _, _ => None
    end
  end.

(* MarkType.excluded as compiled by Schema.__init__ *)
Definition compile_excluded (ms : list mtype) (i : nat) (m : mtype) : option (list nat) :=
  match mt_excludes_spec m with
  | None => Some [i]
  | Some [] => Some []
  | Some names => gather_marks ms names
  end.

(* NodeType.mark_set as compiled by Schema.__init__; outer None = SyntaxError *)
Definition compile_markset (ms : list mtype) (nt : ntype) : option (option (list nat)) :=
  match nt_marks_spec nt with
  | Some ["_"%string] => Some None
  | Some [] => Some (Some [])
  | Some names => match gather_marks ms names with Some l => Some (Some l) | None => None end
  | None => if nt_inline_content nt then Some None else Some (Some [])
  end.
