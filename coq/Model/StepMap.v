(* Executable model of prosemirror/transform/map.py (StepMap, MapResult, Mapping).
   Function-for-function; loops become structural recursion over the range list
   (StepMap) or recursion on explicit fuel (Mapping._map, whose index jumps). *)
From Coq Require Import ZArith List Bool Lia.
Import ListNotations.
Open Scope Z_scope.

(* ranges are kept as triples (start, old_size, new_size); the implementation's
   flat list [s0,a0,b0,s1,a1,b1,...] is the concatenation (see [flat]) *)
Definition range := (Z * Z * Z)%type.
Record stepmap := { ranges : list range; inverted : bool }.

Definition flat (rs : list range) : list Z :=
  flat_map (fun r => match r with (s, a, b) => [s; a; b] end) rs.

Definition lower16 : Z := 65535.
Definition factor16 : Z := 65536.

Definition make_recover (index : Z) (offset : Z) : Z := index + offset * factor16.
Definition recover_index (v : Z) : Z := Z.land v lower16.
Definition recover_offset (v : Z) : Z := (v - Z.land v lower16) / factor16.

Definition DEL_BEFORE : Z := 1.
Definition DEL_AFTER : Z := 2.
Definition DEL_ACROSS : Z := 4.
Definition DEL_SIDE : Z := 8.

Record mapresult := { mr_pos : Z; mr_del : Z; mr_recover : option Z }.

Definition deleted (r : mapresult) : bool := 0 <? Z.land (mr_del r) DEL_SIDE.
Definition deleted_before (r : mapresult) : bool := 0 <? Z.land (mr_del r) (Z.lor DEL_BEFORE DEL_ACROSS).
Definition deleted_after (r : mapresult) : bool := 0 <? Z.land (mr_del r) (Z.lor DEL_AFTER DEL_ACROSS).
Definition deleted_across (r : mapresult) : bool := 0 <? Z.land (mr_del r) DEL_ACROSS.

Definition old_of (inv : bool) (r : range) : Z := match r with (_, a, b) => if inv then b else a end.
Definition new_of (inv : bool) (r : range) : Z := match r with (_, a, b) => if inv then a else b end.
Definition start_of (r : range) : Z := match r with (s, _, _) => s end.

(* StepMap._map, the loop body; [i] is the range index (i/3 in the code) *)
Fixpoint map_go (inv : bool) (rs : list range) (i : Z) (diff pos assoc : Z) : mapresult :=
  match rs with
  | [] => {| mr_pos := pos + diff; mr_del := 0; mr_recover := None |}
  | r :: rest =>
    let start := start_of r - (if inv then diff else 0) in
    if start >? pos then {| mr_pos := pos + diff; mr_del := 0; mr_recover := None |}
    else
      let old_size := old_of inv r in
      let new_size := new_of inv r in
      let end_ := start + old_size in
      if pos <=? end_ then
        let side := if old_size =? 0 then assoc
                    else if pos =? start then -1
                    else if pos =? end_ then 1 else assoc in
        let result := start + diff + (if side <? 0 then 0 else new_size) in
        let recover := if pos =? (if assoc <? 0 then start else end_) then None
                       else Some (make_recover i (pos - start)) in
        let del0 := if pos =? start then DEL_AFTER
                    else if pos =? end_ then DEL_BEFORE else DEL_ACROSS in
        let del := if (if assoc <? 0 then negb (pos =? start) else negb (pos =? end_))
                   then Z.lor del0 DEL_SIDE else del0 in
        {| mr_pos := result; mr_del := del; mr_recover := recover |}
      else map_go inv rest (i + 1) (diff + (new_size - old_size)) pos assoc
  end.

Definition map_result (m : stepmap) (pos assoc : Z) : mapresult :=
  map_go (inverted m) (ranges m) 0 0 pos assoc.
Definition map (m : stepmap) (pos assoc : Z) : Z := mr_pos (map_result m pos assoc).

(* StepMap.recover; [None] models the IndexError of an out-of-range index *)
Fixpoint sum_diff (rs : list range) (n : nat) : Z :=
  match n, rs with
  | S n', (_, a, b) :: rest => (b - a) + sum_diff rest n'
  | _, _ => 0
  end.

Definition recover (m : stepmap) (value : Z) : option Z :=
  let index := recover_index value in
  let diff := if inverted m then 0 else sum_diff (ranges m) (Z.to_nat index) in
  match nth_error (ranges m) (Z.to_nat index) with
  | Some r => Some (start_of r + diff + recover_offset value)
  | None => None
  end.

(* StepMap.touches (as repaired: loop over range(0, len, 3)) *)
Fixpoint touches_go (inv : bool) (rs : list range) (i : Z) (diff pos index : Z) : bool :=
  match rs with
  | [] => false
  | r :: rest =>
    let start := start_of r - (if inv then diff else 0) in
    if start >? pos then false
    else
      let old_size := old_of inv r in
      let end_ := start + old_size in
      if (pos <=? end_) && (i =? index) then true
      else touches_go inv rest (i + 1) (diff + (new_of inv r - old_size)) pos index
  end.
Definition touches (m : stepmap) (pos rec : Z) : bool :=
  touches_go (inverted m) (ranges m) 0 0 pos (recover_index rec).

(* StepMap.for_each: the list of (old_start, old_end, new_start, new_end) reported *)
Fixpoint for_each_go (inv : bool) (rs : list range) (diff : Z) : list (Z * Z * Z * Z) :=
  match rs with
  | [] => []
  | r :: rest =>
    let start := start_of r in
    let old_start := start - (if inv then diff else 0) in
    let new_start := start + (if inv then 0 else diff) in
    let old_size := old_of inv r in
    let new_size := new_of inv r in
    (old_start, old_start + old_size, new_start, new_start + new_size)
      :: for_each_go inv rest (diff + (new_size - old_size))
  end.
Definition for_each (m : stepmap) := for_each_go (inverted m) (ranges m) 0.

Definition invert (m : stepmap) : stepmap := {| ranges := ranges m; inverted := negb (inverted m) |}.

Definition empty_map : stepmap := {| ranges := []; inverted := false |}.

(* ---------------------------------------------------------------- Mapping *)

(* mirror: the flat list [n0,m0,n1,m1,...] kept as pairs; [None] = no list yet
   (Python: None or []). from/to are the active window. *)
Record mapping := { maps : list stepmap; mirror : list (Z * Z); mfrom : Z; mto : Z }.

Definition mk_mapping (ms : list stepmap) : mapping :=
  {| maps := ms; mirror := []; mfrom := 0; mto := Z.of_nat (length ms) |}.

Fixpoint get_mirror_go (l : list (Z * Z)) (n : Z) : option Z :=
  match l with
  | [] => None
  | (a, b) :: rest => if a =? n then Some b else if b =? n then Some a else get_mirror_go rest n
  end.
Definition get_mirror (mp : mapping) (n : Z) : option Z := get_mirror_go (mirror mp) n.

Definition set_mirror (mp : mapping) (n m : Z) : mapping :=
  {| maps := maps mp; mirror := mirror mp ++ [(n, m)]; mfrom := mfrom mp; mto := mto mp |}.

Definition append_map (mp : mapping) (m : stepmap) (mirrors : option Z) : mapping :=
  let mp1 := {| maps := maps mp ++ [m]; mirror := mirror mp; mfrom := mfrom mp;
                mto := Z.of_nat (length (maps mp)) + 1 |} in
  match mirrors with
  | Some k => set_mirror mp1 (Z.of_nat (length (maps mp))) k
  | None => mp1
  end.

Definition mslice (mp : mapping) (from to : Z) : mapping :=
  {| maps := maps mp; mirror := mirror mp; mfrom := from; mto := to |}.

(* Mapping.append_mapping (as repaired: mirror looked up and map read at the same index) *)
Fixpoint append_mapping_go (self : mapping) (other : mapping) (rest : list stepmap) (i : Z) (start_size : Z) : mapping :=
  match rest with
  | [] => self
  | m :: rest' =>
    let mirr := get_mirror other i in
    let mi := match mirr with
              | Some k => if k <? i then Some (start_size + k) else None
              | None => None end in
    append_mapping_go (append_map self m mi) other rest' (i + 1) start_size
  end.
Definition append_mapping (self other : mapping) : mapping :=
  append_mapping_go self other (maps other) 0 (Z.of_nat (length (maps self))).

(* Mapping.append_mapping_inverted: i runs from len-1 down to 0 *)
Fixpoint append_mapping_inverted_go (self other : mapping) (revrest : list stepmap) (i : Z) (total : Z) : mapping :=
  match revrest with
  | [] => self
  | m :: rest' =>
    let mirr := get_mirror other i in
    let mi := match mirr with
              | Some k => if k >? i then Some (total - k - 1) else None
              | None => None end in
    append_mapping_inverted_go (append_map self (invert m) mi) other rest' (i - 1) total
  end.
Definition append_mapping_inverted (self other : mapping) : mapping :=
  append_mapping_inverted_go self other (rev (maps other))
    (Z.of_nat (length (maps other)) - 1)
    (Z.of_nat (length (maps self)) + Z.of_nat (length (maps other))).

Definition minvert (mp : mapping) : mapping := append_mapping_inverted (mk_mapping []) mp.

Definition nthZ {A} (l : list A) (i : Z) : option A :=
  if i <? 0 then None else nth_error l (Z.to_nat i).

(* Mapping._map.  Fuel bounds the number of loop iterations; i strictly
   increases so [Z.to_nat (to - from)] always suffices.  [None] = IndexError
   (window outside the map list) or out of fuel. *)
Fixpoint mapping_go (fuel : nat) (mp : mapping) (i : Z) (pos assoc : Z) (del : Z) : option (Z * Z) :=
  if i <? mto mp then
    match fuel with
    | O => None
    | S fuel' =>
      match nthZ (maps mp) i with
      | None => None
      | Some m =>
        let result := map_result m pos assoc in
        let jump :=
          match mr_recover result with
          | Some rv =>
            match get_mirror mp i with
            | Some corr => if (corr >? i) && (corr <? mto mp) then Some (corr, rv) else None
            | None => None
            end
          | None => None
          end in
        match jump with
        | Some (corr, rv) =>
          match nthZ (maps mp) corr with
          | None => None
          | Some mc =>
            match recover mc rv with
            | None => None
            | Some p => mapping_go fuel' mp (corr + 1) p assoc del
            end
          end
        | None => mapping_go fuel' mp (i + 1) (mr_pos result) assoc (Z.lor del (mr_del result))
        end
      end
    end
  else Some (pos, del).

Definition mapping_map_result (mp : mapping) (pos assoc : Z) : option mapresult :=
  match mapping_go (Z.to_nat (mto mp - mfrom mp)) mp (mfrom mp) pos assoc 0 with
  | Some (p, d) => Some {| mr_pos := p; mr_del := d; mr_recover := None |}
  | None => None
  end.

(* Mapping.map: without mirrors a plain left-to-right fold over the window *)
Fixpoint fold_maps (ms : list stepmap) (pos assoc : Z) : Z :=
  match ms with
  | [] => pos
  | m :: rest => fold_maps rest (map m pos assoc) assoc
  end.

Definition window {A} (l : list A) (from to : Z) : option (list A) :=
  if (from <? 0) || (Z.of_nat (length l) <? to) then
    (if from <? to then None else Some [])
  else Some (firstn (Z.to_nat (to - from)) (skipn (Z.to_nat from) l)).

Definition mapping_map (mp : mapping) (pos assoc : Z) : option Z :=
  match mirror mp with
  | [] => match window (maps mp) (mfrom mp) (mto mp) with
          | Some w => Some (fold_maps w pos assoc)
          | None => None
          end
  | _ => match mapping_map_result mp pos assoc with
         | Some r => Some (mr_pos r)
         | None => None
         end
  end.
