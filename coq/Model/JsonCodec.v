(* Model of to_json / from_json for marks, nodes, fragments, slices and the eight
   step types, over the [json] value type.  json.dumps/json.loads themselves are
   not modelled (trusted to be the identity on this data; exercised for real on
   the implementation side of every C05 case). *)
From Coq Require Import ZArith NArith List Bool Arith String Ascii.
From PM Require Import Model.Data Model.Mark Model.Tree Model.Step.
Import ListNotations.
Local Open Scope string_scope.
Local Open Scope nat_scope.

Definition name_cps (s : string) : cps := List.map (fun a => N_of_ascii a) (list_ascii_of_string s).
Definition jstr (s : string) : json := JStr (name_cps s).

Fixpoint jget (l : list (string * json)) (k : string) : option json :=
  match l with [] => None | (k', v) :: r => if String.eqb k' k then Some v else jget r k end.

(* Python truthiness of a JSON value *)
Definition truthy (j : json) : bool :=
  match j with
  | JNull => false | JBool b => b | JInt z => negb (Z.eqb z 0)
  | JStr s => match s with [] => false | _ => true end
  | JArr l => match l with [] => false | _ => true end
  | JObj l => match l with [] => false | _ => true end
  end.

Section WithSchema.
Variable s : schema.

(* ---------------------------------------------------------------- encoding *)
Definition mark_to_json (m : mark) : json :=
  JObj [("type"%string, jstr (mt_name (mtype_of s (m_ty m)))); ("attrs"%string, JObj (m_attrs m))].

Fixpoint node_to_json (n : node) : json :=
  match n with
  | Text t ms =>
    JObj ([("type"%string, jstr "text")] ++
          (match ms with [] => [] | _ => [("marks"%string, JArr (List.map mark_to_json ms))] end) ++
          [("text"%string, JStr t)])
  | Elem ty a ms cs =>
    JObj ([("type"%string, jstr (nt_name (ntype_of s ty)))] ++
          (match a with [] => [] | _ => [("attrs"%string, JObj a)] end) ++
          (if frag_size s cs =? 0 then []
           else [("content"%string, JArr ((fix go (l : list node) : list json :=
                                             match l with [] => [] | c :: r => node_to_json c :: go r end) cs))]) ++
          (match ms with [] => [] | _ => [("marks"%string, JArr (List.map mark_to_json ms))] end))
  end.

Definition frag_to_json (l : list node) : json :=
  match l with [] => JNull | _ => JArr (List.map node_to_json l) end.

(* Slice.to_json: None for an empty-content slice *)
Definition slice_to_json (sl : slice) : json :=
  if frag_size s (sl_content sl) =? 0 then JNull
  else JObj ([("content"%string, frag_to_json (sl_content sl))] ++
             (if 0 <? sl_open_start sl then [("openStart"%string, JInt (Z.of_nat (sl_open_start sl)))] else []) ++
             (if 0 <? sl_open_end sl then [("openEnd"%string, JInt (Z.of_nat (sl_open_end sl)))] else [])).

Definition jnat (n : nat) : json := JInt (Z.of_nat n).

Definition step_to_json (st : step) : json :=
  match st with
  | SReplace f t sl structure =>
    JObj ([("stepType"%string, jstr "replace"); ("from"%string, jnat f); ("to"%string, jnat t)] ++
          (if frag_size s (sl_content sl) =? 0 then [] else [("slice"%string, slice_to_json sl)]) ++
          (if structure then [("structure"%string, JBool true)] else []))
  | SReplaceAround f t gf gt sl ins structure =>
    JObj ([("stepType"%string, jstr "replaceAround"); ("from"%string, jnat f); ("to"%string, jnat t);
           ("gapFrom"%string, jnat gf); ("gapTo"%string, jnat gt); ("insert"%string, jnat ins)] ++
          (if frag_size s (sl_content sl) =? 0 then [] else [("slice"%string, slice_to_json sl)]) ++
          (if structure then [("structure"%string, JBool true)] else []))
  | SAddMark f t m =>
    JObj [("stepType"%string, jstr "addMark"); ("mark"%string, mark_to_json m); ("from"%string, jnat f); ("to"%string, jnat t)]
  | SRemoveMark f t m =>
    JObj [("stepType"%string, jstr "removeMark"); ("mark"%string, mark_to_json m); ("from"%string, jnat f); ("to"%string, jnat t)]
  | SAddNodeMark p m =>
    JObj [("stepType"%string, jstr "addNodeMark"); ("pos"%string, jnat p); ("mark"%string, mark_to_json m)]
  | SRemoveNodeMark p m =>
    JObj [("stepType"%string, jstr "removeNodeMark"); ("pos"%string, jnat p); ("mark"%string, mark_to_json m)]
  | SAttr p a v =>
    JObj [("stepType"%string, jstr "attr"); ("pos"%string, jnat p); ("attr"%string, jstr a); ("value"%string, v)]
  | SDocAttr a v =>
    JObj [("stepType"%string, jstr "docAttr"); ("attr"%string, jstr a); ("value"%string, v)]
  end.

(* ---------------------------------------------------------------- decoding *)
Fixpoint find_name {A} (name_of : A -> string) (l : list A) (k : cps) (i : nat) : option nat :=
  match l with
  | [] => None
  | x :: r => if cps_eqb (name_cps (name_of x)) k then Some i else find_name name_of r k (S i)
  end.

(* compute_attrs with the "attrs is None and defaults exist" shortcut of NodeType.compute_attrs;
   for a JSON value: None/absent, or an object *)
Definition attrs_of_json (decls : list attrdecl) (j : option json) : res attrs :=
  match j with
  | None | Some JNull => compute_attrs decls []
  | Some (JObj l) => compute_attrs decls l
  | Some (JArr []) | Some (JStr []) | Some (JBool false) => compute_attrs decls []   (* falsy: `if value:` skips it *)
  | Some (JInt z) => if Z.eqb z 0 then compute_attrs decls [] else Err ErrInternal
  | Some _ => Err ErrInternal       (* .get on a non-dict *)
  end.

Definition mark_from_json (j : json) : res mark :=
  match j with
  | JObj l =>
    match l with
    | [] => Err ErrValue
    | _ =>
      match jget l "type" with
      | Some (JStr nm) =>
        match find_name mt_name (s_marks s) nm 0 with
        | Some t => do a <- attrs_of_json (mt_attrs (mtype_of s t)) (jget l "attrs"); Ok (MK t a)
        | None => Err ErrValue
        end
      | Some _ => Err ErrValue
      | None => Err ErrInternal
      end
    end
  | _ => if truthy j then Err ErrInternal else Err ErrValue
  end.

Fixpoint res_map {A B} (f : A -> res B) (l : list A) : res (list B) :=
  match l with
  | [] => Ok []
  | x :: r => do y <- f x; do ys <- res_map f r; Ok (y :: ys)
  end.

Definition marks_from_json (j : option json) : res (list mark) :=
  match j with
  | None => Ok []
  | Some v =>
    if truthy v then
      match v with JArr l => res_map mark_from_json l | _ => Err ErrValue end
    else Ok []
  end.

Fixpoint node_from_json_fuel (fuel : nat) (j : json) {struct fuel} : res node :=
  match fuel with 0 => Err ErrInternal | S fuel' =>
  match j with
  | JObj l =>
    match l with
    | [] => Err ErrValue
    | _ =>
      do ms <- marks_from_json (jget l "marks");
      match jget l "type" with
      | None => Err ErrInternal
      | Some (JStr nm) =>
        if cps_eqb nm (name_cps "text") then
          match jget l "text" with
          | Some (JStr t) => match t with [] => Err ErrValue | _ => Ok (Text t (set_from ms)) end
          | Some _ => Err ErrInternal
          | None => Err ErrInternal
          end
        else
          do content <-
            (match jget l "content" with
             | None => Ok []
             | Some v =>
               if truthy v then
                 match v with
                 | JArr items =>
                   (fix go (items : list json) : res (list node) :=
                      match items with
                      | [] => Ok []
                      | x :: r => do n <- node_from_json_fuel fuel' x; do ns <- go r; Ok (n :: ns)
                      end) items
                 | JStr _ => Err ErrInternal
                 | _ => Err ErrValue
                 end
               else Ok []
             end);
          match find_name nt_name (s_nodes s) nm 0 with
          | None => Err ErrValue
          | Some ty =>
            do a <- attrs_of_json (nt_attrs (ntype_of s ty)) (jget l "attrs");
            Ok (Elem ty a (set_from ms) content)
          end
      | Some _ => Err ErrValue
      end
    end
  | _ => if truthy j then Err ErrInternal else Err ErrValue
  end end.

(* nesting depth of a JSON value: enough fuel for the decoder *)
Fixpoint jdepth (j : json) : nat :=
  match j with
  | JArr l => S ((fix go (l : list json) : nat := match l with [] => 0 | x :: r => Nat.max (jdepth x) (go r) end) l)
  | JObj l => S ((fix go (l : list (string * json)) : nat := match l with [] => 0 | (_, x) :: r => Nat.max (jdepth x) (go r) end) l)
  | _ => 1
  end.
Definition node_from_json (j : json) : res node := node_from_json_fuel (S (jdepth j)) j.

Definition frag_from_json (j : option json) : res (list node) :=
  match j with
  | None => Ok []
  | Some v =>
    if truthy v then
      match v with
      | JArr items => res_map node_from_json items
      | JStr _ => Err ErrInternal
      | _ => Err ErrValue
      end
    else Ok []
  end.

Definition json_nat (j : option json) : res nat :=
  match j with
  | Some (JInt z) => if (z <? 0)%Z then Err ErrInternal else Ok (Z.to_nat z)
  | Some (JBool b) => Ok (if b then 1 else 0)      (* bool is an int in Python *)
  | Some _ => Err ErrValue
  | None => Err ErrInternal                         (* KeyError *)
  end.

(* an open depth: Slice.from_json refuses negative integers (ValueError) *)
Definition json_depth (v : json) : res nat :=
  match v with
  | JInt z => if (z <? 0)%Z then Err ErrValue else Ok (Z.to_nat z)
  | _ => json_nat (Some v)
  end.

Definition open_of_json (j : option json) : res nat :=
  match j with
  | None => Ok 0
  | Some v => if truthy v then json_depth v else Ok 0
  end.

Definition slice_from_json (j : option json) : res slice :=
  match j with
  | None => Ok slice_empty
  | Some v =>
    if truthy v then
      match v with
      | JObj l =>
        do os <- open_of_json (jget l "openStart");
        do oe <- open_of_json (jget l "openEnd");
        do c <- frag_from_json (jget l "content");
        Ok (SL c os oe)
      | _ => Err ErrInternal
      end
    else Ok slice_empty
  end.

Definition ascii_string_of_cps (c : cps) : string :=
  string_of_list_ascii (List.map ascii_of_N c).

Definition step_from_json (j : json) : res step :=
  match j with
  | JObj l =>
    match jget l "stepType" with
    | Some (JStr nm) =>
      let is k := cps_eqb nm (name_cps k) in
      let mk := match jget l "mark" with Some m => mark_from_json m | None => Err ErrInternal end in
      if is "replace" then
        do f <- json_nat (jget l "from"); do t <- json_nat (jget l "to");
        do sl <- slice_from_json (jget l "slice");
        Ok (SReplace f t sl (match jget l "structure" with Some v => truthy v | None => false end))
      else if is "replaceAround" then
        do f <- json_nat (jget l "from"); do t <- json_nat (jget l "to");
        do gf <- json_nat (jget l "gapFrom"); do gt <- json_nat (jget l "gapTo");
        do ins <- json_nat (jget l "insert");
        do sl <- slice_from_json (jget l "slice");
        Ok (SReplaceAround f t gf gt sl ins (match jget l "structure" with Some v => truthy v | None => false end))
      else if is "addMark" then
        do f <- json_nat (jget l "from"); do t <- json_nat (jget l "to"); do m <- mk; Ok (SAddMark f t m)
      else if is "removeMark" then
        do f <- json_nat (jget l "from"); do t <- json_nat (jget l "to"); do m <- mk; Ok (SRemoveMark f t m)
      else if is "addNodeMark" then
        do p <- json_nat (jget l "pos"); do m <- mk; Ok (SAddNodeMark p m)
      else if is "removeNodeMark" then
        do p <- json_nat (jget l "pos"); do m <- mk; Ok (SRemoveNodeMark p m)
      else if is "attr" then
        do p <- json_nat (jget l "pos");
        match jget l "attr", jget l "value" with
        | Some (JStr a), Some v => Ok (SAttr p (ascii_string_of_cps a) v)
        | Some _, _ => Err ErrValue
        | _, _ => Err ErrInternal
        end
      else if is "docAttr" then
        match jget l "attr", jget l "value" with
        | Some (JStr a), Some v => Ok (SDocAttr (ascii_string_of_cps a) v)
        | Some _, _ => Err ErrValue
        | _, _ => Err ErrInternal
        end
      else Err ErrValue
    | _ => Err ErrValue
    end
  | _ => Err ErrValue
  end.

End WithSchema.
