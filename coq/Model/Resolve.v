(* Remaining ResolvedPos / Node accessors used by C09: marks, marks_across,
   block_range, node_at, child_after/before, nodes_between, range_has_mark,
   text_between. *)
From Coq Require Import ZArith NArith List Bool Arith Lia.
From PM Require Import Model.Data Model.Mark Model.Tree Spec.Tokens.
Import ListNotations.

Section WithSchema.
Variable s : schema.
Notation nsize := (node_size s).
Notation fsize := (frag_size s).

Definition non_inclusive (m : mark) : bool := mt_inclusive_false (mtype_of s (m_ty m)).

Definition filter_inclusive (ms : list mark) (other : option node) : list mark :=
  filter (fun m => negb (non_inclusive m &&
                         match other with None => true | Some o => negb (is_in_set m (node_marks o)) end)) ms.

(* ResolvedPos.marks() *)
Definition rp_marks (r : rpos) : res (list mark) :=
  do parent <- rp_parent r;
  do index <- rp_index r (rp_depth r);
  if fsize (node_content parent) =? 0 then Ok []
  else if negb (rp_text_offset r =? 0) then
    match child_at parent index with Some c => Ok (node_marks c) | None => Err ErrInternal end
  else
    let main := match index with 0 => None | S i => child_at parent i end in
    let other := child_at parent index in
    match main, other with
    | Some m, o => Ok (filter_inclusive (node_marks m) o)
    | None, Some o => Ok (filter_inclusive (node_marks o) None)
    | None, None => Err ErrInternal
    end.

(* ResolvedPos.marks_across(end) *)
Definition rp_marks_across (r e : rpos) : res (option (list mark)) :=
  do parent <- rp_parent r;
  do index <- rp_index r (rp_depth r);
  match child_at parent index with
  | None => Ok None
  | Some after =>
    if negb (is_inline_ty s (node_ty s after)) then Ok None
    else
      do eparent <- rp_parent e;
      do eindex <- rp_index e (rp_depth e);
      Ok (Some (filter_inclusive (node_marks after) (child_at eparent eindex)))
  end.

(* ResolvedPos.block_range(other) without predicate: the depth of the range, if any *)
Fixpoint block_range_go (r : rpos) (opos : nat) (d : nat) : res (option nat) :=
  do en <- rp_end s r d;
  if opos <=? en then Ok (Some d)
  else match d with 0 => Ok None | S d' => block_range_go r opos d' end.

Definition rp_block_range (r o : rpos) : res (option nat) :=
  let '(a, b) := if rp_pos o <? rp_pos r then (o, r) else (r, o) in
  do parent <- rp_parent a;
  let dec := if nt_inline_content (ntype_of s (node_ty s parent)) then 1
             else if rp_pos a =? rp_pos b then 1 else 0 in
  if rp_depth a <? dec then Ok None
  else block_range_go a (rp_pos b) (rp_depth a - dec).

(* Node.node_at(pos) *)
Fixpoint node_at (fuel : nat) (n : node) (pos : nat) : res (option node) :=
  match fuel with
  | 0 => Err ErrInternal
  | S fuel' =>
    do io <- find_index s (node_content n) pos;
    let '(index, offset) := io in
    match child_at n index with
    | None => Ok None
    | Some c =>
      if (offset =? pos) || node_is_text c then Ok (Some c)
      else node_at fuel' c (pos - offset - 1)
    end
  end.

(* Node.child_after(pos) / child_before(pos): (node, index, offset) *)
Definition child_after (n : node) (pos : nat) : res (option node * nat * nat) :=
  do io <- find_index s (node_content n) pos;
  let '(index, offset) := io in Ok (child_at n index, index, offset).

Definition child_before (n : node) (pos : nat) : res (option node * nat * nat) :=
  if pos =? 0 then Ok (None, 0, 0)
  else
    do io <- find_index s (node_content n) pos;
    let '(index, offset) := io in
    if offset <? pos then
      match child_at n index with Some c => Ok (Some c, index, offset) | None => Err ErrInternal end
    else match index with
         | 0 => Err ErrInternal
         | S i => match child_at n i with
                  | Some c => Ok (Some c, i, offset - nsize c)
                  | None => Err ErrInternal end
         end.

(* Fragment.nodes_between: the callback sequence (node, pos, parent, index), with
   [descend] standing for "the callback did not return False" *)
Record visit := { v_node : node; v_pos : nat; v_parent : option node; v_index : nat }.

Fixpoint nodes_between_node (descend : node -> bool) (n : node) (from to node_start : nat) {struct n}
  : res (list visit) :=
  match n with
  | Text _ _ => Ok []
  | Elem _ _ _ cs =>
    (fix go (l : list node) (i pos : nat) {struct l} : res (list visit) :=
       if pos <? to then
         match l with
         | [] => Err ErrInternal
         | c :: r =>
           let e := pos + nsize c in
           do here <-
             (if from <? e then
                let v := {| v_node := c; v_pos := node_start + pos; v_parent := Some n; v_index := i |} in
                if descend c && negb (fsize (node_content c) =? 0) then
                  do inner <- nodes_between_node descend c (from - (pos + 1))
                                (Nat.min (fsize (node_content c)) (to - (pos + 1))) (node_start + pos + 1);
                  Ok (v :: inner)
                else Ok [v]
              else Ok []);
           do rest <- go r (S i) e;
           Ok (here ++ rest)
         end
       else Ok []) cs 0 0
  end.

(* Node.range_has_mark(from, to, mark-or-type) *)
Definition range_has_mark (doc : node) (from to : nat) (test : list mark -> bool) : res bool :=
  if from <? to then
    do vs <- nodes_between_node (fun _ => true) doc from to 0;
    Ok (existsb (fun v => test (node_marks (v_node v))) vs)
  else Ok false.

(* Fragment.text_between(from, to, block_separator, leaf_text): result as UTF-16 unit values *)
Definition units_of (t : cps) : list N := List.map unit_val (units t).

Fixpoint text_between_go (vs : list visit) (from to : nat) (sep leaf : list N) (separated : bool) : list N :=
  match vs with
  | [] => []
  | v :: r =>
    match v_node v with
    | Text t _ =>
      let a := Nat.max from (v_pos v) - v_pos v in
      let b := to - v_pos v in
      firstn (b - a) (skipn a (units_of t)) ++ text_between_go r from to sep leaf (match sep with [] => true | _ => false end)
    | Elem ty _ _ _ =>
      if is_leaf_ty s ty then leaf ++ text_between_go r from to sep leaf (match sep with [] => true | _ => false end)
      else if negb separated && is_block_ty s ty then sep ++ text_between_go r from to sep leaf true
      else text_between_go r from to sep leaf separated
    end
  end.

Definition text_between (doc : node) (from to : nat) (sep leaf : list N) : res (list N) :=
  do vs <- nodes_between_node (fun _ => true) doc from to 0;
  Ok (text_between_go vs from to sep leaf true).

End WithSchema.
