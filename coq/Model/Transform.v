(* Model of the bookkeeping part of prosemirror/transform/transform.py:
   Transform.step / maybe_step / add_step.  Every high-level operation changes
   the transform only through these. *)
From Coq Require Import ZArith List Bool Arith.
From PM Require Import Model.Data Model.Mark Model.Tree Model.StepMap Model.Step.
Import ListNotations.

Record transform := { t_doc : node; t_steps : list step; t_docs : list node; t_maps : list stepmap }.

Definition tr_init (d : node) : transform := {| t_doc := d; t_steps := []; t_docs := []; t_maps := [] |}.

Section WithSchema.
Variable s : schema.

(* Transform.add_step *)
Definition add_step (t : transform) (st : step) (d : node) : transform :=
  {| t_doc := d; t_steps := t_steps t ++ [st]; t_docs := t_docs t ++ [t_doc t]; t_maps := t_maps t ++ [get_map s st] |}.

(* Transform.maybe_step: a failed result or an exception leaves the transform untouched *)
Definition maybe_step (t : transform) (st : step) : transform * sresult :=
  match apply s st (t_doc t) with
  | ROk d' => (add_step t st d', ROk d')
  | r => (t, r)
  end.

(* Transform.before *)
Definition tr_before (t : transform) : node := match t_docs t with d :: _ => d | [] => t_doc t end.

End WithSchema.
