(* Model of prosemirror/transform/replace.py: replace_step, fits_trivially and the Fitter (the algorithm
   that fits a slice into a document range: find_fittable, open_more, drop_node, place_nodes,
   must_move_inline, find_close_level, close, open/close_frontier_node) with its helper functions
   (drop_from_fragment, add_to_fragment, content_at, close_node_start, content_after_fits, invalid_marks).
   The mutable Fitter object becomes a state record threaded through the functions; loops are structural
   recursion or recursion on fuel (ErrInternal when exhausted); a failed `assert` / attribute access on None
   is ErrInternal. *)
From Coq Require Import ZArith NArith List Bool Arith String.
From PM Require Import Model.Data Model.Mark Model.Tree Model.Resolve Model.StepMap Model.Step Model.Fill.
Import ListNotations.
Local Open Scope nat_scope.

Section WithSchema.
Variable s : schema.
Notation nsize := (node_size s).
Notation fsize := (frag_size s).

Definition ffuel : nat := S (S (List.length (s_nodes s))).
Definition fb (q : nat) (after : list node) (to_end : bool) (start : nat) : res (option (list node)) :=
  fill_before s ffuel q after to_end start.
Definition start_state (ty : nat) : nat := nt_start (ntype_of s ty).
Definition isolating_ty (ty : nat) : bool := nt_isolating (ntype_of s ty).
Definition nkids (l : list node) : nat := List.length l.
Definition last_child (l : list node) : option node := match rev l with x :: _ => Some x | [] => None end.
Definition assert_some {A} (o : option A) : res A := match o with Some x => Ok x | None => Err ErrInternal end.

(* ------------------------------------------------------------------ helpers at the end of replace.py *)
Fixpoint content_at (l : list node) (depth : nat) : res (list node) :=
  match depth with
  | 0 => Ok l
  | S d => match l with c :: _ => content_at (node_content c) d | [] => Err ErrInternal end
  end.

Fixpoint drop_from_fragment (l : list node) (depth count : nat) : res (list node) :=
  match depth with
  | 0 => Ok (skipn count l)
  | S d =>
    match l with
    | c :: _ => do inner <- drop_from_fragment (node_content c) d count; Ok (replace_child l 0 (node_copy c inner))
    | [] => Err ErrInternal
    end
  end.

Fixpoint add_to_fragment (l : list node) (depth : nat) (content : list node) : res (list node) :=
  match depth with
  | 0 => Ok (frag_append l content)
  | S d =>
    match last_child l with
    | Some c => do inner <- add_to_fragment (node_content c) d content;
                Ok (replace_child l (List.length l - 1) (node_copy c inner))
    | None => Err ErrInternal
    end
  end.

(* close_node_start(node, open_start, open_end); open_end is an int (may be <= 0) *)
Fixpoint close_node_start (n : node) (open_start : nat) (open_end : Z) : res node :=
  match open_start with
  | 0 => Ok n
  | S os' =>
    let frag := node_content n in
    do frag1 <- (match os' with
                 | 0 => Ok frag
                 | S _ =>
                   match frag with
                   | c :: _ =>
                     do c' <- close_node_start c os' (if nkids frag =? 1 then (open_end - 1)%Z else 0%Z);
                     Ok (replace_child frag 0 c')
                   | [] => Err ErrInternal
                   end
                 end);
    let q0 := start_state (node_ty s n) in
    do f1 <- fb q0 frag1 false 0;
    do f1 <- assert_some f1;
    let frag2 := frag_append f1 frag1 in
    do frag3 <- (if (open_end <=? 0)%Z then
                   do q <- assert_some (match_fragment s q0 frag2 0 (List.length frag2));
                   do f2 <- fb q [] true 0;
                   do f2 <- assert_some f2;
                   Ok (frag_append frag2 f2)
                 else Ok frag2);
    Ok (node_copy n frag3)
  end.

Definition invalid_marks (ty : nat) (l : list node) (start : nat) : bool :=
  existsb (fun c => negb (allows_marks s ty (node_marks c))) (skipn start l).

(* content_after_fits(to_, depth, type_, match, open_) *)
Definition content_after_fits (to : rpos) (depth ty q : nat) (open_ : bool) : res (option (list node)) :=
  do n <- rp_node to depth;
  do index <- (if open_ then rp_index_after to depth else rp_index to depth);
  if (index =? nkids (node_content n)) && negb (compatible_content s ty (node_ty s n)) then Ok None
  else
    do fit <- fb q (node_content n) true index;
    match fit with
    | Some f => if invalid_marks ty (node_content n) index then Ok None else Ok (Some f)
    | None => Ok None
    end.

(* ------------------------------------------------------------------ the Fitter's state *)
Record fstate := { f_unplaced : slice; f_frontier : list (nat * nat); f_placed : list node }.
Definition fdepth (st : fstate) : nat := List.length (f_frontier st) - 1.
Definition frontier_at (st : fstate) (d : nat) : res (nat * nat) := assert_some (nth_error (f_frontier st) d).
Definition set_nth {A} (l : list A) (i : nat) (x : A) : list A := firstn i l ++ [x] ++ skipn (S i) l.

Variable from : rpos.
Variable to : rpos.
Variable doc : node.

(* Fitter.__init__ *)
Fixpoint init_frontier (k : nat) (i : nat) : res (list (nat * nat)) :=
  (* the entries i, i+1, ..., i+k-1 *)
  match k with
  | 0 => Ok []
  | S k' =>
    do n <- rp_node from i;
    do ia <- rp_index_after from i;
    do q <- content_match_at s n ia;
    do rest <- init_frontier k' (S i);
    Ok ((node_ty s n, q) :: rest)
  end.
Fixpoint init_placed (i : nat) (acc : list node) : res (list node) :=
  (* for i in range(depth, 0, -1): placed = [node(i).copy(placed)] *)
  match i with
  | 0 => Ok acc
  | S i' => do n <- rp_node from i; init_placed i' [node_copy n acc]
  end.
Definition fitter_init (sl : slice) : res fstate :=
  do fr <- init_frontier (S (rp_depth from)) 0;
  (* the loop wraps from the deepest level outwards *)
  do pl <- (fix wrap (k i : nat) (acc : list node) : res (list node) :=
              match k with
              | 0 => Ok acc
              | S k' => do n <- rp_node from i; wrap k' (i - 1) [node_copy n acc]
              end) (rp_depth from) (rp_depth from) [];
  Ok {| f_unplaced := sl; f_frontier := fr; f_placed := pl |}.

(* close_frontier_node / open_frontier_node *)
Definition close_frontier_node (st : fstate) : res fstate :=
  match rev (f_frontier st) with
  | [] => Err ErrInternal
  | (_, q) :: rest_rev =>
    let fr := rev rest_rev in
    do add <- fb q [] true 0;
    do pl <- (match add with
              | Some a => if negb (nkids a =? 0) then add_to_fragment (f_placed st) (List.length fr) a else Ok (f_placed st)
              | None => Ok (f_placed st)
              end);
    Ok {| f_unplaced := f_unplaced st; f_frontier := fr; f_placed := pl |}
  end.

Definition open_frontier_node (st : fstate) (ty : nat) (a : attrs) (content : option (list node)) : res fstate :=
  let d := fdepth st in
  do top <- frontier_at st d;
  let '(tty, tq) := top in
  do tq' <- assert_some (match_type s tq ty);
  do n <- type_create s ty a (match content with Some c => c | None => [] end) [];
  do pl <- add_to_fragment (f_placed st) d [n];
  let q0 := start_state ty in
  let q := match content with
           | Some c => if negb (nkids c =? 0) then
                         match match_fragment s q0 c 0 (List.length c) with Some q1 => q1 | None => q0 end
                       else q0
           | None => q0
           end in
  Ok {| f_unplaced := f_unplaced st; f_frontier := set_nth (f_frontier st) d (tty, tq') ++ [(ty, q)]; f_placed := pl |}.

Fixpoint close_down_to (fuel : nat) (st : fstate) (d : nat) : res fstate :=
  match fuel with
  | 0 => Err ErrInternal
  | S f => if d <? fdepth st then do st' <- close_frontier_node st; close_down_to f st' d else Ok st
  end.

(* ------------------------------------------------------------------ find_fittable *)
Record fittable := { ft_slice_depth : nat; ft_frontier_depth : nat; ft_parent : option node;
                     ft_inject : option (list node); ft_wrap : option (list nat) }.

(* the first loop: how deep the search may start *)
Fixpoint ff_start (k d : nat) (cur : list node) (open_end : nat) (start_depth : nat) : res nat :=
  match k with
  | 0 => Ok start_depth
  | S k' =>
    match cur with
    | [] => Err ErrInternal
    | n :: _ =>
      let open_end' := if 1 <? nkids cur then 0 else open_end in
      if isolating_ty (node_ty s n) && (open_end' <=? d) then Ok d
      else ff_start k' (S d) (node_content n) open_end' start_depth
    end
  end.

(* the innermost loop over frontier depths fd = k-1 .. 0; result: Some fit | None (exhausted or break) *)
Fixpoint ff_frontier (st : fstate) (pass1 : bool) (slice_depth : nat) (parent : option node) (first : option node)
  (k : nat) : res (option fittable) :=
  match k with
  | 0 => Ok None
  | S fd =>
    do fr <- frontier_at st fd;
    let '(ty, q) := fr in
    do hit <-
      (if pass1 then
         match first with
         | Some f =>
           match match_type s q (node_ty s f) with
           | Some _ => Ok (Some (None, None))
           | None =>
             do inj <- fb q [f] false 0;
             match inj with Some i => Ok (Some (Some i, None)) | None => Ok None end
           end
         | None =>
           match parent with
           | Some p => if compatible_content s ty (node_ty s p) then Ok (Some (None, None)) else Ok None
           | None => Ok None
           end
         end
       else
         match first with
         | Some f => match find_wrapping s q (node_ty s f) with Some w => Ok (Some (None, Some w)) | None => Ok None end
         | None => Ok None
         end);
    match hit with
    | Some (inj, w) =>
      Ok (Some {| ft_slice_depth := slice_depth; ft_frontier_depth := fd; ft_parent := parent; ft_inject := inj; ft_wrap := w |})
    | None =>
      match parent with
      | Some p => match match_type s q (node_ty s p) with Some _ => Ok None | None => ff_frontier st pass1 slice_depth parent first fd end
      | None => ff_frontier st pass1 slice_depth parent first fd
      end
    end
  end.

(* the loop over slice depths sd = k-1 .. 0 *)
Fixpoint ff_slice (st : fstate) (pass1 : bool) (k : nat) : res (option fittable) :=
  match k with
  | 0 => Ok None
  | S sd =>
    let content := sl_content (f_unplaced st) in
    do pf <- (match sd with
              | 0 => Ok (None, content)
              | S sd' =>
                do c <- content_at content sd';
                match c with
                | p :: _ => Ok (Some p, node_content p)
                | [] => Err ErrInternal
                end
              end);
    let '(parent, fragment) := pf in
    let first := match fragment with f :: _ => Some f | [] => None end in
    do r <- ff_frontier st pass1 sd parent first (S (fdepth st));
    match r with
    | Some x => Ok (Some x)
    | None => ff_slice st pass1 sd
    end
  end.

Definition find_fittable (st : fstate) : res (option fittable) :=
  let u := f_unplaced st in
  do sd <- ff_start (sl_open_start u) 0 (sl_content u) (sl_open_end u) (sl_open_start u);
  do r1 <- ff_slice st true (S sd);
  match r1 with
  | Some x => Ok (Some x)
  | None => ff_slice st false (S (sl_open_start u))
  end.

(* ------------------------------------------------------------------ open_more / drop_node *)
Definition open_more (st : fstate) : res (option fstate) :=
  let u := f_unplaced st in
  let content := sl_content u in let os := sl_open_start u in let oe := sl_open_end u in
  do inner <- content_at content os;
  match inner with
  | [] => Ok None
  | f :: _ =>
    if is_leaf_ty s (node_ty s f) then Ok None
    else
      let oe' := Nat.max oe (if fsize content - oe <=? fsize inner + os then S os else 0) in
      Ok (Some {| f_unplaced := SL content (S os) oe'; f_frontier := f_frontier st; f_placed := f_placed st |})
  end.

Definition drop_node (st : fstate) : res fstate :=
  let u := f_unplaced st in
  let content := sl_content u in let os := sl_open_start u in let oe := sl_open_end u in
  do inner <- content_at content os;
  do u' <-
    (if (nkids inner <=? 1) && (0 <? os) then
       let open_at_end := fsize content - os <=? os + fsize inner in
       do c <- drop_from_fragment content (os - 1) 1;
       Ok (SL c (os - 1) (if open_at_end then os - 1 else oe))
     else
       do c <- drop_from_fragment content os 1;
       Ok (SL c os oe));
  Ok {| f_unplaced := u'; f_frontier := f_frontier st; f_placed := f_placed st |}.

(* ------------------------------------------------------------------ place_nodes *)
(* the `while taken < fragment.child_count` loop: (taken, match, add, last_placed) *)
Fixpoint pn_take (ty : nat) (open_start : nat) (open_end_count : Z) (total : nat)
  (rest : list node) (taken : nat) (q : nat) (add : list node) (last_placed : option node)
  : res (nat * nat * list node * option node) :=
  match rest with
  | [] => Ok (taken, q, add, last_placed)
  | next :: rest' =>
    match match_type s q (node_ty s next) with
    | None => Ok (taken, q, add, last_placed)
    | Some q' =>
      let taken' := S taken in
      if (1 <? taken') || (open_start =? 0) || negb (fsize (node_content next) =? 0) then
        do n <- close_node_start (node_mark next (allowed_marks s ty (node_marks next)))
                  (if taken' =? 1 then open_start else 0)
                  (if taken' =? total then open_end_count else (-1)%Z);
        pn_take ty open_start open_end_count total rest' taken' q' (add ++ [n]) (Some n)
      else pn_take ty open_start open_end_count total rest' taken' q add None
    end
  end.

Fixpoint pn_open_end (k i : nat) (cur : list node) (last_placed : option node) (fr : list (nat * nat))
  : res (list (nat * nat)) :=
  match k with
  | 0 => Ok fr
  | S k' =>
    do n <- (match i, last_placed with
             | 0, Some lp => Ok lp
             | _, _ => assert_some (last_child cur)
             end);
    do q <- content_match_at s n (nkids (node_content n));
    pn_open_end k' (S i) (node_content n) last_placed (fr ++ [(node_ty s n, q)])
  end.

Fixpoint open_wrappers (st : fstate) (ws : list nat) : res fstate :=
  match ws with
  | [] => Ok st
  | w :: r => do st' <- open_frontier_node st w [] None; open_wrappers st' r
  end.

Definition place_nodes (st0 : fstate) (ft : fittable) : res fstate :=
  let slice_depth := ft_slice_depth ft in
  let frontier_depth := ft_frontier_depth ft in
  let parent := ft_parent ft in
  do st1 <- close_down_to (S (fdepth st0)) st0 frontier_depth;
  do st2 <- (match ft_wrap ft with Some ws => open_wrappers st1 ws | None => Ok st1 end);
  let sl := f_unplaced st2 in
  let fragment := match parent with Some p => node_content p | None => sl_content sl end in
  let open_start := sl_open_start sl - slice_depth in
  do fi <- frontier_at st2 frontier_depth;
  let '(ty, q0) := fi in
  do qa <- (match ft_inject ft with
            | Some inj => do q <- assert_some (match_fragment s q0 inj 0 (List.length inj)); Ok (q, inj)
            | None => Ok (q0, [])
            end);
  let '(q1, add0) := qa in
  let open_end_count := (Z.of_nat (fsize fragment + slice_depth) - (Z.of_nat (fsize (sl_content sl)) - Z.of_nat (sl_open_end sl)))%Z in
  do tk <- pn_take ty open_start open_end_count (nkids fragment) fragment 0 q1 add0 None;
  let '(taken, q2, add, last_placed) := tk in
  let to_end := taken =? nkids fragment in
  let open_end_count := if to_end then open_end_count else (-1)%Z in
  do pl <- add_to_fragment (f_placed st2) frontier_depth (from_array add);
  let st3 := {| f_unplaced := sl; f_frontier := set_nth (f_frontier st2) frontier_depth (ty, q2); f_placed := pl |} in
  do st4 <-
    (if to_end && (open_end_count <? 0)%Z then
       match parent with
       | Some p =>
         do top <- frontier_at st3 (fdepth st3);
         if (node_ty s p =? fst top) && (1 <? List.length (f_frontier st3)) then close_frontier_node st3 else Ok st3
       | None => Ok st3
       end
     else Ok st3);
  do fr <- pn_open_end (Z.to_nat open_end_count) 0 fragment last_placed (f_frontier st4);
  do u' <-
    (if negb to_end then
       do c <- drop_from_fragment (sl_content sl) slice_depth taken; Ok (SL c (sl_open_start sl) (sl_open_end sl))
     else match slice_depth with
          | 0 => Ok slice_empty
          | S sd' =>
            do c <- drop_from_fragment (sl_content sl) sd' 1;
            Ok (SL c sd' (if (open_end_count <? 0)%Z then sl_open_end sl else sd'))
          end);
  Ok {| f_unplaced := u'; f_frontier := fr; f_placed := f_placed st4 |}.

(* ------------------------------------------------------------------ find_close_level / must_move_inline / close *)
Record close_level := { cl_depth : nat; cl_fit : list node; cl_move : rpos }.

(* the inner for ... else: every shallower frontier level must accept what follows without adding anything *)
Fixpoint fcl_outer_ok (st : fstate) (t : rpos) (k : nat) : res bool :=
  match k with
  | 0 => Ok true
  | S d =>
    do fr <- frontier_at st d;
    do m <- content_after_fits t d (fst fr) (snd fr) true;
    match m with
    | Some l => if negb (nkids l =? 0) then Ok false else fcl_outer_ok st t d
    | None => Ok false
    end
  end.

Fixpoint fcl_go (st : fstate) (t : rpos) (k : nat) : res (option close_level) :=
  match k with
  | 0 => Ok None
  | S i =>
    do fr <- frontier_at st i;
    do drop_inner <-
      (if i <? rp_depth t then do e <- rp_end s t (S i); Ok (e =? rp_pos t + (rp_depth t - S i)) else Ok false);
    do fit <- content_after_fits t i (fst fr) (snd fr) drop_inner;
    match fit with
    | None => fcl_go st t i
    | Some f =>
      do ok <- fcl_outer_ok st t i;
      if ok then
        do mv <- (if drop_inner then do a <- rp_after s t (S i); resolve s doc a else Ok t);
        Ok (Some {| cl_depth := i; cl_fit := f; cl_move := mv |})
      else fcl_go st t i
    end
  end.

Definition find_close_level (st : fstate) (t : rpos) : res (option close_level) :=
  fcl_go st t (S (Nat.min (fdepth st) (rp_depth t))).

Fixpoint mmi_up (k depth after : nat) : res nat :=
  (* while depth > 1: depth -= 1; if after != to.end(depth): break; after += 1 *)
  match k with
  | 0 => Ok after
  | S k' =>
    if depth <=? 1 then Ok after
    else
      do e <- rp_end s to (depth - 1);
      if negb (after =? e) then Ok after else mmi_up k' (depth - 1) (S after)
  end.

Definition must_move_inline (st : fstate) : res (option nat) :=
  do tp <- rp_parent to;
  if negb (is_textblock_ty s (node_ty s tp)) then Ok None
  else
    do top <- frontier_at st (fdepth st);
    if negb (is_textblock_ty s (fst top)) then Ok None
    else
      do caf <- content_after_fits to (rp_depth to) (fst top) (snd top) false;
      match caf with
      | None => Ok None
      | Some _ =>
        do blocked <-
          (if rp_depth to =? fdepth st then
             do lv <- find_close_level st to;
             match lv with Some l => Ok (cl_depth l =? fdepth st) | None => Ok false end
           else Ok false);
        if blocked then Ok None
        else
          do after <- rp_after s to (rp_depth to);
          do r <- mmi_up (rp_depth to) (rp_depth to) after;
          Ok (Some r)
      end.

Fixpoint close_reopen (st : fstate) (t : rpos) (k d : nat) : res fstate :=
  (* for d in range(close.depth + 1, to.depth + 1) *)
  match k with
  | 0 => Ok st
  | S k' =>
    do n <- rp_node t d;
    do idx <- rp_index t d;
    do add <- fb (start_state (node_ty s n)) (node_content n) true idx;
    do st' <- open_frontier_node st (node_ty s n) (node_attrs n) add;
    close_reopen st' t k' (S d)
  end.

Definition fitter_close (st : fstate) (t : rpos) : res (option (fstate * rpos)) :=
  do cl <- find_close_level st t;
  match cl with
  | None => Ok None
  | Some c =>
    do st1 <- close_down_to (S (fdepth st)) st (cl_depth c);
    do st2 <-
      (if negb (nkids (cl_fit c) =? 0) then
         do pl <- add_to_fragment (f_placed st1) (cl_depth c) (cl_fit c);
         do fr <- frontier_at st1 (cl_depth c);
         let q := match match_fragment s (snd fr) (cl_fit c) 0 (List.length (cl_fit c)) with Some q1 => q1 | None => snd fr end in
         Ok {| f_unplaced := f_unplaced st1; f_frontier := set_nth (f_frontier st1) (cl_depth c) (fst fr, q); f_placed := pl |}
       else Ok st1);
    let t' := cl_move c in
    do st3 <- close_reopen st2 t' (rp_depth t' - cl_depth c) (S (cl_depth c));
    Ok (Some (st3, t'))
  end.

(* ------------------------------------------------------------------ fit *)
Fixpoint fit_loop (fuel : nat) (st : fstate) : res fstate :=
  match fuel with
  | 0 => Err ErrInternal
  | S f =>
    if (slice_size s (f_unplaced st) =? 0)%Z then Ok st
    else
      do ft <- find_fittable st;
      match ft with
      | Some x => do st' <- place_nodes st x; fit_loop f st'
      | None =>
        do om <- open_more st;
        match om with
        | Some st' => fit_loop f st'
        | None => do st' <- drop_node st; fit_loop f st'
        end
      end
  end.

Fixpoint strip_single (k : nat) (content : list node) (os oe : nat) : list node * nat * nat :=
  match k with
  | 0 => (content, os, oe)
  | S k' =>
    match os, oe, content with
    | S os', S oe', [c] => strip_single k' (node_content c) os' oe'
    | _, _, _ => (content, os, oe)
    end
  end.

Definition fitter_fit (sl : slice) : res (option step) :=
  do st0 <- fitter_init sl;
  let n := fsize (sl_content sl) in
  do st <- fit_loop (4 * (n + 2) * (n + 2)) st0;
  do move_inline <- must_move_inline st;
  let placed_size := (Z.of_nat (fsize (f_placed st)) - Z.of_nat (fdepth st) - Z.of_nat (rp_depth from))%Z in
  do t0 <- (match move_inline with None => Ok to | Some p => resolve s doc p end);
  do cl <- fitter_close st t0;
  match cl with
  | None => Ok None
  | Some (st', t') =>
    let '(content, os, oe) := strip_single (S (rp_depth from)) (f_placed st') (rp_depth from) (rp_depth t') in
    let sl' := SL content os oe in
    match move_inline with
    | Some mi =>
      do e <- rp_end s to (rp_depth to);
      Ok (Some (SReplaceAround (rp_pos from) mi (rp_pos to) e sl' (Z.to_nat placed_size) false))
    | None =>
      if negb (slice_size s sl' =? 0)%Z || negb (rp_pos from =? rp_pos to)
      then Ok (Some (SReplace (rp_pos from) (rp_pos t') sl' false))
      else Ok None
    end
  end.

End WithSchema.

(* replace_step(doc, from, to, slice) *)
Definition fits_trivially (s : schema) (rf rt : rpos) (sl : slice) : res bool :=
  if (sl_open_start sl =? 0) && (sl_open_end sl =? 0) then
    do a <- rp_start rf (rp_depth rf);
    do b <- rp_start rt (rp_depth rt);
    if a =? b then
      do p <- rp_parent rf;
      do i <- rp_index rf (rp_depth rf);
      do j <- rp_index rt (rp_depth rt);
      can_replace s p i j (sl_content sl) 0 (List.length (sl_content sl))
    else Ok false
  else Ok false.

Definition replace_step (s : schema) (doc : node) (from to : nat) (sl : slice) : res (option step) :=
  if (from =? to) && (slice_size s sl =? 0)%Z then Ok None
  else
    do rf <- resolve s doc from;
    do rt <- resolve s doc to;
    do triv <- fits_trivially s rf rt sl;
    if triv then Ok (Some (SReplace from to sl false))
    else fitter_fit s rf rt doc sl.
