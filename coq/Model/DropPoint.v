(* Model of transform/structure.py: drop_point(doc, pos, slice) - where a slice could be dropped near a position:
   first pass "the (open) content fits as it is", second pass (closed, non-empty slices) "its first node fits once
   wrapped".  The candidates at an ancestor d are the position itself (innermost level), or the place before / after
   the ancestor at depth d+1, whichever side of its middle the position lies on. *)
From Coq Require Import ZArith NArith List Bool Arith.
From PM Require Import Model.Data Model.Mark Model.Tree Model.Resolve Model.StepMap Model.Step Model.Fill.
Import ListNotations.
Local Open Scope nat_scope.

Section WithSchema.
Variable s : schema.
Notation fsize := (frag_size s).

(* content = slice.content, then content.first_child.content open_start times (assert: AssertionError when missing) *)
Fixpoint open_content (content : list node) (k : nat) : res (list node) :=
  match k with
  | 0 => Ok content
  | S k' => match content with
            | [] => Err ErrInternal
            | c :: _ => open_content (node_content c) k'
            end
  end.

(* the loop over d = depth .. 1 for one pass *)
Fixpoint dp_pass (r : rpos) (second : bool) (content : list node) (d : nat) : res (option nat) :=
  match d with
  | 0 => Ok None
  | S d' =>
    do bias <-
      (if d =? rp_depth r then Ok 0%Z
       else do a <- rp_start r (S d); do b <- rp_end s r (S d);
            Ok (if 2 * rp_pos r <=? a + b then (-1)%Z else 1%Z));
    do index <- rp_index r d;
    let insert_pos := index + (if (0 <? bias)%Z then 1 else 0) in
    do parent <- rp_node r d;
    do fits <-
      (if negb second then can_replace s parent insert_pos insert_pos content 0 (List.length content)
       else
         match content with
         | [] => Err ErrInternal
         | first :: _ =>
           do q <- content_match_at s parent insert_pos;
           match find_wrapping s q (node_ty s first) with
           | Some (w0 :: _) => can_replace_with s parent insert_pos insert_pos w0 []
           | _ => Ok false          (* None, or the empty wrapping: bool(wrapping) is False *)
           end
         end);
    if fits then
      (if (bias =? 0)%Z then Ok (Some (rp_pos r))
       else if (bias <? 0)%Z then do p <- rp_before r (S d); Ok (Some p)
       else do p <- rp_after s r (S d); Ok (Some p))
    else dp_pass r second content d'
  end.

Definition drop_point (doc : node) (pos : nat) (sl : slice) : res (option nat) :=
  do r <- resolve s doc pos;
  if fsize (sl_content sl) =? 0 then Ok (Some pos)
  else
    do content <- open_content (sl_content sl) (sl_open_start sl);
    do first <- dp_pass r false content (rp_depth r);
    match first with
    | Some p => Ok (Some p)
    | None =>
      if (sl_open_start sl =? 0) && negb (slice_size s sl =? 0)%Z then dp_pass r true content (rp_depth r)
      else Ok None
    end.

End WithSchema.
