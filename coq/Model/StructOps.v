(* Model of prosemirror/transform/structure.py (can_cut, lift_target, can_split, can_join / joinable,
   join_point, insert_point) and of the step builders of Transform.split / join / lift / wrap
   (transform.py): which step each of them hands to Transform.step. *)
From Coq Require Import ZArith NArith List Bool Arith String.
From PM Require Import Model.Data Model.Mark Model.Tree Model.Resolve Model.StepMap Model.Step.
Import ListNotations.
Local Open Scope nat_scope.

Section WithSchema.
Variable s : schema.
Notation nsize := (node_size s).
Notation fsize := (frag_size s).

Definition isolating (n : node) : bool := nt_isolating (ntype_of s (node_ty s n)).
Definition nchildren (n : node) : nat := List.length (node_content n).

(* NodeRange(from, to, depth) *)
Record noderange := { nr_from : rpos; nr_to : rpos; nr_depth : nat }.
Definition nr_start (r : noderange) : res nat := rp_before (nr_from r) (S (nr_depth r)).
Definition nr_end (r : noderange) : res nat := rp_after s (nr_to r) (S (nr_depth r)).
Definition nr_parent (r : noderange) : res node := rp_node (nr_from r) (nr_depth r).
Definition nr_start_index (r : noderange) : res nat := rp_index (nr_from r) (nr_depth r).
Definition nr_end_index (r : noderange) : res nat := rp_index_after (nr_to r) (nr_depth r).

(* Node.can_replace(from, to) with the default (empty) replacement *)
Definition can_replace0 (n : node) (from to : nat) : res bool := can_replace s n from to [] 0 0.

(* structure.can_cut *)
Definition can_cut (n : node) (start end_ : nat) : res bool :=
  do a <- (if start =? 0 then Ok true else can_replace0 n start (nchildren n));
  if a then (if end_ =? nchildren n then Ok true else can_replace0 n 0 end_) else Ok false.

(* structure.lift_target *)
Fixpoint lift_target_go (fuel : nat) (r : noderange) (content : list node) (depth : nat) : res (option nat) :=
  match fuel with
  | 0 => Err ErrInternal
  | S fuel' =>
    do n <- rp_node (nr_from r) depth;
    do index <- rp_index (nr_from r) depth;
    do end_index <- rp_index_after (nr_to r) depth;
    do fits <- (if depth <? nr_depth r then can_replace s n index end_index content 0 (List.length content) else Ok false);
    if fits then Ok (Some depth)
    else
      if (depth =? 0) || isolating n then Ok None
      else
        do cc <- can_cut n index end_index;
        if negb cc then Ok None else lift_target_go fuel' r content (depth - 1)
  end.

Definition lift_target (r : noderange) : res (option nat) :=
  do parent <- nr_parent r;
  do si <- nr_start_index r;
  do ei <- nr_end_index r;
  lift_target_go (S (nr_depth r)) r (sub_list (node_content parent) si ei) (nr_depth r).

(* structure.can_split(doc, pos, depth) without types_after *)
Fixpoint can_split_go (fuel : nat) (r : rpos) (d base : nat) : res bool :=
  match fuel with
  | 0 => Err ErrInternal
  | S fuel' =>
    if d <=? base then Ok true
    else
      do n <- rp_node r d;
      do index <- rp_index r d;
      if isolating n then Ok false
      else
        let rest := sub_list (node_content n) index (nchildren n) in
        do cr <- can_replace0 n (S index) (nchildren n);
        if negb cr || negb (valid_content s (node_ty s n) rest) then Ok false
        else can_split_go fuel' r (d - 1) base
  end.

Definition can_split (doc : node) (pos depth : nat) : res bool :=
  do r <- resolve s doc pos;
  if rp_depth r <? depth then Ok false
  else
    let base := rp_depth r - depth in
    do parent <- rp_parent r;
    do index <- rp_index r (rp_depth r);
    if isolating parent then Ok false
    else
      do cr <- can_replace0 parent index (nchildren parent);
      if negb cr || negb (valid_content s (node_ty s parent) (sub_list (node_content parent) index (nchildren parent)))
      then Ok false
      else
        (* Python starts the loop at depth-1, which is -1 for a position at depth 0: the loop is not entered *)
        do ok <- (match rp_depth r with 0 => Ok true | S dm1 => can_split_go (S (rp_depth r)) r dm1 base end);
        if negb ok then Ok false
        else
          do ia <- rp_index_after r base;
          do nb <- rp_node r base;
          do nb1 <- rp_node r (S base);
          can_replace_with s nb ia ia (node_ty s nb1) [].

(* structure.can_split(doc, pos, depth, types_after): the node types (with attributes) the split-off parts are to get,
   innermost last; an override replaces the first node of the part that is split off at that level *)
Fixpoint can_split_ta_go (fuel : nat) (r : rpos) (ta : list (nat * attrs)) (d base i : nat) : res bool :=
  match fuel with
  | 0 => Err ErrInternal
  | S fuel' =>
    if d <=? base then Ok true
    else
      do n <- rp_node r d;
      do index <- rp_index r d;
      if isolating n then Ok false
      else
        let rest0 := sub_list (node_content n) index (nchildren n) in
        do rest <- (match nth_error ta (S i) with
                    | Some (oty, oat) => do c <- type_create s oty oat [] []; Ok (replace_child rest0 0 c)
                    | None => Ok rest0
                    end);
        let after_ty := match nth_error ta i with Some (aty, _) => aty | None => node_ty s n end in
        do cr <- can_replace0 n (S index) (nchildren n);
        if negb cr || negb (valid_content s after_ty rest) then Ok false
        else can_split_ta_go fuel' r ta (d - 1) base (i - 1)
  end.

Definition can_split_ta (doc : node) (pos depth : nat) (ta : list (nat * attrs)) : res bool :=
  do r <- resolve s doc pos;
  if rp_depth r <? depth then Ok false
  else
    let base := rp_depth r - depth in
    do parent <- rp_parent r;
    do index <- rp_index r (rp_depth r);
    let inner_ty := match ta with [] => node_ty s parent | _ => fst (List.last ta (0, [])) end in
    if isolating parent then Ok false
    else
      do cr <- can_replace0 parent index (nchildren parent);
      if negb cr || negb (valid_content s inner_ty (sub_list (node_content parent) index (nchildren parent)))
      then Ok false
      else
        do ok <- (match rp_depth r with 0 => Ok true | S dm1 => can_split_ta_go (S (rp_depth r)) r ta dm1 base (depth - 2) end);
        if negb ok then Ok false
        else
          do ia <- rp_index_after r base;
          do nb <- rp_node r base;
          match ta with
          | (bty, _) :: _ => can_replace_with s nb ia ia bty []
          | [] => do nb1 <- rp_node r (S base); can_replace_with s nb ia ia (node_ty s nb1) []
          end.

(* structure.joinable / can_join *)
Definition joinable_nodes (a b : option node) : res bool :=
  match a, b with
  | Some x, Some y => if is_leaf_ty s (node_ty s x) then Ok false else can_append s x y
  | _, _ => Ok false
  end.

Definition can_join (doc : node) (pos : nat) : res (option bool) :=
  do r <- resolve s doc pos;
  do index <- rp_index r (rp_depth r);
  do nb <- rp_node_before s r;
  do na <- rp_node_after s r;
  do j <- joinable_nodes nb na;
  if j then do parent <- rp_parent r; do c <- can_replace0 parent index (S index); Ok (Some c)
  else Ok None.

(* structure.join_point(doc, pos, dir): dir_pos = (dir > 0) *)
Fixpoint join_point_go (fuel : nat) (r : rpos) (dir_pos : bool) (d : nat) (pos : nat) : res (option nat) :=
  match fuel with
  | 0 => Err ErrInternal
  | S fuel' =>
    do index0 <- rp_index r d;
    do nd <- rp_node r d;
    do bai <-
      (if d =? rp_depth r then
         do b <- rp_node_before s r; do a <- rp_node_after s r; Ok (b, a, index0)
       else if dir_pos then
         do b <- rp_node r (S d); Ok (Some b, child_at nd (S index0), S index0)
       else
         do a <- rp_node r (S d);
         Ok (match index0 with 0 => None | S i' => child_at nd i' end, Some a, index0));
    let '(before, after, index) := bai in
    do ok <-
      (match before with
       | Some b =>
         if is_textblock_ty s (node_ty s b) then Ok false
         else
           do j <- joinable_nodes before after;
           if j then can_replace0 nd index (S index) else Ok false
       | None => Ok false
       end);
    if ok then Ok (Some pos)
    else match d with
         | 0 => Ok None
         | S d' =>
           do pos' <- (if dir_pos then rp_after s r d else rp_before r d);
           join_point_go fuel' r dir_pos d' pos'
         end
  end.

Definition join_point (doc : node) (pos : nat) (dir_pos : bool) : res (option nat) :=
  do r <- resolve s doc pos;
  join_point_go (S (rp_depth r)) r dir_pos (rp_depth r) pos.

(* structure.insert_point(doc, pos, node_type); the loops return Some answer (a place, or None = give up)
   or None (ran out of ancestors: fall through) *)
Fixpoint insert_point_up (fuel : nat) (r : rpos) (ty : nat) (at_start : bool) (d : nat) : res (option (option nat)) :=
  match fuel with
  | 0 => Err ErrInternal
  | S fuel' =>
    do n <- rp_node r d;
    do index <- (if at_start then rp_index r d else rp_index_after r d);
    do c <- can_replace_with s n index index ty [];
    if c then (do p <- (if at_start then rp_before r (S d) else rp_after s r (S d)); Ok (Some (Some p)))
    else if (if at_start then 0 <? index else index <? nchildren n) then Ok (Some None)
    else match d with 0 => Ok None | S d' => insert_point_up fuel' r ty at_start d' end
  end.

Definition insert_point (doc : node) (pos ty : nat) : res (option nat) :=
  do r <- resolve s doc pos;
  do parent <- rp_parent r;
  do index <- rp_index r (rp_depth r);
  do c <- can_replace_with s parent index index ty [];
  if c then Ok (Some pos)
  else
    do first <- (if rp_parent_offset r =? 0 then
                   match rp_depth r with 0 => Ok None | S d' => insert_point_up (S (rp_depth r)) r ty true d' end
                 else Ok None);
    match first with
    | Some ans => Ok ans
    | None =>
      do second <- (if rp_parent_offset r =? fsize (node_content parent) then
                      match rp_depth r with 0 => Ok None | S d' => insert_point_up (S (rp_depth r)) r ty false d' end
                    else Ok None);
      match second with Some ans => Ok ans | None => Ok None end
    end.

(* ------------------------------------------------------------------ the step builders *)
(* Transform.split(pos, depth) without types_after *)
Fixpoint split_wrap (fuel : nat) (r : rpos) (d e : nat) (before after : list node) : res (list node * list node) :=
  match fuel with
  | 0 => Err ErrInternal
  | S fuel' =>
    if d <=? e then Ok (before, after)
    else
      do n <- rp_node r d;
      split_wrap fuel' r (d - 1) e [node_copy n before] [node_copy n after]
  end.

Definition split_step (doc : node) (pos depth : nat) : res step :=
  do r <- resolve s doc pos;
  if rp_depth r <? depth then Err ErrInternal
  else
    do ba <- split_wrap (S (rp_depth r)) r (rp_depth r) (rp_depth r - depth) [] [];
    let '(before, after) := ba in
    Ok (SReplace pos pos (SL (frag_append before after) depth depth) true).

(* Transform.join(pos, depth) *)
Definition join_step (pos depth : nat) : res step :=
  if pos <? depth then Err ErrInternal else Ok (SReplace (pos - depth) (pos + depth) slice_empty true).

(* Transform.lift(range, target) *)
Fixpoint lift_before (fuel : nat) (r : noderange) (d target : nat) (splitting : bool) (before : list node) (os start : nat)
  : res (list node * nat * nat) :=
  match fuel with
  | 0 => Err ErrInternal
  | S fuel' =>
    if d <=? target then Ok (before, os, start)
    else
      do idx <- rp_index (nr_from r) d;
      if splitting || (0 <? idx) then
        do n <- rp_node (nr_from r) d;
        lift_before fuel' r (d - 1) target true [node_copy n before] (S os) start
      else
        match start with
        | 0 => Err ErrInternal
        | S st' => lift_before fuel' r (d - 1) target false before os st'
        end
  end.

Fixpoint lift_after (fuel : nat) (r : noderange) (d target : nat) (splitting : bool) (after : list node) (oe end_ : nat)
  : res (list node * nat * nat) :=
  match fuel with
  | 0 => Err ErrInternal
  | S fuel' =>
    if d <=? target then Ok (after, oe, end_)
    else
      do a <- rp_after s (nr_to r) (S d);
      do e <- rp_end s (nr_to r) d;
      if splitting || (a <? e) then
        do n <- rp_node (nr_to r) d;
        lift_after fuel' r (d - 1) target true [node_copy n after] (S oe) end_
      else lift_after fuel' r (d - 1) target false after oe (S end_)
  end.

Definition lift_step (r : noderange) (target : nat) : res step :=
  do gap_start <- rp_before (nr_from r) (S (nr_depth r));
  do gap_end <- rp_after s (nr_to r) (S (nr_depth r));
  do b <- lift_before (S (nr_depth r)) r (nr_depth r) target false [] 0 gap_start;
  let '(before, os, start) := b in
  do a <- lift_after (S (nr_depth r)) r (nr_depth r) target false [] 0 gap_end;
  let '(after, oe, end_) := a in
  Ok (SReplaceAround start end_ gap_start gap_end (SL (frag_append before after) os oe) (fsize before - os) true).

(* Transform.wrap(range, wrappers): wrappers as (type, attrs); TransformError when a wrapper cannot hold the
   next one *)
Fixpoint wrap_content (ws : list (nat * attrs)) : res (list node) :=
  match ws with
  | [] => Ok []
  | (ty, a) :: rest =>
    do inner <- wrap_content rest;
    do _ <- (if negb (fsize inner =? 0) then
               match match_fragment s (nt_start (ntype_of s ty)) inner 0 (List.length inner) with
               | Some q => if valid_end s q then Ok tt else Err ErrTransform
               | None => Err ErrTransform
               end
             else Ok tt);
    do n <- type_create s ty a inner [];
    Ok [n]
  end.

Definition wrap_step (r : noderange) (ws : list (nat * attrs)) : res step :=
  do content <- wrap_content ws;
  do start <- nr_start r;
  do end_ <- nr_end r;
  Ok (SReplaceAround start end_ start end_ (SL content 0 0) (List.length ws) true).

End WithSchema.
