(* Correspondence runner for C07 (validity questions) *)
From Coq Require Import ZArith NArith List Bool Arith.
From PM Require Import Model.Data Model.Mark Model.Tree Proofs.ValidityProofs Corr.Common Corr.Tree.
Import ListNotations.

Inductive case :=
| CCanReplace (s : schema) (n : node) (from to : nat) (repl : list node) (start end_ : nat) (obs : res bool)
| CCanReplaceWith (s : schema) (n : node) (from to ty : nat) (ms : list mark) (obs : res bool)
| CCanAppend (s : schema) (n other : node) (obs : res bool)
| CCheck (s : schema) (n : node) (obs : bool)                       (* True = check() did not raise *)
| CValidContent (s : schema) (ty : nat) (cs : list node) (obs obs_create_checked : bool)
| CMatchAt (s : schema) (n : node) (index : nat) (obs : res nat)
(* the marks each node type allows, as the schema object holds them, are what the node specs declare
   (`marks` key; default: every mark for inline content, none otherwise) *)
| CSchemaMarks (s : schema).

Definition agree (c : case) : bool :=
  match c with
  | CCanReplace s n f t r st en obs => res_eqb Bool.eqb (can_replace s n f t r st en) obs
  | CCanReplaceWith s n f t ty ms obs => res_eqb Bool.eqb (can_replace_with s n f t ty ms) obs
  | CCanAppend s n o obs => res_eqb Bool.eqb (can_append s n o) obs
  | CCheck s n obs => Bool.eqb (check s n) obs
  | CValidContent s ty cs obs obs2 => Bool.eqb (valid_content s ty cs) obs && Bool.eqb (valid_content s ty cs) obs2
  | CMatchAt s n i obs => res_eqb Nat.eqb (content_match_at s n i) obs
  | CSchemaMarks s =>
    forallb (fun nt => match compile_markset (s_marks s) nt with
                       | Some r => opt_eqb (list_eqb Nat.eqb) r (nt_markset nt)
                       | None => false end) (s_nodes s)
  end.

(* the independent validator: Proofs.ValidityProofs.accepts / valid_children / valid *)
Definition prefix_ok (s : schema) (n : node) (from : nat) : bool :=
  match match_types s (node_start_state s n) (types_of s (firstn from (node_content n))) with Some _ => true | None => false end.

(* the schema as its node specs DECLARE it: every node type's allowed-mark set recomputed from the `marks` key, so that
   the predicates below judge the implementation's answers against the schema's definition of validity even when the
   compiled schema object holds something else *)
Definition declared_ntype (ms : list mtype) (nt : ntype) : ntype :=
  match compile_markset ms nt with
  | Some r =>
    {| nt_name := nt_name nt; nt_attrs := nt_attrs nt; nt_start := nt_start nt; nt_inline := nt_inline nt;
       nt_inline_content := nt_inline_content nt; nt_markset := r; nt_groups := nt_groups nt;
       nt_isolating := nt_isolating nt; nt_atom_spec := nt_atom_spec nt; nt_defining_ctx := nt_defining_ctx nt;
       nt_defining_content := nt_defining_content nt; nt_code := nt_code nt; nt_marks_spec := nt_marks_spec nt |}
  | None => nt
  end.
Definition declared (s : schema) : schema :=
  {| s_nodes := List.map (declared_ntype (s_marks s)) (s_nodes s); s_marks := s_marks s; s_states := s_states s;
     s_top := s_top s; s_text := s_text s |}.

Definition holds_on (c : case) : bool :=
  match c with
  | CCanReplace s n f t r st en obs =>
    if prefix_ok s n f then
      res_eqb Bool.eqb obs
        (Ok (accepts s (node_start_state s n)
               (types_of s (firstn f (node_content n) ++ sub_list r st en ++ skipn t (node_content n)))
             && forallb (fun c => allows_marks s (node_ty s n) (node_marks c)) (sub_list r st en)))
    else res_eqb Bool.eqb obs (Err ErrValue)
  | CCanReplaceWith s n f t ty ms obs =>
    if prefix_ok s n f then
      res_eqb Bool.eqb obs
        (Ok (forallb (fun m => allows_mark_type s (node_ty s n) (m_ty m)) ms &&
             accepts s (node_start_state s n)
               (types_of s (firstn f (node_content n)) ++ [ty] ++ types_of s (skipn t (node_content n)))))
    else match obs with Err ErrValue => true | Ok false => true | _ => false end
  | CCanAppend s n o obs =>
    if negb (frag_size s (node_content o) =? 0) then
      if prefix_ok s n (length (node_content n)) then
        res_eqb Bool.eqb obs
          (Ok (valid_children s (node_ty s n) (node_content n ++ node_content o)
               || (accepts s (node_start_state s n) (types_of s (node_content n ++ node_content o))
                   && forallb (fun c => allows_marks s (node_ty s n) (node_marks c)) (node_content o))))
      else res_eqb Bool.eqb obs (Err ErrValue)
    else is_ok obs
  | CCheck s n obs => Bool.eqb obs (valid s n)
  | CValidContent s ty cs obs obs2 => Bool.eqb obs (valid_children s ty cs) && Bool.eqb obs2 obs
  | CMatchAt s n i obs => Bool.eqb (is_ok obs) (prefix_ok s n i) && negb (is_internal obs)
  | CSchemaMarks s => true
  end.

Definition redeclare (c : case) : case :=
  match c with
  | CCanReplace s n f t r st en obs => CCanReplace (declared s) n f t r st en obs
  | CCanReplaceWith s n f t ty ms obs => CCanReplaceWith (declared s) n f t ty ms obs
  | CCanAppend s n o obs => CCanAppend (declared s) n o obs
  | CCheck s n obs => CCheck (declared s) n obs
  | CValidContent s ty cs obs obs2 => CValidContent (declared s) ty cs obs obs2
  | CMatchAt s n i obs => CMatchAt (declared s) n i obs
  | CSchemaMarks s => CSchemaMarks s
  end.
Definition holds (c : case) : bool := holds_on (redeclare c).
