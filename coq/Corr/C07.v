(* Correspondence runner for C07 (validity questions) *)
From Coq Require Import ZArith NArith List Bool Arith.
From PM Require Import Model.Data Model.Mark Model.Tree Proofs.ValidityProofs Corr.Common Corr.Tree.
Import ListNotations.

Inductive case :=
| CCanReplace (s : schema) (n : node) (from to : nat) (repl : list node) (start end_ : nat) (obs : res bool)
| CCanReplaceWith (s : schema) (n : node) (from to ty : nat) (ms : list mark) (obs : res bool)
| CCanAppend (s : schema) (n other : node) (obs : res bool)
| CCheck (s : schema) (n : node) (obs : bool)                       (* True = check() did not raise *)
| CValidContent (s : schema) (ty : nat) (cs : list node) (obs obs_create_checked : bool)
| CMatchAt (s : schema) (n : node) (index : nat) (obs : res nat).

Definition agree (c : case) : bool :=
  match c with
  | CCanReplace s n f t r st en obs => res_eqb Bool.eqb (can_replace s n f t r st en) obs
  | CCanReplaceWith s n f t ty ms obs => res_eqb Bool.eqb (can_replace_with s n f t ty ms) obs
  | CCanAppend s n o obs => res_eqb Bool.eqb (can_append s n o) obs
  | CCheck s n obs => Bool.eqb (check s n) obs
  | CValidContent s ty cs obs obs2 => Bool.eqb (valid_content s ty cs) obs && Bool.eqb (valid_content s ty cs) obs2
  | CMatchAt s n i obs => res_eqb Nat.eqb (content_match_at s n i) obs
  end.

(* the independent validator: Proofs.ValidityProofs.accepts / valid_children / valid *)
Definition prefix_ok (s : schema) (n : node) (from : nat) : bool :=
  match match_types s (node_start_state s n) (types_of s (firstn from (node_content n))) with Some _ => true | None => false end.

Definition holds (c : case) : bool :=
  match c with
  | CCanReplace s n f t r st en obs =>
    if prefix_ok s n f then
      res_eqb Bool.eqb obs
        (Ok (accepts s (node_start_state s n)
               (types_of s (firstn f (node_content n) ++ sub_list r st en ++ skipn t (node_content n)))
             && forallb (fun c => allows_marks s (node_ty s n) (node_marks c)) (sub_list r st en)))
    else res_eqb Bool.eqb obs (Err ErrValue)
  | CCanReplaceWith s n f t ty ms obs =>
    if prefix_ok s n f then
      res_eqb Bool.eqb obs
        (Ok (forallb (fun m => allows_mark_type s (node_ty s n) (m_ty m)) ms &&
             accepts s (node_start_state s n)
               (types_of s (firstn f (node_content n)) ++ [ty] ++ types_of s (skipn t (node_content n)))))
    else match obs with Err ErrValue => true | Ok false => true | _ => false end
  | CCanAppend s n o obs =>
    if negb (frag_size s (node_content o) =? 0) then
      if prefix_ok s n (length (node_content n)) then
        res_eqb Bool.eqb obs
          (Ok (valid_children s (node_ty s n) (node_content n ++ node_content o)
               || (accepts s (node_start_state s n) (types_of s (node_content n ++ node_content o))
                   && forallb (fun c => allows_marks s (node_ty s n) (node_marks c)) (node_content o))))
      else res_eqb Bool.eqb obs (Err ErrValue)
    else is_ok obs
  | CCheck s n obs => Bool.eqb obs (valid s n)
  | CValidContent s ty cs obs obs2 => Bool.eqb obs (valid_children s ty cs) && Bool.eqb obs2 obs
  | CMatchAt s n i obs => Bool.eqb (is_ok obs) (prefix_ok s n i) && negb (is_internal obs)
  end.
