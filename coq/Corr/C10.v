(* C10: the value-level part (history replays through the model; accumulators only append — theorem
   accumulators_append_only / history_replay) plus the frame monitor's verdict observed on the
   implementation (aliasing and in-place mutation are heap behaviour a value model cannot exhibit). *)
From Coq Require Import List Bool.
From PM Require Export Model.Data Model.Mark Model.Tree Model.Step Corr.Steps.
Import ListNotations.

Inductive case10 :=
| CFrame (s : schema) (doc : node) (hist : list applied) (final : node)
         (objects_unchanged accumulators_append_only : bool).

Definition case := case10.
Definition agree (c : case) : bool :=
  match c with CFrame s doc h final _ _ => agree_hist s doc h final end.
Definition holds (c : case) : bool :=
  match c with CFrame _ _ _ _ a b => a && b end.
