(* Correspondence runner for C15 (fill_before, create_and_fill, find_wrapping) *)
From Coq Require Import ZArith List Bool Arith.
From PM Require Export Model.Data Model.Mark Model.Tree Model.Step Model.Fill Corr.Common Corr.Tree.
From PM Require Import Proofs.FillComplete Proofs.WrapComplete.
Import ListNotations.

Inductive case :=
| CFill (s : schema) (q : nat) (after : list node) (to_end : bool) (start : nat) (obs : res (option (list node)))
| CCreateFill (s : schema) (ty : nat) (a : attrs) (content : list node) (ms : list mark) (obs : res (option node))
| CWrap (s : schema) (q target : nat) (obs : option (list nat)).

Definition fuel := 12.

Definition agree (c : case) : bool :=
  match c with
  | CFill s q after te st obs => res_eqb (opt_eqb frag_eqb) (fill_before s fuel q after te st) obs
  | CCreateFill s ty a content ms obs => res_eqb (opt_eqb node_eqb) (create_and_fill s fuel ty a content ms) obs
  | CWrap s q target obs => opt_eqb (list_eqb Nat.eqb) (find_wrapping s q target) obs
  end.

(* ---- independent statements of soundness / completeness ---- *)
Fixpoint dedup (l : list nat) : list nat :=
  match l with [] => [] | x :: r => if existsb (Nat.eqb x) r then dedup r else x :: dedup r end.

(* states reachable from q through generatable node types *)
Fixpoint gen_closure (s : schema) (fuel : nat) (frontier seen : list nat) : list nat :=
  match fuel with
  | 0 => seen
  | S f =>
    let next := dedup (flat_map (fun q => List.map snd (filter (fun e => generatable s (fst e)) (cs_next (state_of s q)))) frontier) in
    let fresh := filter (fun q => negb (existsb (Nat.eqb q) seen)) next in
    match fresh with [] => seen | _ => gen_closure s f fresh (seen ++ fresh) end
  end.

Definition rest_matches (s : schema) (after : list node) (te : bool) (st : nat) (q : nat) : bool :=
  match match_fragment s q after st (length after) with
  | Some qf => negb te || valid_end s qf
  | None => false
  end.

Definition fill_exists (s : schema) (q : nat) (after : list node) (te : bool) (st : nat) : bool :=
  existsb (rest_matches s after te st) (gen_closure s (S (length (s_states s))) [q] [q]).

Fixpoint subseq_nodes (small big : list node) : bool :=
  match small, big with
  | [], _ => true
  | _, [] => false
  | x :: small', y :: big' => if node_eqb x y then subseq_nodes small' big' else subseq_nodes small big'
  end.

(* wrapper chains level by level *)
Fixpoint wrap_levels (s : schema) (fuel : nat) (target : nat) (level : list nat) (k : nat) (initial : bool) : option nat :=
  match fuel with
  | 0 => None
  | S f =>
    if existsb (fun q => match match_type s q target with Some _ => true | None => false end) level then Some k
    else
      let next := dedup (flat_map (fun q =>
        flat_map (fun e => let '(t, nx) := e in
          if negb (is_leaf_ty s t) && negb (has_required_attrs (nt_attrs (ntype_of s t))) && (initial || valid_end s nx)
          then [nt_start (ntype_of s t)] else []) (cs_next (state_of s q))) level) in
      match next with [] => None | _ => wrap_levels s f target next (S k) false end
  end.

Fixpoint chain_ok (s : schema) (q : nat) (chain : list nat) (target : nat) (initial : bool) : bool :=
  match chain with
  | [] => match match_type s q target with Some _ => true | None => false end
  | w :: rest =>
    match match_type s q w with
    | Some nx =>
      (initial || valid_end s nx) && negb (is_leaf_ty s w) && negb (has_required_attrs (nt_attrs (ntype_of s w)))
      && chain_ok s (nt_start (ntype_of s w)) rest target false
    | None => false
    end
  end.

(* the hypotheses of the completeness theorems (Properties/C15.v), evaluated on the dumped schema *)
Definition table_closed (s : schema) : bool := closed_schema s && closed_types s.

Definition holds (c : case) : bool :=
  match c with
  | CFill s q after te st obs =>
    table_closed s && Nat.ltb q (length (s_states s)) &&
    match obs with
    | Ok (Some fill) =>
      forallb (fun n => generatable s (node_ty s n)) fill &&
      rest_matches s (fill ++ skipn st after) te 0 q
    | Ok None => negb (fill_exists s q after te st)
    | Err _ => false
    end
  | CCreateFill s ty a content ms obs =>
    match obs with
    | Ok (Some n) =>
      Nat.eqb (node_ty s n) ty &&
      (match match_fragment s (nt_start (ntype_of s ty)) (node_content n) 0 (length (node_content n)) with
       | Some qf => valid_end s qf | None => false end) &&
      subseq_nodes content (node_content n)
    | Ok None => true
    | Err e => err_eqb e ErrValue     (* required attribute missing *)
    end
  | CWrap s q target obs =>
    table_closed s &&
    let best := wrap_levels s (S (S (length (s_nodes s)))) target [q] 0 true in
    match obs with
    | Some chain => chain_ok s q chain target true && opt_eqb Nat.eqb best (Some (length chain))
    | None => match best with None => true | Some _ => false end
    end
  end.
