(* C16: step-level runner; case type and model agreement shared in Corr/Steps.v *)
From PM Require Export Model.Step Corr.Steps.
Definition holds := holds_C16.
