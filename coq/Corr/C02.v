(* Correspondence runner for C02: slice / replace / cut against the flat-token law *)
From Coq Require Import ZArith NArith List Bool Arith.
From PM Require Import Model.Data Model.Mark Model.Tree Spec.Tokens Corr.Common Corr.Tree.
Import ListNotations.

Inductive case :=
| CSlice (s : schema) (doc : node) (from to : nat) (obs : res slice) (obs_size : Z)
| CReplace (s : schema) (doc : node) (from to : nat) (sl : slice) (valid_inputs same_doc_slice : bool) (obs : res node)
| CFragCut (s : schema) (l : list node) (from to : nat) (obs : res (list node))
| CNodeCut (s : schema) (n : node) (from to : nat) (obs : res node).

Definition agree (c : case) : bool :=
  match c with
  | CSlice s doc from to obs osz =>
    res_eqb slice_eqb (node_slice s doc from to) obs &&
    (match obs with Ok sl => Z.eqb (slice_size s sl) osz | _ => true end)
  | CReplace s doc from to sl _ _ obs => res_eqb node_eqb (node_replace s doc from to sl) obs
  | CFragCut s l from to obs => res_eqb frag_eqb (frag_cut s l from to) obs
  | CNodeCut s n from to obs => res_eqb node_eqb (node_cut s n from to) obs
  end.

Definition sub {A} (l : list A) (from to : nat) : list A := firstn (to - from) (skipn from l).

(* a position is on a code-point boundary unless it points at the second unit of a surrogate pair *)
Definition on_boundary (T : list tok) (p : nat) : bool :=
  match nth_error T p with Some (TChar (ULo _) _) => false | _ => true end.

Definition err_ok (T : list tok) (from to : nat) (e : err) (allow_replace_error : bool) : bool :=
  match e with
  | ErrValue => negb (on_boundary T from && on_boundary T to)   (* splitting a surrogate pair is rejected *)
  | ErrReplace => allow_replace_error
  | _ => false
  end.

Definition holds (c : case) : bool :=
  match c with
  | CSlice s doc from to obs osz =>
    let T := ftoks s (node_content doc) in
    match obs with
    | Ok sl =>
      toks_eqb (inner_toks s sl) (sub T from to) &&
      Z.eqb osz (Z.of_nat (to - from)) &&
      (if from =? to then true else
       let d := min_depth T from (to - from) in
       Nat.eqb (sl_open_start sl) (depth_at T from - d) && Nat.eqb (sl_open_end sl) (depth_at T to - d))
    | Err e => err_ok T from to e false
    end
  | CReplace s doc from to sl valid_inputs same obs =>
    let T := ftoks s (node_content doc) in
    match obs with
    | Ok d' =>
      toks_eqb (ftoks s (node_content d')) (firstn from T ++ inner_toks s sl ++ skipn to T) &&
      same_markup doc d' &&
      Z.eqb (Z.of_nat (frag_size s (node_content d')))
            (Z.of_nat (frag_size s (node_content doc)) + slice_size s sl - Z.of_nat (to - from)) &&
      (if valid_inputs then normalized d' && check s d' else true) &&
      (if same then node_eqb d' doc else true)
    | Err e =>
      (* a slice whose open depths exceed its content (valid_inputs = false: built by hand, Slice() checks nothing) may be
         refused with either error class; an internal error or a wrong document never is acceptable *)
      err_ok T from to e (negb same) ||
      (negb valid_inputs && match e with ErrValue | ErrReplace => true | _ => false end)
    end
  | CFragCut s l from to obs =>
    match obs with
    | Ok l' =>
      (* the cut keeps the tokens of the range, closing/opening the nodes it cuts through *)
      let T := ftoks s l in
      toks_eqb (leaves (ftoks s l')) (leaves (sub T from to)) &&
      Nat.eqb (length (filter (fun t => match t with TOpen _ _ _ => false | TClose => false | _ => true end) (ftoks s l')))
              (length (leaves (sub T from to)))
    | Err e => err_ok (ftoks s l) from to e false
    end
  | CNodeCut s n from to obs =>
    match obs with
    | Ok n' => same_markup n n' &&
               toks_eqb (leaves (ftoks s (node_content n'))) (leaves (sub (ftoks s (node_content n)) from to))
               || node_is_text n
    | Err e => err_ok (ftoks s (node_content n)) from to e false
    end
  end.
