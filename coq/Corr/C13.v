(* C13: step-level runner; case type and model agreement shared in Corr/Steps.v, plus the node-markup case *)
From Coq Require Import List Bool Arith.
From PM Require Export Model.Step Corr.Steps.
From PM Require Import Model.Data Model.Mark Model.Tree Model.Resolve Spec.Tokens Corr.Common.
Import ListNotations.

(* Transform.set_node_markup(pos, type, attrs, marks): [given] = the marks argument (None, or a list), [hist] the steps it
   recorded.  The node's own marks afterwards are the given ones (sorted) when a non-empty list was given, and the marks
   the node had otherwise - "marks unrelated to the operation are unchanged". *)
Inductive case :=
| CStepCase (c : Corr.Steps.case)
| CMarkup (s : schema) (doc : node) (pos : nat) (given : option (list mark)) (hist : list applied) (final : node).
Coercion CStepCase : Corr.Steps.case >-> case.

Definition agree (c : case) : bool :=
  match c with
  | CStepCase c' => Corr.Steps.agree c'
  | CMarkup s doc _ _ h final => agree_hist s doc h final
  end.

Definition holds (c : case) : bool :=
  match c with
  | CStepCase c' => holds_C13 c'
  | CMarkup s doc pos given h final =>
    match h with
    | [] => true            (* the operation was refused *)
    | _ =>
      match node_at s (S (node_size s doc)) doc pos, node_at s (S (node_size s final)) final pos with
      | Ok (Some old), Ok (Some new) =>
        match given with
        | Some (m :: r) =>
          (* given marks the parent does not allow are filtered out / refused downstream (C11, C01): judged only when allowed *)
          match resolve s doc pos with
          | Ok rp => match rp_parent rp with
                     | Ok parent => if allows_marks s (node_ty s parent) (m :: r)
                                    then marks_eqb (node_marks new) (set_from (m :: r)) else true
                     | Err _ => false end
          | Err _ => false
          end
        | _ => marks_eqb (node_marks new) (node_marks old)
        end
      | _, _ => false
      end
    end
  end.
