(* Shared helpers for correspondence case files *)
From Coq Require Import ZArith List Bool.
Import ListNotations.

Fixpoint failing_go {A} (f : A -> bool) (l : list A) (i : nat) : list nat :=
  match l with
  | [] => []
  | x :: rest => if f x then failing_go f rest (S i) else i :: failing_go f rest (S i)
  end.
Definition failing {A} (f : A -> bool) (l : list A) : list nat := failing_go f l 0.

Definition opt_eqb {A} (eqb : A -> A -> bool) (a b : option A) : bool :=
  match a, b with
  | Some x, Some y => eqb x y
  | None, None => true
  | _, _ => false
  end.

Fixpoint list_eqb {A} (eqb : A -> A -> bool) (a b : list A) : bool :=
  match a, b with
  | [], [] => true
  | x :: a', y :: b' => eqb x y && list_eqb eqb a' b'
  | _, _ => false
  end.

Fixpoint zrange (lo : Z) (n : nat) : list Z :=
  match n with O => [] | S n' => lo :: zrange (lo + 1) n' end.

Fixpoint nrange (lo : nat) (n : nat) : list nat :=
  match n with O => [] | S n' => lo :: nrange (S lo) n' end.

Fixpoint all2 {A B} (f : A -> B -> bool) (a : list A) (b : list B) : bool :=
  match a, b with
  | x :: a', y :: b' => f x y && all2 f a' b'
  | [], [] => true
  | _, _ => false
  end.
