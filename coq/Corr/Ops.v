(* High-level transform operations (C11, C12, C18): the operation itself runs on the implementation; the
   steps it emitted are replayed through the model (agreement), and the property predicates are evaluated
   on the observed documents against the flat-token picture. *)
From Coq Require Import ZArith NArith List Bool Arith.
From PM Require Export Model.Data Model.Mark Model.Tree Model.Resolve Spec.Tokens Model.Step Model.StructOps Model.DropPoint Model.Fitter Model.RangeOps Corr.Common Corr.Tree Corr.Steps.
Import ListNotations.
Local Open Scope nat_scope.

(* queries to the modelled structure helpers and step builders (Model.StructOps) *)
Inductive squery :=
| QCanSplit (pos depth : nat)
| QCanJoin (pos : nat)
| QJoinPoint (pos : nat) (dir_pos : bool)
| QInsertPoint (pos ty : nat)
| QLiftTarget (from to depth : nat)
| QSplit (pos depth : nat)
| QJoin (pos depth : nat)
| QLift (from to depth target : nat)
| QWrap (from to depth : nat) (ws : list (nat * attrs))
(* transform/replace.py: replace_step(doc, from, to, slice) — the fitter *)
| QReplaceStep (from to : nat) (sl : slice)
(* Transform.delete_range(from, to): the step it records (None: no step) *)
| QDeleteRange (from to : nat)
(* Transform.replace_range(from, to, slice): the step it records *)
| QReplaceRange (from to : nat) (sl : slice)
(* structure.drop_point(doc, pos, slice) *)
| QDropPoint (pos : nat) (sl : slice)
(* structure.can_split(doc, pos, depth, types_after) *)
| QCanSplitTA (pos depth : nat) (ta : list (nat * attrs)).

Inductive sanswer :=
| ABool (b : bool)
| AOptBool (o : option bool)
| AOptNat (o : option nat)
| AStep (st : step)
| AOptStep (o : option step)
| AErr (e : err).

Definition sanswer_eqb (a b : sanswer) : bool :=
  match a, b with
  | ABool x, ABool y => Bool.eqb x y
  | AOptBool x, AOptBool y => opt_eqb Bool.eqb x y
  | AOptNat x, AOptNat y => opt_eqb Nat.eqb x y
  | AStep x, AStep y => step_eqb x y
  | AOptStep x, AOptStep y => opt_eqb step_eqb x y
  | AErr x, AErr y => err_eqb x y
  | _, _ => false
  end.

Definition of_res {A} (f : A -> sanswer) (r : res A) : sanswer := match r with Ok a => f a | Err e => AErr e end.

(* an operation = its step, handed to Transform.step, which raises TransformError when the step fails *)
Definition run_built (s : schema) (doc : node) (r : res step) : sanswer :=
  match r with
  | Err e => AErr e
  | Ok st => match apply s st doc with ROk _ => AStep st | RFail => AErr ErrTransform | RErr e => AErr e end
  end.

Definition run_planned (s : schema) (doc : node) (r : res (option step)) : sanswer :=
  match r with
  | Err e => AErr e
  | Ok None => AOptStep None
  | Ok (Some st) => match apply s st doc with ROk _ => AOptStep (Some st) | RFail => AErr ErrTransform | RErr e => AErr e end
  end.

Definition mk_range (s : schema) (doc : node) (from to depth : nat) : res noderange :=
  do rf <- resolve s doc from; do rt <- resolve s doc to; Ok {| nr_from := rf; nr_to := rt; nr_depth := depth |}.

Definition model_answer (s : schema) (doc : node) (q : squery) : sanswer :=
  match q with
  | QCanSplit pos depth => of_res ABool (can_split s doc pos depth)
  | QCanJoin pos => of_res AOptBool (can_join s doc pos)
  | QJoinPoint pos d => of_res AOptNat (join_point s doc pos d)
  | QInsertPoint pos ty => of_res AOptNat (insert_point s doc pos ty)
  | QLiftTarget from to depth => of_res AOptNat (do r <- mk_range s doc from to depth; lift_target s r)
  | QSplit pos depth => run_built s doc (split_step s doc pos depth)
  | QJoin pos depth => run_built s doc (join_step pos depth)
  | QLift from to depth target => run_built s doc (do r <- mk_range s doc from to depth; lift_step s r target)
  | QWrap from to depth ws => run_built s doc (do r <- mk_range s doc from to depth; wrap_step s r ws)
  | QReplaceStep from to sl => of_res AOptStep (replace_step s doc from to sl)
  | QDeleteRange from to => run_planned s doc (delete_range_step s doc from to)
  | QReplaceRange from to sl => of_res AOptStep (replace_range_step s doc from to sl)
  | QDropPoint pos sl => of_res AOptNat (drop_point s doc pos sl)
  | QCanSplitTA pos depth ta => of_res ABool (can_split_ta s doc pos depth ta)
  end.

Inductive opcase :=
(* replace-family operation on [from,to) inserting [inserted] (the slice's / node's inner tokens come from it);
   outcome: crashed (exception other than nothing), or history + final *)
| CReplaceOp (s : schema) (doc : node) (from to : nat) (inserted : slice) (is_delete : bool)
             (crashed : bool) (hist : list applied) (final : node)
(* a structure helper said yes (approved) and the edit was then performed *)
| CHelper (s : schema) (doc : node) (helper_crashed approved result_in_range : bool)
          (performed_ok structure_only : bool) (hist : list applied) (final : node)
(* an edit whose range lies inside an isolating node spanning tokens [open_idx, close_idx] *)
| CIso (s : schema) (doc : node) (open_idx close_idx : nat) (crashed : bool) (hist : list applied) (final : node)
(* a query to a modelled structure helper / step builder and the implementation's answer *)
| CStruct (s : schema) (doc : node) (q : squery) (answer : sanswer).

Definition case := opcase.

Definition agree (c : case) : bool :=
  match c with
  | CReplaceOp s doc _ _ _ _ _ h final | CHelper s doc _ _ _ _ _ h final | CIso s doc _ _ _ h final =>
    agree_hist s doc h final
  | CStruct s doc q ans => sanswer_eqb (model_answer s doc q) ans
  end.

Definition dtoks (s : schema) (d : node) := ftoks s (node_content d).

(* marks may only be dropped from inserted content *)
Definition marks_subset (a b : list mark) : bool := forallb (fun m => existsb (mark_eqb m) b) a.

Definition leaf_from (s : schema) (x y : tok) : bool :=
  (* x (in the result) stems from y (in the inserted slice) *)
  match x, y with
  | TChar u m, TChar u' m' => unit_eqb u u' && marks_subset m m'
  | TLeaf t a m, TLeaf t' a' m' => Nat.eqb t t' && attrs_eqb a a' && marks_subset m m'
  | _, _ => false
  end.

(* mid is an in-order subsequence of src; extra tokens are allowed only if they are block-level leaf
   fillers the schema requires (never text, never inline leaves) *)
Fixpoint find_from (s : schema) (x : tok) (src : list tok) : option (list tok) :=
  match src with
  | [] => None
  | y :: src' => if leaf_from s x y then Some src' else find_from s x src'
  end.

Definition is_filler (s : schema) (x : tok) : bool :=
  match x with TLeaf t _ _ => negb (is_inline_ty s t) | _ => false end.

(* mid is an in-order subsequence of src, except that block-level leaf fillers the schema requires may
   appear anywhere (a token that could be either is tried both ways) *)
Fixpoint subseq_mod (s : schema) (mid src : list tok) : bool :=
  match mid with
  | [] => true
  | x :: mid' =>
    (* [if], not [||]: under call-by-value evaluation both arguments of [orb] would be computed, which is
       exponential in the length of mid *)
    if (match find_from s x src with Some rest => subseq_mod s mid' rest | None => false end) then true
    else if is_filler s x then subseq_mod s mid' src else false
  end.

(* peel the content that followed the range off the end of the result: matched greedily from the end;
   non-text leaves found in between (inserted or filler leaves that ended up after moved inline content)
   are handed back as extras; any text in between stops the peeling *)
Fixpoint peel_post (s : schema) (Rr postr : list tok) (extras : list tok) : option (list tok * list tok) :=
  match postr with
  | [] => Some (Rr, extras)
  | p :: postr' =>
    match Rr with
    | [] => None
    | x :: Rr' =>
      if tok_eqb x p then peel_post s Rr' postr' extras
      else match x with
           | TLeaf _ _ _ => peel_post s Rr' postr (x :: extras)
           | _ => None
           end
    end
  end.

Definition holds_C11 (c : case) : bool :=
  match c with
  | CReplaceOp s doc from to ins is_delete crashed h final =>
    negb crashed &&
    hist_valid s h && check s final &&
    let T := dtoks s doc in let T' := dtoks s final in
    let pre := leaves (firstn from T) in let post := leaves (skipn to T) in
    let L' := leaves T' in
    (* content before the range: untouched prefix *)
    (length pre <=? length L') && toks_eqb (firstn (length pre) L') pre &&
    (* content after the range: still there, in order, unmodified, at the end *)
    match peel_post s (rev (skipn (length pre) L')) (rev post) [] with
    | None => false
    | Some (Ar, extras) =>
      let mid := rev Ar ++ extras in
      (* what lies between: only content of the inserted slice (marks possibly dropped) and required fillers *)
      if is_delete then subseq_mod s mid [] else subseq_mod s mid (leaves (inner_toks s ins))
    end
  | _ => true
  end.

Definition holds_C12 (c : case) : bool :=
  match c with
  | CHelper s doc hcrash approved in_range performed structure_only h final =>
    negb hcrash && in_range &&
    (if approved then
       performed && hist_valid s h && check s final &&
       (if structure_only then toks_eqb (leaves (dtoks s final)) (leaves (dtoks s doc)) else true)
     else true)
  | _ => true
  end.

Definition holds_C18 (c : case) : bool :=
  match c with
  | CIso s doc oi ci crashed h final =>
    let T := dtoks s doc in let T' := dtoks s final in
    let k := length T - ci in
    (* everything up to and including the isolating node's open token, and everything from its close token on *)
    toks_eqb (firstn (S oi) T') (firstn (S oi) T) &&
    (k <=? length T') && toks_eqb (skipn (length T' - k) T') (skipn ci T) &&
    (* the close found in the result really is the close of that same node: nesting depth matches *)
    Nat.eqb (depth_at T' (length T' - k)) (depth_at T ci)
  | _ => true
  end.
