(* Correspondence runner for C14 (mark sets) *)
From Coq Require Import ZArith NArith List Bool String.
From PM Require Import Model.Data Model.Mark Corr.Common.
Import ListNotations.

Inductive sop := SAdd (m : mark) | SRemove (m : mark) | SRemoveType (t : nat).

Definition apply_sop (s : schema) (set : list mark) (o : sop) : list mark :=
  match o with
  | SAdd m => add_to_set s m set
  | SRemove m => remove_from_set m set
  | SRemoveType t => type_remove_from_set t set
  end.

Fixpoint run_sops (s : schema) (set : list mark) (ops : list sop) : list (list mark) :=
  match ops with
  | [] => []
  | o :: rest => let set' := apply_sop s set o in set' :: run_sops s set' rest
  end.

Definition olist_eqb {A} (eqb : A -> A -> bool) := opt_eqb (list_eqb eqb).

Inductive case :=
(* schema, ops from the empty set, the implementation's set after each op *)
| COps (s : schema) (ops : list sop) (obs : list (list mark))
(* allowed_marks / allows_marks of every node type on a set; is_in_set / same_set probes *)
| CAllowed (s : schema) (set : list mark) (obs_allowed : list (list mark)) (obs_allows : list bool)
| CQuery (s : schema) (a bset : list mark) (m : mark) (obs_same : bool) (obs_in : bool)
         (obs_type_in : option mark) (obs_set_from : list mark)
(* compiled exclusion lists and mark sets: observed values are inside the schema term itself *)
| CCompile (s : schema).

Definition sorted_rankb (l : list mark) : bool :=
  (fix go (l : list mark) : bool :=
     match l with
     | a :: ((b :: _) as r) => Nat.leb (m_ty a) (m_ty b) && go r
     | _ => true
     end) l.

Fixpoint nodupb (l : list mark) : bool :=
  match l with
  | [] => true
  | x :: r => negb (existsb (mark_eqb x) r) && nodupb r
  end.

Definition mem (m : mark) (l : list mark) : bool := existsb (mark_eqb m) l.

(* the statement of C14 about one addition, evaluated on (before, after) as observed *)
Definition add_ok (s : schema) (m : mark) (before after : list mark) : bool :=
  let equal_present := mem m before in
  let excluder_present := existsb (fun o => negb (excludes s (m_ty m) (m_ty o)) && excludes s (m_ty o) (m_ty m)) before in
  if equal_present || excluder_present then marks_eqb after before
  else
    (* exactly the excluded marks removed, the others kept in order, m inserted at its rank *)
    marks_eqb (filter (fun o => negb (mark_eqb o m)) after)
              (filter (fun o => negb (excludes s (m_ty m) (m_ty o))) before)
    && mem m after && sorted_rankb after.

Fixpoint ops_ok (s : schema) (before : list mark) (ops : list sop) (obs : list (list mark)) : bool :=
  match ops, obs with
  | [], [] => true
  | o :: ops', after :: obs' =>
    (match o with
     | SAdd m => add_ok s m before after
     | SRemove m => marks_eqb after (filter (fun x => negb (mark_eqb x m)) before)
     | SRemoveType t => marks_eqb after (filter (fun x => negb (Nat.eqb (m_ty x) t)) before)
     end)
    && sorted_rankb after && nodupb after && ops_ok s after ops' obs'
  | _, _ => false
  end.

Definition agree (c : case) : bool :=
  match c with
  | COps s ops obs => list_eqb marks_eqb (run_sops s [] ops) obs
  | CAllowed s set oa ob =>
    let nts := nrange 0 (List.length (s_nodes s)) in
    list_eqb marks_eqb (List.map (fun nt => allowed_marks s nt set) nts) oa &&
    list_eqb Bool.eqb (List.map (fun nt => allows_marks s nt set) nts) ob
  | CQuery s a bset m osame oin otin osf =>
    Bool.eqb (same_set a bset) osame && Bool.eqb (is_in_set m a) oin &&
    opt_eqb mark_eqb (type_is_in_set (m_ty m) a) otin &&
    marks_eqb (set_from a) osf
  | CCompile s =>
    let ms := s_marks s in
    forallb (fun im => match compile_excluded ms (fst im) (snd im) with
                       | Some l => list_eqb Nat.eqb l (mt_excluded (snd im))
                       | None => false end)
            (combine (nrange 0 (List.length ms)) ms) &&
    forallb (fun nt => match compile_markset ms nt with
                       | Some r => olist_eqb Nat.eqb r (nt_markset nt)
                       | None => false end) (s_nodes s)
  end.

Definition holds (c : case) : bool :=
  match c with
  | COps s ops obs => ops_ok s [] ops obs
  | CAllowed s set oa ob =>
    let nts := nrange 0 (List.length (s_nodes s)) in
    list_eqb marks_eqb oa
      (List.map (fun nt => filter (fun m => allows_mark_type s nt (m_ty m)) set) nts) &&
    list_eqb Bool.eqb ob
      (List.map (fun nt => forallb (fun m => allows_mark_type s nt (m_ty m)) set) nts)
  | CQuery s a bset m osame oin otin osf =>
    Bool.eqb osame (marks_eqb a bset) && Bool.eqb oin (mem m a) &&
    (* set_from: a stable sort: same multiset in rank order *)
    sorted_rankb osf && Nat.eqb (List.length osf) (List.length a) && forallb (fun x => mem x osf) a
  | CCompile s =>
    (* default exclusion is the type itself; "" excludes nothing; "_" excludes everything *)
    forallb (fun im =>
      match mt_excludes_spec (snd im) with
      | None => list_eqb Nat.eqb (mt_excluded (snd im)) [fst im]
      | Some [] => list_eqb Nat.eqb (mt_excluded (snd im)) []
      | Some ["_"%string] => list_eqb Nat.eqb (mt_excluded (snd im)) (nrange 0 (List.length (s_marks s)))
      | Some _ => true
      end) (combine (nrange 0 (List.length (s_marks s))) (s_marks s))
  end.
