(* decidable comparisons of model results, shared by the tree-level runners *)
From Coq Require Import ZArith NArith List Bool Arith.
From PM Require Import Model.Data Model.Mark Model.Tree Corr.Common.
Import ListNotations.

Definition res_eqb {A} (eqb : A -> A -> bool) (a b : res A) : bool :=
  match a, b with
  | Ok x, Ok y => eqb x y
  | Err e, Err e' => err_eqb e e'
  | _, _ => false
  end.

Definition slice_eqb (a b : slice) : bool :=
  frag_eqb (sl_content a) (sl_content b) && Nat.eqb (sl_open_start a) (sl_open_start b)
  && Nat.eqb (sl_open_end a) (sl_open_end b).

Definition is_ok {A} (r : res A) : bool := match r with Ok _ => true | Err _ => false end.
Definition is_internal {A} (r : res A) : bool := match r with Err ErrInternal => true | _ => false end.
