From PM Require Export Corr.Ops.
Definition holds := holds_C11.
