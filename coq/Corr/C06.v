(* Correspondence runner for C06: each case is one content expression; the kernel evaluates the verified
   certificate checker [equiv_check] against the automaton the implementation compiled. *)
From Coq Require Import List Bool Arith.
From PM Require Export Model.Data Model.Tree Spec.Regex Corr.Common.
Import ListNotations.

Inductive case :=
(* the schema as compiled by the implementation; the node type carrying the expression; the expression *)
| CExpr (s : schema) (ty : nat) (e : re)
(* dead-end rule: gen = generatable node types; observed: did Schema(...) reject the expression? *)
| CDeadEnd (ntypes : nat) (gen : list nat) (e : re) (rejected : bool)
(* syntactically / referentially malformed expressions: expected and observed rejection *)
| CReject (expected observed : bool).

Definition fuel := 100 * 200.  (* worklist steps; the exploration stops as soon as the worklist is empty, and running out of fuel makes the check FAIL *)

Definition expr_ok (s : schema) (ty : nat) (e : re) : bool :=
  equiv_check s (nrange 0 (List.length (s_nodes s))) fuel e (nt_start (ntype_of s ty)).

(* derivative classes reachable from e (no automaton involved) *)
Fixpoint explore_re (alphabet : list nat) (fuel : nat) (todo seen : list re) : list re :=
  match fuel with
  | 0 => seen
  | S f =>
    match todo with
    | [] => seen
    | e :: rest =>
      if existsb (re_eqb e) seen || empty_lang e then explore_re alphabet f rest seen
      else explore_re alphabet f (rest ++ List.map (fun t => deriv t e) alphabet) (e :: seen)
    end
  end.

Definition dead_end_free (ntypes : nat) (gen : list nat) (e : re) : bool :=
  let alphabet := nrange 0 ntypes in
  forallb (fun e' => nullable e' ||
                     existsb (fun t => existsb (Nat.eqb t) gen && negb (empty_lang (deriv t e'))) alphabet)
          (explore_re alphabet fuel [e] []).

Definition agree (c : case) : bool :=
  match c with
  | CExpr s ty e => expr_ok s ty e
  | CDeadEnd n gen e rejected => Bool.eqb rejected (negb (dead_end_free n gen e))
  | CReject expected observed => Bool.eqb expected observed
  end.
Definition holds := agree.
