(* Correspondence runner for C09 (resolve and traversal) *)
From Coq Require Import ZArith NArith List Bool Arith.
From PM Require Import Model.Data Model.Mark Model.Tree Spec.Tokens Spec.TokenPos Model.Resolve Corr.Common Corr.Tree.
Import ListNotations.

(* one ancestor level as observed: node type, node size, child count, index, start, end,
   before/after (None at depth 0 = ValueError), index_after *)
Record olevel := { ol_ty : nat; ol_size : nat; ol_count : nat; ol_index : nat; ol_start : nat; ol_end : nat;
                   ol_before : option nat; ol_after : option nat; ol_index_after : nat;
                   ol_pos_at_index : nat (* pos_at_index(index(d), d) *) }.
Notation OL := Build_olevel.

Record oresolve := { or_levels : list olevel; or_parent_offset : nat; or_text_offset : nat;
                     or_after : option node; or_before : option node; or_marks : list mark }.
Notation OR := Build_oresolve.

Record ovisit := { ov_ty : nat; ov_pos : nat; ov_index : nat; ov_parent_ty : option nat; ov_size : nat }.
Notation OV := Build_ovisit.

Inductive case :=
| CResolve (s : schema) (doc : node) (p : nat) (obs : res oresolve)
| CPair (s : schema) (doc : node) (p q : nat) (shared : nat)
        (brange : option (nat * nat * nat * nat * nat))  (* depth, start, end, start_index, end_index *)
        (across : option (list mark)) (same_parent : bool)
| CNodeAt (s : schema) (doc : node) (p : nat) (obs_at : res (option node))
          (obs_after obs_before : res (option node * nat * nat))
| CBetween (s : schema) (doc : node) (from to : nat) (prune_ty : nat)
           (visits pruned : list ovisit) (m : mark) (has_mark has_type : bool)
           (sep leaf : list N) (text : list N).

Definition olevel_eqb (a b : olevel) : bool :=
  Nat.eqb (ol_ty a) (ol_ty b) && Nat.eqb (ol_size a) (ol_size b) && Nat.eqb (ol_count a) (ol_count b) &&
  Nat.eqb (ol_index a) (ol_index b) && Nat.eqb (ol_start a) (ol_start b) && Nat.eqb (ol_end a) (ol_end b) &&
  opt_eqb Nat.eqb (ol_before a) (ol_before b) && opt_eqb Nat.eqb (ol_after a) (ol_after b) &&
  Nat.eqb (ol_index_after a) (ol_index_after b) && Nat.eqb (ol_pos_at_index a) (ol_pos_at_index b).

Definition res_opt {A} (r : res A) : option A := match r with Ok a => Some a | Err _ => None end.
Definition res_or {A} (r : res A) (d : A) : A := match r with Ok a => a | Err _ => d end.

Definition model_level (s : schema) (r : rpos) (d : nat) : olevel :=
  let n := res_or (rp_node r d) dummy_node in
  let i := res_or (rp_index r d) 0 in
  {| ol_ty := node_ty s n; ol_size := node_size s n; ol_count := length (node_content n);
     ol_index := i; ol_start := res_or (rp_start r d) 0; ol_end := res_or (rp_end s r d) 0;
     ol_before := res_opt (rp_before r d); ol_after := res_opt (rp_after s r d);
     ol_index_after := res_or (rp_index_after r d) 0;
     ol_pos_at_index := res_or (rp_pos_at_index s r i d) 0 |}.

Definition model_resolve (s : schema) (doc : node) (p : nat) : res oresolve :=
  do r <- resolve s doc p;
  do na <- rp_node_after s r;
  do nb <- rp_node_before s r;
  do ms <- rp_marks s r;
  Ok {| or_levels := List.map (model_level s r) (nrange 0 (S (rp_depth r)));
        or_parent_offset := rp_parent_offset r; or_text_offset := rp_text_offset r;
        or_after := na; or_before := nb; or_marks := ms |}.

Definition oresolve_eqb (a b : oresolve) : bool :=
  list_eqb olevel_eqb (or_levels a) (or_levels b) && Nat.eqb (or_parent_offset a) (or_parent_offset b) &&
  Nat.eqb (or_text_offset a) (or_text_offset b) && opt_eqb node_eqb (or_after a) (or_after b) &&
  opt_eqb node_eqb (or_before a) (or_before b) && marks_eqb (or_marks a) (or_marks b).

Definition ovisit_eqb (a b : ovisit) : bool :=
  Nat.eqb (ov_ty a) (ov_ty b) && Nat.eqb (ov_pos a) (ov_pos b) && Nat.eqb (ov_index a) (ov_index b) &&
  opt_eqb Nat.eqb (ov_parent_ty a) (ov_parent_ty b) && Nat.eqb (ov_size a) (ov_size b).
Definition to_ovisit (s : schema) (v : visit) : ovisit :=
  {| ov_ty := node_ty s (v_node v); ov_pos := v_pos v; ov_index := v_index v;
     ov_parent_ty := option_map (node_ty s) (v_parent v); ov_size := node_size s (v_node v) |}.

Definition quint_eqb (a b : nat * nat * nat * nat * nat) : bool :=
  match a, b with (a1, a2, a3, a4, a5), (b1, b2, b3, b4, b5) =>
    Nat.eqb a1 b1 && Nat.eqb a2 b2 && Nat.eqb a3 b3 && Nat.eqb a4 b4 && Nat.eqb a5 b5 end.
Definition triple_eqb (a b : option node * nat * nat) : bool :=
  match a, b with (n, i, o), (n', i', o') => opt_eqb node_eqb n n' && Nat.eqb i i' && Nat.eqb o o' end.

Definition model_block_range (s : schema) (rp rq : rpos) : option (nat * nat * nat * nat * nat) :=
  match rp_block_range s rp rq with
  | Ok (Some d) =>
    let '(a, b) := if rp_pos rq <? rp_pos rp then (rq, rp) else (rp, rq) in
    match rp_before a (S d), rp_after s b (S d), rp_index a d, rp_index_after b d with
    | Ok st, Ok en, Ok si, Ok ei => Some (d, st, en, si, ei)
    | _, _, _, _ => None
    end
  | _ => None
  end.

Definition agree (c : case) : bool :=
  match c with
  | CResolve s doc p obs => res_eqb oresolve_eqb (model_resolve s doc p) obs
  | CPair s doc p q shared br across sp =>
    match resolve s doc p, resolve s doc q with
    | Ok rp, Ok rq =>
      res_eqb Nat.eqb (shared_depth s rp q) (Ok shared) &&
      opt_eqb quint_eqb (model_block_range s rp rq) br &&
      res_eqb (opt_eqb marks_eqb) (rp_marks_across s rp rq) (Ok across) &&
      Bool.eqb (Nat.eqb (rp_pos rp - rp_parent_offset rp) (rp_pos rq - rp_parent_offset rq)) sp
    | _, _ => false
    end
  | CNodeAt s doc p oat oaf obf =>
    res_eqb (opt_eqb node_eqb) (node_at s (S (node_size s doc)) doc p) oat &&
    res_eqb triple_eqb (child_after s doc p) oaf && res_eqb triple_eqb (child_before s doc p) obf
  | CBetween s doc from to prune vis pruned m hm ht sep leaf text =>
    res_eqb (list_eqb ovisit_eqb)
      (do v <- nodes_between_node s (fun _ => true) doc from to 0; Ok (List.map (to_ovisit s) v)) (Ok vis) &&
    res_eqb (list_eqb ovisit_eqb)
      (do v <- nodes_between_node s (fun n => negb (Nat.eqb (node_ty s n) prune)) doc from to 0; Ok (List.map (to_ovisit s) v))
      (Ok pruned) &&
    res_eqb Bool.eqb (range_has_mark s doc from to (is_in_set m)) (Ok hm) &&
    res_eqb Bool.eqb (range_has_mark s doc from to (fun ms => match type_is_in_set (m_ty m) ms with Some _ => true | None => false end)) (Ok ht) &&
    res_eqb (list_eqb N.eqb) (text_between s doc from to sep leaf) (Ok text)
  end.

(* ---- property predicates on the implementation's observations, against the token picture ---- *)
Definition tok_ty (t : option tok) : option nat :=
  match t with Some (TOpen ty _ _) => Some ty | _ => None end.

Definition level_ok (s : schema) (doc : node) (T : list tok) (p depth : nat) (d : nat) (sp : level_spec) (o : olevel) : bool :=
  Nat.eqb (ol_start o) (ls_start sp) && Nat.eqb (ol_end o) (ls_end sp) && Nat.eqb (ol_index o) (ls_index sp) &&
  Nat.eqb (ol_size o) (if d =? 0 then node_size s doc else ls_end sp - ls_start sp + 2) &&
  (match d with
   | 0 => Nat.eqb (ol_ty o) (node_ty s doc) && match ol_before o, ol_after o with None, None => true | _, _ => false end
   | S _ => opt_eqb Nat.eqb (tok_ty (ls_open sp)) (Some (ol_ty o)) &&
            opt_eqb Nat.eqb (ol_before o) (Some (ls_start sp - 1)) && opt_eqb Nat.eqb (ol_after o) (Some (ls_end sp + 1))
   end) &&
  Nat.eqb (ol_count o) (count_nodes (seg T (ls_start sp) (ls_end sp)) None 0) &&
  (* pos_at_index(index(d), d) is the position where child index(d) starts *)
  (ol_pos_at_index o <=? p).

Fixpoint levels_ok (s : schema) (doc : node) (T : list tok) (p depth d : nat) (sps : list level_spec) (os : list olevel) : bool :=
  match sps, os with
  | [], [] => true
  | sp :: sps', o :: os' => level_ok s doc T p depth d sp o && levels_ok s doc T p depth (S d) sps' os'
  | _, _ => false
  end.

Definition resolve_holds (s : schema) (doc : node) (p : nat) (obs : res oresolve) : bool :=
  let T := ftoks s (node_content doc) in
  match obs with
  | Err e => (* only positions outside 0..size, or splitting a surrogate pair, may fail *)
    (length T <? p) || (match nth_error T p with Some (TChar (ULo _) _) => true | _ => false end && err_eqb e ErrValue)
  | Ok o =>
    let depth := depth_at T p in
    let sps := levels T p in
    Nat.eqb (length (or_levels o)) (S depth) &&
    levels_ok s doc T p depth 0 sps (or_levels o) &&
    Nat.eqb (or_parent_offset o) (p - ls_start (last sps {| ls_start := 0; ls_end := 0; ls_index := 0; ls_open := None |})) &&
    Nat.eqb (or_text_offset o) (if inside_run T p then p - run_start T p p else 0) &&
    (match or_after o with
     | None => match nth_error T p with Some TClose | None => true | _ => false end
     | Some n => let tn := toks s n in
                 toks_eqb tn (firstn (length tn) (skipn p T)) && negb (inside_run T (p + length tn))
                 && negb (Nat.eqb (length tn) 0)
     end) &&
    (match or_before o with
     | None => match p with 0 => true | S p' => match nth_error T p' with Some (TOpen _ _ _) => true | _ => false end end
     | Some n => let tn := toks s n in
                 (length tn <=? p) && toks_eqb tn (seg T (p - length tn) p) && negb (inside_run T (p - length tn))
                 && negb (Nat.eqb (length tn) 0)
     end) &&
    marks_eqb (or_marks o) (marks_rule s T p)
  end.

(* nodes_between: exactly the nodes whose token span meets [from,to), in order, with pos = first token *)
Fixpoint spans (s : schema) (n : node) (start : nat) {struct n} : list (nat * nat * nat) :=
  (* (type, pos, size) of every descendant in document order *)
  match n with
  | Text _ _ => []
  | Elem _ _ _ cs =>
    (fix go (l : list node) (pos : nat) : list (nat * nat * nat) :=
       match l with
       | [] => []
       | c :: r => (node_ty s c, pos, node_size s c) :: spans s c (pos + 1) ++ go r (pos + node_size s c)
       end) cs start
  end.

Definition holds (c : case) : bool :=
  match c with
  | CResolve s doc p obs => resolve_holds s doc p obs
  | CPair s doc p q shared br across sp =>
    let T := ftoks s (node_content doc) in
    let lo := Nat.min p q in let hi := Nat.max p q in
    (* shared depth: the deepest ancestor of p whose span contains q *)
    let lv := levels T p in
    Nat.eqb shared (length (filter (fun l => (ls_start l <=? q) && (q <=? ls_end l)) lv) - 1) &&
    (match br with
     | None => true
     | Some (d, st, en, si, ei) => (st <=? lo) && (hi <=? en) && (si <=? ei) && (d <=? depth_at T lo)
     end) &&
    Bool.eqb sp (Nat.eqb (ls_start (last lv {| ls_start := 0; ls_end := 0; ls_index := 0; ls_open := None |}))
                         (ls_start (last (levels T q) {| ls_start := 0; ls_end := 0; ls_index := 0; ls_open := None |})))
  | CNodeAt s doc p oat oaf obf =>
    let T := ftoks s (node_content doc) in
    (match oat with
     | Ok (Some n) =>
       (* the node whose first token is at p, or the text node containing p *)
       let tn := toks s n in
       if node_is_text n then
         let st := if inside_run T p then run_start T p p else p in
         toks_eqb tn (firstn (length tn) (skipn st T))
       else toks_eqb tn (firstn (length tn) (skipn p T))
     | Ok None => match nth_error T p with Some TClose | None => true | _ => false end
     | Err _ => length T <? p
     end) &&
    (match oaf with
     | Ok (n, i, off) => (off <=? p) && Nat.eqb i (count_nodes (seg T 0 off) None 0)
     | Err _ => length T <? p end) &&
    (match obf with
     | Ok (n, i, off) => (off <=? p) && Nat.eqb i (count_nodes (seg T 0 off) None 0)
     | Err _ => length T <? p end)
  | CBetween s doc from to prune vis pruned m hm ht sep leaf text =>
    let all := spans s doc 0 in
    let hit := filter (fun x => match x with (_, pos, size) => (from <? pos + size) && (pos <? to) end) all in
    all2 (fun x v => match x with (ty, pos, size) => Nat.eqb ty (ov_ty v) && Nat.eqb pos (ov_pos v) && Nat.eqb size (ov_size v) end)
             hit vis &&
    (* pruned traversal is a subsequence of the full one that contains every node not below a pruned node *)
    (length pruned <=? length vis) &&
    (* the text between two positions = the text units in the token range (no separators requested) *)
    (match sep, leaf with
     | [], [] =>
       list_eqb N.eqb text
         (flat_map (fun t => match t with TChar u _ => [unit_val u] | _ => [] end)
                   (seg (ftoks s (node_content doc)) from to))
     | _, _ => true
     end)
  end.
