(* Correspondence runner for C08: cases carry the implementation's observations;
   [agree] compares them with the model, [holds] evaluates the property's
   predicates directly on the implementation's observations. *)
From Coq Require Import ZArith List Bool.
From PM Require Import Model.StepMap Corr.Common.
Import ListNotations.
Open Scope Z_scope.

Definition MR (p d : Z) (r : option Z) : mapresult := {| mr_pos := p; mr_del := d; mr_recover := r |}.
Definition SM (rs : list range) (inv : bool) : stepmap := {| ranges := rs; inverted := inv |}.

Definition mr_eqb (a b : mapresult) : bool :=
  (mr_pos a =? mr_pos b) && (mr_del a =? mr_del b) && opt_eqb Z.eqb (mr_recover a) (mr_recover b).

Definition range_eqb (a b : range) : bool :=
  match a, b with (s, x, y), (s', x', y') => (s =? s') && (x =? x') && (y =? y') end.
Definition sm_eqb (a b : stepmap) : bool :=
  list_eqb range_eqb (ranges a) (ranges b) && Bool.eqb (inverted a) (inverted b).
Definition quad_eqb (a b : Z * Z * Z * Z) : bool :=
  match a, b with (p, q, r, s), (p', q', r', s') => (p =? p') && (q =? q') && (r =? r') && (s =? s') end.
Definition pair_eqb (a b : Z * Z) : bool := (fst a =? fst b) && (snd a =? snd b).

(* ---- single-map sweep: every position lo..lo+n-1, both sides ---- *)
Record sweep := {
  sw_map : stepmap; sw_lo : Z; sw_n : nat;
  sw_neg : list mapresult;            (* map_result(p, -1) *)
  sw_pos : list mapresult;            (* map_result(p, 1) *)
  sw_simple_neg : list Z;             (* map(p, -1) *)
  sw_simple_pos : list Z;
  sw_rec_neg : list (option Z);       (* m.invert().recover(r.recover) when r.recover is not None *)
  sw_rec_pos : list (option Z);
  sw_touch : list (list bool);        (* touches(p, make_recover(k, 0)) for every range k *)
  sw_foreach : list (Z * Z * Z * Z);
  sw_foreach_inv : list (Z * Z * Z * Z)   (* for_each of m.invert() *)
}.

Definition rec_through_inverse (m : stepmap) (r : mapresult) : option Z :=
  match mr_recover r with Some v => recover (invert m) v | None => None end.

Definition sweep_agree (c : sweep) : bool :=
  let m := sw_map c in
  let ps := zrange (sw_lo c) (sw_n c) in
  list_eqb mr_eqb (List.map (fun p => map_result m p (-1)) ps) (sw_neg c) &&
  list_eqb mr_eqb (List.map (fun p => map_result m p 1) ps) (sw_pos c) &&
  list_eqb Z.eqb (List.map (fun p => map m p (-1)) ps) (sw_simple_neg c) &&
  list_eqb Z.eqb (List.map (fun p => map m p 1) ps) (sw_simple_pos c) &&
  list_eqb (opt_eqb Z.eqb) (List.map (fun p => rec_through_inverse m (map_result m p (-1))) ps) (sw_rec_neg c) &&
  list_eqb (opt_eqb Z.eqb) (List.map (fun p => rec_through_inverse m (map_result m p 1)) ps) (sw_rec_pos c) &&
  list_eqb (list_eqb Bool.eqb)
    (List.map (fun p => List.map (fun k => touches m p (make_recover (Z.of_nat k) 0)) (nrange 0 (length (ranges m)))) ps)
    (sw_touch c) &&
  list_eqb quad_eqb (for_each m) (sw_foreach c) &&
  list_eqb quad_eqb (for_each (invert m)) (sw_foreach_inv c).

(* property predicates on the implementation's own observations *)
Fixpoint sorted_le (l : list Z) : bool :=
  match l with
  | a :: ((b :: _) as rest) => (a <=? b) && sorted_le rest
  | _ => true
  end.

(* independent statement of the mapping rule in terms of the reported ranges
   (old_start, old_end, new_start, new_end): p strictly inside range k goes to
   new_start (assoc<0) or new_end; p outside every closed range shifts by the
   difference accumulated by the ranges wholly before it *)
Fixpoint rule_check (fe : list (Z * Z * Z * Z)) (shift : Z) (p assoc res : Z) : bool :=
  match fe with
  | [] => res =? p + shift
  | (os, oe, ns, ne) :: rest =>
    if p <? os then res =? p + shift
    else if (os <? p) && (p <? oe) then res =? (if assoc <? 0 then ns else ne)
    else if p <=? oe then true   (* edges: covered by the model theorems; adjacency makes the rule case-heavy *)
    else rule_check rest (shift + ((ne - ns) - (oe - os))) p assoc res
  end.

Definition swap_quad (q : Z * Z * Z * Z) := match q with (a, b, c, d) => (c, d, a, b) end.

Definition sweep_holds (c : sweep) : bool :=
  let ps := zrange (sw_lo c) (sw_n c) in
  sorted_le (sw_simple_neg c) && sorted_le (sw_simple_pos c) &&
  all2 (fun r s => mr_pos r =? s) (sw_neg c) (sw_simple_neg c) &&
  all2 (fun r s => mr_pos r =? s) (sw_pos c) (sw_simple_pos c) &&
  (* recover through the inverse returns the original position *)
  all2 (fun p r => match r with Some q => q =? p | None => true end) ps (sw_rec_neg c) &&
  all2 (fun p r => match r with Some q => q =? p | None => true end) ps (sw_rec_pos c) &&
  all2 (fun p r => match mr_recover r with Some _ => true | None => negb (deleted r) end) ps (sw_neg c) &&
  all2 (fun p r => match mr_recover r with Some _ => true | None => negb (deleted r) end) ps (sw_pos c) &&
  all2 (fun p r => rule_check (sw_foreach c) 0 p (-1) r) ps (sw_simple_neg c) &&
  all2 (fun p r => rule_check (sw_foreach c) 0 p 1 r) ps (sw_simple_pos c) &&
  list_eqb quad_eqb (List.map swap_quad (sw_foreach c)) (sw_foreach_inv c) &&
  (* touches: true exactly for the ranges whose closed old interval contains p *)
  all2 (fun p row => all2 (fun q t => match q with (os, oe, _, _) => Bool.eqb t ((os <=? p) && (p <=? oe)) end)
                           (sw_foreach c) row) ps (sw_touch c).

(* ---- mapping cases: a mapping built by a sequence of operations ---- *)
Inductive mop :=
| OAppendMap (m : stepmap) (mirrors : option Z)
| OAppendMapping (other : list mop)       (* other mapping built from scratch by its own ops *)
| OAppendMappingInverted (other : list mop)
| OSetMirror (n m : Z)
| OSlice (from to : Z)
| OInvert.

Fixpoint run_ops (fuel : nat) (ops : list mop) (mp : mapping) : mapping :=
  match fuel with
  | O => mp
  | S fuel' =>
    match ops with
    | [] => mp
    | op :: rest =>
      let mp' :=
        match op with
        | OAppendMap m mi => append_map mp m mi
        | OAppendMapping o => append_mapping mp (run_ops fuel' o (mk_mapping []))
        | OAppendMappingInverted o => append_mapping_inverted mp (run_ops fuel' o (mk_mapping []))
        | OSetMirror n m => set_mirror mp n m
        | OSlice f t => mslice mp f t
        | OInvert => minvert mp
        end in
      run_ops fuel' rest mp'
    end
  end.

Record mcase := {
  mc_ops : list mop; mc_lo : Z; mc_n : nat;
  mc_maps : list stepmap; mc_mirror : list (Z * Z); mc_from : Z; mc_to : Z;
  mc_neg : list (option (Z * Z));      (* map_result(p,-1) -> (pos, del_info); None = exception *)
  mc_pos : list (option (Z * Z));
  mc_simple_neg : list (option Z);
  mc_simple_pos : list (option Z);
  mc_roundtrip : bool                  (* harness built this as [m1..mk, inv mk .. inv m1] with full mirrors
                                          over strictly separated maps: every position must come back *)
}.

Definition mres (mp : mapping) (p a : Z) : option (Z * Z) :=
  match mapping_map_result mp p a with Some r => Some (mr_pos r, mr_del r) | None => None end.

Definition mcase_agree (c : mcase) : bool :=
  let mp := run_ops 100 (mc_ops c) (mk_mapping []) in
  let ps := zrange (mc_lo c) (mc_n c) in
  list_eqb sm_eqb (maps mp) (mc_maps c) &&
  list_eqb pair_eqb (mirror mp) (mc_mirror c) &&
  (mfrom mp =? mc_from c) && (mto mp =? mc_to c) &&
  list_eqb (opt_eqb pair_eqb) (List.map (fun p => mres mp p (-1)) ps) (mc_neg c) &&
  list_eqb (opt_eqb pair_eqb) (List.map (fun p => mres mp p 1) ps) (mc_pos c) &&
  list_eqb (opt_eqb Z.eqb) (List.map (fun p => mapping_map mp p (-1)) ps) (mc_simple_neg c) &&
  list_eqb (opt_eqb Z.eqb) (List.map (fun p => mapping_map mp p 1) ps) (mc_simple_pos c).

Definition mcase_holds (c : mcase) : bool :=
  let ps := zrange (mc_lo c) (mc_n c) in
  (* map and map_result agree on the position *)
  all2 (fun r s => match r, s with Some (p, _), Some q => p =? q | None, None => true | _, _ => false end)
       (mc_neg c) (mc_simple_neg c) &&
  all2 (fun r s => match r, s with Some (p, _), Some q => p =? q | None, None => true | _, _ => false end)
       (mc_pos c) (mc_simple_pos c) &&
  (* without mirrors: left-to-right composition of the window *)
  (match mc_mirror c with
   | [] => match window (mc_maps c) (mc_from c) (mc_to c) with
           | Some w => all2 (fun p s => opt_eqb Z.eqb s (Some (fold_maps w p (-1)))) ps (mc_simple_neg c) &&
                       all2 (fun p s => opt_eqb Z.eqb s (Some (fold_maps w p 1))) ps (mc_simple_pos c)
           | None => true
           end
   | _ => true
   end) &&
  (if mc_roundtrip c then
     all2 (fun p s => opt_eqb Z.eqb s (Some p)) ps (mc_simple_neg c) &&
     all2 (fun p s => opt_eqb Z.eqb s (Some p)) ps (mc_simple_pos c)
   else true).

Inductive case := CSweep (c : sweep) | CMapping (c : mcase).
Definition agree (c : case) : bool := match c with CSweep s => sweep_agree s | CMapping m => mcase_agree m end.
Definition holds (c : case) : bool := match c with CSweep s => sweep_holds s | CMapping m => mcase_holds m end.
