(* C19 runner: the HTML parser's state machine and lxml are not modelled; parser output is judged by the
   verified validity checker (Model.Tree.check, C07) evaluated in Coq, round trips are compared in Coq, and
   the context-expression matcher is modelled (Model/DomCtx.v). *)
From Coq Require Import ZArith NArith List Bool Arith String.
From PM Require Export Model.Data Model.Mark Model.Tree Model.DomCtx Model.ToDom Corr.Common Corr.Tree.
Import ListNotations.

Inductive case :=
| CParse (s : schema) (obs : res node)                          (* from_html on a generated fragment *)
| CRoundTrip (s : schema) (doc : node) (serialised_ok escaped_ok : bool) (back : res node)
| CContext (s : schema) (stack : list nat) (alts : list (list string)) (obs : res bool)
(* DOMSerializer.serialize_fragment with tagging renderers: the tree of wrappers it built, as observed.
   [unrendered]: mark types the serializer was given no renderer for; [nonspanning]: mark types whose spec says spanning: False *)
| CSerialize (s : schema) (unrendered nonspanning : list nat) (l : list node) (obs : res (list dom)).

Fixpoint dom_eqb (x y : dom) {struct x} : bool :=
  match x, y with
  | DText a, DText b => cps_eqb a b
  | DLeafN t a, DLeafN t' a' => Nat.eqb t t' && attrs_eqb a a'
  | DElem t a k, DElem t' a' k' =>
    Nat.eqb t t' && attrs_eqb a a' &&
    (fix go (l1 l2 : list dom) {struct l1} : bool :=
       match l1, l2 with [], [] => true | p :: r, q :: r' => dom_eqb p q && go r r' | _, _ => false end) k k'
  | DMark m k, DMark m' k' =>
    mark_eqb m m' &&
    (fix go (l1 l2 : list dom) {struct l1} : bool :=
       match l1, l2 with [], [] => true | p :: r, q :: r' => dom_eqb p q && go r r' | _, _ => false end) k k'
  | _, _ => false
  end.

Definition nat_in (x : nat) (l : list nat) : bool := existsb (Nat.eqb x) l.
Definition model_serialize (s : schema) (unrendered nonspanning : list nat) (l : list node) : list dom :=
  ser_fragment s (fun m => negb (nat_in (m_ty m) unrendered)) (fun m => negb (nat_in (m_ty m) nonspanning)) l.

Definition agree (c : case) : bool :=
  match c with
  | CContext s stack alts obs => res_eqb Bool.eqb (Ok (matches_context s stack alts)) obs
  | CSerialize s un ns l obs => res_eqb (list_eqb dom_eqb) (Ok (model_serialize s un ns l)) obs
  | _ => true
  end.

Definition holds (c : case) : bool :=
  match c with
  | CParse s obs => match obs with Ok d => check s d && Nat.eqb (node_ty s d) (s_top s) | Err _ => false end
  | CRoundTrip s doc ser esc back =>
    ser && esc && match back with Ok d => node_eqb d doc | Err _ => false end
  | CContext s stack alts obs => is_ok obs
  | CSerialize s un ns l obs =>
    (* every node of the fragment sits, in order, inside wrappers for exactly its rendered marks *)
    match obs with
    | Ok ds =>
      let fl := (fix flat (enc : list mark) (d : dom) {struct d} : list (list mark) :=
                   match d with
                   | DMark m kids => (fix go (k : list dom) : list (list mark) := match k with [] => [] | x :: r => flat (enc ++ [m]) x ++ go r end) kids
                   | _ => [enc]
                   end) in
      list_eqb marks_eqb (flat_map (fl []) ds)
               (List.map (fun c => filter (fun m => negb (nat_in (m_ty m) un)) (node_marks c)) l)
    | Err _ => false
    end
  end.
