(* C19 runner: the HTML parser's state machine and lxml are not modelled; parser output is judged by the
   verified validity checker (Model.Tree.check, C07) evaluated in Coq, round trips are compared in Coq, and
   the context-expression matcher is modelled (Model/DomCtx.v). *)
From Coq Require Import ZArith NArith List Bool Arith String.
From PM Require Export Model.Data Model.Mark Model.Tree Model.DomCtx Corr.Common Corr.Tree.
Import ListNotations.

Inductive case :=
| CParse (s : schema) (obs : res node)                          (* from_html on a generated fragment *)
| CRoundTrip (s : schema) (doc : node) (serialised_ok escaped_ok : bool) (back : res node)
| CContext (s : schema) (stack : list nat) (alts : list (list string)) (obs : res bool).

Definition agree (c : case) : bool :=
  match c with
  | CContext s stack alts obs => res_eqb Bool.eqb (Ok (matches_context s stack alts)) obs
  | _ => true
  end.

Definition holds (c : case) : bool :=
  match c with
  | CParse s obs => match obs with Ok d => check s d && Nat.eqb (node_ty s d) (s_top s) | Err _ => false end
  | CRoundTrip s doc ser esc back =>
    ser && esc && match back with Ok d => node_eqb d doc | Err _ => false end
  | CContext s stack alts obs => is_ok obs
  end.
