(* Step-level correspondence: shared case type, model/implementation agreement,
   and one property predicate per step-level property (C01, C03, C04, C13, C16, C17). *)
From Coq Require Import ZArith NArith List Bool Arith String.
From PM Require Import Model.Data Model.Mark Model.Tree Spec.Tokens Spec.TokenPos Model.Resolve Model.StepMap Model.Step
  Corr.Common Corr.Tree.
From PM Require Import Proofs.StepSafe Model.MarkOps.
Import ListNotations.
Local Open Scope nat_scope.

Definition step_eqb (a b : step) : bool :=
  match a, b with
  | SReplace f t sl st, SReplace f' t' sl' st' => Nat.eqb f f' && Nat.eqb t t' && slice_eqb sl sl' && Bool.eqb st st'
  | SReplaceAround f t gf gt sl i st, SReplaceAround f' t' gf' gt' sl' i' st' =>
    Nat.eqb f f' && Nat.eqb t t' && Nat.eqb gf gf' && Nat.eqb gt gt' && slice_eqb sl sl' && Nat.eqb i i' && Bool.eqb st st'
  | SAddMark f t m, SAddMark f' t' m' | SRemoveMark f t m, SRemoveMark f' t' m' =>
    Nat.eqb f f' && Nat.eqb t t' && mark_eqb m m'
  | SAddNodeMark p m, SAddNodeMark p' m' | SRemoveNodeMark p m, SRemoveNodeMark p' m' => Nat.eqb p p' && mark_eqb m m'
  | SAttr p a v, SAttr p' a' v' => Nat.eqb p p' && String.eqb a a' && json_eqb v v'
  | SDocAttr a v, SDocAttr a' v' => String.eqb a a' && json_eqb v v'
  | _, _ => false
  end.

Definition sresult_eqb (a b : sresult) : bool :=
  match a, b with
  | ROk d, ROk d' => node_eqb d d'
  | RFail, RFail => true
  | RErr e, RErr e' => err_eqb e e'
  | _, _ => false
  end.

Definition range_eqb (a b : range) : bool :=
  match a, b with (x, y, z), (x', y', z') => Z.eqb x x' && Z.eqb y y' && Z.eqb z z' end.

(* one applied step as observed on the implementation *)
Record applied := {
  ap_step : step;
  ap_result : sresult;                 (* step.apply(doc) *)
  ap_map : list range;                 (* step.get_map().ranges *)
  ap_invert : res step;                (* step.invert(doc) *)
  ap_undo : option sresult;            (* invert(doc).apply(result doc) when both exist *)
  ap_mapped : list Z                   (* step.get_map().map(p, 1) for p = 0 .. size of doc, as the implementation maps *)
}.
Notation AP := Build_applied.

Inductive case :=
(* a single step applied to a document *)
| CApply (s : schema) (doc : node) (a : applied) (payload_valid : bool)
(* a history: steps emitted by transform operations, starting at doc; each entry observed against
   the document before it; flag: the harness expects every step to apply (they came out of a Transform) *)
| CHistory (s : schema) (doc : node) (hist : list applied) (final : node)
(* effect of a whole mark operation (transform.add_mark / remove_mark) *)
| CMarkOp (s : schema) (doc : node) (from to : nat) (add : bool) (m : option mark) (mty : option nat)
          (hist : list applied) (final : node)
(* merge: step a, step b (applies to the result of a), merged *)
| CMerge (s : schema) (doc : node) (a b : applied) (merged : option step) (merged_result : option sresult)
(* rebase: a and b both apply to doc; a' = a.map(map b), b' = b.map(map a); both orders *)
| CCommute (s : schema) (doc : node) (a b : applied) (a' b' : option step)
           (ab ba : option sresult) (separated : bool).

Definition agree_applied (s : schema) (doc : node) (a : applied) : bool :=
  let st := ap_step a in
  sresult_eqb (apply s st doc) (ap_result a) &&
  list_eqb range_eqb (ranges (get_map s st)) (ap_map a) &&
  (* a slice of negative size (more open depth than content; nothing a well-formed peer builds) gives an inverse with
     a negative position, which the model's nat positions cannot represent: the inverse is not compared then *)
  (match st with
   | SReplace _ _ sl _ | SReplaceAround _ _ _ _ sl _ _ => (slice_size s sl <? 0)%Z
   | _ => false
   end || res_eqb step_eqb (invert_step s st doc) (ap_invert a)) &&
  match ap_undo a, ap_result a, ap_invert a with
  | Some u, ROk d', Ok inv => sresult_eqb (apply s inv d') u
  | _, _, _ => true
  end &&
  (* the implementation maps every position of the document as the model's StepMap does *)
  list_eqb Z.eqb (List.map (fun p => StepMap.map (get_map s st) (Z.of_nat p) 1) (nrange 0 (S (frag_size s (node_content doc)))))
           (ap_mapped a).

Fixpoint agree_hist (s : schema) (doc : node) (h : list applied) (final : node) : bool :=
  match h with
  | [] => node_eqb doc final
  | a :: r =>
    agree_applied s doc a &&
    match ap_result a with
    | ROk d' => agree_hist s d' r final
    | _ => match r with [] => node_eqb doc final | _ => false end
    end
  end.

Definition agree (c : case) : bool :=
  match c with
  | CApply s doc a _ => agree_applied s doc a
  | CHistory s doc h final => agree_hist s doc h final
  | CMarkOp s doc from to add m mty h final =>
    agree_hist s doc h final &&
    (* the planner: the steps Transform.add_mark / remove_mark recorded are the planned ones, up to the first that fails *)
    match (if add then match m with Some mk => plan_add_mark s doc from to mk | None => Err ErrInternal end
           else plan_remove_mark s doc from to
                  (match m, mty with Some mk, _ => RMark mk | None, Some t => RType t | None, None => RAll end)) with
    | Ok sts => list_eqb step_eqb (applied_prefix s doc sts) (List.map ap_step h)
    | Err _ => match h with [] => true | _ => false end
    end
  | CMerge s doc a b merged mres =>
    agree_applied s doc a &&
    (match ap_result a with ROk d1 => agree_applied s d1 b | _ => true end) &&
    opt_eqb step_eqb (merge s (ap_step a) (ap_step b)) merged &&
    (match merged, mres with
     | Some m, Some r => sresult_eqb (apply s m doc) r
     | None, Some _ => false          (* how the harness records that Step.merge RAISED: the model's merge is total *)
     | _, _ => true
     end)
  | CCommute s doc a b a' b' ab ba _ =>
    agree_applied s doc a && agree_applied s doc b &&
    opt_eqb step_eqb (step_map (ap_step a) {| ranges := ap_map b; inverted := false |}) a' &&
    opt_eqb step_eqb (step_map (ap_step b) {| ranges := ap_map a; inverted := false |}) b' &&
    (match ap_result a, b', ab with
     | ROk d1, Some st, Some r => sresult_eqb (apply s st d1) r
     | _, _, _ => true end) &&
    (match ap_result b, a', ba with
     | ROk d2, Some st, Some r => sresult_eqb (apply s st d2) r
     | _, _, _ => true end)
  end.

(* ================================================================ C01 *)
Definition result_valid (s : schema) (r : sresult) : bool :=
  match r with
  | ROk d => check s d
  | RFail => true
  | RErr ErrValue | RErr ErrReplace | RErr ErrTransform => true
  | RErr _ => false
  end.

Fixpoint hist_valid (s : schema) (h : list applied) : bool :=
  match h with [] => true | a :: r => result_valid s (ap_result a) && hist_valid s r end.

Definition holds_C01 (c : case) : bool :=
  match c with
  (* the facts C01_node_step_valid / C01_step_error_class assume: ContentMatch.empty is a valid end; leaf-typed nodes of
     the document have no children *)
  | CApply s doc a pv => valid_end s 0 && leaves_empty_b s doc && (if pv then result_valid s (ap_result a) else true)
  | CHistory s doc h _ | CMarkOp s doc _ _ _ _ _ h _ => hist_valid s h
  | CMerge s doc a b _ mres =>
    result_valid s (ap_result a) && result_valid s (ap_result b) &&
    match mres with Some r => result_valid s r | None => true end
  | CCommute s doc a b _ _ ab ba _ =>
    result_valid s (ap_result a) && result_valid s (ap_result b) &&
    match ab with Some r => result_valid s r | None => true end &&
    match ba with Some r => result_valid s r | None => true end
  end.

(* ================================================================ C03 *)
Definition ztoks (s : schema) (d : node) := ftoks s (node_content d).

Definition in_ranges (rs : list range) (i : Z) : bool :=
  existsb (fun r => match r with (st, old, _) => (st <=? i)%Z && (i <? st + old)%Z end) rs.

Definition sum_delta (rs : list range) : Z := fold_right (fun r acc => match r with (_, o, n) => (n - o + acc)%Z end) 0%Z rs.

(* tokens equal up to marks/attributes (what mark, node-mark and attribute steps may change in their own range) *)
Definition tok_shape_eqb (a b : tok) : bool :=
  match a, b with
  | TOpen t _ _, TOpen t' _ _ | TLeaf t _ _, TLeaf t' _ _ => Nat.eqb t t'
  | TClose, TClose => true
  | TChar u _, TChar u' _ => unit_eqb u u'
  | _, _ => false
  end.

Definition step_touch (st : step) (i : nat) : bool :=
  match st with
  | SAddMark f t _ | SRemoveMark f t _ => (f <=? i) && (i <? t)
  | SAddNodeMark p _ | SRemoveNodeMark p _ | SAttr p _ _ => Nat.eqb i p
  | _ => false
  end.

Definition map_faithful (s : schema) (doc : node) (a : applied) : bool :=
  match ap_result a with
  | ROk d' =>
    let T := ztoks s doc in let T' := ztoks s d' in
    let m := {| ranges := ap_map a; inverted := false |} in
    Z.eqb (Z.of_nat (List.length T') - Z.of_nat (List.length T)) (sum_delta (ap_map a)) &&
    forallb (fun i =>
      if in_ranges (ap_map a) (Z.of_nat i) then true
      else
        (* the position the IMPLEMENTATION's map sends i to *)
        let j := Z.to_nat (nth i (ap_mapped a) (-1)%Z) in
        match nth_error T i, nth_error T' j with
        | Some x, Some y => if step_touch (ap_step a) i then tok_shape_eqb x y else tok_eqb x y
        | _, _ => false
        end) (nrange 0 (List.length T))
  | _ => true
  end.

Fixpoint hist_faithful (s : schema) (doc : node) (h : list applied) : bool :=
  match h with
  | [] => true
  | a :: r => map_faithful s doc a && match ap_result a with ROk d' => hist_faithful s d' r | _ => true end
  end.

Definition holds_C03 (c : case) : bool :=
  match c with
  | CApply s doc a _ => map_faithful s doc a
  | CHistory s doc h _ | CMarkOp s doc _ _ _ _ _ h _ => hist_faithful s doc h
  | CMerge s doc a b _ _ => map_faithful s doc a && match ap_result a with ROk d1 => map_faithful s d1 b | _ => true end
  | CCommute s doc a b _ _ _ _ _ => map_faithful s doc a && map_faithful s doc b
  end.

(* ================================================================ C04 *)
Definition exact_undo_kind (st : step) : bool :=
  match st with
  | SAddMark _ _ _ | SRemoveMark _ _ _ => false    (* naive inverse; exactness is a property of how transform emits them *)
  | _ => true
  end.

Definition undo_ok (s : schema) (doc : node) (a : applied) : bool :=
  match ap_result a, ap_invert a, ap_undo a with
  | ROk d', Ok inv, Some u =>
    (* the inverse's map is the inverse of the map *)
    let m := {| ranges := ap_map a; inverted := false |} in
    let mi := get_map s inv in
    forallb (fun p => Z.eqb (StepMap.map mi (Z.of_nat p) 1) (StepMap.map (invert m) (Z.of_nat p) 1) &&
                      Z.eqb (StepMap.map mi (Z.of_nat p) (-1)) (StepMap.map (invert m) (Z.of_nat p) (-1)))
            (nrange 0 (S (frag_size s (node_content d')))) &&
    (if exact_undo_kind (ap_step a) then match u with ROk d0 => node_eqb d0 doc | _ => false end else true)
  | ROk d', Err _, _ => negb (exact_undo_kind (ap_step a))   (* invert must not fail for an applied step *)
  | ROk _, Ok _, None => false
  | _, _, _ => true
  end.

(* whole history: replay reproduces every recorded document; inverses applied in reverse restore the start *)
Fixpoint undo_chain (s : schema) (cur : node) (revh : list applied) : option node :=
  match revh with
  | [] => Some cur
  | a :: r =>
    match ap_invert a with
    | Ok inv => match apply s inv cur with ROk d => undo_chain s d r | _ => None end
    | Err _ => None
    end
  end.

Fixpoint all_ok (h : list applied) : bool :=
  match h with [] => true | a :: r => match ap_result a with ROk _ => all_ok r | _ => false end end.

Fixpoint hist_undo_each (s : schema) (doc : node) (h : list applied) : bool :=
  match h with
  | [] => true
  | a :: r => undo_ok s doc a && match ap_result a with ROk d' => hist_undo_each s d' r | _ => true end
  end.

Definition holds_C04 (c : case) : bool :=
  match c with
  | CApply s doc a pv => if pv then undo_ok s doc a else true
  | CHistory s doc h final | CMarkOp s doc _ _ _ _ _ h final =>
    hist_undo_each s doc h &&
    (if all_ok h then match undo_chain s final (rev h) with Some d0 => node_eqb d0 doc | None => false end else true)
  | CMerge s doc a b _ _ => undo_ok s doc a
  | CCommute s doc a b _ _ _ _ _ => undo_ok s doc a && undo_ok s doc b
  end.

(* ================================================================ C13 *)
(* innermost open token enclosing index i *)
Definition parent_ty (s : schema) (doc : node) (T : list tok) (i : nat) : nat :=
  match rev (sort_nat (open_ancestors T i)) with
  | o :: _ => match nth_error T o with Some (TOpen ty _ _) => ty | _ => node_ty s doc end
  | [] => node_ty s doc
  end.

Definition is_inline_tok (s : schema) (t : tok) : bool :=
  match t with TChar _ _ => true | TLeaf ty _ _ => is_inline_ty s ty | TOpen ty _ _ => is_inline_ty s ty | TClose => false end.

Definition set_tok_marks (t : tok) (ms : list mark) : tok :=
  match t with TOpen ty a _ => TOpen ty a ms | TLeaf ty a _ => TLeaf ty a ms | TChar u _ => TChar u ms | TClose => TClose end.

Definition tok_marks_of (t : tok) : list mark := match tok_marks t with Some m => m | None => [] end.

(* expected token sequence after marking [from,to) *)
Definition retag (s : schema) (doc : node) (T : list tok) (from to : nat) (f : nat (*parent ty*) -> tok -> tok) : list tok :=
  List.map (fun it => let '(i, t) := it in if (from <=? i) && (i <? to) then f (parent_ty s doc T i) t else t)
           (combine (nrange 0 (List.length T)) T).

Definition add_tok (s : schema) (m : mark) (pty : nat) (t : tok) : tok :=
  match t with
  | TChar _ ms => if allows_mark_type s pty (m_ty m) then set_tok_marks t (add_to_set s m ms) else t
  | TLeaf ty _ ms => if is_inline_ty s ty && allows_mark_type s pty (m_ty m) then set_tok_marks t (add_to_set s m ms) else t
  | _ => t
  end.

Definition remove_tok (s : schema) (m : option mark) (mty : option nat) (pty : nat) (t : tok) : tok :=
  if is_inline_tok s t then
    match t with
    | TClose => t
    | _ =>
      let ms := tok_marks_of t in
      set_tok_marks t
        (match m, mty with
         | Some mk, _ => remove_from_set mk ms
         | None, Some ty => type_remove_from_set ty ms
         | None, None => []
         end)
    end
  else t.

Definition step_effect_ok (s : schema) (doc : node) (a : applied) : bool :=
  match ap_result a with
  | ROk d' =>
    let T := ztoks s doc in let T' := ztoks s d' in
    match ap_step a with
    | SAddMark f t m => toks_eqb T' (retag s doc T f t (add_tok s m))
    | SRemoveMark f t m => toks_eqb T' (retag s doc T f t (remove_tok s (Some m) None))
    | SAddNodeMark p m =>
      toks_eqb T' (List.map (fun it => let '(i, t) := it in
                     if Nat.eqb i p then set_tok_marks t (add_to_set s m (tok_marks_of t)) else t) (combine (nrange 0 (List.length T)) T))
    | SRemoveNodeMark p m =>
      toks_eqb T' (List.map (fun it => let '(i, t) := it in
                     if Nat.eqb i p then set_tok_marks t (remove_from_set m (tok_marks_of t)) else t) (combine (nrange 0 (List.length T)) T))
    | SAttr p _ _ =>
      Nat.eqb (List.length T) (List.length T') &&
      forallb (fun i => match nth_error T i, nth_error T' i with
                        | Some x, Some y => if Nat.eqb i p then tok_shape_eqb x y && marks_eqb (tok_marks_of x) (tok_marks_of y) else tok_eqb x y
                        | _, _ => false end) (nrange 0 (List.length T))
    | SDocAttr _ _ => toks_eqb T T' && Nat.eqb (node_ty s doc) (node_ty s d') && marks_eqb (node_marks doc) (node_marks d')
    | _ => true
    end
  | _ => true
  end.

Fixpoint hist_effect_ok (s : schema) (doc : node) (h : list applied) : bool :=
  match h with
  | [] => true
  | a :: r => step_effect_ok s doc a && match ap_result a with ROk d' => hist_effect_ok s d' r | _ => true end
  end.

Definition holds_C13 (c : case) : bool :=
  match c with
  | CApply s doc a _ => step_effect_ok s doc a
  | CHistory s doc h _ => hist_effect_ok s doc h
  | CMarkOp s doc from to add m mty h final =>
    hist_effect_ok s doc h && all_ok h &&
    let T := ztoks s doc in
    toks_eqb (ztoks s final)
      (if add then match m with Some mk => retag s doc T from to (add_tok s mk) | None => T end
       else retag s doc T from to (remove_tok s m mty))
  | CMerge s doc a b _ _ => step_effect_ok s doc a
  | CCommute s doc a b _ _ _ _ _ => step_effect_ok s doc a && step_effect_ok s doc b
  end.

(* ================================================================ C16 *)
Definition holds_C16 (c : case) : bool :=
  match c with
  | CMerge s doc a b merged mres =>
    match merged, ap_result a with
    | Some m, ROk d1 =>
      match ap_result b with
      | ROk d2 =>
        match mres with
        | Some (ROk dm) =>
          node_eqb dm d2 &&
          Z.eqb (sum_delta (ranges (get_map s m))) (sum_delta (ap_map a) + sum_delta (ap_map b))
        | _ => false                  (* the merged step must succeed whenever the pair did *)
        end
      | _ => true
      end
    | _, _ => true
    end
  | _ => true
  end.

(* ================================================================ C17 *)
Definition holds_C17 (c : case) : bool :=
  match c with
  | CCommute s doc a b a' b' ab ba separated =>
    if separated then
      match ap_result a, ap_result b with
      | ROk _, ROk _ =>
        match a', b', ab, ba with
        | Some _, Some _, Some (ROk x), Some (ROk y) => node_eqb x y
        | _, _, _, _ => false
        end
      | _, _ => true
      end
    else true
  | _ => true
  end.
