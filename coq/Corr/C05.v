(* Correspondence runner for C05 (JSON round trips) *)
From Coq Require Import ZArith NArith List Bool Arith String.
From PM Require Export Model.Data Model.Mark Model.Tree Model.Step Model.JsonCodec Corr.Common Corr.Tree Corr.Steps.
From PM Require Import Model.StepMap.
Import ListNotations.

Inductive case :=
| CNodeRT (s : schema) (n : node) (j : json) (back : res node) (j2 : json) (aliased : bool)
| CFragRT (s : schema) (l : list node) (j : json) (back : res (list node))
| CSliceRT (s : schema) (sl : slice) (j : json) (back : res slice) (j2 : json)
| CMarkRT (s : schema) (m : mark) (j : json) (back : res mark)
| CStepRT (s : schema) (doc : node) (st : step) (j : json) (back : res step) (j2 : json)
          (r1 r2 : sresult) (m1 m2 : list range)
| CDecode (s : schema) (j : json) (back : res node)           (* mutated / malformed JSON: classes must agree *)
| CDecodeStep (s : schema) (j : json) (back : res step).     (* the same for Step.from_json *)

Definition agree (c : case) : bool :=
  match c with
  | CNodeRT s n j back j2 _ =>
    json_eqb (node_to_json s n) j && res_eqb node_eqb (node_from_json s j) back &&
    match back with Ok n' => json_eqb (node_to_json s n') j2 | _ => true end
  | CFragRT s l j back => json_eqb (frag_to_json s l) j && res_eqb frag_eqb (frag_from_json s (Some j)) back
  | CSliceRT s sl j back j2 =>
    json_eqb (slice_to_json s sl) j && res_eqb slice_eqb (slice_from_json s (Some j)) back &&
    match back with Ok sl' => json_eqb (slice_to_json s sl') j2 | _ => true end
  | CMarkRT s m j back => json_eqb (mark_to_json s m) j && res_eqb mark_eqb (mark_from_json s j) back
  | CStepRT s doc st j back j2 r1 r2 m1 m2 =>
    json_eqb (step_to_json s st) j && res_eqb step_eqb (step_from_json s j) back &&
    match back with Ok st' => json_eqb (step_to_json s st') j2 | _ => true end
  | CDecode s j back => res_eqb node_eqb (node_from_json s j) back
  | CDecodeStep s j back => res_eqb step_eqb (step_from_json s j) back
  end.

Definition holds (c : case) : bool :=
  match c with
  | CNodeRT s n j back j2 aliased =>
    match back with Ok n' => node_eqb n n' && json_eqb j j2 | Err _ => false end && negb aliased
  | CFragRT s l j back => match back with Ok l' => frag_eqb l l' | Err _ => false end
  | CSliceRT s sl j back j2 =>
    match back with Ok sl' => slice_eqb sl sl' && json_eqb j j2 | Err _ => false end
  | CMarkRT s m j back => match back with Ok m' => mark_eqb m m' | Err _ => false end
  | CStepRT s doc st j back j2 r1 r2 m1 m2 =>
    match back with
    | Ok st' => json_eqb j j2 && sresult_eqb r1 r2 && list_eqb range_eqb m1 m2
    | Err _ => false
    end
  | CDecode s j back => true
  | CDecodeStep s j back => true
  end.
