(* Correspondence runner for C20 (find_diff_start / find_diff_end) *)
From Coq Require Import ZArith NArith List Bool Arith.
From PM Require Import Model.Data Model.Mark Model.Tree Spec.Tokens Spec.DiffSpec Model.Diff Corr.Common Corr.Tree.
Import ListNotations.

Inductive case :=
| CDiff (s : schema) (a b : list node) (obs_start : res (option nat)) (obs_end : res (option (nat * nat)))
(* Fragment.eq / Node.eq as observed: the equality every 'None iff equal' statement is about *)
| CEq (s : schema) (a b : list node) (obs : bool).

Definition never (_ _ : node) : bool := false.
Definition pair_eqb (x y : nat * nat) : bool := Nat.eqb (fst x) (fst y) && Nat.eqb (snd x) (snd y).

Definition agree (c : case) : bool :=
  match c with
  | CDiff s a b os oe =>
    res_eqb (opt_eqb Nat.eqb) (Ok (find_diff_start s never a b 0)) os &&
    res_eqb (opt_eqb Nat.eqb) (Ok (find_diff_start s node_eqb a b 0)) os &&
    res_eqb (opt_eqb pair_eqb) (Ok (find_diff_end s never a b (frag_size s a) (frag_size s b))) oe &&
    res_eqb (opt_eqb pair_eqb) (Ok (find_diff_end s node_eqb a b (frag_size s a) (frag_size s b))) oe
  | CEq s a b obs => Bool.eqb (frag_eqb a b) obs
  end.

Definition holds (c : case) : bool :=
  match c with
  | CDiff s a b os oe =>
    let ta := aftoks s a in let tb := aftoks s b in
    let eq := frag_eqb a b in
    (match os with
     | Ok None => eq
     | Ok (Some p) => negb eq && Nat.eqb p (lcp ta tb)
     | Err _ => false           (* crash or hang *)
     end) &&
    (match oe with
     | Ok None => eq
     | Ok (Some (pa, pb)) =>
       let k := lcp (rev ta) (rev tb) in
       negb eq && Nat.eqb (pa + k) (frag_size s a) && Nat.eqb (pb + k) (frag_size s b)
     | Err _ => false
     end)
  | CEq s a b obs => true
  end.
