(* Correspondence runner for C20 (find_diff_start / find_diff_end) *)
From Coq Require Import ZArith NArith List Bool Arith.
From PM Require Import Model.Data Model.Mark Model.Tree Spec.Tokens Model.Diff Corr.Common Corr.Tree.
Import ListNotations.

(* tokens with the close token carrying its node's markup: the scans only
   descend into nodes with identical markup, so a close only "agrees" with
   the close of a same-markup node *)
Inductive atok := AOpen (ty : nat) (a : attrs) (m : list mark) | AClose (ty : nat) (a : attrs) (m : list mark)
                | ALeaf (ty : nat) (a : attrs) (m : list mark) | AChar (u : N) (m : list mark).

Section S.
Variable s : schema.
Fixpoint atoks (n : node) : list atok :=
  match n with
  | Text t m => List.map (fun u => AChar (unit_val u) m) (units t)
  | Elem ty a m cs =>
    if is_leaf_ty s ty then [ALeaf ty a m]
    else AOpen ty a m :: (fix go (l : list node) : list atok := match l with [] => [] | c :: r => atoks c ++ go r end) cs
         ++ [AClose ty a m]
  end.
Fixpoint aftoks (l : list node) : list atok := match l with [] => [] | c :: r => atoks c ++ aftoks r end.
End S.

Definition atok_eqb (x y : atok) : bool :=
  match x, y with
  | AOpen t a m, AOpen t' a' m' | AClose t a m, AClose t' a' m' | ALeaf t a m, ALeaf t' a' m' =>
    Nat.eqb t t' && attrs_eqb a a' && marks_eqb m m'
  | AChar u m, AChar u' m' => N.eqb u u' && marks_eqb m m'
  | _, _ => false
  end.
Fixpoint lcp (a b : list atok) : nat :=
  match a, b with
  | x :: a', y :: b' => if atok_eqb x y then S (lcp a' b') else 0
  | _, _ => 0
  end.

Inductive case :=
| CDiff (s : schema) (a b : list node) (obs_start : res (option nat)) (obs_end : res (option (nat * nat))).

Definition never (_ _ : node) : bool := false.
Definition pair_eqb (x y : nat * nat) : bool := Nat.eqb (fst x) (fst y) && Nat.eqb (snd x) (snd y).

Definition agree (c : case) : bool :=
  match c with
  | CDiff s a b os oe =>
    res_eqb (opt_eqb Nat.eqb) (Ok (find_diff_start s never a b 0)) os &&
    res_eqb (opt_eqb Nat.eqb) (Ok (find_diff_start s node_eqb a b 0)) os &&
    res_eqb (opt_eqb pair_eqb) (Ok (find_diff_end s never a b (frag_size s a) (frag_size s b))) oe &&
    res_eqb (opt_eqb pair_eqb) (Ok (find_diff_end s node_eqb a b (frag_size s a) (frag_size s b))) oe
  end.

Definition holds (c : case) : bool :=
  match c with
  | CDiff s a b os oe =>
    let ta := aftoks s a in let tb := aftoks s b in
    let eq := frag_eqb a b in
    (match os with
     | Ok None => eq
     | Ok (Some p) => negb eq && Nat.eqb p (lcp ta tb)
     | Err _ => false           (* crash or hang *)
     end) &&
    (match oe with
     | Ok None => eq
     | Ok (Some (pa, pb)) =>
       let k := lcp (rev ta) (rev tb) in
       negb eq && Nat.eqb (pa + k) (frag_size s a) && Nat.eqb (pb + k) (frag_size s b)
     | Err _ => false
     end)
  end.
