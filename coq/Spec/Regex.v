(* Content expressions as regular expressions over node types, Brzozowski
   derivatives, and a verified bisimulation certificate checker against a
   compiled content automaton (C06, layer A). *)
From Coq Require Import List Bool Arith Lia.
From PM Require Import Model.Data Model.Tree.
Import ListNotations.

Inductive re :=
| REmpty                (* no sequence *)
| REps                  (* the empty sequence *)
| RSym (t : nat)
| RSeq (a b : re)
| RAlt (a b : re)
| RStar (a : re).

Inductive matches : re -> list nat -> Prop :=
| MEps : matches REps []
| MSym t : matches (RSym t) [t]
| MSeq a b u v : matches a u -> matches b v -> matches (RSeq a b) (u ++ v)
| MAltL a b u : matches a u -> matches (RAlt a b) u
| MAltR a b u : matches b u -> matches (RAlt a b) u
| MStar0 a : matches (RStar a) []
| MStarS a u v : matches a u -> matches (RStar a) v -> matches (RStar a) (u ++ v).

Fixpoint nullable (e : re) : bool :=
  match e with
  | REmpty => false | REps => true | RSym _ => false
  | RSeq a b => nullable a && nullable b
  | RAlt a b => nullable a || nullable b
  | RStar _ => true
  end.

Fixpoint re_eqb (a b : re) : bool :=
  match a, b with
  | REmpty, REmpty | REps, REps => true
  | RSym x, RSym y => Nat.eqb x y
  | RSeq a1 a2, RSeq b1 b2 | RAlt a1 a2, RAlt b1 b2 => re_eqb a1 b1 && re_eqb a2 b2
  | RStar x, RStar y => re_eqb x y
  | _, _ => false
  end.

Lemma re_eqb_eq a : forall b, re_eqb a b = true -> a = b.
Proof.
  induction a; destruct b; simpl; intros H; try discriminate; auto.
  - apply Nat.eqb_eq in H. subst; auto.
  - apply andb_prop in H. destruct H. f_equal; auto.
  - apply andb_prop in H. destruct H. f_equal; auto.
  - f_equal; auto.
Qed.

(* smart constructors (language-preserving simplifications that keep the set of derivatives small) *)
Definition mkSeq (a b : re) : re :=
  match a, b with
  | REmpty, _ => REmpty
  | _, REmpty => REmpty
  | REps, _ => b
  | _, REps => a
  | _, _ => RSeq a b
  end.

Fixpoint alt_mem (x : re) (e : re) : bool :=
  match e with
  | RAlt a b => re_eqb x a || alt_mem x b
  | _ => re_eqb x e
  end.

(* a + b with b right-nested: drop ∅ and duplicates *)
Definition mkAlt1 (a b : re) : re :=
  match a, b with
  | REmpty, _ => b
  | _, REmpty => a
  | _, _ => if alt_mem a b then b else RAlt a b
  end.
Fixpoint mkAlt (a b : re) : re :=
  match a with
  | RAlt a1 a2 => mkAlt1 a1 (mkAlt a2 b)
  | _ => mkAlt1 a b
  end.

Fixpoint deriv (t : nat) (e : re) : re :=
  match e with
  | REmpty | REps => REmpty
  | RSym x => if Nat.eqb x t then REps else REmpty
  | RSeq a b => if nullable a then mkAlt (mkSeq (deriv t a) b) (deriv t b) else mkSeq (deriv t a) b
  | RAlt a b => mkAlt (deriv t a) (deriv t b)
  | RStar a => mkSeq (deriv t a) (RStar a)
  end.

Fixpoint empty_lang (e : re) : bool :=
  match e with
  | REmpty => true | REps => false | RSym _ => false
  | RSeq a b => empty_lang a || empty_lang b
  | RAlt a b => empty_lang a && empty_lang b
  | RStar _ => false
  end.

(* ---------------------------------------------------------------- language lemmas *)
Lemma matches_nullable e : matches e [] <-> nullable e = true.
Proof.
  split.
  - intros H. remember [] as w. induction H; simpl; auto; try discriminate.
    + apply app_eq_nil in Heqw. destruct Heqw; subst. rewrite IHmatches1, IHmatches2; auto.
    + rewrite IHmatches; auto.
    + rewrite IHmatches; auto. apply orb_true_r.
  - induction e; simpl; intros H; try discriminate.
    + constructor.
    + apply andb_prop in H. destruct H. change (@nil nat) with (@nil nat ++ []). constructor; auto.
    + apply orb_prop in H. destruct H; [apply MAltL|apply MAltR]; auto.
    + constructor.
Qed.

Lemma mkSeq_ok a b w : matches (mkSeq a b) w <-> matches (RSeq a b) w.
Proof.
  unfold mkSeq. split.
  - destruct a; destruct b; intros H; auto; try (inversion H; fail);
      try (rewrite <- (app_nil_l w); constructor; [constructor|assumption]; fail);
      try (rewrite <- (app_nil_r w); constructor; [assumption|constructor]; fail).
  - intros H. inversion H; subst.
    destruct a; destruct b; auto;
      try (match goal with X : matches REmpty _ |- _ => inversion X end; fail);
      try (match goal with X : matches REps _ |- _ => inversion X; subst; simpl; rewrite ?app_nil_r; auto end; fail);
      try (constructor; assumption).
Qed.

Lemma alt_mem_ok x e w : alt_mem x e = true -> matches x w -> matches e w.
Proof.
  induction e; simpl; intros H Hm; try (apply re_eqb_eq in H; subst; auto; fail).
  apply orb_prop in H. destruct H as [H|H].
  - apply re_eqb_eq in H. subst. apply MAltL; auto.
  - apply MAltR. apply IHe2; auto.
Qed.

Lemma mkAlt1_ok a b w : matches (mkAlt1 a b) w <-> matches (RAlt a b) w.
Proof.
  unfold mkAlt1. split.
  - intros H.
    destruct a; try (inversion H; fail);
      destruct b; try (apply MAltR; assumption); try (apply MAltL; assumption);
      try (match goal with |- context [alt_mem ?x ?y] => idtac end);
      try (match type of H with matches (if ?c then _ else _) _ => destruct c end; auto; try (apply MAltR; assumption)).
  - intros H. inversion H; subst.
    + destruct a; try (match goal with X : matches REmpty _ |- _ => inversion X end);
        destruct b; auto;
        try (match goal with |- matches (if ?c then _ else _) _ => destruct c eqn:E end;
             [eapply alt_mem_ok; eauto | apply MAltL; auto]).
    + destruct a; auto; destruct b; try (match goal with X : matches REmpty _ |- _ => inversion X end); auto;
        try (match goal with |- matches (if ?c then _ else _) _ => destruct c end; [auto | apply MAltR; auto]).
Qed.

Ltac inv H := inversion H; subst; clear H.
Ltac invm pat := match goal with X : pat |- _ => inv X end.

Lemma mkAlt_ok a : forall b w, matches (mkAlt a b) w <-> matches (RAlt a b) w.
Proof.
  induction a; intros b w; cbn [mkAlt]; try apply mkAlt1_ok.
  rewrite mkAlt1_ok. split; intros H.
  - inv H.
    + apply MAltL, MAltL; auto.
    + match goal with X : matches (mkAlt a2 b) _ |- _ => apply IHa2 in X; inv X end;
        [apply MAltL, MAltR; auto | apply MAltR; auto].
  - inv H.
    + match goal with X : matches (RAlt a1 a2) _ |- _ => inv X end;
        [apply MAltL; auto | apply MAltR, IHa2, MAltL; auto].
    + apply MAltR, IHa2, MAltR; auto.
Qed.

Lemma star_cons a t w : matches (RStar a) (t :: w) ->
  exists u v, w = u ++ v /\ matches a (t :: u) /\ matches (RStar a) v.
Proof.
  intros H. remember (RStar a) as e. remember (t :: w) as tw.
  revert t w Heqtw. induction H; intros t0 w0 Htw; try discriminate.
  inversion Heqe; subst a0.
  destruct u as [|x u].
  - simpl in Htw. apply IHmatches2; auto.
  - simpl in Htw. inversion Htw; subst. exists u, v. auto.
Qed.

Lemma seq_cons a b t w : matches (RSeq a b) (t :: w) ->
  (nullable a = true /\ matches b (t :: w)) \/ (exists u v, w = u ++ v /\ matches a (t :: u) /\ matches b v).
Proof.
  intros H. inversion H as [| |a' b' u v Hu Hv Heq| | | |]; subst.
  destruct u as [|x u].
  - simpl in *. subst. left. split; auto. apply matches_nullable; auto.
  - simpl in *. match goal with X : _ :: _ = _ :: _ |- _ => inversion X; subst end.
    right. exists u, v. auto.
Qed.

Lemma seq_intro a b u v w : w = u ++ v -> matches a u -> matches b v -> matches (RSeq a b) w.
Proof. intros ->. constructor; auto. Qed.

Theorem deriv_ok e : forall t w, matches (deriv t e) w <-> matches e (t :: w).
Proof.
  induction e as [| |x|e1 IHe1 e2 IHe2|e1 IHe1 e2 IHe2|e1 IHe]; intros t w; cbn [deriv].
  - split; intros H; inversion H.
  - split; intros H; inversion H.
  - destruct (Nat.eqb_spec x t).
    + subst. split; intros H; inversion H; subst; constructor.
    + split; intros H; inversion H; subst. congruence.
  - destruct (nullable e1) eqn:N.
    + rewrite mkAlt_ok. split; intros H.
      * inv H.
        -- match goal with X : matches (mkSeq _ _) _ |- _ => apply mkSeq_ok in X; inversion X as [| |a' b' u v Hu Hv Heq| | | |]; subst end.
           apply IHe1 in Hu. eapply seq_intro with (u := t :: u) (v := v); auto.
        -- match goal with X : matches (deriv t e2) _ |- _ => apply IHe2 in X;
             eapply seq_intro with (u := []) (v := t :: w); auto; apply matches_nullable; auto end.
      * apply seq_cons in H. destruct H as [[_ H]|(u & v & -> & Hu & Hv)].
        -- apply MAltR, IHe2; auto.
        -- apply MAltL, mkSeq_ok. constructor; auto. apply IHe1; auto.
    + rewrite mkSeq_ok. split; intros H.
      * inversion H as [| |a' b' u v Hu Hv Heq| | | |]; subst. apply IHe1 in Hu.
        eapply seq_intro with (u := t :: u) (v := v); auto.
      * apply seq_cons in H. destruct H as [[Hn _]|(u & v & -> & Hu & Hv)]; [congruence|].
        constructor; auto. apply IHe1; auto.
  - rewrite mkAlt_ok. split; intros H; inv H.
    + apply MAltL, IHe1; auto.
    + apply MAltR, IHe2; auto.
    + apply MAltL, IHe1; auto.
    + apply MAltR, IHe2; auto.
  - rewrite mkSeq_ok. split; intros H.
    + inversion H as [| |a' b' u v Hu Hv Heq| | | |]; subst. apply IHe in Hu.
      change (t :: u ++ v) with ((t :: u) ++ v). constructor; auto.
    + apply star_cons in H. destruct H as (u & v & -> & H1 & H2). constructor; auto. apply IHe; auto.
Qed.

Lemma empty_lang_ok e : empty_lang e = true -> forall w, ~ matches e w.
Proof.
  induction e; simpl; intros H w Hm; try discriminate.
  - inversion Hm.
  - inversion Hm; subst. apply orb_prop in H. destruct H; [eapply IHe1|eapply IHe2]; eauto.
  - apply andb_prop in H. destruct H. inversion Hm; subst; [eapply IHe1|eapply IHe2]; eauto.
Qed.

Lemma nonempty_lang e : empty_lang e = false -> exists w, matches e w.
Proof.
  induction e; simpl; intros H; try discriminate.
  - exists []. constructor.
  - exists [t]. constructor.
  - apply orb_false_elim in H. destruct H as [H1 H2].
    destruct (IHe1 H1) as [u Hu]. destruct (IHe2 H2) as [v Hv]. exists (u ++ v). constructor; auto.
  - apply andb_false_elim in H. destruct H as [H|H].
    + destruct (IHe1 H) as [u Hu]. exists u. apply MAltL; auto.
    + destruct (IHe2 H) as [u Hu]. exists u. apply MAltR; auto.
  - exists []. constructor.
Qed.

(* ---------------------------------------------------------------- the certificate checker *)
Section Check.
Variable s : schema.
Variable alphabet : list nat.       (* every node type index of the schema *)

Definition pair_mem (e : re) (q : nat) (seen : list (re * nat)) : bool :=
  existsb (fun p => re_eqb (fst p) e && Nat.eqb (snd p) q) seen.

(* one pair of the candidate relation is consistent *)
Definition pair_ok (seen : list (re * nat)) (p : re * nat) : bool :=
  let '(e, q) := p in
  Bool.eqb (nullable e) (valid_end s q) &&
  negb (empty_lang e) &&
  forallb (fun t =>
    match match_type s q t with
    | Some q' => pair_mem (deriv t e) q' seen
    | None => empty_lang (deriv t e)
    end) alphabet &&
  (* the automaton has no edges on symbols outside the alphabet *)
  forallb (fun ed => existsb (Nat.eqb (fst ed)) alphabet) (cs_next (state_of s q)).

Definition check_bisim (e : re) (q0 : nat) (seen : list (re * nat)) : bool :=
  pair_mem e q0 seen && forallb (pair_ok seen) seen.

(* symbols outside the alphabet: the expression must not mention them *)
Fixpoint syms (e : re) : list nat :=
  match e with
  | RSym t => [t]
  | RSeq a b | RAlt a b => syms a ++ syms b
  | RStar a => syms a
  | _ => []
  end.

Lemma pair_mem_In e q seen : pair_mem e q seen = true -> In (e, q) seen.
Proof.
  unfold pair_mem. intros H. apply existsb_exists in H. destruct H as [[e' q'] [Hin H]].
  simpl in H. apply andb_prop in H. destruct H as [H1 H2].
  apply re_eqb_eq in H1. apply Nat.eqb_eq in H2. subst. auto.
Qed.

Lemma assoc_nat_in l k v : assoc_nat l k = Some v -> In (k, v) l.
Proof.
  induction l as [|[a b] l IH]; simpl; intros H; [discriminate|].
  destruct (Nat.eqb_spec a k); [inversion H; subst; auto|auto].
Qed.

Lemma no_match_outside e t : ~ In t (syms e) -> forall w, ~ matches e (t :: w).
Proof.
  intros Hn w H. remember (t :: w) as tw. revert t w Heqtw Hn.
  induction H; intros t0 w0 Htw Hn; try discriminate.
  - inversion Htw; subst. simpl in Hn. tauto.
  - simpl in Hn. destruct u as [|x u].
    + simpl in Htw. eapply IHmatches2; eauto. intros Hi. apply Hn. apply in_or_app; auto.
    + simpl in Htw. inversion Htw; subst. eapply IHmatches1; eauto. intros Hi. apply Hn. apply in_or_app; auto.
  - eapply IHmatches; eauto. simpl in Hn. intros Hi. apply Hn. apply in_or_app; auto.
  - eapply IHmatches; eauto. simpl in Hn. intros Hi. apply Hn. apply in_or_app; auto.
  - destruct u as [|x u].
    + simpl in Htw. eapply IHmatches2; eauto.
    + simpl in Htw. inversion Htw; subst. eapply IHmatches1; eauto.
Qed.

(* running the automaton *)
Definition accepts (q : nat) (w : list nat) : bool :=
  match match_types s q w with Some q' => valid_end s q' | None => false end.


Theorem check_bisim_sound e0 q0 seen :
  check_bisim e0 q0 seen = true ->
  (forall e q, In (e, q) seen -> forall t, In t (syms e) -> In t alphabet) ->
  forall w, accepts q0 w = true <-> matches e0 w.
Proof.
  unfold check_bisim. intros H Hsyms. apply andb_prop in H. destruct H as [H0 Hall].
  apply pair_mem_In in H0. rewrite forallb_forall in Hall.
  assert (G : forall w e q, In (e, q) seen -> (accepts q w = true <-> matches e w)).
  { induction w as [|t w IH]; intros e q Hin.
    - specialize (Hall _ Hin). simpl in Hall. apply andb_prop in Hall. destruct Hall as [Hall _].
      apply andb_prop in Hall. destruct Hall as [Hall _]. apply andb_prop in Hall. destruct Hall as [Hn _].
      unfold accepts. simpl. rewrite matches_nullable. apply eqb_prop in Hn. rewrite Hn. tauto.
    - pose proof (Hall _ Hin) as Hp. simpl in Hp.
      apply andb_prop in Hp. destruct Hp as [Hp Hedges]. apply andb_prop in Hp. destruct Hp as [Hp Hsym].
      rewrite forallb_forall in Hsym. rewrite forallb_forall in Hedges.
      unfold accepts. simpl.
      destruct (match_type s q t) as [q'|] eqn:Em.
      + (* the automaton has an edge on t: t is in the alphabet *)
        assert (Hta : In t alphabet).
        { unfold match_type in Em. apply assoc_nat_in in Em. specialize (Hedges _ Em).
          apply existsb_exists in Hedges. destruct Hedges as [x [Hx Hx2]]. simpl in Hx2.
          apply Nat.eqb_eq in Hx2. subst; auto. }
        specialize (Hsym _ Hta). rewrite Em in Hsym. apply pair_mem_In in Hsym.
        rewrite <- deriv_ok. apply (IH _ _ Hsym).
      + split; [discriminate|]. intros Hm. exfalso.
        destruct (in_dec Nat.eq_dec t alphabet) as [Hta|Hta].
        * specialize (Hsym _ Hta). rewrite Em in Hsym.
          apply deriv_ok in Hm. eapply empty_lang_ok; eauto.
        * eapply no_match_outside; [|exact Hm]. intros Hi. apply Hta. eapply Hsyms; eauto. }
  intros w. apply G; auto.
Qed.

(* prefixes: the automaton keeps a state alive exactly for extendable prefixes *)
Theorem check_bisim_prefix e0 q0 seen :
  check_bisim e0 q0 seen = true ->
  (forall e q, In (e, q) seen -> forall t, In t (syms e) -> In t alphabet) ->
  forall w, (exists q, match_types s q0 w = Some q) <-> (exists v, matches e0 (w ++ v)).
Proof.
  intros H Hsyms. pose proof H as H'. unfold check_bisim in H. apply andb_prop in H. destruct H as [H0 Hall].
  apply pair_mem_In in H0. rewrite forallb_forall in Hall.
  assert (G : forall w e q, In (e, q) seen ->
            ((exists q', match_types s q w = Some q') <-> (exists v, matches e (w ++ v)))).
  { induction w as [|t w IH]; intros e q Hin.
    - pose proof (Hall _ Hin) as Hp. simpl in Hp.
      apply andb_prop in Hp. destruct Hp as [Hp _]. apply andb_prop in Hp. destruct Hp as [Hp _].
      apply andb_prop in Hp. destruct Hp as [_ Hne]. apply negb_true_iff in Hne.
      simpl. split; [intros _; apply nonempty_lang; auto | intros _; eauto].
    - pose proof (Hall _ Hin) as Hp. simpl in Hp.
      apply andb_prop in Hp. destruct Hp as [Hp Hedges]. apply andb_prop in Hp. destruct Hp as [Hp Hsym].
      rewrite forallb_forall in Hsym. rewrite forallb_forall in Hedges. simpl.
      destruct (match_type s q t) as [q'|] eqn:Em.
      + assert (Hta : In t alphabet).
        { unfold match_type in Em. apply assoc_nat_in in Em. specialize (Hedges _ Em).
          apply existsb_exists in Hedges. destruct Hedges as [x [Hx Hx2]]. simpl in Hx2.
          apply Nat.eqb_eq in Hx2. subst; auto. }
        specialize (Hsym _ Hta). rewrite Em in Hsym. apply pair_mem_In in Hsym.
        rewrite (IH _ _ Hsym). split; intros [v Hv]; exists v; apply deriv_ok; auto.
      + split; [intros [q' Hq]; discriminate|]. intros [v Hm]. exfalso.
        destruct (in_dec Nat.eq_dec t alphabet) as [Hta|Hta].
        * specialize (Hsym _ Hta). rewrite Em in Hsym. apply deriv_ok in Hm. eapply empty_lang_ok; eauto.
        * eapply no_match_outside; [|exact Hm]. intros Hi. apply Hta. eapply Hsyms; eauto. }
  intros w. apply G; auto.
Qed.

(* boolean version of the side condition *)
Definition syms_covered (seen : list (re * nat)) : bool :=
  forallb (fun p => forallb (fun t => existsb (Nat.eqb t) alphabet) (syms (fst p))) seen.

Lemma syms_covered_ok seen : syms_covered seen = true ->
  forall e q, In (e, q) seen -> forall t, In t (syms e) -> In t alphabet.
Proof.
  unfold syms_covered. rewrite forallb_forall. intros H e q Hin t Ht.
  specialize (H _ Hin). simpl in H. rewrite forallb_forall in H. specialize (H _ Ht).
  apply existsb_exists in H. destruct H as [x [Hx Hx2]]. apply Nat.eqb_eq in Hx2. subst; auto.
Qed.

(* ---- the (unverified) worklist that proposes the relation; only its output is checked ---- *)
Fixpoint explore (fuel : nat) (todo seen : list (re * nat)) : list (re * nat) :=
  match fuel with
  | 0 => seen
  | S fuel' =>
    match todo with
    | [] => seen
    | (e, q) :: rest =>
      if pair_mem e q seen then explore fuel' rest seen
      else
        let next := flat_map (fun t => match match_type s q t with
                                        | Some q' => [(deriv t e, q')]
                                        | None => [] end) alphabet in
        explore fuel' (rest ++ next) ((e, q) :: seen)
    end
  end.

Definition equiv_check (fuel : nat) (e : re) (q0 : nat) : bool :=
  let seen := explore fuel [(e, q0)] [] in
  check_bisim e q0 seen && syms_covered seen.

End Check.
