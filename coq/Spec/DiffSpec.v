(* The token picture used by C20: tokens in which the close token carries its node's markup (the scans only
   descend into nodes with identical markup, so a close only "agrees" with the close of a same-markup node),
   and the length of the longest common prefix of two such sequences. *)
From Coq Require Import ZArith NArith List Bool Arith.
From PM Require Import Model.Data Model.Mark Model.Tree Spec.Tokens.
Import ListNotations.

(* tokens with the close token carrying its node's markup: the scans only
   descend into nodes with identical markup, so a close only "agrees" with
   the close of a same-markup node *)
Inductive atok := AOpen (ty : nat) (a : attrs) (m : list mark) | AClose (ty : nat) (a : attrs) (m : list mark)
                | ALeaf (ty : nat) (a : attrs) (m : list mark) | AChar (u : N) (m : list mark).

Section S.
Variable s : schema.
Fixpoint atoks (n : node) : list atok :=
  match n with
  | Text t m => List.map (fun u => AChar (unit_val u) m) (units t)
  | Elem ty a m cs =>
    if is_leaf_ty s ty then [ALeaf ty a m]
    else AOpen ty a m :: (fix go (l : list node) : list atok := match l with [] => [] | c :: r => atoks c ++ go r end) cs
         ++ [AClose ty a m]
  end.
Fixpoint aftoks (l : list node) : list atok := match l with [] => [] | c :: r => atoks c ++ aftoks r end.
End S.

Definition atok_eqb (x y : atok) : bool :=
  match x, y with
  | AOpen t a m, AOpen t' a' m' | AClose t a m, AClose t' a' m' | ALeaf t a m, ALeaf t' a' m' =>
    Nat.eqb t t' && attrs_eqb a a' && marks_eqb m m'
  | AChar u m, AChar u' m' => N.eqb u u' && marks_eqb m m'
  | _, _ => false
  end.
Fixpoint lcp (a b : list atok) : nat :=
  match a, b with
  | x :: a', y :: b' => if atok_eqb x y then S (lcp a' b') else 0
  | _, _ => 0
  end.

