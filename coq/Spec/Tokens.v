(* The flat-token picture of a document: one token per node open, node close,
   leaf node and UTF-16 code unit of text.  A position is a token index. *)
From Coq Require Import ZArith NArith List Bool Arith.
From PM Require Import Model.Data Model.Mark Model.Tree.
Import ListNotations.

Inductive tok :=
| TOpen (ty : nat) (a : attrs) (m : list mark)
| TClose
| TLeaf (ty : nat) (a : attrs) (m : list mark)
| TChar (u : unit16) (m : list mark).

Section WithSchema.
Variable s : schema.

Fixpoint toks (n : node) : list tok :=
  match n with
  | Text t m => List.map (fun u => TChar u m) (units t)
  | Elem ty a m cs =>
    if is_leaf_ty s ty then [TLeaf ty a m]
    else TOpen ty a m :: (fix go (l : list node) : list tok := match l with [] => [] | c :: r => toks c ++ go r end) cs ++ [TClose]
  end.
Fixpoint ftoks (l : list node) : list tok :=
  match l with [] => [] | c :: r => toks c ++ ftoks r end.

(* the 16-bit value of a code unit: two different astral characters may share their high surrogate *)
Definition unit_val (u : unit16) : N :=
  match u with
  | UBmp c => c
  | UHi c => (55296 + (c - 65536) / 1024)%N
  | ULo c => (56320 + (c - 65536) mod 1024)%N
  end.
Definition unit_eqb (a b : unit16) : bool := N.eqb (unit_val a) (unit_val b).

Definition tok_eqb (a b : tok) : bool :=
  match a, b with
  | TOpen t x m, TOpen t' x' m' | TLeaf t x m, TLeaf t' x' m' => Nat.eqb t t' && attrs_eqb x x' && marks_eqb m m'
  | TClose, TClose => true
  | TChar u m, TChar u' m' => unit_eqb u u' && marks_eqb m m'
  | _, _ => false
  end.

Fixpoint toks_eqb (a b : list tok) : bool :=
  match a, b with
  | [], [] => true
  | x :: a', y :: b' => tok_eqb x y && toks_eqb a' b'
  | _, _ => false
  end.

(* nesting depth after a token prefix; None if a close has no open *)
Fixpoint depth_after (l : list tok) (d : nat) : option nat :=
  match l with
  | [] => Some d
  | TOpen _ _ _ :: r => depth_after r (S d)
  | TClose :: r => match d with 0 => None | S d' => depth_after r d' end
  | _ :: r => depth_after r d
  end.
Definition depth_at (l : list tok) (p : nat) : nat :=
  match depth_after (firstn p l) 0 with Some d => d | None => 0 end.

(* minimum nesting depth over positions from..to *)
Fixpoint min_depth (l : list tok) (from n : nat) : nat :=
  match n with
  | 0 => depth_at l from
  | S n' => Nat.min (depth_at l from) (min_depth l (S from) n')
  end.

(* the tokens a slice stands for: its content's tokens minus the open sides *)
Definition inner_toks (sl : slice) : list tok :=
  let t := ftoks (sl_content sl) in
  firstn (length t - sl_open_start sl - sl_open_end sl) (skipn (sl_open_start sl) t).

(* no empty text and no two adjacent text nodes with the same marks, at every level *)
Fixpoint normalized_list (norm : node -> bool) (l : list node) : bool :=
  match l with
  | [] => true
  | x :: r =>
    norm x &&
    (match x, r with
     | Text _ m, Text _ m' :: _ => negb (marks_eqb m m')
     | _, _ => true
     end) && normalized_list norm r
  end.
Fixpoint normalized (n : node) : bool :=
  match n with
  | Text t _ => match t with [] => false | _ => true end
  | Elem _ _ _ cs =>
    (fix go (l : list node) : bool :=
       match l with
       | [] => true
       | x :: r =>
         normalized x &&
         (match x, r with
          | Text _ m, Text _ m' :: _ => negb (marks_eqb m m')
          | _, _ => true
          end) && go r
       end) cs
  end.

(* the sequence of text/leaf tokens (what C11/C12 call "content") *)
Definition is_leaf_tok (t : tok) : bool := match t with TLeaf _ _ _ | TChar _ _ => true | _ => false end.
Definition leaves (l : list tok) : list tok := filter is_leaf_tok l.

End WithSchema.
