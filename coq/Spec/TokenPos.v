(* What a position means in the flat-token picture (used by C09, C18):
   ancestors = unclosed opens before the position, their spans, child indices
   counted on the token sequence, the marks rule stated on tokens. *)
From Coq Require Import ZArith NArith List Bool Arith.
From PM Require Import Model.Data Model.Mark Model.Tree Spec.Tokens.
Import ListNotations.

(* (open index, close index) of every element node, by a stack scan *)
Fixpoint pair_table (T : list tok) (i : nat) (stack : list nat) : list (nat * nat) :=
  match T with
  | [] => []
  | TOpen _ _ _ :: r => pair_table r (S i) (i :: stack)
  | TClose :: r =>
    match stack with
    | o :: st => (o, i) :: pair_table r (S i) st
    | [] => pair_table r (S i) []
    end
  | _ :: r => pair_table r (S i) stack
  end.

Fixpoint lookup_fst (l : list (nat * nat)) (k : nat) : option nat :=
  match l with [] => None | (a, b) :: r => if Nat.eqb a k then Some b else lookup_fst r k end.
Fixpoint lookup_snd (l : list (nat * nat)) (k : nat) : option nat :=
  match l with [] => None | (a, b) :: r => if Nat.eqb b k then Some a else lookup_snd r k end.

(* opens before p that are not closed before p, outermost first *)
Definition open_ancestors (T : list tok) (p : nat) : list nat :=
  let tbl := pair_table T 0 [] in
  List.map fst (filter (fun oc => (fst oc <? p) && (p <=? snd oc)) tbl).

Definition sort_nat (l : list nat) : list nat :=
  fold_right (fun x acc => (fix ins (l : list nat) := match l with [] => [x] | y :: r => if x <=? y then x :: l else y :: ins r end) acc) [] l.

Definition tok_marks (t : tok) : option (list mark) :=
  match t with TOpen _ _ m | TLeaf _ _ m | TChar _ m => Some m | TClose => None end.

(* p is strictly inside a text node: the tokens on both sides are text units with the same marks *)
Definition inside_run (T : list tok) (p : nat) : bool :=
  match p with
  | 0 => false
  | S p' =>
    match nth_error T p', nth_error T p with
    | Some (TChar _ m), Some (TChar _ m') => marks_eqb m m'
    | _, _ => false
    end
  end.

(* start of the text node containing token index i (i is a TChar) *)
Fixpoint run_start (T : list tok) (i : nat) (fuel : nat) : nat :=
  match fuel with
  | 0 => i
  | S f => if inside_run T i then run_start T (i - 1) f else i
  end.

(* number of child nodes that START in the token segment T[a..b) at nesting level 0 of the segment *)
Fixpoint count_nodes (T : list tok) (prev : option tok) (d : nat) : nat :=
  match T with
  | [] => 0
  | t :: r =>
    match t with
    | TOpen _ _ _ => (if d =? 0 then 1 else 0) + count_nodes r (Some t) (S d)
    | TClose => count_nodes r (Some t) (d - 1)
    | TLeaf _ _ _ => (if d =? 0 then 1 else 0) + count_nodes r (Some t) d
    | TChar _ m =>
      (if d =? 0 then
         match prev with Some (TChar _ m') => if marks_eqb m m' then 0 else 1 | _ => 1 end
       else 0) + count_nodes r (Some t) d
    end
  end.
Definition seg {A} (l : list A) (a b : nat) : list A := firstn (b - a) (skipn a l).

Record level_spec := { ls_start : nat; ls_end : nat; ls_index : nat; ls_open : option tok }.

(* the expected (start, end, index) of every ancestor level of position p *)
Definition levels (T : list tok) (p : nat) : list level_spec :=
  let tbl := pair_table T 0 [] in
  let anc := sort_nat (open_ancestors T p) in
  let starts := 0 :: List.map S anc in
  let ends := length T :: List.map (fun o => match lookup_fst tbl o with Some c => c | None => 0 end) anc in
  let opens := None :: List.map (fun o => nth_error T o) anc in
  let upto := List.map (fun o => o) anc ++ [p] in      (* where level d's child counting stops *)
  (fix go (ss es : list nat) (os : list (option tok)) (us : list nat) (last : bool) : list level_spec :=
     match ss, es, os, us with
     | st :: ss', en :: es', o :: os', u :: us' =>
       let deepest := match ss' with [] => true | _ => false end in
       let c := count_nodes (seg T st u) None 0 in
       let idx := if deepest && inside_run T p && (st <? p) then c - 1 else c in
       {| ls_start := st; ls_end := en; ls_index := idx; ls_open := o |} :: go ss' es' os' us' deepest
     | _, _, _, _ => []
     end) starts ends opens upto false.

(* the marks rule of ResolvedPos.marks() restated on tokens *)
Definition marks_rule (s : schema) (T : list tok) (p : nat) : list mark :=
  let tbl := pair_table T 0 [] in
  let keep (main : list mark) (other : option (list mark)) :=
    filter (fun m => negb (mt_inclusive_false (mtype_of s (m_ty m)) &&
                           match other with None => true | Some o => negb (is_in_set m o) end)) main in
  if inside_run T p then match nth_error T p with Some t => match tok_marks t with Some m => m | None => [] end | None => [] end
  else
    let before :=
      match p with
      | 0 => None
      | S p' => match nth_error T p' with
                | Some (TClose) => match lookup_snd tbl p' with
                                   | Some o => match nth_error T o with Some t => tok_marks t | None => None end
                                   | None => None end
                | Some (TOpen _ _ _) => None
                | Some t => tok_marks t
                | None => None
                end
      end in
    let after := match nth_error T p with Some TClose => None | Some t => tok_marks t | None => None end in
    match before, after with
    | Some m, o => keep m o
    | None, Some m => keep m None
    | None, None => []
    end.
