(* C19 — the part of HTML import that is decision logic: parse rules restricted by a context expression
   apply exactly when the open ancestors match the expression.
   [ctx_reading] is the declarative reading of one alternative "p1/p2/.../pk/": reading the parts from the
   last to the first against the open nodes from the current one up to the root, a non-empty part stands for
   exactly one node whose type name or group it is, an empty part in the middle ("//") for any number of
   nodes, one leading and one trailing empty part mean nothing, and ancestors above the first part are not
   constrained.  Theorems: for every schema, every non-empty stack of open nodes and every expression without
   two adjacent empty parts (other than the trailing "a//"), ParseContext.matches_context answers true
   exactly when some alternative reads true.  (Model.DomCtx is the model of matches_context for a closed
   parse; it is compared with the implementation on random stacks and expressions on every run.)
   The rest of C19 — the parser's state machine and the serializer run on lxml and are not modelled — is
   decided per case by a verified oracle: every generated HTML fragment must parse into a document the Coq
   validity checker [check] accepts (C07_check_iff), and export-then-import must give an equal document. *)
From Coq Require Import List String.
From PM Require Import Model.Data Model.DomCtx Proofs.DomCtxProofs.
Import ListNotations.
Local Open Scope string_scope.
Local Open Scope list_scope.

Theorem C19_context_alternative_applies_exactly_when_it_reads_true : forall s stack parts,
  stack <> [] -> NoAdj (drop_head_empty (rev parts)) ->
  matches_context_alt s stack parts = true <-> ctx_reading s stack parts.
Proof. exact matches_context_alt_spec. Qed.
Print Assumptions C19_context_alternative_applies_exactly_when_it_reads_true.

Theorem C19_context_rule_applies_exactly_when_an_alternative_reads_true : forall s stack alts,
  stack <> [] -> (forall parts, In parts alts -> NoAdj (drop_head_empty (rev parts))) ->
  matches_context s stack alts = true <-> exists parts, In parts alts /\ ctx_reading s stack parts.
Proof. exact matches_context_spec. Qed.
Print Assumptions C19_context_rule_applies_exactly_when_an_alternative_reads_true.

(* the hypothesis is met by the usual shapes: "a/b/", "a//b/", "/a/b", "a//" *)
Example C19_wellformed_examples :
  NoAdj (drop_head_empty (rev ["a"; "b"; ""])) /\ NoAdj (drop_head_empty (rev ["a"; ""; "b"; ""])) /\
  NoAdj (drop_head_empty (rev [""; "a"; "b"])) /\ NoAdj (drop_head_empty (rev ["a"; ""; ""])).
Proof. cbn. auto. Qed.

(* ---- export: what DOMSerializer.serialize_fragment does with marks (Model/ToDom.v, Proofs/ToDomProofs.v) ----
   [ser_fragment s rendered spanning l]: the tree of wrapper elements built for the fragment l ([DMark] = the element a mark
   is rendered as, [DElem] / [DLeafN] / [DText] = a rendered node), for any set of marks the serializer can render and any
   set of non-spanning mark types.  [flat_list [] tree]: the rendered nodes in order, each with the marks of the wrappers
   around it, outermost first.  Every node of the fragment appears exactly once, in order, inside wrappers for exactly its
   own rendered marks, in the order of its mark set (marks compared with Mark.eq); and a node with a content hole holds
   its own content serialised the same way. *)
From PM Require Import Model.Mark Model.ToDom Proofs.ToDomProofs.
Local Close Scope string_scope.
Theorem C19_serializer_wraps_each_node_in_its_marks : forall s rendered spanning l,
  exists encs,
    flat_list [] (ser_fragment s rendered spanning l) = combine (List.map (ser_node s rendered spanning) l) encs /\
    List.length encs = List.length l /\
    Forall2 (fun c enc => marks_match (filter rendered (node_marks c)) enc) l encs.
Proof. exact ser_fragment_marks. Qed.
Print Assumptions C19_serializer_wraps_each_node_in_its_marks.

Theorem C19_serializer_content_is_serialized_the_same_way : forall s rendered spanning ty a m cs,
  is_leaf_ty s ty = false ->
  ser_node s rendered spanning (Elem ty a m cs) = DElem ty a (ser_fragment s rendered spanning cs).
Proof. exact ser_node_elem. Qed.
Print Assumptions C19_serializer_content_is_serialized_the_same_way.

(* for instance: "a" in em, "b" in em + strong, "c" plain - the em wrapper stays open across the first two nodes *)
From Coq Require Import NArith.
From PM Require Properties.C01.
Example C19_serializer_example :
  let em := {| m_ty := 0; m_attrs := [] |} in let strong := {| m_ty := 1; m_attrs := [] |} in
  ser_fragment Properties.C01.ex_schema (fun _ => true) (fun _ => true)
    [Text [97%N] [em]; Text [98%N] [em; strong]; Text [99%N] []]
  = [DMark em [DText [97%N]; DMark strong [DText [98%N]]]; DText [99%N]].
Proof. vm_compute. reflexivity. Qed.
