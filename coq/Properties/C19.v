From PM Require Import Model.DomCtx.
