From PM Require Import Model.Fill.
