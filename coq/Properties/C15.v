(* C15 — content filling and wrapper search are sound AND complete, and the wrapper chain found is a shortest
   one: theorems over every automaton table (the completeness theorems ask that the table's edges stay inside the
   table - [closed_schema], [closed_types], boolean checks evaluated on the dumped schema in every C15 case).
   create_and_fill: whatever it returns has the asked type and, as children, filler nodes / the given content untouched and
   in order / filler nodes, matching the content expression up to a valid end; it is schema-valid as soon as the given
   content is (C15_create_and_fill_shape, C15_create_and_fill_valid). *)
From Coq Require Import List Bool Arith.
From PM Require Import Model.Data Model.Mark Model.Tree Model.Step Model.Fill Proofs.FillProofs Proofs.FillComplete Proofs.WrapComplete Proofs.ValidityProofs Proofs.CreateFill.
Import ListNotations.

(* over every deterministic automaton table (what the compiler produces; [det_schema] is a boolean check):
   the node types fill_before proposes are generatable and make the combined sequence match — up to a
   valid end when asked *)
Theorem C15_fill_before_sound : forall s, det_schema s = true -> forall q after te st tys,
  fill_before_types s q after te st = Some tys ->
  forallb (generatable s) tys = true /\
  exists q1, match_types s q tys = Some q1 /\ finished s after te st q1 = true.
Proof. exact fill_before_types_sound. Qed.
Print Assumptions C15_fill_before_sound.

(* the wrapper chain find_wrapping returns really fits: the first wrapper is allowed at the position, each
   wrapper may hold the next as its only child, the innermost accepts the target as first child, none is a
   leaf or needs attributes *)
Theorem C15_find_wrapping_sound : forall s, det_schema s = true -> forall q target chain,
  find_wrapping s q target = Some chain -> chain_fits s q chain target true.
Proof. exact find_wrapping_sound. Qed.
Print Assumptions C15_find_wrapping_sound.

(* ---- completeness ----
   fill_before returns nothing ONLY IF no filling exists: when the search fails from a state of the table, NO sequence
   of generatable node types leads from that state to a state from which the rest of the content matches (to a
   valid end when asked).  Proof: when the depth-first search fails, its visited list contains the start state, is
   closed under generatable edges and holds no finishing state; the fuel (number of states + 1) always suffices. *)
Theorem C15_fill_before_complete : forall s after te st q,
  closed_schema s = true -> q < length (s_states s) ->
  fill_before_types s q after te st = None ->
  forall ts q', forallb (generatable s) ts = true -> match_types s q ts = Some q' ->
    finished s after te st q' = false.
Proof. intros s after te st q Hc. exact (fill_before_types_complete s after te st Hc q). Qed.
Print Assumptions C15_fill_before_complete.

(* find_wrapping returns nothing ONLY IF no chain of wrapper types fits *)
Theorem C15_find_wrapping_complete : forall s q target,
  closed_types s = true -> find_wrapping s q target = None ->
  forall chain, ~ chain_fits s q chain target true.
Proof. intros s q target Hc. exact (find_wrapping_none_no_chain s q target Hc). Qed.
Print Assumptions C15_find_wrapping_complete.

(* ... and the chain it returns is a SHORTEST fitting chain *)
Theorem C15_find_wrapping_shortest : forall s q target chain,
  closed_types s = true -> find_wrapping s q target = Some chain ->
  forall c, chain_fits s q c target true -> length chain <= length c.
Proof. intros s q target chain Hc. exact (find_wrapping_shortest s q target Hc chain). Qed.
Print Assumptions C15_find_wrapping_shortest.

(* ---- building a node 'and fill' ----
   [Filler s k]: k is a valid, unmarked element node of a generatable type (what fill_before creates).
   Whatever NodeType.create_and_fill(attrs, content, marks) returns is a node of the asked type with the computed
   attributes and the sorted marks, whose children are exactly: filler nodes, the given content (untouched, in order),
   filler nodes - and that child sequence matches the type's content expression up to a valid end. *)
Theorem C15_create_and_fill_shape : forall s, det_schema s = true -> forall fuel ty a content ms n,
  create_and_fill s fuel ty a content ms = Ok (Some n) ->
  exists attrs bf af,
    compute_attrs (nt_attrs (ntype_of s ty)) a = Ok attrs /\
    n = Elem ty attrs (set_from ms) (bf ++ content ++ af) /\
    Forall (Filler s) bf /\ Forall (Filler s) af /\
    accepts s (nt_start (ntype_of s ty)) (types_of s (bf ++ content ++ af)) = true.
Proof. exact create_and_fill_spec. Qed.
Print Assumptions C15_create_and_fill_shape.

(* ... so it is schema-valid (Node.check) whenever the given children are valid and carry marks the type allows, and the
   given mark set is canonical once sorted (create_and_fill itself checks neither) *)
Theorem C15_create_and_fill_valid : forall s, det_schema s = true -> forall fuel ty a content ms n,
  create_and_fill s fuel ty a content ms = Ok (Some n) ->
  Forall (fun c => valid s c = true /\ allows_marks s ty (node_marks c) = true) content ->
  marks_canonical s (set_from ms) = true ->
  check s n = true.
Proof. intros s Hd fuel ty a content ms n H Hc Hm. rewrite check_iff. exact (create_and_fill_valid s Hd fuel ty a content ms n H Hc Hm). Qed.
Print Assumptions C15_create_and_fill_valid.

(* the hypotheses are met: over the example schema of Properties/C01.v (doc: block+), building an empty document 'and
   fill' puts in one empty paragraph, and the schema's table is deterministic *)
From PM Require Properties.C01.
Example C15_create_and_fill_example :
  det_schema Properties.C01.ex_schema = true /\
  create_and_fill Properties.C01.ex_schema 5 0 [] [] [] = Ok (Some (Elem 0 [] [] [Elem 1 [] [] []])).
Proof. split; vm_compute; reflexivity. Qed.
