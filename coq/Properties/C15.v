(* C15 — content filling and wrapper search are sound AND complete, and the wrapper chain found is a shortest
   one: theorems over every automaton table (the completeness theorems ask that the table's edges stay inside the
   table - [closed_schema], [closed_types], boolean checks evaluated on the dumped schema in every C15 case).
   create_and_fill is evaluated per case by Corr.C15.holds. *)
From Coq Require Import List Bool Arith.
From PM Require Import Model.Data Model.Mark Model.Tree Model.Step Model.Fill Proofs.FillProofs Proofs.FillComplete Proofs.WrapComplete.
Import ListNotations.

(* over every deterministic automaton table (what the compiler produces; [det_schema] is a boolean check):
   the node types fill_before proposes are generatable and make the combined sequence match — up to a
   valid end when asked *)
Theorem C15_fill_before_sound : forall s, det_schema s = true -> forall q after te st tys,
  fill_before_types s q after te st = Some tys ->
  forallb (generatable s) tys = true /\
  exists q1, match_types s q tys = Some q1 /\ finished s after te st q1 = true.
Proof. exact fill_before_types_sound. Qed.
Print Assumptions C15_fill_before_sound.

(* the wrapper chain find_wrapping returns really fits: the first wrapper is allowed at the position, each
   wrapper may hold the next as its only child, the innermost accepts the target as first child, none is a
   leaf or needs attributes *)
Theorem C15_find_wrapping_sound : forall s, det_schema s = true -> forall q target chain,
  find_wrapping s q target = Some chain -> chain_fits s q chain target true.
Proof. exact find_wrapping_sound. Qed.
Print Assumptions C15_find_wrapping_sound.

(* ---- completeness ----
   fill_before returns nothing ONLY IF no filling exists: when the search fails from a state of the table, NO sequence
   of generatable node types leads from that state to a state from which the rest of the content matches (to a
   valid end when asked).  Proof: when the depth-first search fails, its visited list contains the start state, is
   closed under generatable edges and holds no finishing state; the fuel (number of states + 1) always suffices. *)
Theorem C15_fill_before_complete : forall s after te st q,
  closed_schema s = true -> q < length (s_states s) ->
  fill_before_types s q after te st = None ->
  forall ts q', forallb (generatable s) ts = true -> match_types s q ts = Some q' ->
    finished s after te st q' = false.
Proof. intros s after te st q Hc. exact (fill_before_types_complete s after te st Hc q). Qed.
Print Assumptions C15_fill_before_complete.

(* find_wrapping returns nothing ONLY IF no chain of wrapper types fits *)
Theorem C15_find_wrapping_complete : forall s q target,
  closed_types s = true -> find_wrapping s q target = None ->
  forall chain, ~ chain_fits s q chain target true.
Proof. intros s q target Hc. exact (find_wrapping_none_no_chain s q target Hc). Qed.
Print Assumptions C15_find_wrapping_complete.

(* ... and the chain it returns is a SHORTEST fitting chain *)
Theorem C15_find_wrapping_shortest : forall s q target chain,
  closed_types s = true -> find_wrapping s q target = Some chain ->
  forall c, chain_fits s q c target true -> length chain <= length c.
Proof. intros s q target chain Hc. exact (find_wrapping_shortest s q target Hc chain). Qed.
Print Assumptions C15_find_wrapping_shortest.
