(* C15 — content filling and wrapper search are sound (theorems) and complete (evaluated per case
   against independent closures by Corr.C15.holds; not yet a theorem). *)
From Coq Require Import List Bool Arith.
From PM Require Import Model.Data Model.Mark Model.Tree Model.Step Model.Fill Proofs.FillProofs.
Import ListNotations.

(* over every deterministic automaton table (what the compiler produces; [det_schema] is a boolean check):
   the node types fill_before proposes are generatable and make the combined sequence match — up to a
   valid end when asked *)
Theorem C15_fill_before_sound : forall s, det_schema s = true -> forall q after te st tys,
  fill_before_types s q after te st = Some tys ->
  forallb (generatable s) tys = true /\
  exists q1, match_types s q tys = Some q1 /\ finished s after te st q1 = true.
Proof. exact fill_before_types_sound. Qed.
Print Assumptions C15_fill_before_sound.

(* the wrapper chain find_wrapping returns really fits: the first wrapper is allowed at the position, each
   wrapper may hold the next as its only child, the innermost accepts the target as first child, none is a
   leaf or needs attributes *)
Theorem C15_find_wrapping_sound : forall s, det_schema s = true -> forall q target chain,
  find_wrapping s q target = Some chain -> chain_fits s q chain target true.
Proof. exact find_wrapping_sound. Qed.
Print Assumptions C15_find_wrapping_sound.
