(* C10 — the part a value-level model can carry: the transform's accumulators only grow by appending,
   and stay aligned / replayable over any sequence of attempted steps.  In-place mutation and aliasing of
   Python objects are outside a Gallina model; they are monitored on the implementation (harness/c10.py). *)
From Coq Require Import List.
From PM Require Import Model.Data Model.Tree Model.StepMap Model.Step Model.Transform Proofs.TransformProofs.
Import ListNotations.

Theorem C10_accumulators_append_only : forall s t st,
  let t' := fst (maybe_step s t st) in
  exists a b c, t_steps t' = t_steps t ++ a /\ t_docs t' = t_docs t ++ b /\ t_maps t' = t_maps t ++ c.
Proof. exact accumulators_append_only. Qed.
Print Assumptions C10_accumulators_append_only.
