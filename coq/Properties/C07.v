(* C07 — validity predicates agree exactly with the schema's definition of validity *)
From Coq Require Import List Bool Arith.
From PM Require Import Model.Data Model.Mark Model.Tree Proofs.ValidityProofs.
Import ListNotations.

Theorem C07_valid_content_iff : forall s ty cs, valid_content s ty cs = valid_children s ty cs.
Proof. exact valid_content_iff. Qed.
Print Assumptions C07_valid_content_iff.

Theorem C07_check_iff : forall s n, check s n = valid s n.
Proof. exact check_iff. Qed.
Print Assumptions C07_check_iff.

Theorem C07_can_replace_iff : forall s n from to repl start end_ q,
  content_match_at s n from = Ok q ->
  can_replace s n from to repl start end_ =
  Ok (accepts s (node_start_state s n)
        (types_of s (firstn from (node_content n) ++ sub_list repl start end_ ++ skipn to (node_content n)))
      && forallb (fun c => allows_marks s (node_ty s n) (node_marks c)) (sub_list repl start end_)).
Proof. exact can_replace_iff. Qed.
Print Assumptions C07_can_replace_iff.

Theorem C07_can_replace_valid : forall s n from to repl start end_ q,
  content_match_at s n from = Ok q ->
  forallb (fun c => allows_marks s (node_ty s n) (node_marks c)) (node_content n) = true ->
  can_replace s n from to repl start end_ =
  Ok (valid_children s (node_ty s n)
        (firstn from (node_content n) ++ sub_list repl start end_ ++ skipn to (node_content n))).
Proof. exact can_replace_valid. Qed.
Print Assumptions C07_can_replace_valid.

Theorem C07_can_replace_with_iff : forall s n from to ty ms q,
  content_match_at s n from = Ok q ->
  can_replace_with s n from to ty ms =
  Ok ((match ms with [] => true | _ => allows_marks s (node_ty s n) ms end) &&
      accepts s (node_start_state s n)
        (types_of s (firstn from (node_content n)) ++ [ty] ++ types_of s (skipn to (node_content n)))).
Proof. exact can_replace_with_iff. Qed.
Print Assumptions C07_can_replace_with_iff.

Theorem C07_can_append_iff : forall s n other q,
  frag_size s (node_content other) <> 0 ->
  content_match_at s n (length (node_content n)) = Ok q ->
  can_append s n other =
  Ok (accepts s (node_start_state s n) (types_of s (node_content n ++ node_content other))
      && forallb (fun c => allows_marks s (node_ty s n) (node_marks c)) (node_content other)).
Proof. exact can_append_iff. Qed.
Print Assumptions C07_can_append_iff.

Theorem C07_content_match_at_spec : forall s n index,
  content_match_at s n index =
  match match_types s (node_start_state s n) (types_of s (firstn index (node_content n))) with
  | Some q => Ok q
  | None => Err ErrValue
  end.
Proof. exact content_match_at_spec. Qed.
Print Assumptions C07_content_match_at_spec.
