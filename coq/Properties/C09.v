(* C09 — positions resolve consistently with the flat token picture, counting UTF-16 units.
   [before_p path toff] / [after_p path toff] (Proofs/PathTokens.v) read the tokens on the left and on the
   right of a resolved position off its path: for every level the children before the path's child, the
   open token of the child the path descends into, and at the last level the first [toff] units of the
   text node the position points into.  The theorems say, for every schema, document and position:
   resolve succeeds exactly on 0..size; the path it returns is a chain of parent/child nodes; and the
   tokens on its left / right are exactly the first pos / the remaining tokens of the document — i.e. the
   position IS the token index, one per UTF-16 unit.  The individual accessors (start/end/before/after,
   node_at, nodes_between, text_between, marks ...) are compared with their token-level specification per
   case by Corr.C09 (Spec/TokenPos.v). *)
From Coq Require Import List Arith Lia.
From PM Require Import Model.Data Model.Mark Model.Tree Spec.Tokens
  Proofs.ReplaceValid Proofs.SliceSides Proofs.TokenBasics Proofs.PathTokens Proofs.ReplaceTokens Proofs.Accessors.
Import ListNotations.

Theorem C09_every_position_resolves : forall s doc pos,
  is_elem doc -> pos <= frag_size s (node_content doc) -> exists r, resolve s doc pos = Ok r.
Proof. exact resolve_total. Qed.
Print Assumptions C09_every_position_resolves.

Theorem C09_only_positions_resolve : forall s doc pos r,
  resolve s doc pos = Ok r -> pos <= frag_size s (node_content doc) /\ rp_pos r = pos.
Proof.
  intros s doc pos r H. split; [apply (resolve_tokens s _ _ _ H)|apply (resolve_spec s _ _ _ H)].
Qed.
Print Assumptions C09_only_positions_resolve.

Theorem C09_position_is_token_index : forall s doc pos r,
  resolve s doc pos = Ok r ->
  before_p s (rp_path r) (rp_text_offset r) = firstn pos (ftoks s (node_content doc)) /\
  after_p s (rp_path r) (rp_text_offset r) = skipn pos (ftoks s (node_content doc)).
Proof. intros s doc pos r H. apply (resolve_tokens s _ _ _ H). Qed.
Print Assumptions C09_position_is_token_index.

(* the path is a chain: it starts at the document, every entry's node is the child (at the recorded index)
   of the entry above it, every node on it is an element and, below the root, a non-leaf one; a non-zero
   text offset means the position points into a text child *)
Theorem C09_path_is_an_ancestor_chain : forall s doc pos r,
  resolve s doc pos = Ok r ->
  (exists i o rest, rp_path r = (doc, i, o) :: rest) /\
  (forall d n1 i1 o1 n2 i2 o2, path_at r d = Some (n1, i1, o1) -> path_at r (S d) = Some (n2, i2, o2) ->
     child_at n1 i1 = Some n2) /\
  (forall d n, rp_node r d = Ok n -> is_elem n /\ (0 < d -> nonleaf s n)) /\
  (rp_text_offset r <> 0 ->
     exists n i o t m, path_at r (rp_depth r) = Some (n, i, o) /\ child_at n i = Some (Text t m)).
Proof.
  intros s doc pos r H. destruct (resolve_spec s _ _ _ H) as (_ & Hl & Ht & Hh & _).
  split; [exact Hh|]. split; [exact Hl|]. split; [exact (resolve_PathShape s _ _ _ H)|exact Ht].
Qed.
Print Assumptions C09_path_is_an_ancestor_chain.

(* the parent offset is the token index inside the innermost ancestor *)
Theorem C09_parent_offset : forall s doc pos r,
  resolve s doc pos = Ok r ->
  exists parent i o, path_at r (rp_depth r) = Some (parent, i, o) /\
    before_p s [(parent, i, o)] (rp_text_offset r) = firstn (rp_parent_offset r) (ftoks s (node_content parent)) /\
    after_p s [(parent, i, o)] (rp_text_offset r) = skipn (rp_parent_offset r) (ftoks s (node_content parent)).
Proof. exact resolve_last. Qed.
Print Assumptions C09_parent_offset.

(* before / start / end / after of every ancestor below the root: the ancestor spans the balanced block
   open :: content ++ [close] of the document's tokens; before is the index of its open token, start the index
   of its first content token, end the index of its close token, after the index behind it, and the position
   lies between start and end *)
Theorem C09_ancestor_accessors : forall s doc pos r d nd,
  resolve s doc pos = Ok r -> rp_node r (S d) = Ok nd ->
  exists X Y,
    ftoks s (node_content doc) = X ++ open_tok nd :: ftoks s (node_content nd) ++ TClose :: Y /\
    rp_before r (S d) = Ok (length X) /\
    rp_start r (S d) = Ok (length X + 1) /\
    rp_end s r (S d) = Ok (length X + 1 + frag_size s (node_content nd)) /\
    rp_after s r (S d) = Ok (length X + 2 + frag_size s (node_content nd)) /\
    length X + 1 <= pos /\ pos <= length X + 1 + frag_size s (node_content nd).
Proof. exact ancestor_span. Qed.
Print Assumptions C09_ancestor_accessors.
