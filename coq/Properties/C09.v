(* C09 — positions resolve consistently with the flat token picture, counting UTF-16 units.
   [before_p path toff] / [after_p path toff] (Proofs/PathTokens.v) read the tokens on the left and on the
   right of a resolved position off its path: for every level the children before the path's child, the
   open token of the child the path descends into, and at the last level the first [toff] units of the
   text node the position points into.  The theorems say, for every schema, document and position:
   resolve succeeds exactly on 0..size; the path it returns is a chain of parent/child nodes; and the
   tokens on its left / right are exactly the first pos / the remaining tokens of the document — i.e. the
   position IS the token index, one per UTF-16 unit.  Node.nodes_between reports exactly the nodes of the document
   that overlap the range, each with its parent, index and absolute position (sound and complete), hence
   Node.range_has_mark; Node.node_at returns the node whose tokens sit at / around the position.  The remaining
   accessors (text_between, marks, marks_across, block_range, child_after/before ...) are compared with their
   token-level specification per case by Corr.C09 (Spec/TokenPos.v). *)
From Coq Require Import List Arith Lia.
From PM Require Import Model.Data Model.Mark Model.Tree Spec.Tokens
  Proofs.ReplaceValid Proofs.SliceSides Proofs.TokenBasics Proofs.PathTokens Proofs.ReplaceTokens Proofs.Accessors
  Model.Resolve Proofs.StepSafe Proofs.Traversal.
Import ListNotations.

Theorem C09_every_position_resolves : forall s doc pos,
  is_elem doc -> pos <= frag_size s (node_content doc) -> exists r, resolve s doc pos = Ok r.
Proof. exact resolve_total. Qed.
Print Assumptions C09_every_position_resolves.

Theorem C09_only_positions_resolve : forall s doc pos r,
  resolve s doc pos = Ok r -> pos <= frag_size s (node_content doc) /\ rp_pos r = pos.
Proof.
  intros s doc pos r H. split; [apply (resolve_tokens s _ _ _ H)|apply (resolve_spec s _ _ _ H)].
Qed.
Print Assumptions C09_only_positions_resolve.

Theorem C09_position_is_token_index : forall s doc pos r,
  resolve s doc pos = Ok r ->
  before_p s (rp_path r) (rp_text_offset r) = firstn pos (ftoks s (node_content doc)) /\
  after_p s (rp_path r) (rp_text_offset r) = skipn pos (ftoks s (node_content doc)).
Proof. intros s doc pos r H. apply (resolve_tokens s _ _ _ H). Qed.
Print Assumptions C09_position_is_token_index.

(* the path is a chain: it starts at the document, every entry's node is the child (at the recorded index)
   of the entry above it, every node on it is an element and, below the root, a non-leaf one; a non-zero
   text offset means the position points into a text child *)
Theorem C09_path_is_an_ancestor_chain : forall s doc pos r,
  resolve s doc pos = Ok r ->
  (exists i o rest, rp_path r = (doc, i, o) :: rest) /\
  (forall d n1 i1 o1 n2 i2 o2, path_at r d = Some (n1, i1, o1) -> path_at r (S d) = Some (n2, i2, o2) ->
     child_at n1 i1 = Some n2) /\
  (forall d n, rp_node r d = Ok n -> is_elem n /\ (0 < d -> nonleaf s n)) /\
  (rp_text_offset r <> 0 ->
     exists n i o t m, path_at r (rp_depth r) = Some (n, i, o) /\ child_at n i = Some (Text t m)).
Proof.
  intros s doc pos r H. destruct (resolve_spec s _ _ _ H) as (_ & Hl & Ht & Hh & _).
  split; [exact Hh|]. split; [exact Hl|]. split; [exact (resolve_PathShape s _ _ _ H)|exact Ht].
Qed.
Print Assumptions C09_path_is_an_ancestor_chain.

(* the parent offset is the token index inside the innermost ancestor *)
Theorem C09_parent_offset : forall s doc pos r,
  resolve s doc pos = Ok r ->
  exists parent i o, path_at r (rp_depth r) = Some (parent, i, o) /\
    before_p s [(parent, i, o)] (rp_text_offset r) = firstn (rp_parent_offset r) (ftoks s (node_content parent)) /\
    after_p s [(parent, i, o)] (rp_text_offset r) = skipn (rp_parent_offset r) (ftoks s (node_content parent)).
Proof. exact resolve_last. Qed.
Print Assumptions C09_parent_offset.

(* before / start / end / after of every ancestor below the root: the ancestor spans the balanced block
   open :: content ++ [close] of the document's tokens; before is the index of its open token, start the index
   of its first content token, end the index of its close token, after the index behind it, and the position
   lies between start and end *)
Theorem C09_ancestor_accessors : forall s doc pos r d nd,
  resolve s doc pos = Ok r -> rp_node r (S d) = Ok nd ->
  exists X Y,
    ftoks s (node_content doc) = X ++ open_tok nd :: ftoks s (node_content nd) ++ TClose :: Y /\
    rp_before r (S d) = Ok (length X) /\
    rp_start r (S d) = Ok (length X + 1) /\
    rp_end s r (S d) = Ok (length X + 1 + frag_size s (node_content nd)) /\
    rp_after s r (S d) = Ok (length X + 2 + frag_size s (node_content nd)) /\
    length X + 1 <= pos /\ pos <= length X + 1 + frag_size s (node_content nd).
Proof. exact ancestor_span. Qed.
Print Assumptions C09_ancestor_accessors.

(* ------------------------------------------------------------------ walking the nodes between two positions
   [Sub s doc p i c q]: c is child number i of p, p is the document or one of its descendants, and q is the
   absolute position of c (the position of the parent's content start plus the sizes of the children before c).
   [At s T q c]: the tokens of c sit at index q of the token sequence T.
   [leaves_empty]: leaf-typed nodes have no children (what every constructor, parser and Node.check-ed document has). *)
Theorem C09_descendant_position_is_token_index : forall s doc p i c q,
  leaves_empty s doc -> Sub s doc p i c q -> At s (ftoks s (node_content doc)) q c.
Proof. exact Sub_At. Qed.
Print Assumptions C09_descendant_position_is_token_index.

(* sound: whatever the callback's answers ([descend]), every reported (node, pos, parent, index) is a descendant of the
   document with that parent, index and absolute position, its tokens sit at token index pos, and it overlaps the
   range: pos < to and from < pos + size *)
Theorem C09_nodes_between_sound : forall s descend doc from to vs,
  leaves_empty s doc ->
  nodes_between_node s descend doc from to 0 = Ok vs ->
  Forall (fun v =>
    (exists p, v_parent v = Some p /\ Sub s doc p (v_index v) (v_node v) (v_pos v)) /\
    At s (ftoks s (node_content doc)) (v_pos v) (v_node v) /\
    v_pos v < to /\ from < v_pos v + node_size s (v_node v)) vs.
Proof.
  intros s descend doc from to vs Hle H.
  pose proof (nodes_between_sound s descend doc from to vs Hle H) as H1.
  pose proof (nodes_between_sub s descend doc from to vs H) as H2.
  rewrite Forall_forall in *. intros v Hv. destruct (H1 v Hv) as (Ha & Hb & Hc & _). split; [exact (H2 v Hv)|]. auto.
Qed.
Print Assumptions C09_nodes_between_sound.

(* the walk returns (no exception) for every range that ends inside the document, whatever the callback answers *)
Theorem C09_nodes_between_total : forall s descend doc from to,
  to <= frag_size s (node_content doc) -> exists vs, nodes_between_node s descend doc from to 0 = Ok vs.
Proof. intros s descend doc from to H. exact (nb_total s descend doc from to 0 H). Qed.
Print Assumptions C09_nodes_between_total.

(* complete: with a callback that never prunes, every descendant of the document that overlaps the range (and is not
   an empty text node) is reported, with its parent, index and position *)
Theorem C09_nodes_between_complete : forall s doc from to vs,
  leaves_empty s doc -> to <= frag_size s (node_content doc) ->
  nodes_between_node s (fun _ => true) doc from to 0 = Ok vs ->
  forall p i c q, Sub s doc p i c q -> q < to -> from < q + node_size s c -> 0 < node_size s c ->
    In {| v_node := c; v_pos := q; v_parent := Some p; v_index := i |} vs.
Proof. exact nodes_between_complete. Qed.
Print Assumptions C09_nodes_between_complete.

(* Node.range_has_mark(from, to, mark or type), for a non-empty range (for from >= to the answer is False): True exactly
   when some node of the document overlapping the range carries such a mark ([test] = Mark.is_in_set /
   MarkType.is_in_set on the node's marks) *)
Theorem C09_range_has_mark_iff : forall s doc from to test b,
  leaves_empty s doc -> from < to -> to <= frag_size s (node_content doc) ->
  (forall p i c q, Sub s doc p i c q -> 0 < node_size s c) ->        (* no empty text nodes *)
  range_has_mark s doc from to test = Ok b ->
  (b = true <-> exists p i c q, Sub s doc p i c q /\ q < to /\ from < q + node_size s c /\ test (node_marks c) = true).
Proof.
  intros s doc from to test b Hle Hft Hto Hpos H. unfold range_has_mark in H.
  apply Nat.ltb_lt in Hft. rewrite Hft in H.
  destruct (nodes_between_node s (fun _ => true) doc from to 0) as [vs|] eqn:Ev; [|discriminate]. cbn in H. inversion H; subst b. clear H.
  rewrite existsb_exists. split.
  - intros (v & Hv & Ht). pose proof (C09_nodes_between_sound s _ doc from to vs Hle Ev) as Hs. rewrite Forall_forall in Hs.
    destruct (Hs v Hv) as ((p & _ & HS) & _ & H1 & H2). exists p, (v_index v), (v_node v), (v_pos v). auto.
  - intros (p & i & c & q & HS & H1 & H2 & Ht).
    exists {| v_node := c; v_pos := q; v_parent := Some p; v_index := i |}. split; [|exact Ht].
    exact (nodes_between_complete s doc from to vs Hle Hto Ev p i c q HS H1 H2 (Hpos p i c q HS)).
Qed.
Print Assumptions C09_range_has_mark_iff.

(* Node.node_at(pos): the node returned sits at a token index p <= pos: an element exactly at pos (pos is the index of
   its open / leaf token), a text node at or around pos *)
Theorem C09_node_at_located : forall s fuel n pos c,
  node_at s fuel n pos = Ok (Some c) ->
  exists p, At s (ftoks s (node_content n)) p c /\ p <= pos /\
            (node_is_text c = false -> p = pos) /\ (node_is_text c = true -> pos = p \/ pos < p + node_size s c).
Proof. exact node_at_located. Qed.
Print Assumptions C09_node_at_located.

(* Node.child_after(pos) / child_before(pos) = (child, index, offset): the child is child number index, its tokens start
   at token index offset of the node's content, and pos lies at the child's start or inside it (child_after) / inside
   it or at its end (child_before) *)
Theorem C09_child_after_located : forall s n pos c index offset,
  child_after s n pos = Ok (Some c, index, offset) ->
  nth_error (node_content n) index = Some c /\ At s (ftoks s (node_content n)) offset c /\
  (offset = pos \/ offset < pos < offset + node_size s c).
Proof. exact child_after_located. Qed.
Print Assumptions C09_child_after_located.

Theorem C09_child_before_located : forall s n pos c index offset,
  child_before s n pos = Ok (Some c, index, offset) ->
  nth_error (node_content n) index = Some c /\ At s (ftoks s (node_content n)) offset c /\
  offset <= pos /\ pos <= offset + node_size s c.
Proof. exact child_before_located. Qed.
Print Assumptions C09_child_before_located.

(* ResolvedPos.shared_depth(pos) is the deepest ancestor level whose content span [start, end] contains pos: it does, and no
   deeper level does (combined with C09_ancestor_accessors, which ties start / end to the ancestor's tokens) *)
Theorem C09_shared_depth_is_deepest_common_level : forall s r p k,
  shared_depth s r p = Ok k ->
  k <= rp_depth r /\
  (k = 0 \/ exists st en, rp_start r k = Ok st /\ rp_end s r k = Ok en /\ st <= p <= en) /\
  forall j, k < j -> j <= rp_depth r -> forall st en, rp_start r j = Ok st -> rp_end s r j = Ok en -> ~ (st <= p <= en).
Proof. intros s r p k H. exact (shared_depth_go_spec s r p (rp_depth r) k H). Qed.
Print Assumptions C09_shared_depth_is_deepest_common_level.

(* ResolvedPos.block_range(other): with a the earlier and b the later of the two positions, the range's depth is the deepest
   level - starting at a's depth, one less when a's parent has inline content or the two positions coincide - whose node
   ends at or after b; no deeper such level exists; None when even the start level is above the root *)
Theorem C09_block_range_depth : forall s r o k,
  rp_block_range s r o = Ok (Some k) ->
  let a := if rp_pos o <? rp_pos r then o else r in let b := if rp_pos o <? rp_pos r then r else o in
  exists parent dec,
    rp_parent a = Ok parent /\
    dec = (if nt_inline_content (ntype_of s (node_ty s parent)) then 1 else if rp_pos a =? rp_pos b then 1 else 0) /\
    dec <= rp_depth a /\ k <= rp_depth a - dec /\
    (exists en, rp_end s a k = Ok en /\ rp_pos b <= en) /\
    forall j, k < j -> j <= rp_depth a - dec -> forall en, rp_end s a j = Ok en -> en < rp_pos b.
Proof.
  intros s r o k H. cbv zeta. unfold rp_block_range in H.
  destruct (rp_pos o <? rp_pos r).
  - destruct (rp_parent o) as [parent|] eqn:Ep; [|discriminate]. cbn [bind] in H.
    set (dec := if nt_inline_content (ntype_of s (node_ty s parent)) then 1 else if rp_pos o =? rp_pos r then 1 else 0) in *.
    destruct (rp_depth o <? dec) eqn:Ed; [discriminate|]. apply Nat.ltb_ge in Ed.
    destruct (block_range_go_spec s o (rp_pos r) _ _ H) as (H1 & H2 & H3).
    exists parent, dec. repeat split; auto.
  - destruct (rp_parent r) as [parent|] eqn:Ep; [|discriminate]. cbn [bind] in H.
    set (dec := if nt_inline_content (ntype_of s (node_ty s parent)) then 1 else if rp_pos r =? rp_pos o then 1 else 0) in *.
    destruct (rp_depth r <? dec) eqn:Ed; [discriminate|]. apply Nat.ltb_ge in Ed.
    destruct (block_range_go_spec s r (rp_pos o) _ _ H) as (H1 & H2 & H3).
    exists parent, dec. repeat split; auto.
Qed.
Print Assumptions C09_block_range_depth.

(* the walk, exactly: [all_visits s doc 0] lists every descendant of the document in document order (a node before its
   children, children left to right) with its parent, index and absolute position; with a callback that never prunes,
   Node.nodes_between(from, to) reports EXACTLY the members of that list that overlap the range (pos < to and
   from < pos + size), in that order - for documents whose leaf-typed nodes have no children and that hold no empty text node *)
Theorem C09_nodes_between_exact : forall s doc from to,
  wfw s doc -> to <= frag_size s (node_content doc) ->
  nodes_between_node s (fun _ => true) doc from to 0 = Ok (filter (overlap s from to) (all_visits s doc 0)).
Proof. exact nodes_between_exact. Qed.
Print Assumptions C09_nodes_between_exact.

(* ... in document order: every listed node is followed only by its own descendants (then it has children, they begin after it
   and end within it) and by nodes that begin at or after its end ([Ord], Proofs/RemoveMarkCovers.v) *)
From PM Require Import Proofs.RemoveMarkCovers.
Theorem C09_nodes_between_in_document_order : forall s doc from to vs,
  wfw s doc -> to <= frag_size s (node_content doc) ->
  nodes_between_node s (fun _ => true) doc from to 0 = Ok vs -> Ord s vs.
Proof. exact nodes_between_ord. Qed.
Print Assumptions C09_nodes_between_in_document_order.

(* Node.text_between(from, to, block_separator, leaf_text), for a non-empty range: the text is what one reads off the tokens of
   the range, left to right ([tbt]): the unit of every character token (one per UTF-16 code unit), the leaf text for every
   leaf token, and the block separator in front of every block node that OPENS inside the range - unless a separator was
   just written or nothing has been written yet; close tokens and inline containers write nothing.  (Blocks that were
   opened before the range write no separator: they are visited first, while nothing has been written.) *)
From PM Require Import Proofs.TextBetween.
Theorem C09_text_between_reads_the_tokens : forall s from to sep leaf doc,
  from < to -> wfw s doc -> to <= frag_size s (node_content doc) ->
  text_between s doc from to sep leaf = Ok (tbt s sep leaf (seg (ftoks s (node_content doc)) from to) true).
Proof. intros s from to sep leaf doc H. exact (text_between_tokens s from to sep leaf H doc). Qed.
Print Assumptions C09_text_between_reads_the_tokens.

(* the hypotheses are met: over the example document doc(p("ab"), blockquote(p("cd"), p("ef"))) of Properties/C01.v, the text
   between 2 and 11 with "\n" between blocks is "b\ncd\ne" (the blockquote and the paragraphs inside it open inside the range;
   the first paragraph was opened before it) *)
From Coq Require Import NArith.
From PM Require Properties.C01.
Example C09_text_between_example :
  let s := Properties.C01.ex_schema in let doc := Properties.C01.ex_doc in
  wfw s doc /\ 11 <= frag_size s (node_content doc) /\
  text_between s doc 2 11 [10%N] [] = Ok [98%N; 10%N; 99%N; 100%N; 10%N; 101%N] /\
  tbt s [10%N] [] (seg (ftoks s (node_content doc)) 2 11) true = [98%N; 10%N; 99%N; 100%N; 10%N; 101%N].
Proof.
  cbv zeta. split; [|split; [vm_compute; lia|split; vm_compute; reflexivity]].
  cbn. repeat split; try discriminate; vm_compute; lia.
Qed.
