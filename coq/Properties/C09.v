From PM Require Import Model.Resolve.
