(* C13 — adding and removing marks over a range, node-level mark and attribute edits.
   Theorems, for every schema and valid document:
   (1) an AddMarkStep / RemoveMarkStep that applies changes NOTHING but marks of tokens inside its range:
       the document keeps its size, every token before `from` and after `to` is identical (marks included),
       and the whole token sequence with marks erased ([shs]: kinds, node types, attributes, characters,
       nesting) is unchanged — "the text and structure of the document, and all marks outside the range,
       are unchanged";
   (2) an AttrStep / AddNodeMarkStep / RemoveNodeMarkStep that applies replaces exactly ONE token — the one
       that opens (or is) the node Node.node_at finds at the position — by a token of the same node type
       whose attributes / marks are the updated ones (type_create of the documented update), and changes no
       other token: "node-level mark and attribute edits change only the addressed node".
   (3) WHICH marks: the result of a mark step is the document's token sequence in which every token of the
       range has its marks rewritten by a function of the token's own node type, the type of the node that
       encloses it IN THE DOCUMENT, and its old marks ([remarked], read token by token by C13_remarked_reading):
       AddMarkStep: text, leaves and atom nodes whose enclosing node's type allows the mark type get
       Mark.add_to_set(old marks) — which C14 characterises exactly (kept unchanged if an equal mark is present
       or a present mark excludes the new one, otherwise the excluded marks removed and the mark inserted at
       its rank) — other tokens are left alone; RemoveMarkStep: the mark is removed from every inline token.
   (4) Whole Transform.add_mark / remove_mark operations: the planners (Model/MarkOps.v, compared with the steps the
       implementation records on every run) emit only add-mark / remove-mark steps over ranges inside [from, to], so
       however many of the planned steps get applied, the operation changes nothing but marks of tokens inside its
       range (C13_add_mark_changes_only_marks_in_range, C13_remove_mark_changes_only_marks_in_range).
       And the add_mark plan reaches what it should (C13_add_mark_plan_covers, C13_add_mark_plan_removes_displaced): every
       overlapping inline descendant lacking the mark under an allowing parent lies, within the range, inside one planned
       AddMark step, and each mark add_to_set would displace has a planned RemoveMark step over the same part.
       The remove_mark plan likewise covers every matched mark of every overlapping inline descendant
       (C13_remove_mark_plan_covers; needs the walk's order and inline nodes without children).
   WHICH marks a whole operation leaves, set_block_type / set_node_markup are evaluated per case by Corr.C13 in Coq
   on the implementation's output. *)
From Coq Require Import List Arith Bool NArith Lia.
From PM Require Import Model.Data Model.Mark Model.Tree Model.Resolve Model.Step Spec.Tokens
  Proofs.ReplaceValid Proofs.TokenBasics Proofs.ReplaceTokens Proofs.SliceShape Proofs.TokenLaws
  Proofs.NodeSteps Proofs.MarkSteps Proofs.MarkPointwise Proofs.Retype Model.MarkOps Proofs.MarkOpsProofs
  Proofs.DataProofs Proofs.StepSafe Proofs.Traversal Proofs.AddMarkCovers Proofs.RemoveMarkCovers
  Proofs.ReplaceValid Proofs.SliceSides Proofs.ReplaceSuccess Proofs.MarkStepSuccess.
Import ListNotations.
Local Open Scope nat_scope.

Theorem C13_mark_step_changes_only_marks_in_range : forall s st from to doc d',
  check s doc = true -> from <= to ->
  mark_step_range st = Some (from, to) ->          (* st is AddMarkStep(from,to,_) or RemoveMarkStep(from,to,_) *)
  apply s st doc = ROk d' ->
  length (DT s d') = length (DT s doc) /\
  firstn from (DT s d') = firstn from (DT s doc) /\
  skipn to (DT s d') = skipn to (DT s doc) /\
  shs (DT s d') = shs (DT s doc).
Proof. exact mark_step_tokens. Qed.
Print Assumptions C13_mark_step_changes_only_marks_in_range.

Theorem C13_node_step_changes_only_the_node : forall s st pos doc d',
  check s doc = true ->
  is_node_step st = Some pos ->                   (* st is AttrStep / AddNodeMarkStep / RemoveNodeMarkStep at pos *)
  apply s st doc = ROk d' ->
  exists ty a m cs a' m',
    node_at s (S (node_size s doc)) doc pos = Ok (Some (Elem ty a m cs)) /\
    node_update s st (Elem ty a m cs) = Ok (Elem ty a' m' []) /\
    nth_error (DT s doc) pos = Some (tnorm (head_tok s ty a m)) /\
    DT s d' = firstn pos (DT s doc) ++ [tnorm (head_tok s ty a' m')] ++ skipn (S pos) (DT s doc).
Proof. exact node_step_splice. Qed.
Print Assumptions C13_node_step_changes_only_the_node.

Theorem C13_mark_step_pointwise : forall s st from to doc d',
  check s doc = true -> from <= to ->
  mark_step_range st = Some (from, to) -> apply s st doc = ROk d' ->
  DT s d' = nt (remarked s (step_upd s st) doc from to).
Proof. exact mark_step_pointwise. Qed.
Print Assumptions C13_mark_step_pointwise.

(* reading [remarked] token by token: token i of the result is token i of the document, re-marked by
   [ftok] in the context [ctx_at doc i] (the type of the innermost node open at i) if from <= i < to *)
Theorem C13_remarked_reading : forall s u doc from to i t,
  from <= to -> to <= length (ftoks s (node_content doc)) ->
  nth_error (ftoks s (node_content doc)) i = Some t ->
  nth_error (remarked s u doc from to) i =
    Some (if (from <=? i) && (i <? to) then ftok s u (snd (ctx_at s doc i)) t else t).
Proof. exact remarked_nth. Qed.
Print Assumptions C13_remarked_reading.

(* Changing block type or node markup keeps the children: the step set_node_markup / set_block_type record for a node
   spanning tokens from .. to-1 (a replace-around step whose gap is the node's whole content, whose slice is one empty
   node of the new type, insert = 1) puts the new type's open token in place of the old one and keeps EVERY other
   token: everything before the node, all its children, its close token, everything after it.  (Whether the new type
   can hold the children is decided by Node.replace: the step fails otherwise - C01.) *)
Theorem C13_retype_keeps_children : forall s from to ty a m structure doc d',
  check s doc = true -> is_leaf_ty s ty = false -> from + 2 <= to ->
  apply s (SReplaceAround from to (from + 1) (to - 1) (SL [Elem ty a m []] 0 0) 1 structure) doc = ROk d' ->
  DT s d' = firstn from (DT s doc) ++ [tnorm (TOpen ty a m)] ++ seg (DT s doc) (from + 1) (to - 1)
            ++ [TClose] ++ skipn to (DT s doc).
Proof. exact retype_step_keeps_children. Qed.
Print Assumptions C13_retype_keeps_children.

(* Whole operations. [plan_add_mark] / [plan_remove_mark] are the steps Transform.add_mark / remove_mark hand to
   Transform.step, in order; Transform.step raises at the first step that fails and keeps what was applied before, so
   what gets applied is a prefix [pre] of the plan. [RunV s doc pre d']: the steps of [pre] apply one after the other,
   each to a valid document, and give d'. Then d' has the size of doc, the same tokens before `from` and after `to`
   (marks included), and the same token sequence with marks erased. *)
Theorem C13_add_mark_changes_only_marks_in_range : forall s doc from to mk pre post d',
  plan_add_mark s doc from to mk = Ok (pre ++ post) -> RunV s doc pre d' ->
  length (DT s d') = length (DT s doc) /\
  firstn from (DT s d') = firstn from (DT s doc) /\
  skipn to (DT s d') = skipn to (DT s doc) /\
  shs (DT s d') = shs (DT s doc).
Proof.
  intros s doc from to mk pre post d' Hp Hr. apply (mark_steps_change_only_marks_in_range s from to pre); [|exact Hr].
  pose proof (plan_add_mark_in s _ _ _ _ _ Hp) as H. apply Forall_app in H. exact (proj1 H).
Qed.
Print Assumptions C13_add_mark_changes_only_marks_in_range.

Theorem C13_remove_mark_changes_only_marks_in_range : forall s doc from to sel pre post d',
  plan_remove_mark s doc from to sel = Ok (pre ++ post) -> RunV s doc pre d' ->
  length (DT s d') = length (DT s doc) /\
  firstn from (DT s d') = firstn from (DT s doc) /\
  skipn to (DT s d') = skipn to (DT s doc) /\
  shs (DT s d') = shs (DT s doc).
Proof.
  intros s doc from to sel pre post d' Hp Hr. apply (mark_steps_change_only_marks_in_range s from to pre); [|exact Hr].
  pose proof (plan_remove_mark_in s _ _ _ _ _ Hp) as H. apply Forall_app in H. exact (proj1 H).
Qed.
Print Assumptions C13_remove_mark_changes_only_marks_in_range.

(* the hypotheses are met: over the example document doc(p("ab"), blockquote(p("cd"), p("ef"))) of Properties/C01.v,
   add_mark(2, 11, em) plans one step per paragraph (the first and last clipped to the range), and all three apply *)
From PM Require Properties.C01.
Example C13_add_mark_example :
  let s := Properties.C01.ex_schema in let doc := Properties.C01.ex_doc in let em := {| m_ty := 0%nat; m_attrs := [] |} in
  plan_add_mark s doc 2 11 em = Ok [SAddMark 2 3 em; SAddMark 6 8 em; SAddMark 10 11 em] /\
  exists d', RunV s doc [SAddMark 2 3 em; SAddMark 6 8 em; SAddMark 10 11 em] d' /\ d' <> doc.
Proof.
  cbv zeta. split; [vm_compute; reflexivity|]. eexists. split.
  - cbn [RunV]. split; [vm_compute; reflexivity|]. eexists. split; [vm_compute; reflexivity|].
    split; [vm_compute; reflexivity|]. eexists. split; [vm_compute; reflexivity|].
    split; [vm_compute; reflexivity|]. eexists. split; [vm_compute; reflexivity|]. reflexivity.
  - discriminate.
Qed.

(* ... and the plan reaches everything it should: every inline descendant (p's i-th child c, at absolute position q - [Sub],
   Proofs/Traversal.v) that overlaps [from, to), does not carry the mark and sits in a parent whose type allows it has its
   part of the range, [max q from, min (q + size) to), inside ONE planned AddMark step of that mark; and every mark of such a
   node that Mark.add_to_set would displace has a planned RemoveMark step (of an equal mark) over the same part.  Together
   with C13_mark_steps_run_pointwise this says which tokens the operation re-marks.  (The walk itself is characterised by
   C09_nodes_between_exact.) *)
Theorem C13_add_mark_plan_covers : forall s doc from to mk sts,
  leaves_empty s doc -> from <= to -> to <= frag_size s (node_content doc) ->
  plan_add_mark s doc from to mk = Ok sts ->
  forall p i c q, Sub s doc p i c q -> q < to -> from < q + node_size s c -> 0 < node_size s c ->
    node_is_inline s c = true -> is_in_set mk (node_marks c) = false ->
    allows_mark_type s (node_ty s p) (m_ty mk) = true ->
    exists f t, In (SAddMark f t mk) sts /\ f <= Nat.max q from /\ Nat.min (q + node_size s c) to <= t.
Proof. exact plan_add_mark_covers. Qed.
Print Assumptions C13_add_mark_plan_covers.

Theorem C13_add_mark_plan_removes_displaced : forall s doc from to mk sts,
  leaves_empty s doc -> from <= to -> to <= frag_size s (node_content doc) ->
  plan_add_mark s doc from to mk = Ok sts ->
  forall p i c q, Sub s doc p i c q -> q < to -> from < q + node_size s c -> 0 < node_size s c ->
    node_is_inline s c = true -> is_in_set mk (node_marks c) = false ->
    allows_mark_type s (node_ty s p) (m_ty mk) = true ->
    forall x, In x (node_marks c) -> is_in_set x (add_to_set s mk (node_marks c)) = false ->
    exists f t m0, In (SRemoveMark f t m0) sts /\ mark_eqb m0 x = true /\
                   f <= Nat.max q from /\ Nat.min (q + node_size s c) to <= t.
Proof.
  intros s doc from to mk sts Hle Hft Hto Hp p i c q HS H1 H2 H3 Hi Hm Hal x Hx Hn.
  exact (plan_add_mark_removes_displaced s doc from to mk sts Hle Hft Hto Hp p i c q HS H1 H2 H3 Hi Hm Hal x Hx Hn (mark_eqb_refl x)).
Qed.
Print Assumptions C13_add_mark_plan_removes_displaced.

(* in the example above: the text "cd" of the blockquote's first paragraph (child 0 of child 0 of child 1, at position 6)
   is covered by the planned step over 6..8 *)
Example C13_add_mark_plan_covers_example :
  let s := Properties.C01.ex_schema in let doc := Properties.C01.ex_doc in
  let bq := Elem 2%nat [] [] [Properties.C01.ex_p [99%N; 100%N]; Properties.C01.ex_p [101%N; 102%N]] in
  leaves_empty s doc /\ Sub s doc (Properties.C01.ex_p [99%N; 100%N]) 0 (Text [99%N; 100%N] []) 6.
Proof.
  cbv zeta. split; [apply leaves_empty_b_spec; vm_compute; reflexivity|].
  change 6 with (5 + 1 + frag_size Properties.C01.ex_schema (firstn 0 (node_content (Properties.C01.ex_p [99%N; 100%N])))).
  eapply (Sub_in _ _ (Elem 2%nat [] [] [Properties.C01.ex_p [99%N; 100%N]; Properties.C01.ex_p [101%N; 102%N]]) 0); [|reflexivity].
  change 5 with (4 + 1 + frag_size Properties.C01.ex_schema (firstn 0 [Properties.C01.ex_p [99%N; 100%N]; Properties.C01.ex_p [101%N; 102%N]])).
  eapply (Sub_in _ _ Properties.C01.ex_doc 1); [|reflexivity].
  change 4 with (frag_size Properties.C01.ex_schema (firstn 1 (node_content Properties.C01.ex_doc))).
  apply Sub_top. reflexivity.
Qed.

(* The remove_mark plan likewise: every inline descendant overlapping [from, to) and every mark of it the selector matches
   ([rm_to_remove]: the given mark if present / every mark of the given type / all marks) has its part of the range inside ONE
   planned RemoveMark step of an equal mark.  The planner extends the entry it touched at the PREVIOUS inline node, so this
   rests on the order of the walk (document order, Proofs/RemoveMarkCovers.v) and on inline nodes having no children
   ([flat_inline]: true wherever inline content is text and leaf nodes - every bundled schema; a decidable check on the
   document); text nodes are non-empty and leaf-typed nodes childless ([wfw], [leaves_empty]). *)
Theorem C13_remove_mark_plan_covers : forall s doc from to sel sts,
  wfw s doc -> leaves_empty s doc -> to <= frag_size s (node_content doc) ->
  flat_inline s (all_visits s doc 0) ->
  plan_remove_mark s doc from to sel = Ok sts ->
  forall p i c q, Sub s doc p i c q -> q < to -> from < q + node_size s c -> 0 < node_size s c ->
    node_is_inline s c = true ->
    forall x, In x (rm_to_remove sel (node_marks c)) ->
      exists f t m0, In (SRemoveMark f t m0) sts /\ mark_eqb m0 x = true /\
                     f <= Nat.max q from /\ Nat.min (q + node_size s c) to <= t.
Proof. exact plan_remove_mark_covers. Qed.
Print Assumptions C13_remove_mark_plan_covers.

(* the example document with em on "cd": remove_mark(5, 9, em) plans the one step over 6..8, and the hypotheses hold *)
Example C13_remove_mark_plan_covers_example :
  let s := Properties.C01.ex_schema in let em := {| m_ty := 0%nat; m_attrs := [] |} in
  let doc := Elem 0%nat [] [] [Properties.C01.ex_p [97%N; 98%N];
               Elem 2%nat [] [] [Elem 1%nat [] [] [Text [99%N; 100%N] [em]]; Properties.C01.ex_p [101%N; 102%N]]] in
  check s doc = true /\ wfw s doc /\ leaves_empty s doc /\ flat_inline s (all_visits s doc 0) /\
  plan_remove_mark s doc 5 9 (RMark em) = Ok [SRemoveMark 6 8 em] /\
  rm_to_remove (RMark em) [em] = [em].
Proof.
  cbv zeta. split; [vm_compute; reflexivity|]. split; [cbn; repeat split; auto; try discriminate; try lia|].
  split; [apply leaves_empty_b_spec; vm_compute; reflexivity|].
  split; [|split; vm_compute; reflexivity].
  intros v Hv Hi. vm_compute in Hv.
  repeat (destruct Hv as [<-|Hv]; [try reflexivity; vm_compute in Hi; discriminate|]). destruct Hv.
Qed.

(* WHEN a mark step applies (success direction), for a range that lies inside one parent node and cuts no node - Node.slice of
   it is closed: the step applies exactly when the parent's children, with the re-marked ones in place and equal-marked text
   merged, are valid content for the parent's type; otherwise it FAILS (a failed result) and never raises.  (With a content
   expression that counts inline children the merge can make the content invalid: known finding C01-mark-step-merges-counted-text.)
   Also the answer to "the merged step succeeds" of C16 for such ranges: it is decided by the same content check. *)
Theorem C13_flat_add_mark_step_applies_iff_valid : forall s doc from to m old rf rt parent a b sd par,
  is_elem doc -> from <= to ->
  node_slice s doc from to = Ok old -> sl_open_start old = 0 -> sl_open_end old = 0 -> frag_size s (sl_content old) <> 0 ->
  resolve s doc from = Ok rf -> resolve s doc to = Ok rt ->
  rp_depth rf = rp_depth rt -> (forall d, d < rp_depth rf -> rp_index rf d = rp_index rt d) ->
  rp_parent rf = Ok parent ->
  frag_cut s (node_content parent) 0 (rp_parent_offset rf) = Ok a ->
  frag_cut s (node_content parent) (rp_parent_offset rt) (frag_size s (node_content parent)) = Ok b ->
  shared_depth s rf to = Ok sd -> rp_node rf sd = Ok par ->
  let marked := map_fragment s (add_mark_f s m) par (sl_content old) in
  if valid_content s (node_ty s parent) (frag_append (frag_append a marked) b)
  then exists d', apply s (SAddMark from to m) doc = ROk d'
  else apply s (SAddMark from to m) doc = RFail.
Proof. exact flat_add_mark_step_applies_iff. Qed.
Print Assumptions C13_flat_add_mark_step_applies_iff_valid.

Theorem C13_flat_remove_mark_step_applies_iff_valid : forall s doc from to m old rf rt parent a b,
  is_elem doc -> from <= to ->
  node_slice s doc from to = Ok old -> sl_open_start old = 0 -> sl_open_end old = 0 -> frag_size s (sl_content old) <> 0 ->
  resolve s doc from = Ok rf -> resolve s doc to = Ok rt ->
  rp_depth rf = rp_depth rt -> (forall d, d < rp_depth rf -> rp_index rf d = rp_index rt d) ->
  rp_parent rf = Ok parent ->
  frag_cut s (node_content parent) 0 (rp_parent_offset rf) = Ok a ->
  frag_cut s (node_content parent) (rp_parent_offset rt) (frag_size s (node_content parent)) = Ok b ->
  let marked := map_fragment s (remove_mark_f m) doc (sl_content old) in
  if valid_content s (node_ty s parent) (frag_append (frag_append a marked) b)
  then exists d', apply s (SRemoveMark from to m) doc = ROk d'
  else apply s (SRemoveMark from to m) doc = RFail.
Proof. exact flat_remove_mark_step_applies_iff. Qed.
Print Assumptions C13_flat_remove_mark_step_applies_iff_valid.

(* the hypotheses are met by the em step over "cd" (6..8) of the example document *)
Example C13_flat_add_mark_step_example :
  let s := Properties.C01.ex_schema in let doc := Properties.C01.ex_doc in let em := {| m_ty := 0%nat; m_attrs := [] |} in
  exists old rf rt parent a b sd par,
    node_slice s doc 6 8 = Ok old /\ sl_open_start old = 0 /\ sl_open_end old = 0 /\ frag_size s (sl_content old) <> 0 /\
    resolve s doc 6 = Ok rf /\ resolve s doc 8 = Ok rt /\ rp_depth rf = rp_depth rt /\
    (forall d, d < rp_depth rf -> rp_index rf d = rp_index rt d) /\ rp_parent rf = Ok parent /\
    frag_cut s (node_content parent) 0 (rp_parent_offset rf) = Ok a /\
    frag_cut s (node_content parent) (rp_parent_offset rt) (frag_size s (node_content parent)) = Ok b /\
    shared_depth s rf 8 = Ok sd /\ rp_node rf sd = Ok par /\
    valid_content s (node_ty s parent) (frag_append (frag_append a (map_fragment s (add_mark_f s em) par (sl_content old))) b) = true.
Proof.
  cbv zeta. do 8 eexists.
  split; [vm_compute; reflexivity|]. split; [reflexivity|]. split; [reflexivity|]. split; [vm_compute; discriminate|].
  split; [vm_compute; reflexivity|]. split; [vm_compute; reflexivity|]. split; [reflexivity|].
  split; [intros d Hd; cbn in Hd; destruct d as [|[|d]]; [reflexivity|reflexivity|exfalso; lia]|].
  split; [vm_compute; reflexivity|]. split; [vm_compute; reflexivity|]. split; [vm_compute; reflexivity|].
  split; [vm_compute; reflexivity|]. split; [vm_compute; reflexivity|]. vm_compute. reflexivity.
Qed.

(* ... and WHAT it does to the marks, token by token: token i of the result is token i of the starting document re-marked,
   in plan order, by every applied step whose range contains i - each by that step's own rule (C13_mark_step_pointwise:
   Mark.add_to_set on atoms whose enclosing node type allows the mark / remove_from_set on inline tokens), always read in
   the context token i has in the STARTING document.  Stated for any run of mark steps over valid documents, so also for
   remove_mark and for hand-built histories of mark steps. *)
Theorem C13_mark_steps_run_pointwise : forall s sts doc d',
  Forall (IsMarkStep) sts -> RunV s doc sts d' ->
  node_ty s d' = node_ty s doc /\
  length (DT s d') = length (DT s doc) /\
  forall i t0, nth_error (DT s doc) i = Some t0 ->
    nth_error (DT s d') i =
    Some (fold_left (apply_tok s (snd (Proofs.MarkMerge.ctxT (node_ty s doc) (DT s doc) i)) i) sts t0).
Proof.
  intros s sts doc d' Hall Hrun. destruct (mark_run_pointwise s sts doc d' Hall Hrun) as (H1 & H2 & _ & H4). auto.
Qed.
Print Assumptions C13_mark_steps_run_pointwise.

Corollary C13_add_mark_run_pointwise : forall s doc from to mk pre post d',
  plan_add_mark s doc from to mk = Ok (pre ++ post) -> RunV s doc pre d' ->
  forall i t0, nth_error (DT s doc) i = Some t0 ->
    nth_error (DT s d') i =
    Some (fold_left (apply_tok s (snd (Proofs.MarkMerge.ctxT (node_ty s doc) (DT s doc) i)) i) pre t0).
Proof.
  intros s doc from to mk pre post d' Hp Hr.
  pose proof (plan_add_mark_in s _ _ _ _ _ Hp) as H. apply Forall_app in H. destruct H as (H & _).
  assert (Hm : Forall IsMarkStep pre) by (eapply Forall_impl; [|exact H]; intros st (f & t & E & _); exists f, t; exact E).
  exact (proj2 (proj2 (C13_mark_steps_run_pointwise s pre doc d' Hm Hr))).
Qed.
Print Assumptions C13_add_mark_run_pointwise.
