(* C13 — adding and removing marks over a range, node-level mark and attribute edits.
   Theorems, for every schema and valid document:
   (1) an AddMarkStep / RemoveMarkStep that applies changes NOTHING but marks of tokens inside its range:
       the document keeps its size, every token before `from` and after `to` is identical (marks included),
       and the whole token sequence with marks erased ([shs]: kinds, node types, attributes, characters,
       nesting) is unchanged — "the text and structure of the document, and all marks outside the range,
       are unchanged";
   (2) an AttrStep / AddNodeMarkStep / RemoveNodeMarkStep that applies replaces exactly ONE token — the one
       that opens (or is) the node Node.node_at finds at the position — by a token of the same node type
       whose attributes / marks are the updated ones (type_create of the documented update), and changes no
       other token: "node-level mark and attribute edits change only the addressed node".
   (3) WHICH marks: the result of a mark step is the document's token sequence in which every token of the
       range has its marks rewritten by a function of the token's own node type, the type of the node that
       encloses it IN THE DOCUMENT, and its old marks ([remarked], read token by token by C13_remarked_reading):
       AddMarkStep: text, leaves and atom nodes whose enclosing node's type allows the mark type get
       Mark.add_to_set(old marks) — which C14 characterises exactly (kept unchanged if an equal mark is present
       or a present mark excludes the new one, otherwise the excluded marks removed and the mark inserted at
       its rank) — other tokens are left alone; RemoveMarkStep: the mark is removed from every inline token.
   Whole add_mark / remove_mark operations (which plan several steps), set_block_type / set_node_markup are
   evaluated per case by Corr.C13 in Coq on the implementation's output. *)
From Coq Require Import List Arith Bool.
From PM Require Import Model.Data Model.Mark Model.Tree Model.Resolve Model.Step Spec.Tokens
  Proofs.ReplaceValid Proofs.TokenBasics Proofs.ReplaceTokens Proofs.SliceShape Proofs.TokenLaws
  Proofs.NodeSteps Proofs.MarkSteps Proofs.MarkPointwise Proofs.Retype.
Import ListNotations.
Local Open Scope nat_scope.

Theorem C13_mark_step_changes_only_marks_in_range : forall s st from to doc d',
  check s doc = true -> from <= to ->
  mark_step_range st = Some (from, to) ->          (* st is AddMarkStep(from,to,_) or RemoveMarkStep(from,to,_) *)
  apply s st doc = ROk d' ->
  length (DT s d') = length (DT s doc) /\
  firstn from (DT s d') = firstn from (DT s doc) /\
  skipn to (DT s d') = skipn to (DT s doc) /\
  shs (DT s d') = shs (DT s doc).
Proof. exact mark_step_tokens. Qed.
Print Assumptions C13_mark_step_changes_only_marks_in_range.

Theorem C13_node_step_changes_only_the_node : forall s st pos doc d',
  check s doc = true ->
  is_node_step st = Some pos ->                   (* st is AttrStep / AddNodeMarkStep / RemoveNodeMarkStep at pos *)
  apply s st doc = ROk d' ->
  exists ty a m cs a' m',
    node_at s (S (node_size s doc)) doc pos = Ok (Some (Elem ty a m cs)) /\
    node_update s st (Elem ty a m cs) = Ok (Elem ty a' m' []) /\
    nth_error (DT s doc) pos = Some (tnorm (head_tok s ty a m)) /\
    DT s d' = firstn pos (DT s doc) ++ [tnorm (head_tok s ty a' m')] ++ skipn (S pos) (DT s doc).
Proof. exact node_step_splice. Qed.
Print Assumptions C13_node_step_changes_only_the_node.

Theorem C13_mark_step_pointwise : forall s st from to doc d',
  check s doc = true -> from <= to ->
  mark_step_range st = Some (from, to) -> apply s st doc = ROk d' ->
  DT s d' = nt (remarked s (step_upd s st) doc from to).
Proof. exact mark_step_pointwise. Qed.
Print Assumptions C13_mark_step_pointwise.

(* reading [remarked] token by token: token i of the result is token i of the document, re-marked by
   [ftok] in the context [ctx_at doc i] (the type of the innermost node open at i) if from <= i < to *)
Theorem C13_remarked_reading : forall s u doc from to i t,
  from <= to -> to <= length (ftoks s (node_content doc)) ->
  nth_error (ftoks s (node_content doc)) i = Some t ->
  nth_error (remarked s u doc from to) i =
    Some (if (from <=? i) && (i <? to) then ftok s u (snd (ctx_at s doc i)) t else t).
Proof. exact remarked_nth. Qed.
Print Assumptions C13_remarked_reading.

(* Changing block type or node markup keeps the children: the step set_node_markup / set_block_type record for a node
   spanning tokens from .. to-1 (a replace-around step whose gap is the node's whole content, whose slice is one empty
   node of the new type, insert = 1) puts the new type's open token in place of the old one and keeps EVERY other
   token: everything before the node, all its children, its close token, everything after it.  (Whether the new type
   can hold the children is decided by Node.replace: the step fails otherwise - C01.) *)
Theorem C13_retype_keeps_children : forall s from to ty a m structure doc d',
  check s doc = true -> is_leaf_ty s ty = false -> from + 2 <= to ->
  apply s (SReplaceAround from to (from + 1) (to - 1) (SL [Elem ty a m []] 0 0) 1 structure) doc = ROk d' ->
  DT s d' = firstn from (DT s doc) ++ [tnorm (TOpen ty a m)] ++ seg (DT s doc) (from + 1) (to - 1)
            ++ [TClose] ++ skipn to (DT s doc).
Proof. exact retype_step_keeps_children. Qed.
Print Assumptions C13_retype_keeps_children.
