(* C13 — adding and removing marks over a range, node-level mark and attribute edits.
   Theorems, for every schema and valid document:
   (1) an AddMarkStep / RemoveMarkStep that applies changes NOTHING but marks of tokens inside its range:
       the document keeps its size, every token before `from` and after `to` is identical (marks included),
       and the whole token sequence with marks erased ([shs]: kinds, node types, attributes, characters,
       nesting) is unchanged — "the text and structure of the document, and all marks outside the range,
       are unchanged";
   (2) an AttrStep / AddNodeMarkStep / RemoveNodeMarkStep that applies replaces exactly ONE token — the one
       that opens (or is) the node Node.node_at finds at the position — by a token of the same node type
       whose attributes / marks are the updated ones (type_create of the documented update), and changes no
       other token: "node-level mark and attribute edits change only the addressed node".
   Which marks the tokens inside the range of a mark step end up with (the pointwise rule with exclusions and
   parent permissions), whole add_mark / remove_mark operations (which plan several steps) and
   set_block_type / set_node_markup are evaluated per case by Corr.C13 in Coq on the implementation's output. *)
From Coq Require Import List Arith.
From PM Require Import Model.Data Model.Mark Model.Tree Model.Resolve Model.Step Spec.Tokens
  Proofs.ReplaceValid Proofs.TokenBasics Proofs.ReplaceTokens Proofs.SliceShape Proofs.TokenLaws
  Proofs.NodeSteps Proofs.MarkSteps.
Import ListNotations.
Local Open Scope nat_scope.

Theorem C13_mark_step_changes_only_marks_in_range : forall s st from to doc d',
  check s doc = true -> from <= to ->
  mark_step_range st = Some (from, to) ->          (* st is AddMarkStep(from,to,_) or RemoveMarkStep(from,to,_) *)
  apply s st doc = ROk d' ->
  length (DT s d') = length (DT s doc) /\
  firstn from (DT s d') = firstn from (DT s doc) /\
  skipn to (DT s d') = skipn to (DT s doc) /\
  shs (DT s d') = shs (DT s doc).
Proof. exact mark_step_tokens. Qed.
Print Assumptions C13_mark_step_changes_only_marks_in_range.

Theorem C13_node_step_changes_only_the_node : forall s st pos doc d',
  check s doc = true ->
  is_node_step st = Some pos ->                   (* st is AttrStep / AddNodeMarkStep / RemoveNodeMarkStep at pos *)
  apply s st doc = ROk d' ->
  exists ty a m cs a' m',
    node_at s (S (node_size s doc)) doc pos = Ok (Some (Elem ty a m cs)) /\
    node_update s st (Elem ty a m cs) = Ok (Elem ty a' m' []) /\
    nth_error (DT s doc) pos = Some (tnorm (head_tok s ty a m)) /\
    DT s d' = firstn pos (DT s doc) ++ [tnorm (head_tok s ty a' m')] ++ skipn (S pos) (DT s doc).
Proof. exact node_step_splice. Qed.
Print Assumptions C13_node_step_changes_only_the_node.
