(* C12 — structure edits keep the content.
   Split, join, lift and wrap are emitted as steps with the structure flag; split and join are replace
   steps.  Theorem, for every schema, valid document and replace step: if the deleted range contains no
   text or leaf token and the slice stands for none, the sequence of text and leaf tokens of the document
   is exactly preserved, and the result is valid (C11_result_valid).  That the helpers approve only edits
   that then succeed, and the lift / wrap steps (replace-around), are evaluated per case by Corr.C12. *)
From Coq Require Import List Arith.
From PM Require Import Model.Data Model.Mark Model.Tree Model.Step Spec.Tokens
  Proofs.ReplaceValid Proofs.SliceSides Proofs.TokenBasics Proofs.ReplaceTokens Proofs.SliceShape Proofs.TokenLaws
  Proofs.AroundLaws Proofs.ContentBetween Proofs.StructProofs.
From PM Require Import Model.Resolve Model.StructOps Proofs.HelperRanges Proofs.HelperSafe Model.DropPoint Proofs.SliceShape Proofs.DropPointProofs.
Import ListNotations.

Theorem C12_structure_only_step_keeps_leaves : forall s from to sl structure doc d',
  check s doc = true ->
  Shape s (sl_content sl) (sl_open_start sl) (sl_open_end sl) -> from <= to ->
  apply s (SReplace from to sl structure) doc = ROk d' ->
  leaves (seg (DT s doc) from to) = [] -> leaves (IT s sl) = [] ->
  leaves (DT s d') = leaves (DT s doc).
Proof. exact replace_step_structure_only. Qed.
Print Assumptions C12_structure_only_step_keeps_leaves.

(* lift and wrap (and set_block_type / set_node_markup) are replace-around steps: if the two replaced
   ranges around the gap contain no text or leaf token and the slice stands for none, the sequence of text
   and leaf tokens is exactly preserved *)
Theorem C12_structure_only_around_step_keeps_leaves : forall s from to gf gt sl ins structure doc d',
  check s doc = true ->
  Shape s (sl_content sl) (sl_open_start sl) (sl_open_end sl) ->
  from <= gf -> gf <= gt -> gt <= to -> ins <= length (IT s sl) ->
  apply s (SReplaceAround from to gf gt sl ins structure) doc = ROk d' ->
  leaves (seg (DT s doc) from gf) = [] -> leaves (seg (DT s doc) gt to) = [] -> leaves (IT s sl) = [] ->
  leaves (DT s d') = leaves (DT s doc).
Proof. exact around_step_structure_only. Qed.
Print Assumptions C12_structure_only_around_step_keeps_leaves.

(* ---- the four structure operations themselves.  Model.StructOps models which step Transform.split / join /
   lift / wrap hand to Transform.step (compared with the implementation on every run, Corr.Ops.CStruct).
   Theorems: whenever that step applies, the sequence of text and leaf tokens of the document is EXACTLY
   preserved.  For split and wrap nothing is deleted and the slice is a chain of empty copies / fresh
   wrappers.  For join and lift the structure flag does the work: ReplaceStep / ReplaceAroundStep.apply refuse
   a flagged step when content_between finds content in the replaced ranges, and content_between is proved to
   answer "none" only for ranges made of close tokens followed by open tokens — for ranges that start at a
   position that is not inside a text node (hypothesis; true of the positions these operations compute, which
   are node boundaries), in schemas whose text type is a leaf type (hypothesis; always true of a Schema). *)
Theorem C12_structure_flag_deletes_no_content : forall s doc from to r,
  is_leaf_ty s (s_text s) = true ->
  resolve s doc from = Ok r -> rp_text_offset r = 0 -> from <= to ->
  content_between s doc from to = Ok false ->
  leaves (seg (ftoks s (node_content doc)) from to) = [].
Proof. intros s doc from to r H. exact (content_between_no_leaves s H doc from to r). Qed.
Print Assumptions C12_structure_flag_deletes_no_content.

Theorem C12_split_keeps_leaves : forall s doc pos depth st d',
  check s doc = true -> split_step s doc pos depth = Ok st -> apply s st doc = ROk d' ->
  leaves (DT s d') = leaves (DT s doc).
Proof. exact split_step_structure_only. Qed.
Print Assumptions C12_split_keeps_leaves.

Theorem C12_wrap_keeps_leaves : forall s r ws doc st d',
  check s doc = true -> (forall w, In w ws -> is_leaf_ty s (fst w) = false) ->
  wrap_step s r ws = Ok st -> apply s st doc = ROk d' ->
  (forall a b, nr_start r = Ok a -> nr_end s r = Ok b -> a <= b) ->
  leaves (DT s d') = leaves (DT s doc).
Proof. exact wrap_step_structure_only. Qed.
Print Assumptions C12_wrap_keeps_leaves.

Theorem C12_join_keeps_leaves : forall s, is_leaf_ty s (s_text s) = true -> forall doc pos depth st d' r,
  check s doc = true -> join_step pos depth = Ok st -> apply s st doc = ROk d' ->
  resolve s doc (pos - depth) = Ok r -> rp_text_offset r = 0 ->
  leaves (DT s d') = leaves (DT s doc).
Proof. exact join_step_structure_only. Qed.
Print Assumptions C12_join_keeps_leaves.

Theorem C12_lift_keeps_leaves : forall s, is_leaf_ty s (s_text s) = true -> forall doc rf rt depth target st d',
  check s doc = true -> PathShape s rf -> PathShape s rt ->
  lift_step s {| nr_from := rf; nr_to := rt; nr_depth := depth |} target = Ok st -> apply s st doc = ROk d' ->
  (forall from to gf gt sl ins b, st = SReplaceAround from to gf gt sl ins b ->
     gf <= gt /\ exists r1 r2, resolve s doc from = Ok r1 /\ rp_text_offset r1 = 0 /\
                              resolve s doc gt = Ok r2 /\ rp_text_offset r2 = 0) ->
  leaves (DT s d') = leaves (DT s doc).
Proof. exact lift_step_structure_only. Qed.
Print Assumptions C12_lift_keeps_leaves.

(* ---- the helpers return in-range results ----
   whatever position join_point / insert_point answer lies within 0 .. size of the document (the candidates are the
   given position and before(d) / after(d) of its ancestors, which Proofs/Accessors.v locates in the token sequence) *)
Theorem C12_join_point_in_range : forall s doc pos dir p,
  join_point s doc pos dir = Ok (Some p) -> p <= frag_size s (node_content doc).
Proof. exact join_point_in_range. Qed.
Print Assumptions C12_join_point_in_range.

Theorem C12_insert_point_in_range : forall s doc pos ty p,
  insert_point s doc pos ty = Ok (Some p) -> p <= frag_size s (node_content doc).
Proof. exact insert_point_in_range. Qed.
Print Assumptions C12_insert_point_in_range.

(* ---- the helpers never crash on in-range input ----
   on a VALID document, for every position of the document (every depth >= 1, direction, node type), the helpers
   return an answer - no exception of any class.  can_join and join_point cut the text node around the position; for
   them the position must not split a surrogate pair ([Boundary]: node_before / node_after are defined there - every
   position with text offset 0 is one).  (lift_target takes a NodeRange built by block_range; drop_point and
   find_wrapping on ranges are evaluated per case.) *)
Theorem C12_can_split_never_crashes : forall s doc pos depth,
  check s doc = true -> is_elem doc -> pos <= frag_size s (node_content doc) -> 1 <= depth ->
  exists answer, can_split s doc pos depth = Ok answer.
Proof. exact can_split_never_crashes. Qed.
Print Assumptions C12_can_split_never_crashes.

Theorem C12_can_join_never_crashes : forall s doc pos r,
  check s doc = true -> is_elem doc -> resolve s doc pos = Ok r -> Boundary s r ->
  exists answer, can_join s doc pos = Ok answer.
Proof. exact can_join_never_crashes. Qed.
Print Assumptions C12_can_join_never_crashes.

Theorem C12_join_point_never_crashes : forall s doc pos dir r,
  check s doc = true -> is_elem doc -> resolve s doc pos = Ok r -> Boundary s r ->
  exists answer, join_point s doc pos dir = Ok answer.
Proof. exact join_point_never_crashes. Qed.
Print Assumptions C12_join_point_never_crashes.

Theorem C12_insert_point_never_crashes : forall s doc pos ty,
  check s doc = true -> is_elem doc -> pos <= frag_size s (node_content doc) ->
  exists answer, insert_point s doc pos ty = Ok answer.
Proof. exact insert_point_never_crashes. Qed.
Print Assumptions C12_insert_point_never_crashes.

(* lift_target: for a node range over a valid document (two resolved positions and a depth both reach - what
   ResolvedPos.block_range builds) it returns an answer *)
Theorem C12_lift_target_never_crashes : forall s r,
  VP s (nr_from r) -> VP s (nr_to r) -> nr_depth r <= rp_depth (nr_from r) -> nr_depth r <= rp_depth (nr_to r) ->
  exists answer, lift_target s r = Ok answer.
Proof. exact lift_target_never_crashes. Qed.
Print Assumptions C12_lift_target_never_crashes.

(* drop_point (modelled in Model/DropPoint.v, compared with the implementation on every run): on a valid document, for
   every position and every slice that is as open on its left as it claims, it returns an answer, and the position it
   answers lies within the document *)
Theorem C12_drop_point_total_and_in_range : forall s doc pos sl,
  check s doc = true -> is_elem doc -> pos <= frag_size s (node_content doc) ->
  Shape s (sl_content sl) (sl_open_start sl) (sl_open_end sl) ->
  (exists answer, drop_point s doc pos sl = Ok answer) /\
  forall p, drop_point s doc pos sl = Ok (Some p) -> p <= frag_size s (node_content doc).
Proof. exact drop_point_spec. Qed.
Print Assumptions C12_drop_point_total_and_in_range.
