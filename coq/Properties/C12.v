(* C12 — structure edits keep the content.
   Split, join, lift and wrap are emitted as steps with the structure flag; split and join are replace
   steps.  Theorem, for every schema, valid document and replace step: if the deleted range contains no
   text or leaf token and the slice stands for none, the sequence of text and leaf tokens of the document
   is exactly preserved, and the result is valid (C11_result_valid).  That the helpers approve only edits
   that then succeed, and the lift / wrap steps (replace-around), are evaluated per case by Corr.C12. *)
From Coq Require Import List Arith.
From PM Require Import Model.Data Model.Mark Model.Tree Model.Step Spec.Tokens
  Proofs.ReplaceValid Proofs.SliceSides Proofs.TokenBasics Proofs.ReplaceTokens Proofs.SliceShape Proofs.TokenLaws
  Proofs.AroundLaws.
Import ListNotations.

Theorem C12_structure_only_step_keeps_leaves : forall s from to sl structure doc d',
  check s doc = true ->
  Shape s (sl_content sl) (sl_open_start sl) (sl_open_end sl) -> from <= to ->
  apply s (SReplace from to sl structure) doc = ROk d' ->
  leaves (seg (DT s doc) from to) = [] -> leaves (IT s sl) = [] ->
  leaves (DT s d') = leaves (DT s doc).
Proof. exact replace_step_structure_only. Qed.
Print Assumptions C12_structure_only_step_keeps_leaves.

(* lift and wrap (and set_block_type / set_node_markup) are replace-around steps: if the two replaced
   ranges around the gap contain no text or leaf token and the slice stands for none, the sequence of text
   and leaf tokens is exactly preserved *)
Theorem C12_structure_only_around_step_keeps_leaves : forall s from to gf gt sl ins structure doc d',
  check s doc = true ->
  Shape s (sl_content sl) (sl_open_start sl) (sl_open_end sl) ->
  from <= gf -> gf <= gt -> gt <= to -> ins <= length (IT s sl) ->
  apply s (SReplaceAround from to gf gt sl ins structure) doc = ROk d' ->
  leaves (seg (DT s doc) from gf) = [] -> leaves (seg (DT s doc) gt to) = [] -> leaves (IT s sl) = [] ->
  leaves (DT s d') = leaves (DT s doc).
Proof. exact around_step_structure_only. Qed.
Print Assumptions C12_structure_only_around_step_keeps_leaves.
