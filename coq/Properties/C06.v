(* C06 — a content expression and its compiled matcher accept exactly the same sequences.
   Layer A: a certificate checker, proved sound once for all expressions and automata; the check
   evaluates it (vm_compute) for every generated expression against the automaton the implementation
   compiled, which establishes the statement for ALL child sequences of that expression. *)
From Coq Require Import List Bool Arith String.
Open Scope string_scope.
From PM Require Import Model.Data Model.Tree Spec.Regex.
Import ListNotations.

Theorem C06_derivative_correct : forall e t w, matches (deriv t e) w <-> matches e (t :: w).
Proof. exact deriv_ok. Qed.
Print Assumptions C06_derivative_correct.

(* complete content: the automaton accepts exactly the sequences the expression matches *)
Theorem C06_certificate_sound_accept : forall s alphabet e0 q0 seen,
  check_bisim s alphabet e0 q0 seen = true ->
  (forall e q, In (e, q) seen -> forall t, In t (syms e) -> In t alphabet) ->
  forall w, accepts s q0 w = true <-> matches e0 w.
Proof. exact check_bisim_sound. Qed.
Print Assumptions C06_certificate_sound_accept.

(* prefixes: a match state stays alive exactly when the prefix can be extended to a match *)
Theorem C06_certificate_sound_prefix : forall s alphabet e0 q0 seen,
  check_bisim s alphabet e0 q0 seen = true ->
  (forall e q, In (e, q) seen -> forall t, In t (syms e) -> In t alphabet) ->
  forall w, (exists q, match_types s q0 w = Some q) <-> (exists v, matches e0 (w ++ v)).
Proof. exact check_bisim_prefix. Qed.
Print Assumptions C06_certificate_sound_prefix.

(* what one successful run of the check means *)
Theorem C06_equiv_check_meaning : forall s alphabet fuel e q0,
  equiv_check s alphabet fuel e q0 = true ->
  (forall w, accepts s q0 w = true <-> matches e w) /\
  (forall w, (exists q, match_types s q0 w = Some q) <-> (exists v, matches e (w ++ v))).
Proof.
  intros s alphabet fuel e q0 H. unfold equiv_check in H. apply andb_prop in H. destruct H as [H1 H2].
  split; [eapply check_bisim_sound | eapply check_bisim_prefix]; eauto; apply syms_covered_ok; auto.
Qed.
Print Assumptions C06_equiv_check_meaning.

(* non-vacuity: (a b?)+ against a hand-written two-state automaton *)
Example C06_example :
  let s := {| s_nodes := [NT "x" [] 1 false false None [] false false false false false None;
                          NT "a" [] 0 false false None [] false false false false false None;
                          NT "b" [] 0 false false None [] false false false false false None];
              s_marks := [];
              s_states := [CS true []; CS false [(1, 2)]; CS true [(1, 2); (2, 3)]; CS true [(1, 2)]];
              s_top := 0; s_text := 9 |} in
  equiv_check s [0; 1; 2] 50 (RSeq (RSeq (RSym 1) (RAlt REps (RSym 2))) (RStar (RSeq (RSym 1) (RAlt REps (RSym 2))))) 1 = true.
Proof. vm_compute. reflexivity. Qed.
