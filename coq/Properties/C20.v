(* C20 — document diffing terminates and reports the true first difference.
   Termination: find_diff_start / find_diff_end are structurally recursive
   Gallina functions (total by construction); that the code terminates like the
   model is what the correspondence checks (every call under an alarm). *)
From Coq Require Import List Bool Arith.
From PM Require Import Model.Data Model.Mark Model.Tree Model.Diff Spec.DiffSpec Proofs.DiffProofs Proofs.TokenInj Proofs.DiffPositions Proofs.DiffEnd Proofs.DiffEndPositions.
Import ListNotations.

(* the object-identity fast path (shared sub-trees after an edit) never changes the answer *)
Theorem C20_identity_fast_path_irrelevant : forall s (o : node -> node -> bool),
  sound_oracle o -> forall a b pos, find_diff_start s o a b pos = find_diff_start s never a b pos.
Proof. exact diff_start_oracle_irrelevant. Qed.
Print Assumptions C20_identity_fast_path_irrelevant.

(* nothing is reported exactly when the fragments are equal (any admissible sharing) *)
Theorem C20_start_none_iff_equal : forall s (o : node -> node -> bool), sound_oracle o -> forall a b pos,
  wf_text_list a = true -> wf_text_list b = true ->
  (find_diff_start s o a b pos = None <-> frag_eqb a b = true).
Proof. exact diff_start_none_iff_oracle. Qed.
Print Assumptions C20_start_none_iff_equal.

Theorem C20_self_diff_none : forall s o a pos, find_diff_start s o a a pos = None.
Proof. exact fds_refl. Qed.
Print Assumptions C20_self_diff_none.

(* the reported position is the true first difference: for fragments in normal form (no empty text, no
   adjacent text nodes with == marks, leaf nodes without content: [canon_list]) whose text consists of Unicode
   code points that are not lone surrogates ([ok_list]), under any admissible sharing oracle, the position
   find_diff_start reports is the start position plus the length of the longest common prefix of the two
   markup-annotated token sequences (Spec/DiffSpec.v: the close token carries its node's markup, text is one
   token per UTF-16 unit) *)
Theorem C20_start_position_is_common_prefix : forall s (o : node -> node -> bool), sound_oracle o ->
  forall a b pos p,
  canon_list s a = true -> canon_list s b = true -> ok_list a = true -> ok_list b = true ->
  find_diff_start s o a b pos = Some p ->
  pos <= p /\ p - pos = lcp (aftoks s a) (aftoks s b).
Proof.
  intros s o Ho a b pos p Ca Cb Oa Ob H. rewrite (diff_start_oracle_irrelevant s o Ho) in H.
  exact (find_diff_start_position s a b pos p Ca Cb Oa Ob H).
Qed.
Print Assumptions C20_start_position_is_common_prefix.

(* ---- the scan from the end (find_diff_end; modelled over the mirrored tree, Model/Diff.v) ---- *)
Theorem C20_end_identity_fast_path_irrelevant : forall s (o : node -> node -> bool),
  sound_oracle o -> forall a b pa pb, find_diff_end s o a b pa pb = find_diff_end s never a b pa pb.
Proof. exact diff_end_oracle_irrelevant. Qed.
Print Assumptions C20_end_identity_fast_path_irrelevant.

(* nothing is reported exactly when the fragments are equal (any admissible sharing) *)
Theorem C20_end_none_iff_equal : forall s (o : node -> node -> bool), sound_oracle o -> forall a b pa pb,
  wf_text_list a = true -> wf_text_list b = true ->
  (find_diff_end s o a b pa pb = None <-> frag_eqb a b = true).
Proof. exact diff_end_none_iff. Qed.
Print Assumptions C20_end_none_iff_equal.

(* the reported pair is the true last difference: under the hypotheses of C20_start_position_is_common_prefix, the
   pair of positions find_diff_end reports is the given pair of end positions, each moved back by the length of the
   longest common SUFFIX of the two markup-annotated token sequences - after those positions the two sequences
   agree, and the tokens just before them differ (or one sequence is exhausted) *)
Theorem C20_end_position_is_common_suffix : forall s (o : node -> node -> bool), sound_oracle o ->
  forall a b pa pb qa qb,
  canon_list s a = true -> canon_list s b = true -> ok_list a = true -> ok_list b = true ->
  find_diff_end s o a b pa pb = Some (qa, qb) ->
  let k := lcp (rev (aftoks s a)) (rev (aftoks s b)) in qa = pa - k /\ qb = pb - k.
Proof. exact find_diff_end_position. Qed.
Print Assumptions C20_end_position_is_common_suffix.

(* ---- symmetry ---- *)
From Coq Require Import NArith Lia.
From PM Require Import Proofs.DataProofs Proofs.ReplaceCanon.

Lemma atok_eqb_sym x y : atok_eqb x y = atok_eqb y x.
Proof.
  destruct x, y; simpl; auto;
    try (rewrite Nat.eqb_sym, attrs_eqb_sym, marks_eqb_sym; reflexivity).
  rewrite N.eqb_sym, marks_eqb_sym. reflexivity.
Qed.
Lemma lcp_comm a : forall b, lcp a b = lcp b a.
Proof.
  induction a as [|x a IH]; destruct b as [|y b]; simpl; auto.
  rewrite atok_eqb_sym. destruct (atok_eqb y x); auto.
Qed.

(* the first difference does not depend on which fragment is called "self": whenever both orders report a position,
   it is the same position; likewise the last difference, with the two coordinates exchanged *)
Theorem C20_start_symmetric : forall s (o o' : node -> node -> bool), sound_oracle o -> sound_oracle o' ->
  forall a b pos p q,
  canon_list s a = true -> canon_list s b = true -> ok_list a = true -> ok_list b = true ->
  find_diff_start s o a b pos = Some p -> find_diff_start s o' b a pos = Some q -> p = q.
Proof.
  intros s o o' Ho Ho' a b pos p q Ca Cb Oa Ob H1 H2.
  destruct (C20_start_position_is_common_prefix s o Ho a b pos p Ca Cb Oa Ob H1) as [L1 E1].
  destruct (C20_start_position_is_common_prefix s o' Ho' b a pos q Cb Ca Ob Oa H2) as [L2 E2].
  rewrite lcp_comm in E2. lia.
Qed.
Print Assumptions C20_start_symmetric.

Theorem C20_end_symmetric : forall s (o o' : node -> node -> bool), sound_oracle o -> sound_oracle o' ->
  forall a b pa pb qa qb ra rb,
  canon_list s a = true -> canon_list s b = true -> ok_list a = true -> ok_list b = true ->
  find_diff_end s o a b pa pb = Some (qa, qb) -> find_diff_end s o' b a pb pa = Some (rb, ra) ->
  qa = ra /\ qb = rb.
Proof.
  intros s o o' Ho Ho' a b pa pb qa qb ra rb Ca Cb Oa Ob H1 H2.
  pose proof (C20_end_position_is_common_suffix s o Ho a b pa pb qa qb Ca Cb Oa Ob H1) as E1.
  pose proof (C20_end_position_is_common_suffix s o' Ho' b a pb pa rb ra Cb Ca Ob Oa H2) as E2.
  cbv zeta in E1, E2. rewrite lcp_comm in E2. lia.
Qed.
Print Assumptions C20_end_symmetric.
