(* C20 — document diffing terminates and reports the true first difference.
   Termination: find_diff_start / find_diff_end are structurally recursive
   Gallina functions (total by construction); that the code terminates like the
   model is what the correspondence checks (every call under an alarm). *)
From Coq Require Import List Bool Arith.
From PM Require Import Model.Data Model.Mark Model.Tree Model.Diff Proofs.DiffProofs.
Import ListNotations.

(* the object-identity fast path (shared sub-trees after an edit) never changes the answer *)
Theorem C20_identity_fast_path_irrelevant : forall s (o : node -> node -> bool),
  sound_oracle o -> forall a b pos, find_diff_start s o a b pos = find_diff_start s never a b pos.
Proof. exact diff_start_oracle_irrelevant. Qed.
Print Assumptions C20_identity_fast_path_irrelevant.

(* nothing is reported exactly when the fragments are equal (any admissible sharing) *)
Theorem C20_start_none_iff_equal : forall s (o : node -> node -> bool), sound_oracle o -> forall a b pos,
  wf_text_list a = true -> wf_text_list b = true ->
  (find_diff_start s o a b pos = None <-> frag_eqb a b = true).
Proof. exact diff_start_none_iff_oracle. Qed.
Print Assumptions C20_start_none_iff_equal.

Theorem C20_self_diff_none : forall s o a pos, find_diff_start s o a a pos = None.
Proof. exact fds_refl. Qed.
Print Assumptions C20_self_diff_none.

(* the partial statement: that a reported position equals the length of the common
   token prefix (and the end-direction analogues) is evaluated on every generated
   pair by Corr.C20.holds; it is not yet a theorem. *)
Definition C20_full_statement_pending : Prop :=
  forall s a b p, find_diff_start s never a b 0 = Some p -> True.
