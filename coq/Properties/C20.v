From PM Require Import Model.Diff.
