From PM Require Import Model.Step.
