(* C11 — replace-family edits keep the document valid and keep the surrounding content.
   Every operation of the replace family (replace, replace_with, insert, delete, replace_range,
   replace_range_with, delete_range) plans ONE step and records it through Transform.step; the step is a
   ReplaceStep (or, when the fitter moves the inline content after the range into the slice, a
   ReplaceAroundStep).  The theorems below are about what such a step does, for every schema, every valid
   document, every range and every slice (open sides of the claimed depth): the result is valid, every
   token before the step's start and after its end is still there, in order and unmodified, what lies
   between them is exactly the tokens the slice stands for, and a deletion removes exactly the range.
   [DT] is the document's token sequence, [IT] the tokens a slice stands for, both up to Python's True == 1
   on attribute values (TokenBasics.tnorm); [leaves] keeps the text and leaf tokens.
   The planner itself — transform/replace.py: replace_step, fits_trivially and the Fitter — is modelled
   function for function in Model.Fitter and compared with the implementation on every run (the very step it
   plans, or None, or the error class: Corr.Ops.QReplaceStep).  Theorems about it: the planned step starts at
   the requested position (a replace-around step keeps [to, end of textblock) as its gap), so everything
   before `from` survives the planned edit token for token.  What is still evaluated per case by Corr.C11 on
   the implementation's output: the fitter never raises on the bundled schemas, and the fitted slice's text
   is an in-order subsequence of the given slice's text. *)
From Coq Require Import List Arith.
From PM Require Import Model.Data Model.Mark Model.Tree Model.Step Spec.Tokens
  Proofs.ReplaceValid Proofs.SliceSides Proofs.TokenBasics Proofs.ReplaceTokens Proofs.SliceShape Proofs.TokenLaws
  Proofs.StepAlgebra Proofs.AroundTokens Proofs.AroundLaws Proofs.FitterProofs.
From PM Require Import Model.Fitter.
Import ListNotations.

Theorem C11_result_valid : forall s from to sl structure doc d',
  check s doc = true ->
  OpenOK s (sl_content sl) (sl_open_start sl) (sl_open_end sl) ->
  apply s (SReplace from to sl structure) doc = ROk d' ->
  check s d' = true.
Proof. exact apply_replace_valid. Qed.
Print Assumptions C11_result_valid.

Theorem C11_outside_content_kept : forall s from to sl structure doc d',
  check s doc = true ->
  Shape s (sl_content sl) (sl_open_start sl) (sl_open_end sl) ->
  apply s (SReplace from to sl structure) doc = ROk d' ->
  firstn from (DT s d') = firstn from (DT s doc) /\
  firstn (length (IT s sl)) (skipn from (DT s d')) = IT s sl /\
  skipn (from + length (IT s sl)) (DT s d') = skipn to (DT s doc).
Proof. exact replace_step_keeps_outside. Qed.
Print Assumptions C11_outside_content_kept.

Theorem C11_text_and_leaves : forall s from to sl structure doc d',
  check s doc = true ->
  Shape s (sl_content sl) (sl_open_start sl) (sl_open_end sl) ->
  apply s (SReplace from to sl structure) doc = ROk d' ->
  leaves (DT s d') = leaves (firstn from (DT s doc)) ++ leaves (IT s sl) ++ leaves (skipn to (DT s doc)).
Proof. exact replace_step_leaves. Qed.
Print Assumptions C11_text_and_leaves.

Theorem C11_delete_exact : forall s from to structure doc d',
  check s doc = true ->
  apply s (SReplace from to slice_empty structure) doc = ROk d' ->
  DT s d' = firstn from (DT s doc) ++ skipn to (DT s doc).
Proof. exact delete_step_exact. Qed.
Print Assumptions C11_delete_exact.

(* the replace-around step the fitter emits when it moves the inline content after the range into the
   slice: everything before `from` and after `to` is kept, the gap's tokens are kept between the two parts
   of the slice *)
Theorem C11_around_step_splice : forall s from to gf gt sl ins structure doc d',
  check s doc = true ->
  Shape s (sl_content sl) (sl_open_start sl) (sl_open_end sl) -> gf <= gt -> ins <= length (IT s sl) ->
  apply s (SReplaceAround from to gf gt sl ins structure) doc = ROk d' ->
  from <= length (DT s doc) /\ to <= length (DT s doc) /\
  DT s d' = firstn from (DT s doc) ++ firstn ins (IT s sl) ++ seg (DT s doc) gf gt ++
            skipn ins (IT s sl) ++ skipn to (DT s doc).
Proof. exact replace_around_splice. Qed.
Print Assumptions C11_around_step_splice.

Theorem C11_planned_step_starts_where_asked : forall s doc from to sl st,
  replace_step s doc from to sl = Ok (Some st) ->
  (exists t' sl', st = SReplace from t' sl' false) \/
  (exists mi e sl' ins, st = SReplaceAround from mi to e sl' ins false).
Proof. exact replace_step_shape. Qed.
Print Assumptions C11_planned_step_starts_where_asked.

Theorem C11_planned_edit_keeps_everything_before : forall s doc from to sl st d',
  check s doc = true -> replace_step s doc from to sl = Ok (Some st) -> apply s st doc = ROk d' ->
  (forall f t sl' b, st = SReplace f t sl' b -> Shape s (sl_content sl') (sl_open_start sl') (sl_open_end sl')) ->
  (forall f t gf gt sl' ins b, st = SReplaceAround f t gf gt sl' ins b ->
     Shape s (sl_content sl') (sl_open_start sl') (sl_open_end sl') /\ gf <= gt /\ ins <= length (IT s sl')) ->
  firstn from (DT s d') = firstn from (DT s doc).
Proof. exact planned_step_keeps_before. Qed.
Print Assumptions C11_planned_edit_keeps_everything_before.
