(* C17 — concurrent edits to separate parts of a document commute after rebasing.
   Theorem for pairs of replace steps (what every deletion, insertion, paste, split and join compiles to):
   for every schema, valid document and steps a = replace [f1,t1) by s1, b = replace [f2,t2) by s2 with at
   least one untouched token between them (t1 < f2) that both apply to the document:
     - rebasing a over b's map gives a itself, rebasing b over a's map shifts it by a's size change;
       neither is dropped (Step.map returns a step);
     - if both orders apply, the two results have the same token sequence.
   Hypotheses: both slices OpenOK (valid nodes off their open sides), so that the intermediate documents
   are valid.  Third theorem: a replace step and a node-level step (attribute, add / remove node mark) behind it.
   That both orders do apply, and the pairs involving replace-around and mark steps, are evaluated per case by
   Corr.C17. *)
From Coq Require Import List Arith.
From PM Require Import Model.Data Model.Mark Model.Tree Model.StepMap Model.Step Spec.Tokens
  Proofs.ReplaceValid Proofs.SliceSides Proofs.TokenBasics Proofs.ReplaceTokens Proofs.SliceShape Proofs.TokenLaws
  Proofs.StepAlgebra Proofs.TokenInj Proofs.ReplaceCanon Proofs.DocEquality Proofs.NodeSteps Proofs.NodeStepCommute Proofs.MarkSteps Proofs.MarkCommute.
Import ListNotations.

Theorem C17_separated_replace_steps_commute : forall s f1 t1 s1 st1 f2 t2 s2 st2 doc da db,
  check s doc = true ->
  OpenOK s (sl_content s1) (sl_open_start s1) (sl_open_end s1) ->
  OpenOK s (sl_content s2) (sl_open_start s2) (sl_open_end s2) ->
  f1 <= t1 -> t1 < f2 -> f2 <= t2 ->
  apply s (SReplace f1 t1 s1 st1) doc = ROk da ->
  apply s (SReplace f2 t2 s2 st2) doc = ROk db ->
  let d1 := length (IT s s1) in
  step_map (SReplace f1 t1 s1 st1) (get_map s (SReplace f2 t2 s2 st2)) = Some (SReplace f1 t1 s1 false) /\
  step_map (SReplace f2 t2 s2 st2) (get_map s (SReplace f1 t1 s1 st1)) =
    Some (SReplace (f2 + d1 - (t1 - f1)) (t2 + d1 - (t1 - f1)) s2 false) /\
  forall dab dba,
    apply s (SReplace (f2 + d1 - (t1 - f1)) (t2 + d1 - (t1 - f1)) s2 false) da = ROk dab ->
    apply s (SReplace f1 t1 s1 false) db = ROk dba ->
    DT s dab = DT s dba.
Proof. exact replace_steps_commute. Qed.
Print Assumptions C17_separated_replace_steps_commute.

(* ... and as documents: with the document and both slices in normal form, both orders give EQUAL documents *)
Theorem C17_separated_replace_steps_converge : forall s f1 t1 s1 st1 f2 t2 s2 st2 doc da db dab dba,
  check s doc = true -> NormalDoc s doc ->
  OpenOK s (sl_content s1) (sl_open_start s1) (sl_open_end s1) -> canon_list s (sl_content s1) = true ->
  OpenOK s (sl_content s2) (sl_open_start s2) (sl_open_end s2) -> canon_list s (sl_content s2) = true ->
  f1 <= t1 -> t1 < f2 -> f2 <= t2 ->
  apply s (SReplace f1 t1 s1 st1) doc = ROk da ->
  apply s (SReplace f2 t2 s2 st2) doc = ROk db ->
  apply s (SReplace (f2 + length (IT s s1) - (t1 - f1)) (t2 + length (IT s s1) - (t1 - f1)) s2 false) da = ROk dab ->
  apply s (SReplace f1 t1 s1 false) db = ROk dba ->
  node_eqb dab dba = true.
Proof. exact replace_steps_commute_eq. Qed.
Print Assumptions C17_separated_replace_steps_converge.

(* a replace step a = replace [f,t) by sl and a node-level step b (AttrStep / AddNodeMarkStep / RemoveNodeMarkStep) on the
   node whose token is number pos, with at least one untouched token between them (t < pos): rebasing b over a's map
   moves it by a's size change and never drops it, rebasing a over b's (empty) map gives a itself, and if both orders
   apply the two results have the same token sequence.  ([move_step b p] is b at position p; hypothesis on the
   schema: ContentMatch.empty is a valid end, as in C01_node_step_valid.) *)
Theorem C17_replace_and_node_step_commute : forall s f t sl structure st pos doc da db,
  check s doc = true -> valid_end s 0 = true ->
  OpenOK s (sl_content sl) (sl_open_start sl) (sl_open_end sl) -> f <= t -> t < pos -> is_node_step st = Some pos ->
  apply s (SReplace f t sl structure) doc = ROk da ->
  apply s st doc = ROk db ->
  let pos' := pos + length (IT s sl) - (t - f) in
  step_map st (get_map s (SReplace f t sl structure)) = Some (move_step st pos') /\
  step_map (SReplace f t sl structure) (get_map s st) = Some (SReplace f t sl false) /\
  forall dab dba,
    apply s (move_step st pos') da = ROk dab -> apply s (SReplace f t sl false) db = ROk dba ->
    DT s dab = DT s dba.
Proof. exact node_step_after_replace_commute. Qed.
Print Assumptions C17_replace_and_node_step_commute.

(* ... and with the node-level step BEFORE the replaced range (pos < f): neither step moves, neither is dropped, and
   both orders give the same token sequence *)
Theorem C17_node_step_before_replace_commute : forall s f t sl structure st pos doc da db,
  check s doc = true -> valid_end s 0 = true ->
  OpenOK s (sl_content sl) (sl_open_start sl) (sl_open_end sl) -> f <= t -> pos < f -> is_node_step st = Some pos ->
  apply s (SReplace f t sl structure) doc = ROk da ->
  apply s st doc = ROk db ->
  step_map st (get_map s (SReplace f t sl structure)) = Some st /\
  step_map (SReplace f t sl structure) (get_map s st) = Some (SReplace f t sl false) /\
  forall dab dba,
    apply s st da = ROk dab -> apply s (SReplace f t sl false) db = ROk dba ->
    DT s dab = DT s dba.
Proof. exact node_step_before_replace_commute. Qed.
Print Assumptions C17_node_step_before_replace_commute.

(* two mark steps (add or remove, any marks) over disjoint ranges [f1,t1) and [f2,t2), t1 <= f2: their maps are empty,
   so rebasing leaves both as they are, and both orders give the same token sequence (hypothesis: the two intermediate
   documents are valid - decidable, evaluated per case) *)
Theorem C17_separated_mark_steps_commute : forall s a b f1 t1 f2 t2 doc da db dab dba,
  check s doc = true -> check s da = true -> check s db = true ->
  mark_step_range a = Some (f1, t1) -> mark_step_range b = Some (f2, t2) -> f1 <= t1 -> t1 <= f2 -> f2 <= t2 ->
  apply s a doc = ROk da -> apply s b doc = ROk db ->
  apply s b da = ROk dab -> apply s a db = ROk dba ->
  step_map a (get_map s b) = Some a /\ step_map b (get_map s a) = Some b /\ DT s dab = DT s dba.
Proof. exact separated_mark_steps_commute. Qed.
Print Assumptions C17_separated_mark_steps_commute.
