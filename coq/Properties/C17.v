(* C17 — concurrent edits to separate parts of a document commute after rebasing.
   Theorems, for every schema, valid document and pair of steps a, b that both apply to it and touch parts separated by at
   least one untouched token: rebasing each over the other's map never drops it (Step.map returns the step itself, or the
   step shifted by the other's size change), and if both orders apply the two results have the same token sequence (for
   replace steps in normal form: equal documents).  One theorem per pair of step kinds:
     replace / replace; replace / node-level step (attribute, add / remove node mark), either order;
     mark / mark; mark / replace (a mark step BEHIND a replace or replace-around step under the hypothesis that the chain of
     nodes open at the end of the edited range is unchanged - false for joins: the recorded finding);
     node-level / mark; node-level / node-level;
     replace / replace-around, either order; replace-around / replace-around; mark / replace-around, either order;
     node-level / replace-around: in front, behind, and addressing a node strictly inside the kept gap.
   Hypotheses: slices OpenOK / of the claimed shape, so that the intermediate documents are valid.
   That both orders DO apply is evaluated per case by Corr.C17 (no success-direction theorem for nested replaces). *)
From Coq Require Import List Arith ZArith.
From PM Require Import Model.Data Model.Mark Model.Tree Model.StepMap Model.Step Spec.Tokens
  Proofs.ReplaceValid Proofs.SliceSides Proofs.TokenBasics Proofs.ReplaceTokens Proofs.SliceShape Proofs.TokenLaws
  Proofs.StepAlgebra Proofs.TokenInj Proofs.ReplaceCanon Proofs.DocEquality Proofs.NodeSteps Proofs.NodeStepCommute Proofs.MarkSteps Proofs.MarkPointwise Proofs.MarkCommute Proofs.AroundCommute Proofs.NodeStepCommute Proofs.NodeAroundCommute.
Import ListNotations.
Local Open Scope nat_scope.

Theorem C17_separated_replace_steps_commute : forall s f1 t1 s1 st1 f2 t2 s2 st2 doc da db,
  check s doc = true ->
  OpenOK s (sl_content s1) (sl_open_start s1) (sl_open_end s1) ->
  OpenOK s (sl_content s2) (sl_open_start s2) (sl_open_end s2) ->
  f1 <= t1 -> t1 < f2 -> f2 <= t2 ->
  apply s (SReplace f1 t1 s1 st1) doc = ROk da ->
  apply s (SReplace f2 t2 s2 st2) doc = ROk db ->
  let d1 := length (IT s s1) in
  step_map (SReplace f1 t1 s1 st1) (get_map s (SReplace f2 t2 s2 st2)) = Some (SReplace f1 t1 s1 false) /\
  step_map (SReplace f2 t2 s2 st2) (get_map s (SReplace f1 t1 s1 st1)) =
    Some (SReplace (f2 + d1 - (t1 - f1)) (t2 + d1 - (t1 - f1)) s2 false) /\
  forall dab dba,
    apply s (SReplace (f2 + d1 - (t1 - f1)) (t2 + d1 - (t1 - f1)) s2 false) da = ROk dab ->
    apply s (SReplace f1 t1 s1 false) db = ROk dba ->
    DT s dab = DT s dba.
Proof. exact replace_steps_commute. Qed.
Print Assumptions C17_separated_replace_steps_commute.

(* ... and as documents: with the document and both slices in normal form, both orders give EQUAL documents *)
Theorem C17_separated_replace_steps_converge : forall s f1 t1 s1 st1 f2 t2 s2 st2 doc da db dab dba,
  check s doc = true -> NormalDoc s doc ->
  OpenOK s (sl_content s1) (sl_open_start s1) (sl_open_end s1) -> canon_list s (sl_content s1) = true ->
  OpenOK s (sl_content s2) (sl_open_start s2) (sl_open_end s2) -> canon_list s (sl_content s2) = true ->
  f1 <= t1 -> t1 < f2 -> f2 <= t2 ->
  apply s (SReplace f1 t1 s1 st1) doc = ROk da ->
  apply s (SReplace f2 t2 s2 st2) doc = ROk db ->
  apply s (SReplace (f2 + length (IT s s1) - (t1 - f1)) (t2 + length (IT s s1) - (t1 - f1)) s2 false) da = ROk dab ->
  apply s (SReplace f1 t1 s1 false) db = ROk dba ->
  node_eqb dab dba = true.
Proof. exact replace_steps_commute_eq. Qed.
Print Assumptions C17_separated_replace_steps_converge.

(* a replace step a = replace [f,t) by sl and a node-level step b (AttrStep / AddNodeMarkStep / RemoveNodeMarkStep) on the
   node whose token is number pos, with at least one untouched token between them (t < pos): rebasing b over a's map
   moves it by a's size change and never drops it, rebasing a over b's (empty) map gives a itself, and if both orders
   apply the two results have the same token sequence.  ([move_step b p] is b at position p; hypothesis on the
   schema: ContentMatch.empty is a valid end, as in C01_node_step_valid.) *)
Theorem C17_replace_and_node_step_commute : forall s f t sl structure st pos doc da db,
  check s doc = true -> valid_end s 0 = true ->
  OpenOK s (sl_content sl) (sl_open_start sl) (sl_open_end sl) -> f <= t -> t < pos -> is_node_step st = Some pos ->
  apply s (SReplace f t sl structure) doc = ROk da ->
  apply s st doc = ROk db ->
  let pos' := pos + length (IT s sl) - (t - f) in
  step_map st (get_map s (SReplace f t sl structure)) = Some (move_step st pos') /\
  step_map (SReplace f t sl structure) (get_map s st) = Some (SReplace f t sl false) /\
  forall dab dba,
    apply s (move_step st pos') da = ROk dab -> apply s (SReplace f t sl false) db = ROk dba ->
    DT s dab = DT s dba.
Proof. exact node_step_after_replace_commute. Qed.
Print Assumptions C17_replace_and_node_step_commute.

(* ... and with the node-level step BEFORE the replaced range (pos < f): neither step moves, neither is dropped, and
   both orders give the same token sequence *)
Theorem C17_node_step_before_replace_commute : forall s f t sl structure st pos doc da db,
  check s doc = true -> valid_end s 0 = true ->
  OpenOK s (sl_content sl) (sl_open_start sl) (sl_open_end sl) -> f <= t -> pos < f -> is_node_step st = Some pos ->
  apply s (SReplace f t sl structure) doc = ROk da ->
  apply s st doc = ROk db ->
  step_map st (get_map s (SReplace f t sl structure)) = Some st /\
  step_map (SReplace f t sl structure) (get_map s st) = Some (SReplace f t sl false) /\
  forall dab dba,
    apply s st da = ROk dab -> apply s (SReplace f t sl false) db = ROk dba ->
    DT s dab = DT s dba.
Proof. exact node_step_before_replace_commute. Qed.
Print Assumptions C17_node_step_before_replace_commute.

(* two mark steps (add or remove, any marks) over disjoint ranges [f1,t1) and [f2,t2), t1 <= f2: their maps are empty,
   so rebasing leaves both as they are, and both orders give the same token sequence (hypothesis: the two intermediate
   documents are valid - decidable, evaluated per case) *)
Theorem C17_separated_mark_steps_commute : forall s a b f1 t1 f2 t2 doc da db dab dba,
  check s doc = true -> check s da = true -> check s db = true ->
  mark_step_range a = Some (f1, t1) -> mark_step_range b = Some (f2, t2) -> f1 <= t1 -> t1 <= f2 -> f2 <= t2 ->
  apply s a doc = ROk da -> apply s b doc = ROk db ->
  apply s b da = ROk dab -> apply s a db = ROk dba ->
  step_map a (get_map s b) = Some a /\ step_map b (get_map s a) = Some b /\ DT s dab = DT s dba.
Proof. exact separated_mark_steps_commute. Qed.
Print Assumptions C17_separated_mark_steps_commute.

(* ---- a replace step and a mark step ----
   A mark step in FRONT of a replace step (its range ends before the replaced range starts): the replace step changes nothing
   the mark step reads, the mark step changes no sizes - neither step moves under rebasing and both orders give the same
   token sequence. *)
Theorem C17_mark_step_before_replace_commute : forall s f t sl structure b f2 t2 doc da db,
  check s doc = true -> OpenOK s (sl_content sl) (sl_open_start sl) (sl_open_end sl) -> f <= t ->
  mark_step_range b = Some (f2, t2) -> f2 <= t2 -> t2 < f ->
  apply s (SReplace f t sl structure) doc = ROk da ->
  apply s b doc = ROk db ->
  step_map b (get_map s (SReplace f t sl structure)) = Some b /\
  step_map (SReplace f t sl structure) (get_map s b) = Some (SReplace f t sl false) /\
  forall dab dba,
    check s db = true -> apply s b da = ROk dab -> apply s (SReplace f t sl false) db = ROk dba ->
    DT s dab = DT s dba.
Proof. exact mark_step_before_replace_commute. Qed.
Print Assumptions C17_mark_step_before_replace_commute.

(* A mark step BEHIND a replace step reads one thing the replace step may change: the chain of nodes that are open at the end
   of the replaced range (it decides which node encloses the tokens behind it, hence whether a mark is allowed there).  When
   that chain is the same before and after the replace step - true of every edit that stays inside one parent node, false
   when the step joins or retypes nodes: exactly the recorded finding C17-join-vs-mark-context - rebasing shifts the mark
   step by the size change, never drops it, and both orders give the same token sequence. *)
Theorem C17_mark_step_after_replace_commute : forall s f t sl structure b f2 t2 doc da db,
  check s doc = true -> OpenOK s (sl_content sl) (sl_open_start sl) (sl_open_end sl) -> f <= t ->
  mark_step_range b = Some (f2, t2) -> t < f2 -> f2 <= t2 ->
  ctx_after (firstn f (DT s doc) ++ IT s sl) ([], node_ty s doc) = ctx_after (firstn t (DT s doc)) ([], node_ty s doc) ->
  apply s (SReplace f t sl structure) doc = ROk da ->
  apply s b doc = ROk db ->
  let delta := (Z.of_nat (length (IT s sl)) - (Z.of_nat t - Z.of_nat f))%Z in
  let b' := move_mark_step b (Z.to_nat (Z.of_nat f2 + delta)) (Z.to_nat (Z.of_nat t2 + delta)) in
  step_map b (get_map s (SReplace f t sl structure)) = Some b' /\
  step_map (SReplace f t sl structure) (get_map s b) = Some (SReplace f t sl false) /\
  forall dab dba,
    check s db = true -> apply s b' da = ROk dab -> apply s (SReplace f t sl false) db = ROk dba ->
    DT s dab = DT s dba.
Proof.
  intros s f t sl structure b f2 t2 doc da db Hd Ho Hft Rb Hsep H2 Hctx Ha Hb delta b'.
  pose proof (OpenOK_Shape s _ _ _ Ho) as Hs.
  split; [exact (mark_step_map_after s f t sl structure b f2 t2 Hs Hft Rb Hsep H2)|].
  destruct (mark_step_after_replace_commute s f t sl structure b f2 t2 doc da db Hd Ho Hft Rb Hsep H2 Hctx Ha Hb) as (M & Hc).
  split; [exact M|]. intros dab dba Hdb Hab Hba.
  apply (Hc b' dab dba); try assumption; unfold b'; destruct b; try discriminate; reflexivity.
Qed.
Print Assumptions C17_mark_step_after_replace_commute.

(* An attribute / node-mark step at a position outside a mark step's range: the node step rewrites one token and keeps its
   node type, the mark step re-marks the tokens of its range only - both maps are empty (neither step moves under rebasing)
   and both orders give the same token sequence.  (The intermediate documents are valid: C01_node_step_valid for the node
   step; for the mark step a decidable hypothesis.) *)
Theorem C17_node_step_and_mark_step_commute : forall s a pos b f2 t2 doc da db dab dba,
  check s doc = true -> check s da = true -> check s db = true ->
  is_node_step a = Some pos -> mark_step_range b = Some (f2, t2) -> f2 <= t2 -> (pos < f2 \/ t2 <= pos) ->
  apply s a doc = ROk da -> apply s b doc = ROk db ->
  apply s b da = ROk dab -> apply s a db = ROk dba ->
  get_map s a = empty_map /\ get_map s b = empty_map /\ DT s dab = DT s dba.
Proof. exact node_step_and_mark_step_commute. Qed.
Print Assumptions C17_node_step_and_mark_step_commute.

(* Two attribute / node-mark steps on different nodes: both maps are empty and both orders give the same token sequence *)
Theorem C17_two_node_steps_commute : forall s a pa b pb doc da db dab dba,
  check s doc = true -> check s da = true -> check s db = true ->
  is_node_step a = Some pa -> is_node_step b = Some pb -> pa <> pb ->
  apply s a doc = ROk da -> apply s b doc = ROk db ->
  apply s b da = ROk dab -> apply s a db = ROk dba ->
  DT s dab = DT s dba.
Proof. exact two_node_steps_commute. Qed.
Print Assumptions C17_two_node_steps_commute.

(* ---- a replace step and a replace-around step (what lift, wrap, set_block_type and set_node_markup record) ----
   With at least one untouched token between them: the step in front does not move under rebasing, the step behind is shifted
   by the other's size change (for the replace-around step: inserted wrapper tokens minus deleted ones), neither is dropped,
   and both orders give the same token sequence.  (Validity of the documents a replace-around step produces is a decidable
   hypothesis: C01 has no validity theorem for replace-around steps - recorded finding C01-replace-around-closed-wrapper.) *)
Theorem C17_replace_before_around_commute : forall s f1 t1 s1 st1 from to gf gt sl ins st doc da db,
  check s doc = true -> OpenOK s (sl_content s1) (sl_open_start s1) (sl_open_end s1) ->
  Shape s (sl_content sl) (sl_open_start sl) (sl_open_end sl) ->
  f1 <= t1 -> t1 < from -> from <= gf -> gf <= gt -> gt <= to -> ins <= length (IT s sl) ->
  apply s (SReplace f1 t1 s1 st1) doc = ROk da ->
  apply s (SReplaceAround from to gf gt sl ins st) doc = ROk db ->
  let d := length (IT s s1) in let sh p := p + d - (t1 - f1) in
  step_map (SReplace f1 t1 s1 st1) (get_map s (SReplaceAround from to gf gt sl ins st)) = Some (SReplace f1 t1 s1 false) /\
  step_map (SReplaceAround from to gf gt sl ins st) (get_map s (SReplace f1 t1 s1 st1)) =
    Some (SReplaceAround (sh from) (sh to) (sh gf) (sh gt) sl ins st) /\
  forall dab dba,
    check s db = true ->
    apply s (SReplaceAround (sh from) (sh to) (sh gf) (sh gt) sl ins st) da = ROk dab ->
    apply s (SReplace f1 t1 s1 false) db = ROk dba ->
    DT s dab = DT s dba.
Proof. exact replace_before_around_commute. Qed.
Print Assumptions C17_replace_before_around_commute.

Theorem C17_replace_after_around_commute : forall s f1 t1 s1 st1 from to gf gt sl ins st doc da db,
  check s doc = true -> OpenOK s (sl_content s1) (sl_open_start s1) (sl_open_end s1) ->
  Shape s (sl_content sl) (sl_open_start sl) (sl_open_end sl) ->
  from <= gf -> gf <= gt -> gt <= to -> to < f1 -> f1 <= t1 -> ins <= length (IT s sl) ->
  apply s (SReplaceAround from to gf gt sl ins st) doc = ROk da ->
  apply s (SReplace f1 t1 s1 st1) doc = ROk db ->
  let sh p := p + length (IT s sl) + (gt - gf) - (to - from) in
  step_map (SReplaceAround from to gf gt sl ins st) (get_map s (SReplace f1 t1 s1 st1)) =
    Some (SReplaceAround from to gf gt sl ins st) /\
  step_map (SReplace f1 t1 s1 st1) (get_map s (SReplaceAround from to gf gt sl ins st)) = Some (SReplace (sh f1) (sh t1) s1 false) /\
  forall dab dba,
    check s da = true -> check s db = true ->
    apply s (SReplace (sh f1) (sh t1) s1 false) da = ROk dab ->
    apply s (SReplaceAround from to gf gt sl ins st) db = ROk dba ->
    DT s dab = DT s dba.
Proof. exact replace_after_around_commute. Qed.
Print Assumptions C17_replace_after_around_commute.

(* A mark step in front of a replace-around step: neither moves, both orders give the same token sequence *)
Theorem C17_mark_step_before_around_commute : forall s from to gf gt sl ins st b f2 t2 doc da db,
  check s doc = true -> Shape s (sl_content sl) (sl_open_start sl) (sl_open_end sl) ->
  from <= gf -> gf <= gt -> gt <= to -> ins <= length (IT s sl) ->
  mark_step_range b = Some (f2, t2) -> f2 <= t2 -> t2 < from ->
  apply s (SReplaceAround from to gf gt sl ins st) doc = ROk da ->
  apply s b doc = ROk db ->
  step_map b (get_map s (SReplaceAround from to gf gt sl ins st)) = Some b /\
  step_map (SReplaceAround from to gf gt sl ins st) (get_map s b) = Some (SReplaceAround from to gf gt sl ins st) /\
  forall dab dba,
    check s da = true -> check s db = true ->
    apply s b da = ROk dab -> apply s (SReplaceAround from to gf gt sl ins st) db = ROk dba ->
    DT s dab = DT s dba.
Proof. exact mark_step_before_around_commute. Qed.
Print Assumptions C17_mark_step_before_around_commute.

(* Two replace-around steps separated by a token (e.g. two lifts, a wrap and a lift): the one in front stays, the one behind is
   shifted by the first one's size change, both orders give the same token sequence *)
Theorem C17_two_around_steps_commute : forall s f1 t1 gf1 gt1 sl1 ins1 st1 f2 t2 gf2 gt2 sl2 ins2 st2 doc da db,
  check s doc = true ->
  Shape s (sl_content sl1) (sl_open_start sl1) (sl_open_end sl1) -> Shape s (sl_content sl2) (sl_open_start sl2) (sl_open_end sl2) ->
  f1 <= gf1 -> gf1 <= gt1 -> gt1 <= t1 -> ins1 <= length (IT s sl1) ->
  t1 < f2 -> f2 <= gf2 -> gf2 <= gt2 -> gt2 <= t2 -> ins2 <= length (IT s sl2) ->
  apply s (SReplaceAround f1 t1 gf1 gt1 sl1 ins1 st1) doc = ROk da ->
  apply s (SReplaceAround f2 t2 gf2 gt2 sl2 ins2 st2) doc = ROk db ->
  let sh p := p + length (IT s sl1) + (gt1 - gf1) - (t1 - f1) in
  step_map (SReplaceAround f1 t1 gf1 gt1 sl1 ins1 st1) (get_map s (SReplaceAround f2 t2 gf2 gt2 sl2 ins2 st2)) =
    Some (SReplaceAround f1 t1 gf1 gt1 sl1 ins1 st1) /\
  step_map (SReplaceAround f2 t2 gf2 gt2 sl2 ins2 st2) (get_map s (SReplaceAround f1 t1 gf1 gt1 sl1 ins1 st1)) =
    Some (SReplaceAround (sh f2) (sh t2) (sh gf2) (sh gt2) sl2 ins2 st2) /\
  forall dab dba,
    check s da = true -> check s db = true ->
    apply s (SReplaceAround (sh f2) (sh t2) (sh gf2) (sh gt2) sl2 ins2 st2) da = ROk dab ->
    apply s (SReplaceAround f1 t1 gf1 gt1 sl1 ins1 st1) db = ROk dba ->
    DT s dab = DT s dba.
Proof. exact two_around_steps_commute. Qed.
Print Assumptions C17_two_around_steps_commute.

(* a mark step BEHIND a replace-around step, under the same context hypothesis as for a replace step *)
Theorem C17_mark_step_after_around_commute : forall s from to gf gt sl ins st b f2 t2 doc da db,
  check s doc = true -> Shape s (sl_content sl) (sl_open_start sl) (sl_open_end sl) ->
  from <= gf -> gf <= gt -> gt <= to -> ins <= length (IT s sl) ->
  mark_step_range b = Some (f2, t2) -> to < f2 -> f2 <= t2 ->
  ctx_after (firstn from (DT s doc) ++ firstn ins (IT s sl) ++ seg (DT s doc) gf gt ++ skipn ins (IT s sl)) ([], node_ty s doc)
    = ctx_after (firstn to (DT s doc)) ([], node_ty s doc) ->
  apply s (SReplaceAround from to gf gt sl ins st) doc = ROk da ->
  apply s b doc = ROk db ->
  let sh p := p + length (IT s sl) + (gt - gf) - (to - from) in
  let b' := move_mark_step b (sh f2) (sh t2) in
  step_map b (get_map s (SReplaceAround from to gf gt sl ins st)) = Some b' /\
  step_map (SReplaceAround from to gf gt sl ins st) (get_map s b) = Some (SReplaceAround from to gf gt sl ins st) /\
  forall dab dba,
    check s da = true -> check s db = true ->
    apply s b' da = ROk dab -> apply s (SReplaceAround from to gf gt sl ins st) db = ROk dba ->
    DT s dab = DT s dba.
Proof. exact mark_step_after_around_commute. Qed.
Print Assumptions C17_mark_step_after_around_commute.

(* a node-level step (attribute, node mark) in front of / behind a replace-around step *)
Theorem C17_node_step_before_around_commute : forall s from to gf gt sl ins str st pos doc da db,
  check s doc = true -> Shape s (sl_content sl) (sl_open_start sl) (sl_open_end sl) ->
  from <= gf -> gf <= gt -> gt <= to -> ins <= length (IT s sl) ->
  is_node_step st = Some pos -> pos < from ->
  apply s (SReplaceAround from to gf gt sl ins str) doc = ROk da ->
  apply s st doc = ROk db ->
  step_map st (get_map s (SReplaceAround from to gf gt sl ins str)) = Some st /\
  step_map (SReplaceAround from to gf gt sl ins str) (get_map s st) = Some (SReplaceAround from to gf gt sl ins str) /\
  forall dab dba,
    check s da = true -> check s db = true ->
    apply s st da = ROk dab -> apply s (SReplaceAround from to gf gt sl ins str) db = ROk dba ->
    DT s dab = DT s dba.
Proof. exact node_step_before_around_commute. Qed.
Print Assumptions C17_node_step_before_around_commute.

Theorem C17_node_step_after_around_commute : forall s from to gf gt sl ins str st pos doc da db,
  check s doc = true -> Shape s (sl_content sl) (sl_open_start sl) (sl_open_end sl) ->
  from <= gf -> gf <= gt -> gt <= to -> ins <= length (IT s sl) ->
  is_node_step st = Some pos -> to < pos ->
  apply s (SReplaceAround from to gf gt sl ins str) doc = ROk da ->
  apply s st doc = ROk db ->
  let pos' := pos + length (IT s sl) + (gt - gf) - (to - from) in
  step_map st (get_map s (SReplaceAround from to gf gt sl ins str)) = Some (move_step st pos') /\
  step_map (SReplaceAround from to gf gt sl ins str) (get_map s st) = Some (SReplaceAround from to gf gt sl ins str) /\
  forall dab dba,
    check s da = true -> check s db = true ->
    apply s (move_step st pos') da = ROk dab -> apply s (SReplaceAround from to gf gt sl ins str) db = ROk dba ->
    DT s dab = DT s dba.
Proof. exact node_step_after_around_commute. Qed.
Print Assumptions C17_node_step_after_around_commute.

(* ... and addressing a node strictly inside the gap, the content the replace-around step keeps *)
Theorem C17_node_step_in_gap_commute : forall s from to gf gt sl ins str st pos doc da db,
  check s doc = true -> Shape s (sl_content sl) (sl_open_start sl) (sl_open_end sl) ->
  from <= gf -> gf <= gt -> gt <= to -> ins <= length (IT s sl) ->
  is_node_step st = Some pos -> gf < pos -> pos < gt ->
  apply s (SReplaceAround from to gf gt sl ins str) doc = ROk da ->
  apply s st doc = ROk db ->
  let pos' := pos + ins - (gf - from) in
  step_map st (get_map s (SReplaceAround from to gf gt sl ins str)) = Some (move_step st pos') /\
  step_map (SReplaceAround from to gf gt sl ins str) (get_map s st) = Some (SReplaceAround from to gf gt sl ins str) /\
  forall dab dba,
    check s da = true -> check s db = true ->
    apply s (move_step st pos') da = ROk dab -> apply s (SReplaceAround from to gf gt sl ins str) db = ROk dba ->
    DT s dab = DT s dba.
Proof. exact node_step_in_gap_commute. Qed.
Print Assumptions C17_node_step_in_gap_commute.

(* the context hypothesis is met by an edit that stays inside one paragraph: typing "x" at position 2 of the example
   document of Properties/C01.v leaves the chain of open nodes at its end unchanged; an em step over "cd" (6..8) behind it
   is shifted by one and both orders agree *)
From PM Require Properties.C01.
Example C17_mark_after_replace_example :
  let s := Properties.C01.ex_schema in let doc := Properties.C01.ex_doc in
  let sl := SL [Text [120%N] []] 0 0 in let em := {| m_ty := 0; m_attrs := [] |} in
  ctx_after (firstn 2 (DT s doc) ++ IT s sl) ([], node_ty s doc) = ctx_after (firstn 2 (DT s doc)) ([], node_ty s doc) /\
  step_map (SAddMark 6 8 em) (get_map s (SReplace 2 2 sl false)) = Some (SAddMark 7 9 em) /\
  exists da db dab dba,
    apply s (SReplace 2 2 sl false) doc = ROk da /\ apply s (SAddMark 6 8 em) doc = ROk db /\
    apply s (SAddMark 7 9 em) da = ROk dab /\ apply s (SReplace 2 2 sl false) db = ROk dba /\ DT s dab = DT s dba.
Proof.
  cbv zeta. split; [vm_compute; reflexivity|]. split; [vm_compute; reflexivity|].
  do 4 eexists. split; [vm_compute; reflexivity|]. split; [vm_compute; reflexivity|].
  split; [vm_compute; reflexivity|]. split; [vm_compute; reflexivity|]. vm_compute. reflexivity.
Qed.

(* a lift seen by the replace-around theorems: typing "x" into the first paragraph of the example document and, against the
   same base, lifting the two paragraphs out of the blockquote (ReplaceAround 4 14 5 13 with the empty slice): the lift is
   shifted by one, the typing stays, both orders apply and give the same tokens *)
Example C17_replace_before_around_example :
  let s := Properties.C01.ex_schema in let doc := Properties.C01.ex_doc in
  let ty := SReplace 2 2 (SL [Text [120%N] []] 0 0) false in
  let lift := SReplaceAround 4 14 5 13 (SL [] 0 0) 0 true in
  let lift' := SReplaceAround 5 15 6 14 (SL [] 0 0) 0 true in
  step_map lift (get_map s ty) = Some lift' /\ step_map ty (get_map s lift) = Some ty /\
  exists da db dab dba,
    apply s ty doc = ROk da /\ apply s lift doc = ROk db /\ check s db = true /\
    apply s lift' da = ROk dab /\ apply s ty db = ROk dba /\ DT s dab = DT s dba /\
    dab = Elem 0%nat [] [] [Properties.C01.ex_p [97%N; 120%N; 98%N]; Properties.C01.ex_p [99%N; 100%N]; Properties.C01.ex_p [101%N; 102%N]].
Proof.
  cbv zeta. split; [vm_compute; reflexivity|]. split; [vm_compute; reflexivity|].
  do 4 eexists. split; [vm_compute; reflexivity|]. split; [vm_compute; reflexivity|]. split; [vm_compute; reflexivity|].
  split; [vm_compute; reflexivity|]. split; [vm_compute; reflexivity|]. split; vm_compute; reflexivity.
Qed.
