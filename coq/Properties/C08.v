(* C08 — position maps and mappings obey the documented mapping algebra.
   Statements only; every theorem is closed by [exact] of a lemma proved in
   Proofs/StepMapProofs.v and followed by Print Assumptions. *)
From Coq Require Import ZArith List Bool.
From PM Require Import Model.StepMap Proofs.StepMapProofs.
Import ListNotations.
Open Scope Z_scope.

(* monotonic, every well-formed map, both orientations, both sides *)
Theorem C08_map_monotone : forall m p q a,
  wf_map m -> 0 <= p -> p <= q -> map m p a <= map m q a.
Proof. exact map_mono. Qed.
Print Assumptions C08_map_monotone.

(* the documented rule *)
Theorem C08_rule_outside : forall pre post p a,
  all_before pre p ->
  (match post with [] => True | (s, _, _) :: _ => p < s end) ->
  map {| ranges := pre ++ post; inverted := false |} p a = p + total_diff pre.
Proof. exact rule_outside. Qed.
Print Assumptions C08_rule_outside.

Theorem C08_rule_inside : forall pre s x y post p a,
  all_before pre p -> s < p < s + x ->
  map {| ranges := pre ++ (s, x, y) :: post; inverted := false |} p a =
  s + total_diff pre + (if a <? 0 then 0 else y).
Proof. exact rule_inside. Qed.
Print Assumptions C08_rule_inside.

Theorem C08_rule_at_start : forall pre s x y post a,
  all_before pre s -> 0 < x ->
  map {| ranges := pre ++ (s, x, y) :: post; inverted := false |} s a = s + total_diff pre.
Proof. exact rule_at_start. Qed.
Print Assumptions C08_rule_at_start.

Theorem C08_rule_at_end : forall pre s x y post a,
  all_before pre (s + x) -> 0 < x ->
  map {| ranges := pre ++ (s, x, y) :: post; inverted := false |} (s + x) a = s + total_diff pre + y.
Proof. exact rule_at_end. Qed.
Print Assumptions C08_rule_at_end.

Theorem C08_rule_insertion : forall pre s y post a,
  all_before pre s ->
  map {| ranges := pre ++ (s, 0, y) :: post; inverted := false |} s a =
  s + total_diff pre + (if a <? 0 then 0 else y).
Proof. exact rule_insertion. Qed.
Print Assumptions C08_rule_insertion.

(* an inverted map is the plain map of the swapped, re-based ranges, so the
   rule theorems above apply to it through [norm] *)
Theorem C08_inverted_is_normalised : forall rs p a,
  map_result {| ranges := rs; inverted := true |} p a =
  map_result {| ranges := norm 0 rs; inverted := false |} p a.
Proof. intros; unfold map_result; simpl; apply map_go_inv. Qed.
Print Assumptions C08_inverted_is_normalised.

(* deletion flags *)
Theorem C08_flags_inside : forall pre s x y post p a,
  all_before pre p -> s < p < s + x ->
  let r := map_result {| ranges := pre ++ (s, x, y) :: post; inverted := false |} p a in
  deleted r = true /\ deleted_across r = true /\ deleted_before r = true /\ deleted_after r = true
  /\ mr_recover r = Some (make_recover (Z.of_nat (length pre)) (p - s)).
Proof. exact flags_inside. Qed.
Print Assumptions C08_flags_inside.

Theorem C08_flags_outside : forall pre post p a,
  all_before pre p ->
  (match post with [] => True | (s, _, _) :: _ => p < s end) ->
  let r := map_result {| ranges := pre ++ post; inverted := false |} p a in
  mr_del r = 0 /\ mr_recover r = None.
Proof. exact flags_outside. Qed.
Print Assumptions C08_flags_outside.

Theorem C08_flags_at_start : forall pre s x y post a,
  all_before pre s -> 0 < x ->
  let r := map_result {| ranges := pre ++ (s, x, y) :: post; inverted := false |} s a in
  deleted_after r = true /\ deleted_before r = false /\ deleted_across r = false /\
  deleted r = negb (a <? 0).
Proof. exact flags_at_start. Qed.
Print Assumptions C08_flags_at_start.

Theorem C08_flags_at_end : forall pre s x y post a,
  all_before pre (s + x) -> 0 < x ->
  let r := map_result {| ranges := pre ++ (s, x, y) :: post; inverted := false |} (s + x) a in
  deleted_before r = true /\ deleted_after r = false /\ deleted_across r = false /\
  deleted r = (a <? 0).
Proof. exact flags_at_end. Qed.
Print Assumptions C08_flags_at_end.

(* recover values: recovering through the inverse map returns the original
   position, for every map (well-formed or not) with fewer than 2^16 ranges
   (the encoding's own limit) *)
Theorem C08_recover_roundtrip : forall m p a v,
  Z.of_nat (length (ranges m)) <= 65536 ->
  mr_recover (map_result m p a) = Some v ->
  recover (invert m) v = Some p.
Proof. exact recover_roundtrip. Qed.
Print Assumptions C08_recover_roundtrip.
