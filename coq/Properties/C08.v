(* C08 — position maps and mappings obey the documented mapping algebra.
   Statements only; every theorem is closed by [exact] of a lemma proved in
   Proofs/StepMapProofs.v and followed by Print Assumptions. *)
From Coq Require Import ZArith List Bool.
From PM Require Import Model.StepMap Proofs.StepMapProofs.
Import ListNotations.
Open Scope Z_scope.

(* monotonic, every well-formed map, both orientations, both sides *)
Theorem C08_map_monotone : forall m p q a,
  wf_map m -> 0 <= p -> p <= q -> map m p a <= map m q a.
Proof. exact map_mono. Qed.
Print Assumptions C08_map_monotone.

(* the documented rule *)
Theorem C08_rule_outside : forall pre post p a,
  all_before pre p ->
  (match post with [] => True | (s, _, _) :: _ => p < s end) ->
  map {| ranges := pre ++ post; inverted := false |} p a = p + total_diff pre.
Proof. exact rule_outside. Qed.
Print Assumptions C08_rule_outside.

Theorem C08_rule_inside : forall pre s x y post p a,
  all_before pre p -> s < p < s + x ->
  map {| ranges := pre ++ (s, x, y) :: post; inverted := false |} p a =
  s + total_diff pre + (if a <? 0 then 0 else y).
Proof. exact rule_inside. Qed.
Print Assumptions C08_rule_inside.

Theorem C08_rule_at_start : forall pre s x y post a,
  all_before pre s -> 0 < x ->
  map {| ranges := pre ++ (s, x, y) :: post; inverted := false |} s a = s + total_diff pre.
Proof. exact rule_at_start. Qed.
Print Assumptions C08_rule_at_start.

Theorem C08_rule_at_end : forall pre s x y post a,
  all_before pre (s + x) -> 0 < x ->
  map {| ranges := pre ++ (s, x, y) :: post; inverted := false |} (s + x) a = s + total_diff pre + y.
Proof. exact rule_at_end. Qed.
Print Assumptions C08_rule_at_end.

Theorem C08_rule_insertion : forall pre s y post a,
  all_before pre s ->
  map {| ranges := pre ++ (s, 0, y) :: post; inverted := false |} s a =
  s + total_diff pre + (if a <? 0 then 0 else y).
Proof. exact rule_insertion. Qed.
Print Assumptions C08_rule_insertion.

(* an inverted map is the plain map of the swapped, re-based ranges, so the
   rule theorems above apply to it through [norm] *)
Theorem C08_inverted_is_normalised : forall rs p a,
  map_result {| ranges := rs; inverted := true |} p a =
  map_result {| ranges := norm 0 rs; inverted := false |} p a.
Proof. intros; unfold map_result; simpl; apply map_go_inv. Qed.
Print Assumptions C08_inverted_is_normalised.

(* deletion flags *)
Theorem C08_flags_inside : forall pre s x y post p a,
  all_before pre p -> s < p < s + x ->
  let r := map_result {| ranges := pre ++ (s, x, y) :: post; inverted := false |} p a in
  deleted r = true /\ deleted_across r = true /\ deleted_before r = true /\ deleted_after r = true
  /\ mr_recover r = Some (make_recover (Z.of_nat (length pre)) (p - s)).
Proof. exact flags_inside. Qed.
Print Assumptions C08_flags_inside.

Theorem C08_flags_outside : forall pre post p a,
  all_before pre p ->
  (match post with [] => True | (s, _, _) :: _ => p < s end) ->
  let r := map_result {| ranges := pre ++ post; inverted := false |} p a in
  mr_del r = 0 /\ mr_recover r = None.
Proof. exact flags_outside. Qed.
Print Assumptions C08_flags_outside.

Theorem C08_flags_at_start : forall pre s x y post a,
  all_before pre s -> 0 < x ->
  let r := map_result {| ranges := pre ++ (s, x, y) :: post; inverted := false |} s a in
  deleted_after r = true /\ deleted_before r = false /\ deleted_across r = false /\
  deleted r = negb (a <? 0).
Proof. exact flags_at_start. Qed.
Print Assumptions C08_flags_at_start.

Theorem C08_flags_at_end : forall pre s x y post a,
  all_before pre (s + x) -> 0 < x ->
  let r := map_result {| ranges := pre ++ (s, x, y) :: post; inverted := false |} (s + x) a in
  deleted_before r = true /\ deleted_after r = false /\ deleted_across r = false /\
  deleted r = (a <? 0).
Proof. exact flags_at_end. Qed.
Print Assumptions C08_flags_at_end.

(* recover values: recovering through the inverse map returns the original
   position, for every map (well-formed or not) with fewer than 2^16 ranges
   (the encoding's own limit) *)
Theorem C08_recover_roundtrip : forall m p a v,
  Z.of_nat (length (ranges m)) <= 65536 ->
  mr_recover (map_result m p a) = Some v ->
  recover (invert m) v = Some p.
Proof. exact recover_roundtrip. Qed.
Print Assumptions C08_recover_roundtrip.

(* ---- range enumeration, touches, mappings, mirrors (Proofs/StepMapProofs2.v) ---- *)
From PM Require Import Proofs.StepMapProofs2.

Theorem C08_for_each_spec : forall pre s x y post,
  nth_error (for_each {| ranges := pre ++ (s, x, y) :: post; inverted := false |}) (length pre) =
  Some (s, s + x, s + total_diff pre, s + total_diff pre + y).
Proof. exact for_each_spec. Qed.
Print Assumptions C08_for_each_spec.

(* the enumeration is consistent with how the map maps *)
Theorem C08_for_each_consistent : forall pre s x y post,
  all_before pre s -> 0 <= x ->
  map {| ranges := pre ++ (s, x, y) :: post; inverted := false |} s (-1) = s + total_diff pre /\
  map {| ranges := pre ++ (s, x, y) :: post; inverted := false |} (s + x) 1 = s + total_diff pre + y.
Proof. exact for_each_consistent. Qed.
Print Assumptions C08_for_each_consistent.

Theorem C08_for_each_invert : forall rs,
  for_each (invert {| ranges := rs; inverted := false |}) =
  List.map (fun q => match q with (a, b, c, e) => (c, e, a, b) end) (for_each {| ranges := rs; inverted := false |}).
Proof. exact for_each_invert. Qed.
Print Assumptions C08_for_each_invert.

Theorem C08_invert_involutive : forall m, invert (invert m) = m.
Proof. exact invert_involutive. Qed.
Print Assumptions C08_invert_involutive.

Theorem C08_touches_spec : forall pre s x y post p v,
  all_before pre p -> recover_index v = Z.of_nat (length pre) -> 0 <= x ->
  touches {| ranges := pre ++ (s, x, y) :: post; inverted := false |} p v = ((s <=? p) && (p <=? s + x)).
Proof. exact touches_spec. Qed.
Print Assumptions C08_touches_spec.

(* a mapping without mirror registrations is the left-to-right composition of the maps in its window *)
Theorem C08_mapping_is_composition : forall mp w pos assoc,
  mirror mp = [] -> window (maps mp) (mfrom mp) (mto mp) = Some w -> 0 <= mfrom mp <= mto mp ->
  mto mp <= Z.of_nat (length (maps mp)) ->
  mapping_map mp pos assoc = Some (fold_maps w pos assoc) /\
  exists d, mapping_map_result mp pos assoc = Some {| mr_pos := fold_maps w pos assoc; mr_del := d; mr_recover := None |}.
Proof. exact mapping_map_compose. Qed.
Print Assumptions C08_mapping_is_composition.

Theorem C08_append_mapping_maps : forall self other, maps (append_mapping self other) = maps self ++ maps other.
Proof. exact append_mapping_spec. Qed.
Print Assumptions C08_append_mapping_maps.

Theorem C08_append_mapping_inverted_maps : forall self other,
  maps (append_mapping_inverted self other) = maps self ++ List.map invert (rev (maps other)).
Proof. exact append_mapping_inverted_spec. Qed.
Print Assumptions C08_append_mapping_inverted_maps.

Theorem C08_invert_mapping_maps : forall mp, maps (minvert mp) = List.map invert (rev (maps mp)).
Proof. exact minvert_spec. Qed.
Print Assumptions C08_invert_mapping_maps.

(* a map and its inverse registered as mirrors: forward and back returns EVERY position, including positions
   inside deleted content — for maps whose ranges are at least one token apart (touching ranges: see the
   known finding C08-mirror-adjacent-ranges, refuted by a concrete witness) *)
Theorem C08_mirror_roundtrip : forall rs p a,
  sep_ranges (-1) rs -> 0 <= p -> Z.of_nat (length rs) <= 65536 ->
  let m := {| ranges := rs; inverted := false |} in
  mapping_map {| maps := [m; invert m]; mirror := [(0, 1)]; mfrom := 0; mto := 2 |} p a = Some p.
Proof. exact mirror_roundtrip_single. Qed.
Print Assumptions C08_mirror_roundtrip.

(* the full statement is false for touching ranges: *)
Example C08_mirror_adjacent_refuted :
  let m := {| ranges := [(0, 1, 1); (1, 1, 0)]; inverted := false |} in
  mapping_map {| maps := [m; invert m]; mirror := [(0, 1)]; mfrom := 0; mto := 2 |} 2 1 = Some 1.
Proof. vm_compute. reflexivity. Qed.

(* ---- nested mirror pairs: the shape rebasing (collab) and undo histories build ----
   [Nest mp i j ms]: indices i .. j-1 of the mapping hold m1 ... mn followed by invert mn ... invert m1, and each
   map is registered as the mirror of its inverse (Mapping.append_map(map, mirrors) /
   Mapping.append_mapping_inverted). For ANY number of such pairs, maps with ranges at least one token apart, every
   position and side: mapping forward through all the maps and back through all the inverses returns the position
   - positions inside content some map deletes jump over the whole inner nest through the recover value. *)
From Coq Require Import Lia.
From PM Require Import Proofs.MirrorNest.
Theorem C08_nested_mirror_roundtrip : forall ms mp p a,
  Nest mp 0 (mto mp) ms -> mfrom mp = 0 -> mirror mp <> [] -> 0 <= p ->
  mto mp = 2 * Z.of_nat (length ms) ->
  mapping_map mp p a = Some p.
Proof. exact nested_mirror_roundtrip. Qed.
Print Assumptions C08_nested_mirror_roundtrip.

(* the hypotheses are met by what Mapping.append_map builds: two maps, then their inverses with mirrors *)
Example C08_nested_mirror_example :
  let m1 := {| ranges := [(2, 3, 0); (8, 0, 2)]; inverted := false |} in
  let m2 := {| ranges := [(1, 2, 1)]; inverted := false |} in
  let mp := append_map (append_map (append_map (append_map (mk_mapping []) m1 None) m2 None)
                          (invert m2) (Some 1)) (invert m1) (Some 0) in
  Nest mp 0 (mto mp) [m1; m2] /\ mfrom mp = 0 /\ mirror mp <> [] /\ mto mp = 4 /\
  mapping_map mp 4 1 = Some 4.
Proof.
  cbv zeta. split; [|split; [reflexivity|split; [discriminate|split; vm_compute; reflexivity]]].
  cbn [Nest]. repeat split; try (vm_compute; reflexivity); try (vm_compute; intros H; discriminate H); try (vm_compute; lia).
Qed.

(* ---- mirror registrations carried over by append_mapping / append_mapping_inverted / invert (Proofs/MirrorAppend.v) ----
   [MirrorWF other]: other's mirror table pairs indices of its own maps (symmetric, no map its own mirror).
   [MirrorBelow self]: the pairs self holds refer to maps of self. *)
From PM Require Import Proofs.MirrorAppend.

(* after self.append_mapping(other): map number i of other sits at index |self| + i and its mirror is other's mirror of
   i, shifted by |self|; the registrations of self's own maps are untouched *)
Theorem C08_append_mapping_mirrors : forall self other i,
  MirrorWF other -> MirrorBelow self -> 0 <= i < Z.of_nat (length (maps other)) ->
  get_mirror (append_mapping self other) (Z.of_nat (length (maps self)) + i) =
  option_map (Z.add (Z.of_nat (length (maps self)))) (get_mirror other i).
Proof. exact append_mapping_get_mirror_new. Qed.
Print Assumptions C08_append_mapping_mirrors.

Theorem C08_append_mapping_keeps_own_mirrors : forall self other j,
  MirrorWF other -> 0 <= j < Z.of_nat (length (maps self)) ->
  get_mirror (append_mapping self other) j = get_mirror self j.
Proof. exact append_mapping_get_mirror_old. Qed.
Print Assumptions C08_append_mapping_keeps_own_mirrors.

(* after self.append_mapping_inverted(other): map number i of other sits, inverted, at index |self| + (len - 1 - i),
   and its mirror is the new index of other's mirror of i *)
Theorem C08_append_mapping_inverted_mirrors : forall self other i ss len,
  MirrorWF other -> MirrorBelow self ->
  ss = Z.of_nat (length (maps self)) -> len = Z.of_nat (length (maps other)) -> 0 <= i < len ->
  get_mirror (append_mapping_inverted self other) (ss + (len - 1 - i)) =
  option_map (fun k => ss + (len - 1 - k)) (get_mirror other i).
Proof. exact append_mapping_inverted_get_mirror_new. Qed.
Print Assumptions C08_append_mapping_inverted_mirrors.

(* Mapping.invert: the inverted mapping mirrors exactly the (index-flipped) pairs of the original *)
Corollary C08_invert_mirrors : forall mp i len,
  MirrorWF mp -> len = Z.of_nat (length (maps mp)) -> 0 <= i < len ->
  get_mirror (minvert mp) (len - 1 - i) = option_map (fun k => len - 1 - k) (get_mirror mp i).
Proof.
  intros mp i len WF El Hi. unfold minvert.
  pose proof (append_mapping_inverted_get_mirror_new (mk_mapping []) mp i 0 len WF) as H.
  cbn [Z.add] in H. apply H; auto. intros a b [].
Qed.
Print Assumptions C08_invert_mirrors.

(* the hypotheses are met by a map followed by its inverse, registered as mirrors *)
Example C08_mirror_wf_example : forall m,
  MirrorWF {| maps := [m; invert m]; mirror := [(0, 1)]; mfrom := 0; mto := 2 |}.
Proof.
  intros m a b H. unfold get_mirror in *. cbn [mirror get_mirror_go maps length] in *.
  destruct (0 =? a) eqn:E0.
  - inversion H; subst b. assert (a = 0) by lia. subst a. cbn. split; [reflexivity|]. lia.
  - destruct (1 =? a) eqn:E1; [|discriminate]. inversion H; subst b. assert (a = 1) by lia. subst a. cbn. split; [reflexivity|]. lia.
Qed.

(* ---- bounds (Proofs/StepMapBounds.v) ---- *)
From PM Require Import Proofs.StepMapBounds.

(* mapping is monotone in the association side too: the left-associated image never lies after the right-associated one *)
Theorem C08_map_assoc_monotone : forall m p a b, wf_map m -> a <= b -> map m p a <= map m p b.
Proof. exact map_assoc_mono. Qed.
Print Assumptions C08_map_assoc_monotone.

(* a well-formed map never sends a document position below 0 *)
Theorem C08_map_nonnegative : forall m p a, wf_map m -> 0 <= p -> 0 <= map m p a.
Proof. exact map_nonneg. Qed.
Print Assumptions C08_map_nonnegative.

(* the two sides differ by at most the inserted size of one range *)
Theorem C08_map_assoc_gap : forall rs p a b,
  wf_ranges 0 rs ->
  map {| ranges := rs; inverted := false |} p b - map {| ranges := rs; inverted := false |} p a <= max_new rs.
Proof. exact map_assoc_gap. Qed.
Print Assumptions C08_map_assoc_gap.

(* away from every range the side plays no part *)
Theorem C08_map_outside_side_independent : forall pre post p a b,
  all_before pre p ->
  (match post with [] => True | (s, _, _) :: _ => p < s end) ->
  map {| ranges := pre ++ post; inverted := false |} p a = map {| ranges := pre ++ post; inverted := false |} p b.
Proof. exact map_outside_side_independent. Qed.
Print Assumptions C08_map_outside_side_independent.

(* not vacuous: a two-range map is well formed, and the gap bound is attained at an insertion point *)
Example C08_bounds_example :
  wf_map {| ranges := [(2, 0, 3); (5, 2, 1)]; inverted := false |} /\
  map {| ranges := [(2, 0, 3); (5, 2, 1)]; inverted := false |} 2 1 -
  map {| ranges := [(2, 0, 3); (5, 2, 1)]; inverted := false |} 2 (-1) = max_new [(2, 0, 3); (5, 2, 1)].
Proof. split; [unfold wf_map; simpl; lia | vm_compute; reflexivity]. Qed.

(* a Mapping without mirrors is the composition of its maps (C08_mapping_is_composition), so for well-formed maps it is
   monotone in the position and in the side, and never leaves the document's non-negative positions *)
Theorem C08_mapping_monotone : forall ms p q a,
  Forall wf_map ms -> 0 <= p -> p <= q -> fold_maps ms p a <= fold_maps ms q a.
Proof. exact fold_maps_mono. Qed.
Print Assumptions C08_mapping_monotone.

Theorem C08_mapping_assoc_monotone : forall ms p a b,
  Forall wf_map ms -> 0 <= p -> a <= b -> fold_maps ms p a <= fold_maps ms p b.
Proof. exact fold_maps_assoc_mono. Qed.
Print Assumptions C08_mapping_assoc_monotone.

Theorem C08_mapping_nonnegative : forall ms p a, Forall wf_map ms -> 0 <= p -> 0 <= fold_maps ms p a.
Proof. exact fold_maps_nonneg. Qed.
Print Assumptions C08_mapping_nonnegative.

(* a position no range touches comes back unchanged through the map and then its inverse, whichever sides are used *)
Theorem C08_invert_roundtrip_outside : forall pre post p a b,
  wf_ranges 0 pre -> all_before pre p ->
  (match post with [] => True | (s, _, _) :: _ => p < s end) ->
  let m := {| ranges := pre ++ post; inverted := false |} in
  map (invert m) (map m p a) b = p.
Proof. exact map_invert_roundtrip_outside. Qed.
Print Assumptions C08_invert_roundtrip_outside.

Example C08_invert_roundtrip_outside_example :
  wf_ranges 0 [(2, 0, 3); (5, 2, 1)] /\ all_before [(2, 0, 3); (5, 2, 1)] 9 /\
  map (invert {| ranges := [(2, 0, 3); (5, 2, 1)] ++ [(12, 1, 4)]; inverted := false |})
      (map {| ranges := [(2, 0, 3); (5, 2, 1)] ++ [(12, 1, 4)]; inverted := false |} 9 1) (-1) = 9.
Proof. split; [simpl; lia|]. split; [simpl; lia|]. vm_compute; reflexivity. Qed.

(* a map moves a position down by at most the total size it deletes and up by at most the total size it inserts *)
Theorem C08_map_shift_bound : forall rs p a,
  wf_ranges 0 rs ->
  p - sum_old rs <= map {| ranges := rs; inverted := false |} p a <= p + sum_new rs.
Proof. exact map_shift_bound. Qed.
Print Assumptions C08_map_shift_bound.

(* two positions in the same untouched gap keep their distance (and so their order, strictly), whichever sides are used *)
Theorem C08_gap_rigid : forall pre post p q a b,
  all_before pre p -> p <= q ->
  (match post with [] => True | (s, _, _) :: _ => q < s end) ->
  let m := {| ranges := pre ++ post; inverted := false |} in
  map m q a - map m p b = q - p.
Proof. exact map_gap_rigid. Qed.
Print Assumptions C08_gap_rigid.

(* the inverse of a map sends the NEW boundaries of each of its ranges back to the OLD boundaries *)
Theorem C08_invert_maps_boundaries_back : forall pre s x y post,
  wf_ranges 0 pre -> all_before pre s -> 0 <= x -> 0 <= y ->
  let m := {| ranges := pre ++ (s, x, y) :: post; inverted := false |} in
  map (invert m) (s + total_diff pre) (-1) = s /\
  map (invert m) (s + total_diff pre + y) 1 = s + x.
Proof. exact invert_maps_boundaries_back. Qed.
Print Assumptions C08_invert_maps_boundaries_back.
