(* C04 — every recorded change can be replayed exactly; the recorded arrays stay aligned (also after a rejected operation);
   every step type is undone exactly by its inverse under stated conditions - replace and replace-around steps always (and
   the inverse's map is the inverted map), attribute / document-attribute steps for nodes in normal form, node-mark steps
   and add / remove-mark steps when nothing is displaced or reordered (the cases the recorded findings leave) - and so is any
   history of such steps, undone in reverse order from any valid document with the final tokens.
   (That the inverse applies, and undo through the API on random histories, are evaluated per case by Corr.C04.holds on
   the implementation's observations.) *)
From Coq Require Import List ZArith Bool Lia.
From PM Require Import Model.Data Model.Tree Model.StepMap Model.Step Model.Transform Spec.Tokens Proofs.TransformProofs
  Proofs.ReplaceValid Proofs.SliceSides Proofs.SliceShape Proofs.TokenLaws Proofs.StepTokens
  Proofs.TokenInj Proofs.ReplaceCanon Proofs.DocEquality Proofs.TokenBasics Proofs.AroundUndo Proofs.AttrUndo Proofs.NodeMarkUndo Proofs.CanonicalMarks Proofs.MarkSteps Proofs.MarkPointwise Proofs.MarkMerge Proofs.MarkUndo Proofs.HistoryUndo Proofs.HistoryUndoMarks Model.Resolve Model.Mark Proofs.MarkProofs.
Import ListNotations.
Local Open Scope nat_scope.

(* any sequence of attempted steps (every high-level operation is such a sequence, possibly cut short by
   a refusal or an exception) leaves docs[i] --steps[i]--> docs[i+1] and maps[i] = steps[i].get_map() *)
Theorem C04_history_invariant : forall s d sts,
  Inv s (fold_left (fun t st => fst (maybe_step s t st)) sts (tr_init d)).
Proof. exact history_Inv. Qed.
Print Assumptions C04_history_invariant.

Theorem C04_history_replays : forall s d sts,
  let t := fold_left (fun t st => fst (maybe_step s t st)) sts (tr_init d) in
  replay s (tr_before t) (t_steps t) = ROk (t_doc t) /\
  length (t_docs t) = length (t_steps t) /\ length (t_maps t) = length (t_steps t) /\
  t_maps t = List.map (get_map s) (t_steps t).
Proof. exact history_replay. Qed.
Print Assumptions C04_history_replays.

Theorem C04_rejected_step_changes_nothing : forall s t st,
  (forall d, apply s st (t_doc t) <> ROk d) -> fst (maybe_step s t st) = t.
Proof.
  intros s t st H. unfold maybe_step. destruct (apply s st (t_doc t)) eqn:E; auto.
  exfalso. eapply H; eauto.
Qed.
Print Assumptions C04_rejected_step_changes_nothing.

(* exact undo of a replace step: for every schema, valid document, range and slice (valid nodes off its open
   sides), if the step applies and its inverse (built by ReplaceStep.invert from the ORIGINAL document)
   applies to the result, the document that comes back has exactly the original token sequence *)
Theorem C04_replace_step_undo : forall s from to sl structure doc d' inv d'',
  check s doc = true ->
  OpenOK s (sl_content sl) (sl_open_start sl) (sl_open_end sl) -> from <= to ->
  apply s (SReplace from to sl structure) doc = ROk d' ->
  invert_step s (SReplace from to sl structure) doc = Ok inv ->
  apply s inv d' = ROk d'' ->
  DT s d'' = DT s doc.
Proof. exact replace_step_undo. Qed.
Print Assumptions C04_replace_step_undo.

(* the inverse step's position map maps every position exactly as the inverted original map does *)
Theorem C04_replace_inverse_map : forall s from to sl structure doc inv,
  Shape s (sl_content sl) (sl_open_start sl) (sl_open_end sl) -> from <= to ->
  invert_step s (SReplace from to sl structure) doc = Ok inv ->
  forall p a, map_result (get_map s inv) p a =
              map_result (StepMap.invert (get_map s (SReplace from to sl structure))) p a.
Proof. exact replace_step_inverse_map. Qed.
Print Assumptions C04_replace_inverse_map.

(* ... and as documents: for a document and a slice in normal form ([NormalDoc], [canon_list]: no empty text,
   no adjacent text nodes with == marks — what the library's constructors and Node.replace produce), the
   document that comes back is EQUAL (Node.eq) to the starting one *)
Theorem C04_replace_step_undo_gives_equal_document : forall s from to sl structure doc d' inv d'',
  check s doc = true -> NormalDoc s doc ->
  OpenOK s (sl_content sl) (sl_open_start sl) (sl_open_end sl) -> canon_list s (sl_content sl) = true -> from <= to ->
  apply s (SReplace from to sl structure) doc = ROk d' ->
  invert_step s (SReplace from to sl structure) doc = Ok inv ->
  apply s inv d' = ROk d'' ->
  node_eqb d'' doc = true.
Proof. exact replace_step_undo_eq. Qed.
Print Assumptions C04_replace_step_undo_gives_equal_document.

(* ------------------------------------------------------------------ replace-around steps (lift, wrap, set_node_markup)
   for ANY valid document, range from <= gap_from <= gap_to <= to, slice (closed or open) and insert position
   within it: if the step applies and gives a valid document, and its inverse (ReplaceAroundStep.invert, which cuts
   the old range out of the ORIGINAL document and takes the gap out of it with Slice.remove_between) applies to
   the result, then the document that comes back has exactly the original token sequence *)
Theorem C04_around_step_undo : forall s from to gf gt sl ins structure doc d' inv d'',
  check s doc = true -> check s d' = true ->
  Shape s (sl_content sl) (sl_open_start sl) (sl_open_end sl) ->
  from <= gf -> gf <= gt -> gt <= to -> ins <= length (IT s sl) ->
  apply s (SReplaceAround from to gf gt sl ins structure) doc = ROk d' ->
  invert_step s (SReplaceAround from to gf gt sl ins structure) doc = Ok inv ->
  apply s inv d' = ROk d'' ->
  DT s d'' = DT s doc.
Proof. exact around_step_undo. Qed.
Print Assumptions C04_around_step_undo.

(* ... and its position map maps every position exactly as the inverted original map does *)
Theorem C04_around_inverse_map : forall s from to gf gt sl ins structure doc inv,
  Shape s (sl_content sl) (sl_open_start sl) (sl_open_end sl) ->
  from <= gf -> gf <= gt -> gt <= to -> ins <= length (IT s sl) ->
  invert_step s (SReplaceAround from to gf gt sl ins structure) doc = Ok inv ->
  forall p a, map_result (get_map s inv) p a =
              map_result (StepMap.invert (get_map s (SReplaceAround from to gf gt sl ins structure))) p a.
Proof. exact around_step_inverse_map. Qed.
Print Assumptions C04_around_inverse_map.

(* ------------------------------------------------------------------ attribute steps
   [NodeNormal n]: n's attributes are what its type's compute_attrs gives back for them (declared names, in
   order, defaults filled in - true of every node the library's constructors and from_json build) and its marks
   are rank-sorted. An AttrStep that applies, followed by the inverse AttrStep.invert builds from the ORIGINAL
   document (same position and attribute, the old value), gives back exactly the original token sequence *)
Theorem C04_attr_step_undo : forall s pos attr value doc d' inv d'',
  check s doc = true -> check s d' = true ->
  (forall n, node_at s (S (node_size s doc)) doc pos = Ok (Some n) -> NodeNormal s n) ->
  apply s (SAttr pos attr value) doc = ROk d' ->
  invert_step s (SAttr pos attr value) doc = Ok inv ->
  apply s inv d' = ROk d'' ->
  DT s d'' = DT s doc.
Proof. exact attr_step_undo. Qed.
Print Assumptions C04_attr_step_undo.

(* a DocAttrStep and its inverse give back the very same document *)
Theorem C04_doc_attr_step_undo : forall s attr value doc d' inv d'',
  NodeNormal s doc ->
  apply s (SDocAttr attr value) doc = ROk d' ->
  invert_step s (SDocAttr attr value) doc = Ok inv ->
  apply s inv d' = ROk d'' ->
  d'' = doc.
Proof. exact doc_attr_step_undo. Qed.
Print Assumptions C04_doc_attr_step_undo.

(* node-mark steps. An AddNodeMarkStep that is a plain insertion (the node's mark set grows by one: the mark is not
   there yet and displaces nothing) has RemoveNodeMarkStep of the same mark as its inverse, and the inverse gives back
   exactly the original token sequence. (When the new mark displaces marks the undo is not exact: recorded upstream
   findings C04-node-mark-one-sided-exclusion and C04-node-mark-displaces-several.) *)
Theorem C04_add_node_mark_undo : forall s pos mk doc d' inv d'',
  check s doc = true -> check s d' = true ->
  (forall n, node_at s (S (node_size s doc)) doc pos = Ok (Some n) ->
     NodeNormal s n /\ List.length (add_to_set s mk (node_marks n)) = S (List.length (node_marks n))) ->
  apply s (SAddNodeMark pos mk) doc = ROk d' ->
  invert_step s (SAddNodeMark pos mk) doc = Ok inv ->
  apply s inv d' = ROk d'' ->
  inv = SRemoveNodeMark pos mk /\ DT s d'' = DT s doc.
Proof. intros s pos mk doc d' inv d'' Hd Hd' Hn Ha Hi Hb. exact (add_node_mark_undo_on s pos mk doc d' inv d' d'' Hd Hn Ha Hi Hd' eq_refl Hb). Qed.
Print Assumptions C04_add_node_mark_undo.

(* A RemoveNodeMarkStep whose mark is not on the node changes nothing and is its own inverse; one that removes the
   mark is undone by re-adding it, exactly, provided re-adding puts it back in its old place *)
Theorem C04_remove_node_mark_undo : forall s pos mk doc d' inv d'',
  check s doc = true -> check s d' = true ->
  (forall n, node_at s (S (node_size s doc)) doc pos = Ok (Some n) ->
     NodeNormal s n /\ msnorm (add_to_set s mk (remove_from_set mk (node_marks n))) = msnorm (node_marks n)) ->
  apply s (SRemoveNodeMark pos mk) doc = ROk d' ->
  invert_step s (SRemoveNodeMark pos mk) doc = Ok inv ->
  apply s inv d' = ROk d'' ->
  DT s d'' = DT s doc.
Proof. intros s pos mk doc d' inv d'' Hd Hd' Hn Ha Hi Hb. exact (remove_node_mark_undo_on s pos mk doc d' inv d' d'' Hd Hn Ha Hi Hd' eq_refl Hb). Qed.
Print Assumptions C04_remove_node_mark_undo.

(* ... and re-adding does put it back in place whenever the node's mark set is canonical (rank-sorted, pairwise
   compatible - what Node.check demands) and holds no OTHER mark of the removed mark's type. (With a second mark of
   the same type behind it the order changes: recorded finding C04-node-mark-same-type-order.) *)
Theorem C04_readd_in_place : forall s mk set,
  sorted_rank set -> PairOK s set -> is_in_set mk set = true ->
  (forall o, In o set -> m_ty o = m_ty mk -> mark_eqb o mk = true) ->
  msnorm (add_to_set s mk (remove_from_set mk set)) = msnorm set.
Proof. exact readd_in_place. Qed.
Print Assumptions C04_readd_in_place.

(* add-mark / remove-mark steps (Proofs/MarkUndo.v).  Their inverse is the opposite step over the same range - exact whenever,
   token by token, the opposite update undoes the update:
   an AddMarkStep is undone exactly when on every token of its range the mark is absent, the marks are rank-sorted and none
   excludes the new mark or is excluded by it (nothing is displaced) - what Transform.add_mark establishes first, by
   removing the displaced marks with separate steps and adding only where the mark is absent;
   a RemoveMarkStep is undone exactly when every token carrying the mark is one the add step reaches (an atom whose
   enclosing node allows the mark) and re-adding puts the mark back in place (C04_readd_in_place). *)
Theorem C04_mark_step_undo_pointwise : forall s st f t doc d' d'',
  check s doc = true -> check s d' = true -> mark_step_range st = Some (f, t) ->
  apply s st doc = ROk d' -> apply s (opposite st) d' = ROk d'' ->
  invert_step s st doc = Ok (opposite st) /\
  ((forall i t0, f <= i -> i < t -> nth_error (DT s doc) i = Some t0 ->
      let p := snd (ctxT (node_ty s doc) (DT s doc) i) in
      ftok s (step_updN s (opposite st)) p (ftok s (step_updN s st) p t0) = t0) ->
   DT s d'' = DT s doc).
Proof.
  intros s st f t doc d' d'' Hd Hd' Hr Ha Hb. split; [exact (invert_mark_step s st f t doc Hr)|].
  exact (mark_step_undo_cond s st f t doc d' d'' Hd Hd' Hr Ha Hb).
Qed.
Print Assumptions C04_mark_step_undo_pointwise.

Theorem C04_add_mark_step_undo : forall s f t m doc d' d'',
  check s doc = true -> check s d' = true ->
  apply s (SAddMark f t m) doc = ROk d' -> apply s (SRemoveMark f t m) d' = ROk d'' ->
  (forall i t0, f <= i -> i < t -> nth_error (DT s doc) i = Some t0 ->
     sorted_rank (tmarks t0) /\ forall o, In o (tmarks t0) -> ok2 s (mnorm m) o) ->
  DT s d'' = DT s doc.
Proof. exact add_mark_step_undo. Qed.
Print Assumptions C04_add_mark_step_undo.

Theorem C04_remove_mark_step_undo : forall s f t m doc d' d'',
  check s doc = true -> check s d' = true ->
  apply s (SRemoveMark f t m) doc = ROk d' -> apply s (SAddMark f t m) d' = ROk d'' ->
  (forall i t0, f <= i -> i < t -> nth_error (DT s doc) i = Some t0 ->
     let p := snd (ctxT (node_ty s doc) (DT s doc) i) in
     if is_atom_ty s (tok_ty s t0) && allows_mark_type s p (m_ty m)
     then add_to_set s (mnorm m) (remove_from_set (mnorm m) (tmarks t0)) = tmarks t0
     else is_in_set (mnorm m) (tmarks t0) = false) ->
  DT s d'' = DT s doc.
Proof. exact remove_mark_step_undo. Qed.
Print Assumptions C04_remove_mark_step_undo.

(* ------------------------------------------------------------------ whole histories
   [inverses s d sts]: the inverse of every step, each built from the document the step was applied to, in undo
   order (last step first). [UndoableAll]: every step is a replace / replace-around / attribute / document-attribute /
   node-mark step meeting the hypotheses of its single-step theorem above. [Run s e invs r]: the inverses apply one after the
   other, each to a valid document, and give r.
   For ANY sequence of attempted steps (so: for every history the transform API can record, rejected operations
   included), undoing the recorded steps in reverse order - starting from the final document or from any valid
   document with its token sequence - restores exactly the token sequence of the starting document. *)
Theorem C04_history_undo : forall s d attempted invs e r,
  let t := fold_left (fun t st => fst (maybe_step s t st)) attempted (tr_init d) in
  inverses s (tr_before t) (t_steps t) = Ok invs ->
  UndoableAll s (tr_before t) (t_steps t) ->
  check s e = true -> DT s e = DT s (t_doc t) ->
  Run s e invs r ->
  DT s r = DT s (tr_before t).
Proof.
  intros s d attempted invs e r t Hinv Hall _ HeT Hrun.
  destruct (history_replay s d attempted) as (Hrep & _).
  exact (history_undo_tokens s _ _ _ _ Hrep Hinv Hall e r HeT Hrun).
Qed.
Print Assumptions C04_history_undo.

(* ... and with add-mark / remove-mark steps in the history as well: a mark step is undoable when, token by token over its
   range, the opposite update undoes the update (AddUndoCond / RemoveUndoCond, Proofs/MarkUndo.v: what Transform.add_mark
   and remove_mark arrange for the steps they plan); the other steps under the conditions of C04_history_undo.  Mark steps
   read the root's type, so the document the undo starts from must have the final document's root type - every step and
   every inverse keeps it, and the restored document has the starting document's. *)
Theorem C04_history_undo_with_mark_steps : forall s d attempted invs e r,
  let t := fold_left (fun t st => fst (maybe_step s t st)) attempted (tr_init d) in
  inverses s (tr_before t) (t_steps t) = Ok invs ->
  UndoableAllM s (tr_before t) (t_steps t) ->
  check s e = true -> DT s e = DT s (t_doc t) -> node_ty s e = node_ty s (t_doc t) ->
  Run s e invs r ->
  DT s r = DT s (tr_before t) /\ node_ty s r = node_ty s (tr_before t).
Proof.
  intros s d attempted invs e r t Hinv Hall _ HeT Hety Hrun.
  destruct (history_replay s d attempted) as (Hrep & _).
  exact (history_undo_tokens_marks s _ _ _ _ Hrep Hinv Hall e r HeT Hety Hrun).
Qed.
Print Assumptions C04_history_undo_with_mark_steps.

(* ... and for histories of replace steps with normal-form slices over a normal-form document, the restored
   document is EQUAL (Node.eq) to the starting one *)
Theorem C04_replace_history_undo_gives_equal_document : forall s sts d dn invs r,
  NormalDoc s d -> ReplaceHist s d sts -> UndoableAll s d sts ->
  replay s d sts = ROk dn -> inverses s d sts = Ok invs -> Run s dn invs r ->
  node_eqb r d = true.
Proof. exact replace_history_undo_eq. Qed.
Print Assumptions C04_replace_history_undo_gives_equal_document.

(* the hypotheses are met: wrapping the first paragraph of the example document of Properties/C01.v in a
   blockquote (ReplaceAroundStep(0, 4, 0, 4, <blockquote()>, 1)) applies, gives a valid document, and the
   inverse (the lift) applies to it *)
From PM Require Properties.C01.
Example C04_around_example :
  let s := Properties.C01.ex_schema in let doc := Properties.C01.ex_doc in
  let st := SReplaceAround 0 4 0 4 (SL [Elem 2%nat [] [] []] 0 0) 1 true in
  exists d' inv d'',
    check s doc = true /\ check s d' = true /\ apply s st doc = ROk d' /\ invert_step s st doc = Ok inv /\
    apply s inv d' = ROk d'' /\ inv = SReplaceAround 0 6 1 5 (SL [] 0 0) 0 true.
Proof. cbv zeta. eexists. eexists. eexists. repeat split; vm_compute; reflexivity. Qed.

(* the node-mark hypotheses are met: over the example schema with marks allowed inside blockquote, adding the em
   mark to the paragraph at position 5 is a plain insertion, and its inverse removes it again *)
Definition all_marks (nt : ntype) : ntype :=
  {| nt_name := nt_name nt; nt_attrs := nt_attrs nt; nt_start := nt_start nt; nt_inline := nt_inline nt;
     nt_inline_content := nt_inline_content nt; nt_markset := None; nt_groups := nt_groups nt;
     nt_isolating := nt_isolating nt; nt_atom_spec := nt_atom_spec nt; nt_defining_ctx := nt_defining_ctx nt;
     nt_defining_content := nt_defining_content nt; nt_code := nt_code nt; nt_marks_spec := nt_marks_spec nt |}.
Definition ex_schema_nm : schema :=
  let s0 := Properties.C01.ex_schema in
  {| s_nodes := match s_nodes s0 with [d; p; b; t] => [d; p; all_marks b; t] | l => l end;
     s_marks := s_marks s0; s_states := s_states s0; s_top := s_top s0; s_text := s_text s0 |}.
Example C04_node_mark_example :
  let s := ex_schema_nm in let doc := Properties.C01.ex_doc in let em := {| m_ty := 0%nat; m_attrs := [] |} in
  exists d' d'',
    apply s (SAddNodeMark 5 em) doc = ROk d' /\ apply s (SRemoveNodeMark 5 em) d' = ROk d'' /\
    invert_step s (SAddNodeMark 5 em) doc = Ok (SRemoveNodeMark 5 em) /\
    check s doc = true /\ check s d' = true /\ d' <> doc /\
    (forall n, node_at s (S (node_size s doc)) doc 5 = Ok (Some n) ->
       NodeNormal s n /\ List.length (add_to_set s em (node_marks n)) = S (List.length (node_marks n))).
Proof.
  cbv zeta. eexists. eexists. split; [vm_compute; reflexivity|]. split; [vm_compute; reflexivity|].
  split; [vm_compute; reflexivity|]. split; [vm_compute; reflexivity|]. split; [vm_compute; reflexivity|].
  split; [discriminate|].
  intros n Hn. vm_compute in Hn. inversion Hn; subst n. split; [|vm_compute; reflexivity].
  split; [constructor|]. split; [vm_compute; reflexivity|exact I].
Qed.

(* the conditions are met by what add_mark plans: the em step over "cd" (6..8) of the example document of Properties/C01.v
   touches two unmarked characters - nothing to displace - and the one-step history is undoable in the sense above *)
Example C04_history_with_mark_step_example :
  let s := Properties.C01.ex_schema in let doc := Properties.C01.ex_doc in let em := {| m_ty := 0; m_attrs := [] |} in
  UndoableAllM s doc [SAddMark 6 8 em] /\
  exists d1 r, apply s (SAddMark 6 8 em) doc = ROk d1 /\ d1 <> doc /\ inverses s doc [SAddMark 6 8 em] = Ok [SRemoveMark 6 8 em] /\
               Run s d1 [SRemoveMark 6 8 em] r /\ r = doc.
Proof.
  cbv zeta. split.
  - cbn [UndoableAllM UndoableM]. split; [|intros d1 _; exact I]. split; [vm_compute; reflexivity|].
    intros i t0 H1 H2 Hn. assert (Hi : i = 6 \/ i = 7) by lia.
    destruct Hi as [-> | ->]; vm_compute in Hn; inversion Hn; subst t0; (split; [exact I|intros o []]).
  - do 2 eexists. split; [vm_compute; reflexivity|]. split; [discriminate|]. split; [vm_compute; reflexivity|].
    split; [|reflexivity]. cbn [Run]. split; [vm_compute; reflexivity|]. eexists. split; [vm_compute; reflexivity|]. reflexivity.
Qed.
