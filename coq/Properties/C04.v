(* C04 — every recorded change can be replayed exactly; the recorded arrays stay aligned.
   (Exact undo of single steps and of whole histories is evaluated per case by Corr.C04.holds on the
   implementation's observations; it is not yet a theorem — see DESIGN.md.) *)
From Coq Require Import List.
From PM Require Import Model.Data Model.Tree Model.StepMap Model.Step Model.Transform Proofs.TransformProofs.
Import ListNotations.

(* any sequence of attempted steps (every high-level operation is such a sequence, possibly cut short by
   a refusal or an exception) leaves docs[i] --steps[i]--> docs[i+1] and maps[i] = steps[i].get_map() *)
Theorem C04_history_invariant : forall s d sts,
  Inv s (fold_left (fun t st => fst (maybe_step s t st)) sts (tr_init d)).
Proof. exact history_Inv. Qed.
Print Assumptions C04_history_invariant.

Theorem C04_history_replays : forall s d sts,
  let t := fold_left (fun t st => fst (maybe_step s t st)) sts (tr_init d) in
  replay s (tr_before t) (t_steps t) = ROk (t_doc t) /\
  length (t_docs t) = length (t_steps t) /\ length (t_maps t) = length (t_steps t) /\
  t_maps t = List.map (get_map s) (t_steps t).
Proof. exact history_replay. Qed.
Print Assumptions C04_history_replays.

Theorem C04_rejected_step_changes_nothing : forall s t st,
  (forall d, apply s st (t_doc t) <> ROk d) -> fst (maybe_step s t st) = t.
Proof.
  intros s t st H. unfold maybe_step. destruct (apply s st (t_doc t)) eqn:E; auto.
  exfalso. eapply H; eauto.
Qed.
Print Assumptions C04_rejected_step_changes_nothing.
