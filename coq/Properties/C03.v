(* C03 — a step's position map describes exactly what the step did.
   Theorem for replace steps (the step type every deletion, insertion and paste compiles to), for every
   schema, valid document, range and slice whose open sides have the claimed depth: with
   m = the step's map, T / T' the token sequences of the old / new document (compared up to Python's
   True == 1 on attribute values, [tnorm]),
     - the size changes by (new - old) of the map's single range,
     - every old token wholly before the range is found at the mapped position (which is the same position),
     - every old token wholly after the range is found at the mapped position.
   Token number p lies between positions p and p+1; "mapped position" is [StepMap.map] with assoc = 1, whose
   meaning is C08's theorems.  Replace-around steps: second theorem.  Mark, attribute and node-mark steps have an
   EMPTY map: third and fourth theorem (every token stays at its own position).  The steps of every high-level
   operation are instances; they are also judged by the same statement evaluated per case in Coq (Corr.C03). *)
From Coq Require Import ZArith List Arith.
From PM Require Import Model.Data Model.Mark Model.Tree Model.StepMap Model.Step Spec.Tokens
  Proofs.TokenBasics Proofs.ReplaceTokens Proofs.SliceShape Proofs.StepFaithful Proofs.TokenLaws Proofs.AroundLaws Proofs.NodeSteps Proofs.MarkSteps Proofs.MaplessSteps.
Import ListNotations.
Local Open Scope nat_scope.

Theorem C03_replace_step_map_faithful : forall s (from to : nat) sl structure doc d',
  check s doc = true ->
  Shape s (sl_content sl) (sl_open_start sl) (sl_open_end sl) -> from <= to ->
  apply s (SReplace from to sl structure) doc = ROk d' ->
  let m := get_map s (SReplace from to sl structure) in
  let T := List.map tnorm (ftoks s (node_content doc)) in
  let T' := List.map tnorm (ftoks s (node_content d')) in
  (Z.of_nat (length T') = Z.of_nat (length T) + (slice_size s sl - (Z.of_nat to - Z.of_nat from)))%Z /\
  (forall p, p < from -> nth_error T' (Z.to_nat (map m (Z.of_nat p) 1)) = nth_error T p) /\
  (forall p, to <= p -> nth_error T' (Z.to_nat (map m (Z.of_nat p) 1)) = nth_error T p).
Proof. exact replace_step_map_faithful. Qed.
Print Assumptions C03_replace_step_map_faithful.

(* replace-around steps (lift, wrap, set_block_type, set_node_markup compile to these): with a non-empty
   gap, from <= gap_from < gap_to <= to and insert within the slice, the two-range map is faithful: the size
   changes by the sum of (new - old) over the two ranges, and every old token before the step, inside the
   gap, and after the step is found at the mapped position.  (With an EMPTY gap the statement is false of
   the code — known finding C03-replace-around-empty-gap; that is why gap_from < gap_to is a hypothesis.) *)
Theorem C03_replace_around_map_faithful : forall s (from to gf gt : nat) sl (ins : nat) structure doc d',
  check s doc = true ->
  Shape s (sl_content sl) (sl_open_start sl) (sl_open_end sl) ->
  from <= gf -> gf < gt -> gt <= to -> ins <= length (IT s sl) ->
  apply s (SReplaceAround from to gf gt sl ins structure) doc = ROk d' ->
  let m := get_map s (SReplaceAround from to gf gt sl ins structure) in
  let T := DT s doc in
  let T' := DT s d' in
  (Z.of_nat (length T') = Z.of_nat (length T) + (Z.of_nat ins - (Z.of_nat gf - Z.of_nat from))
                          + ((slice_size s sl - Z.of_nat ins) - (Z.of_nat to - Z.of_nat gt)))%Z /\
  (forall p, p < from -> nth_error T' (Z.to_nat (map m (Z.of_nat p) 1)) = nth_error T p) /\
  (forall p, gf <= p -> p < gt -> nth_error T' (Z.to_nat (map m (Z.of_nat p) 1)) = nth_error T p) /\
  (forall p, to <= p -> nth_error T' (Z.to_nat (map m (Z.of_nat p) 1)) = nth_error T p).
Proof. exact around_step_map_faithful. Qed.
Print Assumptions C03_replace_around_map_faithful.

(* steps with an empty map.  An add-mark / remove-mark step: the map sends every position to itself, the size is
   unchanged, every token outside [from, to) is found unchanged at its own position, and every token inside the
   range is found there up to its marks ([sh] erases the marks of a token). *)
Theorem C03_mark_step_map_faithful : forall s st from to doc d',
  check s doc = true -> from <= to -> mark_step_range st = Some (from, to) -> apply s st doc = ROk d' ->
  get_map s st = empty_map /\
  length (DT s d') = length (DT s doc) /\
  (forall p, p < from \/ to <= p ->
     nth_error (DT s d') (Z.to_nat (map (get_map s st) (Z.of_nat p) 1)) = nth_error (DT s doc) p) /\
  (forall p, option_map sh (nth_error (DT s d') (Z.to_nat (map (get_map s st) (Z.of_nat p) 1)))
             = option_map sh (nth_error (DT s doc) p)).
Proof. exact mark_step_map_faithful. Qed.
Print Assumptions C03_mark_step_map_faithful.

(* an attribute / node-mark step at pos: empty map, same size, every token other than token number pos (the one
   that opens, or is, the addressed node) is found unchanged at its own position *)
Theorem C03_node_step_map_faithful : forall s st pos doc d',
  check s doc = true -> is_node_step st = Some pos -> apply s st doc = ROk d' ->
  get_map s st = empty_map /\
  length (DT s d') = length (DT s doc) /\
  (forall p, p <> pos ->
     nth_error (DT s d') (Z.to_nat (map (get_map s st) (Z.of_nat p) 1)) = nth_error (DT s doc) p).
Proof. exact node_step_map_faithful. Qed.
Print Assumptions C03_node_step_map_faithful.

(* ---- the maps steps produce are well formed, so every C08 theorem stated for well-formed maps (monotonicity in the
   position and in the side, bounds, round trips) applies to the map of every step ---- *)
From Coq Require Import Lia.
From PM Require Import Proofs.StepMapProofs.
Local Open Scope nat_scope.

Theorem C03_replace_step_map_well_formed : forall s (from to : nat) sl structure,
  Shape s (sl_content sl) (sl_open_start sl) (sl_open_end sl) -> from <= to ->
  wf_map (get_map s (SReplace from to sl structure)).
Proof.
  intros s from to sl structure Hs Hft. pose proof (IT_length s sl Hs) as HI.
  unfold wf_map. cbn [get_map ranges wf_ranges]. lia.
Qed.
Print Assumptions C03_replace_step_map_well_formed.

Theorem C03_replace_around_step_map_well_formed : forall s (from to gf gt : nat) sl (ins : nat) structure,
  Shape s (sl_content sl) (sl_open_start sl) (sl_open_end sl) ->
  from <= gf -> gf <= gt -> gt <= to -> ins <= length (IT s sl) ->
  wf_map (get_map s (SReplaceAround from to gf gt sl ins structure)).
Proof.
  intros s from to gf gt sl ins structure Hs H1 H2 H3 H4. pose proof (IT_length s sl Hs) as HI.
  unfold wf_map. cbn [get_map ranges wf_ranges]. lia.
Qed.
Print Assumptions C03_replace_around_step_map_well_formed.

Theorem C03_mapless_step_map_well_formed : forall s st,
  (match st with SReplace _ _ _ _ | SReplaceAround _ _ _ _ _ _ _ => False | _ => True end) ->
  wf_map (get_map s st).
Proof. intros s st H. destruct st; try contradiction; exact I. Qed.
Print Assumptions C03_mapless_step_map_well_formed.
