(* C16 — a merged step is equivalent to the two steps it replaces.
   Theorem for replace steps (both merge directions, open or closed slices, including the zero-size case
   in which the merged slice is the empty slice): for every schema, valid document and pair of replace
   steps a, b that ReplaceStep.merge merges into m, if a applies to the document, b to the result and m to
   the document, the two results have the same token sequence (so the same size; equal token sequences of
   documents in normal form are equal documents).  Hypotheses: from <= to for both steps, the first slice
   is OpenOK (valid nodes off its open sides: needed to know the intermediate document is valid), the
   second has open sides of the claimed depth.
   Theorem for mark steps: two add-mark (or two remove-mark) steps with == marks over overlapping or touching
   ranges that AddMarkStep.merge / RemoveMarkStep.merge merge into one step over the union: if a applies, b
   applies to the (valid) result and the merged step applies to the document, the results have the same token
   sequence (C16_merged_mark_step_same_tokens; from the pointwise theorem of C13 and the idempotence of
   Mark.add_to_set / remove_from_set).
   That the merged step succeeds whenever the two steps do is evaluated per case by Corr.C16. *)
From Coq Require Import List Arith.
From PM Require Import Model.Data Model.Mark Model.Tree Model.Step Spec.Tokens
  Proofs.ReplaceValid Proofs.SliceSides Proofs.TokenBasics Proofs.ReplaceTokens Proofs.SliceShape Proofs.TokenLaws
  Proofs.StepAlgebra Proofs.TokenInj Proofs.ReplaceCanon Proofs.DocEquality Proofs.MarkSteps Proofs.MarkMerge.
Import ListNotations.

Theorem C16_merged_replace_step_same_tokens : forall s f1 t1 s1 st1 f2 t2 s2 st2 m doc da dab dm,
  check s doc = true ->
  OpenOK s (sl_content s1) (sl_open_start s1) (sl_open_end s1) -> f1 <= t1 ->
  Shape s (sl_content s2) (sl_open_start s2) (sl_open_end s2) -> f2 <= t2 ->
  merge s (SReplace f1 t1 s1 st1) (SReplace f2 t2 s2 st2) = Some m ->
  apply s (SReplace f1 t1 s1 st1) doc = ROk da ->
  apply s (SReplace f2 t2 s2 st2) da = ROk dab ->
  apply s m doc = ROk dm ->
  DT s dm = DT s dab.
Proof.
  intros s f1 t1 s1 st1 f2 t2 s2 st2 m doc da dab dm Hd Ho1 H1 Hs2 H2 Hm A1 A2 A3.
  eapply (merged_replace_step s (SReplace f1 t1 s1 st1) (SReplace f2 t2 s2 st2)); eauto.
  - intros f t sl st E. inversion E; subst. auto.
  - intros f t sl st E. inversion E; subst. auto.
Qed.
Print Assumptions C16_merged_replace_step_same_tokens.

(* ... and as documents: with the document and both slices in normal form, the merged step gives a document
   EQUAL (Node.eq) to applying the two steps one after the other *)
Theorem C16_merged_replace_step_equal_document : forall s f1 t1 s1 st1 f2 t2 s2 st2 m doc da dab dm,
  check s doc = true -> NormalDoc s doc ->
  OpenOK s (sl_content s1) (sl_open_start s1) (sl_open_end s1) -> canon_list s (sl_content s1) = true -> f1 <= t1 ->
  Shape s (sl_content s2) (sl_open_start s2) (sl_open_end s2) -> canon_list s (sl_content s2) = true -> f2 <= t2 ->
  merge s (SReplace f1 t1 s1 st1) (SReplace f2 t2 s2 st2) = Some m ->
  apply s (SReplace f1 t1 s1 st1) doc = ROk da ->
  apply s (SReplace f2 t2 s2 st2) da = ROk dab ->
  apply s m doc = ROk dm ->
  node_eqb dm dab = true.
Proof. exact merged_replace_step_eq. Qed.
Print Assumptions C16_merged_replace_step_equal_document.

Theorem C16_merged_mark_step_same_tokens : forall s a b m doc da dab dm,
  check s doc = true -> check s da = true -> merge s a b = Some m ->
  (exists f t, mark_step_range a = Some (f, t) /\ f <= t) ->      (* a and b are add-mark / remove-mark steps *)
  (exists f t, mark_step_range b = Some (f, t) /\ f <= t) ->
  apply s a doc = ROk da -> apply s b da = ROk dab -> apply s m doc = ROk dm ->
  DT s dm = DT s dab.
Proof. exact merged_mark_step. Qed.
Print Assumptions C16_merged_mark_step_same_tokens.

(* ... so the merged step changes the size by the same amount as the two steps together *)
Corollary C16_merged_step_same_size : forall s dm dab,
  DT s dm = DT s dab -> frag_size s (node_content dm) = frag_size s (node_content dab).
Proof. intros s dm dab H. rewrite <- !DT_length, H. reflexivity. Qed.
Print Assumptions C16_merged_step_same_size.
