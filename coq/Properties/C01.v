(* C01 — a step applied to a valid document yields a valid document or is refused.
   The replace family (ReplaceStep, ReplaceAroundStep, AddMarkStep, RemoveMarkStep and the node-level
   steps) all go through Node.replace (Model.Step.from_replace -> Model.Tree.node_replace).  The
   theorems below are about that function and about ReplaceStep.apply: whatever they return is valid,
   for every document, range and slice whose open sides are made of non-leaf nodes with canonical marks
   and whose other nodes are valid ([OpenOK]; a closed slice must simply consist of valid nodes).
   Attribute, node-mark and document-attribute steps: theorems C01_node_step_valid, C01_doc_attr_step_valid.
   The remaining clauses of C01 (refusal instead of an exception; the slices replace-around and mark steps build)
   are evaluated per case by Corr.C01 on the implementation's observations. *)
From Coq Require Import List NArith String.
From PM Require Import Model.Data Model.Mark Model.Tree Model.Step Proofs.ReplaceValid Proofs.SliceSides Proofs.NodeStepValid Proofs.ReplaceSafe Proofs.StepSafe Proofs.ReplaceSuccess.
Import ListNotations.

(* [check] is the model of Node.check; C07_check_iff (Properties/C07.v) relates it to the token-level
   definition of validity. *)
Theorem C01_node_replace_valid : forall s doc from to sl d',
  check s doc = true ->
  OpenOK s (sl_content sl) (sl_open_start sl) (sl_open_end sl) ->
  node_replace s doc from to sl = Ok d' ->
  check s d' = true.
Proof. exact node_replace_valid_open. Qed.
Print Assumptions C01_node_replace_valid.

(* a closed slice: every node valid, nothing else asked *)
Corollary C01_node_replace_valid_closed : forall s doc from to content d',
  check s doc = true ->
  (forall x, In x content -> check s x = true) ->
  node_replace s doc from to (SL content 0 0) = Ok d' ->
  check s d' = true.
Proof. intros s doc from to content d' Hd Hc. apply node_replace_valid_open; auto. Qed.
Print Assumptions C01_node_replace_valid_closed.

(* deleting a range (the empty slice) never needs a hypothesis on the slice *)
Corollary C01_delete_valid : forall s doc from to d',
  check s doc = true -> node_replace s doc from to (SL [] 0 0) = Ok d' -> check s d' = true.
Proof. intros s doc from to d' Hd. apply node_replace_valid_open; auto. intros x []. Qed.
Print Assumptions C01_delete_valid.

(* ReplaceStep.apply: ok(doc') carries a valid doc' *)
Theorem C01_replace_step_valid : forall s doc from to sl structure d',
  check s doc = true ->
  OpenOK s (sl_content sl) (sl_open_start sl) (sl_open_end sl) ->
  apply s (SReplace from to sl structure) doc = ROk d' ->
  check s d' = true.
Proof.
  intros s doc from to sl structure d' Hd Ho H. cbn [apply] in H. unfold lift in H.
  destruct (if structure then content_between s doc from to else Ok false) as [cb|]; [|discriminate].
  destruct cb; [discriminate|]. unfold from_replace in H.
  destruct (node_replace s doc from to sl) as [d|e] eqn:E; [|destruct e; discriminate].
  inversion H; subst. eapply node_replace_valid_open; eauto.
Qed.
Print Assumptions C01_replace_step_valid.

(* AttrStep, AddNodeMarkStep, RemoveNodeMarkStep: ok(doc') carries a valid doc', for every schema in which
   ContentMatch.empty (state 0, the content match of leaf types) is a valid end - evaluated on the dumped schema
   in every C01 case.  Proof: the node Node.node_at finds in a valid document is valid; Mark.add_to_set /
   remove_from_set keep a mark set canonical (Proofs/CanonicalMarks.v: Node.check's re-adding test holds exactly for
   rank-sorted sets without equal or mutually excluding marks); the one-node slice then satisfies [OpenOK]. *)
Theorem C01_node_step_valid : forall s st pos doc d',
  valid_end s 0 = true -> check s doc = true ->
  match st with SAddNodeMark p _ | SRemoveNodeMark p _ | SAttr p _ _ => p = pos | _ => False end ->
  apply s st doc = ROk d' -> check s d' = true.
Proof. exact node_step_valid. Qed.
Print Assumptions C01_node_step_valid.

Theorem C01_doc_attr_step_valid : forall s attr value doc d',
  check s doc = true -> apply s (SDocAttr attr value) doc = ROk d' -> check s d' = true.
Proof. exact doc_attr_step_valid. Qed.
Print Assumptions C01_doc_attr_step_valid.

(* ------------------------------------------------------------------ never an internal error
   The model returns [RErr ErrInternal] exactly where the Python code would raise IndexError / AttributeError /
   AssertionError / RecursionError (a path read beyond its depth, a missing child, exhausted recursion).  For EVERY step
   of the eight types - whatever its positions, slice, open depths, insert offset, mark or attribute, i.e. anything a
   peer can send as JSON - applied to an element document whose leaf-typed nodes have no children: the result is a
   document, a failed result, or an exception of the two allowed classes (ReplaceError is turned into a failed result
   by the steps; ValueError: position out of range, a surrogate pair cut in two, a missing required attribute).
   No hypothesis on validity, positions or the slice.  (The theorem is about the code AFTER three repairs it led to:
   known_findings C01-overopen-slice-indexerror, C01-reversed-range-indexerror, C01-empty-open-slice-indexerror.) *)
Theorem C01_step_error_class : forall s st doc e,
  is_elem doc -> leaves_empty s doc -> apply s st doc = RErr e -> e = ErrReplace \/ e = ErrValue.
Proof. intros s st doc e He Hl H. exact (apply_error_class s st doc He Hl e H). Qed.
Print Assumptions C01_step_error_class.

Corollary C01_no_internal_error : forall s st doc,
  is_elem doc -> leaves_empty s doc -> apply s st doc <> RErr ErrInternal.
Proof. exact apply_no_internal_error. Qed.
Print Assumptions C01_no_internal_error.

(* WHEN a replace step applies, for the commonest shape of edit: a closed non-empty slice between two positions of the same
   parent node.  It applies exactly when the parent's new child sequence is valid for the parent's type and otherwise
   FAILS with a failed result - no exception of any kind (Proofs/ReplaceSuccess.v; the Node.replace form is in C02) *)
Theorem C01_flat_replace_step_applies_iff_valid : forall s doc from to sl rf rt parent a b,
  (exists ty at_ m cs, doc = Elem ty at_ m cs) ->
  resolve s doc from = Ok rf -> resolve s doc to = Ok rt -> from <= to ->
  rp_depth rf = rp_depth rt -> (forall d, d < rp_depth rf -> rp_index rf d = rp_index rt d) ->
  sl_open_start sl = 0 -> sl_open_end sl = 0 -> frag_size s (sl_content sl) <> 0 ->
  rp_parent rf = Ok parent ->
  frag_cut s (node_content parent) 0 (rp_parent_offset rf) = Ok a ->
  frag_cut s (node_content parent) (rp_parent_offset rt) (frag_size s (node_content parent)) = Ok b ->
  if valid_content s (node_ty s parent) (frag_append (frag_append a (sl_content sl)) b)
  then exists d', apply s (SReplace from to sl false) doc = ROk d'
  else apply s (SReplace from to sl false) doc = RFail.
Proof. exact flat_closed_replace_step. Qed.
Print Assumptions C01_flat_replace_step_applies_iff_valid.

(* ... and a deletion inside one parent node (the inverse of typing, the commonest undo): it applies exactly when the
   remaining child sequence is valid for the parent's type, and FAILS otherwise *)
Theorem C01_flat_delete_step_applies_iff_valid : forall s doc from to rf rt parent i j nb na,
  (exists ty at_ m cs, doc = Elem ty at_ m cs) ->
  resolve s doc from = Ok rf -> resolve s doc to = Ok rt -> from <= to ->
  rp_depth rf = rp_depth rt -> (forall d, d < rp_depth rf -> rp_index rf d = rp_index rt d) ->
  rp_parent rf = Ok parent ->
  rp_index rf (rp_depth rf) = Ok i -> rp_index rt (rp_depth rf) = Ok j ->
  rp_node_before s rf = Ok nb -> rp_node_after s rt = Ok na ->
  if valid_content s (node_ty s parent) (remaining parent rf rt i j nb na)
  then exists d', apply s (SReplace from to (SL [] 0 0) false) doc = ROk d'
  else apply s (SReplace from to (SL [] 0 0) false) doc = RFail.
Proof. exact flat_delete_step. Qed.
Print Assumptions C01_flat_delete_step_applies_iff_valid.

(* the hypotheses are satisfiable by a slice open on both sides to different depths *)
Local Open Scope string_scope.
Definition ex_schema : schema :=
  {| s_nodes := [(NT "doc" [] 1%nat false false (Some []) [] false false false false false None);
                 (NT "paragraph" [] 3%nat false true None ["block"] false false false false false None);
                 (NT "blockquote" [] 1%nat false false (Some []) ["block"] false false false false false None);
                 (NT "text" [] 0%nat true false (Some []) [] false false false false false None)];
     s_marks := [(MT "em" [] [0%nat] false [] None)];
     s_states := [(CS true []); (CS false [(1%nat, 2%nat); (2%nat, 2%nat)]); (CS true [(1%nat, 2%nat); (2%nat, 2%nat)]);
                  (CS true [(3%nat, 4%nat)]); (CS true [(3%nat, 4%nat)])];
     s_top := 0%nat; s_text := 3%nat |}.
Definition ex_p (t : list N) : node := Elem 1%nat [] [] [Text t []].
(* doc(p("ab"), blockquote(p("cd"), p("ef"))) *)
Definition ex_doc : node := Elem 0%nat [] [] [ex_p [97%N; 98%N]; Elem 2%nat [] [] [ex_p [99%N; 100%N]; ex_p [101%N; 102%N]]].
(* <p("x"), blockquote(p("y"))>(1, 2) *)
Definition ex_slice : slice := SL [ex_p [120%N]; Elem 2%nat [] [] [ex_p [121%N]]] 1 2.

Local Close Scope string_scope.
Example C01_example :
  check ex_schema ex_doc = true /\
  OpenOK ex_schema (sl_content ex_slice) (sl_open_start ex_slice) (sl_open_end ex_slice) /\
  node_replace ex_schema ex_doc 2 7 ex_slice =
    Ok (Elem 0%nat [] [] [ex_p [97%N; 120%N]; Elem 2%nat [] [] [ex_p [121%N; 100%N]; ex_p [101%N; 102%N]]]).
Proof.
  split; [vm_compute; reflexivity|]. split; [|vm_compute; reflexivity].
  cbn [OpenOK ex_slice sl_content sl_open_start sl_open_end]. right.
  exists 1%nat, [], [], [Text [120%N] []], [], 2%nat, [], [], [ex_p [121%N]].
  split; [reflexivity|]. split; [split; vm_compute; reflexivity|]. split; [split; vm_compute; reflexivity|].
  split; [|split].
  - cbn [OpenL]. intros x [<-|[]]. vm_compute. reflexivity.
  - cbn [OpenR]. exists [], 1%nat, [], [], [Text [121%N] []].
    split; [reflexivity|]. split; [split; vm_compute; reflexivity|]. split; [|intros x []].
    intros x [<-|[]]. vm_compute. reflexivity.
  - intros x [].
Qed.
