(* C01 — a step applied to a valid document yields a valid document or is refused.
   The replace family (ReplaceStep, ReplaceAroundStep, AddMarkStep, RemoveMarkStep and the node-level
   steps) all go through Node.replace (Model.Step.from_replace -> Model.Tree.node_replace).  The
   theorem below is about that function: whatever it returns is valid, for every document, range and
   slice, provided the sides of the slice consist of valid nodes.  The step-level statement for the other
   clauses of C01 (refusal instead of exception, closed wrappers of replace-around steps) is evaluated
   per case by Corr.C01 on the implementation's observations. *)
From Coq Require Import List.
From PM Require Import Model.Data Model.Mark Model.Tree Proofs.ReplaceValid.
Import ListNotations.

(* [check] is the model of Node.check; C07_check_iff (Properties/C07.v) relates it to the token-level
   definition of validity. *)
Theorem C01_node_replace_valid_partial : forall s doc from to sl d',
  check s doc = true ->
  node_replace s doc from to sl = Ok d' ->
  (sl_open_start sl = 0 -> sl_open_end sl = 0 -> forall x, In x (sl_content sl) -> check s x = true) ->
  (forall rf rt st en, resolve s doc from = Ok rf -> resolve s doc to = Ok rt -> prepare_slice s sl rf = Ok (st, en) ->
     LastOK s st /\ LastOK s en /\ PathMC s en /\
     forall d, d <= rp_depth rf - sl_open_start sl -> Sides s rf rt st en d) ->
  check s d' = true.
Proof. exact node_replace_valid. Qed.
Print Assumptions C01_node_replace_valid_partial.
