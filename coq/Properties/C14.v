(* C14 — mark sets are canonical and respect the schema's exclusion and
   permission rules.  Statements only. *)
From Coq Require Import List Bool Arith String.
Open Scope string_scope.
From PM Require Import Model.Data Model.Mark Proofs.MarkProofs Proofs.CanonicalMarks.
Import ListNotations.

(* Adding a mark: the set is returned unchanged if an equal mark is present or
   a present mark (that the new mark does not itself exclude) excludes the new
   one; otherwise exactly the marks the new one excludes are removed, every
   other mark is kept in order, and the new mark is inserted at its rank. *)
Theorem C14_add_to_set_spec : forall s m set,
  add_to_set s m set = if blocked s m set then set else insert_sorted m (kept s m set).
Proof. exact add_to_set_spec. Qed.
Print Assumptions C14_add_to_set_spec.

Theorem C14_add_keeps_sorted : forall s m set, sorted_rank set -> sorted_rank (add_to_set s m set).
Proof. exact add_to_set_sorted. Qed.
Print Assumptions C14_add_keeps_sorted.

Theorem C14_add_keeps_nodup : forall s m set, nodup_marks set -> nodup_marks (add_to_set s m set).
Proof. exact add_to_set_nodup. Qed.
Print Assumptions C14_add_keeps_nodup.

(* every set reachable by any sequence of additions and removals is canonical *)
Theorem C14_reachable_canonical : forall s ops,
  let set := fold_left (apply_op s) ops [] in sorted_rank set /\ nodup_marks set.
Proof. exact reachable_canonical. Qed.
Print Assumptions C14_reachable_canonical.

Theorem C14_remove_spec : forall m set y,
  In y (remove_from_set m set) <-> In y set /\ mark_eqb y m = false.
Proof. exact remove_from_set_spec. Qed.
Print Assumptions C14_remove_spec.

Theorem C14_is_in_set_spec : forall m set,
  is_in_set m set = true <-> exists y, In y set /\ mark_eqb y m = true.
Proof. exact is_in_set_spec. Qed.
Print Assumptions C14_is_in_set_spec.

(* filtering for a parent keeps exactly the allowed marks, in order *)
Theorem C14_allowed_marks_spec : forall s nt ms,
  allowed_marks s nt ms =
  match nt_markset (ntype_of s nt) with
  | None => ms
  | Some _ => filter (fun m => allows_mark_type s nt (m_ty m)) ms
  end.
Proof. exact allowed_marks_spec. Qed.
Print Assumptions C14_allowed_marks_spec.

Theorem C14_allows_marks_spec : forall s nt ms,
  allows_marks s nt ms = forallb (fun m => allows_mark_type s nt (m_ty m)) ms.
Proof. exact allows_marks_spec. Qed.
Print Assumptions C14_allows_marks_spec.

(* the canonical form Node.check demands of a mark list (re-adding every mark to the empty set gives the same list)
   is EXACTLY: sorted by rank, and no two marks of the list are equal or exclude one another (in either direction) *)
Theorem C14_canonical_iff : forall s ms,
  marks_canonical s ms = true <-> (sorted_rank ms /\ PairOK s ms).
Proof. exact canonical_iff_clean. Qed.
Print Assumptions C14_canonical_iff.

(* ... and adding or removing a mark keeps a canonical set canonical *)
Theorem C14_add_keeps_canonical : forall s m set,
  marks_canonical s set = true -> marks_canonical s (add_to_set s m set) = true.
Proof. exact add_to_set_canonical. Qed.
Print Assumptions C14_add_keeps_canonical.
Theorem C14_remove_keeps_canonical : forall s m set,
  marks_canonical s set = true -> marks_canonical s (remove_from_set m set) = true.
Proof. exact remove_from_set_canonical. Qed.
Print Assumptions C14_remove_keeps_canonical.

(* non-vacuity: a concrete configuration where an exclusion actually fires *)
Example C14_example :
  let s := {| s_nodes := []; s_marks := [MT "a" [] [0] false [] None; MT "b" [] [1] false [] None;
                                          MT "c" [] [0] false [] (Some ["a"%string])];
              s_states := []; s_top := 0; s_text := 0 |} in
  add_to_set s (MK 2 []) [MK 0 []; MK 1 []] = [MK 1 []; MK 2 []].
Proof. reflexivity. Qed.

(* ---- algebra of add / remove (Proofs/MarkMerge.v, Proofs/NodeMarkUndo.v) ---- *)
From PM Require Import Proofs.MarkMerge Proofs.NodeMarkUndo.

(* adding (removing) a mark twice is adding (removing) it once, for every schema, mark and set *)
Theorem C14_add_idempotent : forall s m set, add_to_set s m (add_to_set s m set) = add_to_set s m set.
Proof. exact add_to_set_idem. Qed.
Print Assumptions C14_add_idempotent.

Theorem C14_remove_idempotent : forall m set, remove_from_set m (remove_from_set m set) = remove_from_set m set.
Proof. exact remove_from_set_idem. Qed.
Print Assumptions C14_remove_idempotent.

(* whenever adding a mark really grew the set (nothing was displaced, nothing blocked it), removing it again returns
   the original set exactly *)
Theorem C14_add_then_remove : forall s m set,
  List.length (add_to_set s m set) = S (List.length set) ->
  remove_from_set m (add_to_set s m set) = set.
Proof.
  intros s m set H. destruct (add_length_full s m set H) as (Hok & E). rewrite E. apply (remove_inserted s). exact Hok.
Qed.
Print Assumptions C14_add_then_remove.

(* after an addition that was not blocked, the mark is in the set *)
Theorem C14_added_mark_is_present : forall s m set,
  blocked s m set = false -> is_in_set m (add_to_set s m set) = true.
Proof.
  intros s m set Hb. rewrite add_to_set_spec, Hb. apply is_in_set_spec. exists m. split; [|apply Proofs.DataProofs.mark_eqb_refl].
  apply in_insert_sorted. left. reflexivity.
Qed.
Print Assumptions C14_added_mark_is_present.

(* ... and after a removal it is not *)
Theorem C14_removed_mark_is_absent : forall m set, is_in_set m (remove_from_set m set) = false.
Proof.
  intros m set. destruct (is_in_set m (remove_from_set m set)) eqn:E; [|reflexivity].
  apply is_in_set_spec in E. destruct E as (y & Hy & Ey). apply remove_from_set_spec in Hy. destruct Hy as [_ Hy]. congruence.
Qed.
Print Assumptions C14_removed_mark_is_absent.

(* ---- MarkType.remove_from_set / MarkType.is_in_set (by type, whatever the attributes) ---- *)
Theorem C14_type_remove_spec : forall t set y,
  In y (type_remove_from_set t set) <-> In y set /\ m_ty y <> t.
Proof.
  intros t set y. unfold type_remove_from_set. rewrite filter_In. split; intros [H1 H2]; split; auto.
  - intros E. rewrite E, Nat.eqb_refl in H2. discriminate.
  - apply Bool.negb_true_iff. apply Nat.eqb_neq. exact H2.
Qed.
Print Assumptions C14_type_remove_spec.

Theorem C14_type_is_in_set_some : forall t set m,
  type_is_in_set t set = Some m -> In m set /\ m_ty m = t.
Proof.
  intros t set m H. unfold type_is_in_set in H. apply find_some in H. destruct H as [H1 H2].
  split; [exact H1|]. apply Nat.eqb_eq. exact H2.
Qed.
Print Assumptions C14_type_is_in_set_some.

Theorem C14_type_is_in_set_none : forall t set,
  type_is_in_set t set = None <-> (forall y, In y set -> m_ty y <> t).
Proof.
  intros t set. unfold type_is_in_set. split.
  - intros H y Hy E. pose proof (find_none _ _ H y Hy) as F. cbv beta in F. rewrite E, Nat.eqb_refl in F. discriminate.
  - intros H. destruct (find _ set) eqn:E; [|reflexivity]. apply find_some in E. destruct E as [E1 E2].
    apply Nat.eqb_eq in E2. exfalso. exact (H _ E1 E2).
Qed.
Print Assumptions C14_type_is_in_set_none.

Theorem C14_type_removed_is_absent : forall t set, type_is_in_set t (type_remove_from_set t set) = None.
Proof.
  intros t set. apply C14_type_is_in_set_none. intros y Hy. apply C14_type_remove_spec in Hy. tauto.
Qed.
Print Assumptions C14_type_removed_is_absent.
