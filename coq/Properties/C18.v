(* C18 — an edit inside a node never reaches outside it.
   Theorem, for every schema, valid document, slice (open sides of the claimed depth) and every replace
   step whose range lies inside the content of a node — the document's tokens are A ++ open :: B ++ close :: C
   and the range is within B: the result's tokens are A ++ open :: B' ++ close :: C with the same A, the
   same open token (type, attributes, marks), the same C; B' is B with the range spliced.  So a step whose
   ends lie inside an isolating node can empty or rewrite the inside and never removes, splits or merges the
   node.  About the planners (modelled in Model.StructOps / Model.RangeOps, compared with the implementation on
   every run): lift_target and can_split never cross an isolating boundary, and covered_depths - the range
   expansion of delete_range / replace_range - never expands past an isolating ancestor of either end (theorems
   below).  That the fitter only emits steps whose range stays inside the isolating node is evaluated per case by
   Corr.C18 (it does not always: known finding C18-fitter-closes-isolating-node). *)
From Coq Require Import List Arith.
From PM Require Import Model.Data Model.Mark Model.Tree Model.Step Spec.Tokens
  Proofs.ReplaceValid Proofs.SliceSides Proofs.TokenBasics Proofs.ReplaceTokens Proofs.SliceShape Proofs.TokenLaws
  Proofs.AroundLaws Model.Resolve Model.StructOps Model.RangeOps Proofs.IsolatingProofs.
Import ListNotations.

Theorem C18_step_inside_node_stays_inside : forall s from to sl structure doc d' A o B C,
  check s doc = true ->
  Shape s (sl_content sl) (sl_open_start sl) (sl_open_end sl) -> from <= to ->
  apply s (SReplace from to sl structure) doc = ROk d' ->
  DT s doc = A ++ o :: B ++ TClose :: C ->
  length A + 1 <= from -> to <= length A + 1 + length B ->
  DT s d' = A ++ o :: (firstn (from - length A - 1) B ++ IT s sl ++ skipn (to - length A - 1) B) ++ TClose :: C.
Proof. exact replace_step_inside_node. Qed.
Print Assumptions C18_step_inside_node_stays_inside.

(* the same for replace-around steps (lift inside the node, set_block_type ...) *)
Theorem C18_around_step_inside_node_stays_inside : forall s from to gf gt sl ins structure doc d' A o B C,
  check s doc = true ->
  Shape s (sl_content sl) (sl_open_start sl) (sl_open_end sl) ->
  from <= gf -> gf <= gt -> gt <= to -> ins <= length (IT s sl) ->
  apply s (SReplaceAround from to gf gt sl ins structure) doc = ROk d' ->
  DT s doc = A ++ o :: B ++ TClose :: C ->
  length A + 1 <= from -> to <= length A + 1 + length B ->
  exists B', DT s d' = A ++ o :: B' ++ TClose :: C.
Proof. exact around_step_inside_node. Qed.
Print Assumptions C18_around_step_inside_node_stays_inside.

(* ---- the helpers ----
   lift_target(range) = d: d lies strictly above the range, and every ancestor the lift takes the content out of
   (depths d+1 .. range.depth of the range's start) is a NON-isolating node *)
Theorem C18_lift_target_stays_inside_isolating : forall s r d,
  lift_target s r = Ok (Some d) ->
  d < nr_depth r /\
  forall k, d < k -> k <= nr_depth r -> exists n, rp_node (nr_from r) k = Ok n /\ isolating s n = false.
Proof. exact lift_target_not_across_isolating. Qed.
Print Assumptions C18_lift_target_stays_inside_isolating.

(* can_split(doc, pos, depth) = True: each of the `depth` innermost ancestors of pos - the nodes the split cuts in
   two - is a non-isolating node *)
Theorem C18_can_split_stays_inside_isolating : forall s doc pos depth r,
  can_split s doc pos depth = Ok true -> resolve s doc pos = Ok r ->
  depth <= rp_depth r /\
  forall k, rp_depth r - depth < k -> k <= rp_depth r -> exists n, rp_node r k = Ok n /\ isolating s n = false.
Proof. exact can_split_not_across_isolating. Qed.
Print Assumptions C18_can_split_stays_inside_isolating.

(* ... and so is every node a split with types_after cuts, whatever types the split-off parts are to get *)
Theorem C18_can_split_with_types_stays_inside_isolating : forall s doc pos depth ta r,
  can_split_ta s doc pos depth ta = Ok true -> resolve s doc pos = Ok r ->
  depth <= rp_depth r /\
  forall k, rp_depth r - depth < k -> k <= rp_depth r -> exists n, rp_node r k = Ok n /\ isolating s n = false.
Proof. exact can_split_ta_not_across_isolating. Qed.
Print Assumptions C18_can_split_with_types_stays_inside_isolating.

(* covered_depths(from, to): a depth the range may be expanded to lies below no isolating ancestor of either end:
   the ancestors of both ends at depths d .. min(depth) are all non-isolating, so [start(d), end(d)] and
   [before(d), after(d)] stay inside the innermost isolating node holding both ends *)
Theorem C18_range_expansion_stays_inside_isolating : forall s rf rt l d,
  covered_depths s rf rt = Ok l -> In d l ->
  d <= Nat.min (rp_depth rf) (rp_depth rt) /\
  forall j, d <= j -> j <= Nat.min (rp_depth rf) (rp_depth rt) ->
    exists nf nt, rp_node rf j = Ok nf /\ rp_node rt j = Ok nt /\ iso_node s nf = false /\ iso_node s nt = false.
Proof. exact covered_depths_below_isolating. Qed.
Print Assumptions C18_range_expansion_stays_inside_isolating.
