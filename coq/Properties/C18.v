(* C18 — an edit inside a node never reaches outside it.
   Theorem, for every schema, valid document, slice (open sides of the claimed depth) and every replace
   step whose range lies inside the content of a node — the document's tokens are A ++ open :: B ++ close :: C
   and the range is within B: the result's tokens are A ++ open :: B' ++ close :: C with the same A, the
   same open token (type, attributes, marks), the same C; B' is B with the range spliced.  So a step whose
   ends lie inside an isolating node can empty or rewrite the inside and never removes, splits or merges the
   node.  That the planners (range expansion in covered_depths, the fitter, lift_target, can_split) only
   emit steps whose range stays inside the isolating node is evaluated per case by Corr.C18. *)
From Coq Require Import List Arith.
From PM Require Import Model.Data Model.Mark Model.Tree Model.Step Spec.Tokens
  Proofs.ReplaceValid Proofs.SliceSides Proofs.TokenBasics Proofs.ReplaceTokens Proofs.SliceShape Proofs.TokenLaws
  Proofs.AroundLaws.
Import ListNotations.

Theorem C18_step_inside_node_stays_inside : forall s from to sl structure doc d' A o B C,
  check s doc = true ->
  Shape s (sl_content sl) (sl_open_start sl) (sl_open_end sl) -> from <= to ->
  apply s (SReplace from to sl structure) doc = ROk d' ->
  DT s doc = A ++ o :: B ++ TClose :: C ->
  length A + 1 <= from -> to <= length A + 1 + length B ->
  DT s d' = A ++ o :: (firstn (from - length A - 1) B ++ IT s sl ++ skipn (to - length A - 1) B) ++ TClose :: C.
Proof. exact replace_step_inside_node. Qed.
Print Assumptions C18_step_inside_node_stays_inside.

(* the same for replace-around steps (lift inside the node, set_block_type ...) *)
Theorem C18_around_step_inside_node_stays_inside : forall s from to gf gt sl ins structure doc d' A o B C,
  check s doc = true ->
  Shape s (sl_content sl) (sl_open_start sl) (sl_open_end sl) ->
  from <= gf -> gf <= gt -> gt <= to -> ins <= length (IT s sl) ->
  apply s (SReplaceAround from to gf gt sl ins structure) doc = ROk d' ->
  DT s doc = A ++ o :: B ++ TClose :: C ->
  length A + 1 <= from -> to <= length A + 1 + length B ->
  exists B', DT s d' = A ++ o :: B' ++ TClose :: C.
Proof. exact around_step_inside_node. Qed.
Print Assumptions C18_around_step_inside_node_stays_inside.
