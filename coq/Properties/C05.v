From PM Require Import Model.JsonCodec.
