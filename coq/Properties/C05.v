(* C05 — JSON serialisation of documents, slices, marks and steps is lossless.
   Theorems over the value-level codec (Model/JsonCodec.v): decoding what was encoded gives back the very
   same value, hence an equal object, the identical JSON again, and — for steps — the identical effect and
   position map on every document.  json.dumps/json.loads themselves and the absence of aliasing are outside
   the value model (exercised / monitored on the implementation by harness/c05.py). *)
From Coq Require Import List String.
From PM Require Import Model.Data Model.Mark Model.Tree Model.StepMap Model.Step Model.JsonCodec Proofs.JsonProofs.
Import ListNotations.
Local Open Scope string_scope.

Section S.
Variable s : schema.
(* names are dict keys: pairwise distinct; the text type is called "text" *)
Hypothesis mark_names : names_distinct mt_name (s_marks s).
Hypothesis node_names : names_distinct nt_name (s_nodes s).
Hypothesis text_name : nt_name (ntype_of s (s_text s)) = "text".
Hypothesis text_in_range : s_text s < List.length (s_nodes s).

Theorem C05_mark_roundtrip : forall m,
  m_ty m < List.length (s_marks s) -> attrs_normal (mt_attrs (mtype_of s (m_ty m))) (m_attrs m) ->
  mark_from_json s (mark_to_json s m) = Ok m.
Proof. exact (mark_roundtrip s mark_names). Qed.

Theorem C05_node_roundtrip : forall n, node_wf s n -> node_from_json s (node_to_json s n) = Ok n.
Proof. exact (node_roundtrip s mark_names node_names text_name text_in_range). Qed.

Theorem C05_fragment_roundtrip : forall l, nodes_wf s l -> frag_from_json s (Some (frag_to_json s l)) = Ok l.
Proof. exact (frag_roundtrip s mark_names node_names text_name text_in_range). Qed.

Theorem C05_slice_roundtrip : forall sl, slice_wf s sl -> slice_from_json s (Some (slice_to_json s sl)) = Ok sl.
Proof. exact (slice_roundtrip s mark_names node_names text_name text_in_range). Qed.

(* all eight built-in step types, dispatched by their published stepType name *)
Theorem C05_step_roundtrip : forall st, step_wf s st -> step_from_json s (step_to_json s st) = Ok st.
Proof. exact (step_roundtrip s mark_names node_names text_name text_in_range). Qed.

(* consequently a decoded step has the identical effect and map on every document *)
Corollary C05_step_same_effect : forall st st', step_wf s st -> step_from_json s (step_to_json s st) = Ok st' ->
  forall doc, apply s st' doc = apply s st doc /\ get_map s st' = get_map s st.
Proof.
  intros st st' Hw H. rewrite (step_roundtrip s mark_names node_names text_name text_in_range st Hw) in H.
  inversion H; subst. auto.
Qed.

(* lossless means injective: two well-formed values with the same JSON are the same value *)
Corollary C05_node_json_injective : forall n1 n2, node_wf s n1 -> node_wf s n2 ->
  node_to_json s n1 = node_to_json s n2 -> n1 = n2.
Proof.
  intros n1 n2 H1 H2 E. pose proof (C05_node_roundtrip n1 H1) as R1. pose proof (C05_node_roundtrip n2 H2) as R2.
  rewrite E in R1. rewrite R1 in R2. inversion R2. reflexivity.
Qed.

Corollary C05_slice_json_injective : forall a b, slice_wf s a -> slice_wf s b ->
  slice_to_json s a = slice_to_json s b -> a = b.
Proof.
  intros a b H1 H2 E. pose proof (C05_slice_roundtrip a H1) as R1. pose proof (C05_slice_roundtrip b H2) as R2.
  rewrite E in R1. rewrite R1 in R2. inversion R2. reflexivity.
Qed.

Corollary C05_step_json_injective : forall a b, step_wf s a -> step_wf s b ->
  step_to_json s a = step_to_json s b -> a = b.
Proof.
  intros a b H1 H2 E. pose proof (C05_step_roundtrip a H1) as R1. pose proof (C05_step_roundtrip b H2) as R2.
  rewrite E in R1. rewrite R1 in R2. inversion R2. reflexivity.
Qed.
End S.

Print Assumptions C05_mark_roundtrip.
Print Assumptions C05_node_roundtrip.
Print Assumptions C05_fragment_roundtrip.
Print Assumptions C05_slice_roundtrip.
Print Assumptions C05_step_roundtrip.
Print Assumptions C05_step_same_effect.
Print Assumptions C05_node_json_injective.
Print Assumptions C05_slice_json_injective.
Print Assumptions C05_step_json_injective.
