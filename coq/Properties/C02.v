(* C02 — replacing a range is exactly a splice of the flat token sequence.
   Tokens: Spec/Tokens.v (node open, node close, leaf, one token per UTF-16 text unit); a position is a
   token index.  [tnorm] maps the attribute values inside a token to a normal form in which Python's
   True/False are 1/0: two tokens are equal after [tnorm] exactly when the library's own `==` on nodes and
   marks would call them equal (marks_eqb / attrs_eqb; lemmas marks_eqb_norm, attrs_eqb_norm).
   The theorems hold for every schema, every valid document, every range and every slice whose open sides
   have the claimed depth ([Shape]: the first os first-children and the last oe last-children are non-leaf
   element nodes — true of every slice cut from a document).  What is not a theorem yet (cutting a slice,
   re-inserting a cut slice, the error class of refused replaces) is evaluated per case by Corr.C02. *)
From Coq Require Import List Arith Lia.
From PM Require Import Model.Data Model.Mark Model.Tree Spec.Tokens
  Proofs.ReplaceValid Proofs.SliceSides Proofs.TokenBasics Proofs.PathTokens Proofs.ReplaceTokens Proofs.SliceShape
  Proofs.SliceTokens Proofs.SliceCut Proofs.TokenInj Proofs.ReplaceCanon Proofs.DocEquality Proofs.ReplaceSafe.
Import ListNotations.

Theorem C02_replace_is_token_splice : forall s doc from to sl d',
  check s doc = true ->
  Shape s (sl_content sl) (sl_open_start sl) (sl_open_end sl) ->
  node_replace s doc from to sl = Ok d' ->
  exists content',
    d' = node_copy doc content' /\
    List.map tnorm (ftoks s content') =
      List.map tnorm (firstn from (ftoks s (node_content doc))) ++
      List.map tnorm (inner_toks s sl) ++
      List.map tnorm (skipn to (ftoks s (node_content doc))).
Proof. exact node_replace_toks. Qed.
Print Assumptions C02_replace_is_token_splice.

(* the size changes by (size of the slice) - (size of the range) *)
Theorem C02_replace_size : forall s doc from to sl d',
  check s doc = true ->
  Shape s (sl_content sl) (sl_open_start sl) (sl_open_end sl) ->
  node_replace s doc from to sl = Ok d' ->
  from <= frag_size s (node_content doc) /\ to <= frag_size s (node_content doc) /\
  frag_size s (node_content d') + to =
    frag_size s (node_content doc) + from +
    (frag_size s (sl_content sl) - sl_open_start sl - sl_open_end sl).
Proof.
  intros s doc from to sl d' Hd Hs H.
  destruct (node_replace_toks s doc from to sl d' Hd Hs H) as (X & -> & Ht).
  unfold node_replace in H.
  destruct (resolve s doc from) as [rf|] eqn:Ef; [|discriminate].
  destruct (resolve s doc to) as [rt|] eqn:Et; [|discriminate].
  destruct (resolve_tokens s _ _ _ Ef) as (Hlf & _). destruct (resolve_tokens s _ _ _ Et) as (Hlt & _).
  destruct (resolve_PathShape s _ _ _ Ef 0 doc) as (Hel & _).
  { destruct (resolve_spec s _ _ _ Ef) as (_ & _ & _ & (i & o & r & Hh) & _). unfold rp_node, path_at. rewrite Hh. reflexivity. }
  rewrite (node_copy_content _ _ Hel).
  unfold nt in Ht. apply (f_equal (@length tok)) in Ht. rewrite !app_length, !map_length in Ht.
  rewrite ftoks_length, firstn_length, skipn_length, ftoks_length in Ht.
  unfold inner_toks in Ht. rewrite firstn_length, skipn_length, ftoks_length in Ht.
  pose proof (Shape_size s _ _ _ Hs). lia.
Qed.
Print Assumptions C02_replace_size.

(* what it returns is valid (C01's theorem, for slices whose nodes off the open sides are valid) *)
Theorem C02_replace_returns_valid : forall s doc from to sl d',
  check s doc = true ->
  OpenOK s (sl_content sl) (sl_open_start sl) (sl_open_end sl) ->
  node_replace s doc from to sl = Ok d' -> check s d' = true.
Proof. exact node_replace_valid_open. Qed.
Print Assumptions C02_replace_returns_valid.

(* cutting: Node.slice(from, to) stands for exactly the tokens of the range, and its open sides have the
   depths it claims (the first open_start first-children and the last open_end last-children are opened
   non-leaf nodes) — for every document (valid or not), every from <= to *)
Theorem C02_slice_is_token_range : forall s doc from to sl,
  from <= to -> node_slice s doc from to = Ok sl ->
  Shape s (sl_content sl) (sl_open_start sl) (sl_open_end sl) /\
  inner_toks s sl = seg (ftoks s (node_content doc)) from to.
Proof. exact node_slice_toks. Qed.
Print Assumptions C02_slice_is_token_range.

(* normal form: no empty text node, no two adjacent text nodes with == marks, leaf nodes without content
   ([canon]; what Fragment.from_array, Node.replace and the schema's constructors produce).  Node.replace keeps
   it, and two documents in normal form with the same token sequence are equal by Node.eq (TokenInj). *)
Theorem C02_replace_keeps_normal_form : forall s doc from to sl d',
  canon s doc = true -> is_leaf_ty s (node_ty s doc) = false -> canon_list s (sl_content sl) = true ->
  node_replace s doc from to sl = Ok d' -> canon s d' = true.
Proof. exact node_replace_canon. Qed.
Print Assumptions C02_replace_keeps_normal_form.

(* re-inserting a slice where it was cut gives back an equal document (Node.eq), whenever the replace returns *)
Theorem C02_reinsert_cut_slice_gives_equal_document : forall s from to doc sl d',
  check s doc = true -> NormalDoc s doc -> from <= to ->
  node_slice s doc from to = Ok sl -> node_replace s doc from to sl = Ok d' ->
  node_eqb d' doc = true.
Proof. exact reinsert_cut_slice_eq. Qed.
Print Assumptions C02_reinsert_cut_slice_gives_equal_document.

(* "A replace that would not produce a well-formed, schema-valid tree raises the replace error instead of returning
   anything": for every element document, positions and slice, Node.replace either returns (a valid document, by
   C02_replace_returns_valid / C01) or raises ReplaceError - or ValueError for a position outside the document or a
   cut through a surrogate pair; it takes no other exit (no IndexError / AttributeError / assertion). *)
Theorem C02_replace_error_class : forall s doc from to sl e,
  is_elem doc -> node_replace s doc from to sl = Err e -> e = ErrReplace \/ e = ErrValue.
Proof. intros s doc from to sl e He H. exact (node_replace_NI s doc from to sl He e H). Qed.
Print Assumptions C02_replace_error_class.

(* the hypotheses are met by ordinary documents: the example document of Properties/C01.v *)
From PM Require Properties.C01.
Example C02_normal_form_example :
  check Properties.C01.ex_schema Properties.C01.ex_doc = true /\ NormalDoc Properties.C01.ex_schema Properties.C01.ex_doc /\
  canon_list Properties.C01.ex_schema (sl_content Properties.C01.ex_slice) = true.
Proof. split; [vm_compute; reflexivity|]. split; [split; vm_compute; reflexivity|vm_compute; reflexivity]. Qed.

(* ---- WHEN Node.replace succeeds, for the commonest shape of edit ----
   A closed, non-empty slice put between two positions that lie in the same parent node (same depth, same ancestors: typing,
   pasting closed content, replacing a selection inside one textblock or container).  [a] / [b]: the parent's children before
   / after the range, as Fragment.cut gives them (that the two cuts succeed says the positions do not split a surrogate
   pair).  Node.replace returns a document EXACTLY WHEN the parent's new child sequence - a, the slice's content, b, with
   adjacent equally-marked text merged - is valid content for the parent's type; when it is not, it raises ReplaceError and
   nothing else. *)
From Coq Require Import NArith.
From PM Require Import Proofs.ReplaceSafe Proofs.ReplaceSuccess.
Theorem C02_flat_closed_replace_succeeds_iff_valid : forall s doc from to sl rf rt parent a b,
  (exists ty at_ m cs, doc = Elem ty at_ m cs) ->
  resolve s doc from = Ok rf -> resolve s doc to = Ok rt -> from <= to ->
  rp_depth rf = rp_depth rt -> (forall d, d < rp_depth rf -> rp_index rf d = rp_index rt d) ->
  sl_open_start sl = 0 -> sl_open_end sl = 0 -> frag_size s (sl_content sl) <> 0 ->
  rp_parent rf = Ok parent ->
  frag_cut s (node_content parent) 0 (rp_parent_offset rf) = Ok a ->
  frag_cut s (node_content parent) (rp_parent_offset rt) (frag_size s (node_content parent)) = Ok b ->
  ((exists d', node_replace s doc from to sl = Ok d') <->
   valid_content s (node_ty s parent) (frag_append (frag_append a (sl_content sl)) b) = true) /\
  (forall e, node_replace s doc from to sl = Err e -> e = ErrReplace).
Proof. exact flat_closed_replace. Qed.
Print Assumptions C02_flat_closed_replace_succeeds_iff_valid.

(* ... and deleting a range inside one parent node.  [remaining]: the parent's children before the range, the part of a
   text node in front of `from` (ResolvedPos.node_before), the part of a text node behind `to` (node_after), the children
   after the range - appended one by one, equally-marked adjacent text merged (what replace_two_way builds).  Node.replace
   with the empty slice returns a document exactly when that child sequence is valid content for the parent's type;
   otherwise it raises ReplaceError and nothing else.  (That node_before / node_after succeed says the positions do not
   split a surrogate pair.) *)
Theorem C02_flat_delete_succeeds_iff_valid : forall s doc from to rf rt parent i j nb na,
  (exists ty at_ m cs, doc = Elem ty at_ m cs) ->
  resolve s doc from = Ok rf -> resolve s doc to = Ok rt -> from <= to ->
  rp_depth rf = rp_depth rt -> (forall d, d < rp_depth rf -> rp_index rf d = rp_index rt d) ->
  rp_parent rf = Ok parent ->
  rp_index rf (rp_depth rf) = Ok i -> rp_index rt (rp_depth rf) = Ok j ->
  rp_node_before s rf = Ok nb -> rp_node_after s rt = Ok na ->
  ((exists d', node_replace s doc from to (SL [] 0 0) = Ok d') <->
   valid_content s (node_ty s parent) (remaining parent rf rt i j nb na) = true) /\
  (forall e, node_replace s doc from to (SL [] 0 0) = Err e -> e = ErrReplace).
Proof. exact flat_delete. Qed.
Print Assumptions C02_flat_delete_succeeds_iff_valid.

(* the hypotheses are met: typing "x" between "a" and "b" in the first paragraph of the example document *)
Example C02_flat_replace_example :
  let s := Properties.C01.ex_schema in let doc := Properties.C01.ex_doc in
  let sl := SL [Text [120%N] []] 0 0 in
  exists rf parent a b,
    resolve s doc 2 = Ok rf /\ rp_parent rf = Ok parent /\
    frag_cut s (node_content parent) 0 (rp_parent_offset rf) = Ok a /\
    frag_cut s (node_content parent) (rp_parent_offset rf) (frag_size s (node_content parent)) = Ok b /\
    valid_content s (node_ty s parent) (frag_append (frag_append a (sl_content sl)) b) = true /\
    exists d', node_replace s doc 2 2 sl = Ok d'.
Proof.
  cbv zeta. eexists. eexists. eexists. eexists.
  split; [vm_compute; reflexivity|]. split; [vm_compute; reflexivity|]. split; [vm_compute; reflexivity|].
  split; [vm_compute; reflexivity|]. split; [vm_compute; reflexivity|]. eexists. vm_compute. reflexivity.
Qed.

(* ... and deleting "a" (positions 1..2) from the first paragraph of the example document *)
Example C02_flat_delete_example :
  let s := Properties.C01.ex_schema in let doc := Properties.C01.ex_doc in
  exists rf rt parent i j nb na,
    resolve s doc 1 = Ok rf /\ resolve s doc 2 = Ok rt /\ rp_parent rf = Ok parent /\
    rp_depth rf = rp_depth rt /\ (forall d, d < rp_depth rf -> rp_index rf d = rp_index rt d) /\
    rp_index rf (rp_depth rf) = Ok i /\ rp_index rt (rp_depth rf) = Ok j /\
    rp_node_before s rf = Ok nb /\ rp_node_after s rt = Ok na /\
    valid_content s (node_ty s parent) (remaining parent rf rt i j nb na) = true /\
    exists d', node_replace s doc 1 2 (SL [] 0 0) = Ok d'.
Proof.
  cbv zeta. do 7 eexists.
  split; [vm_compute; reflexivity|]. split; [vm_compute; reflexivity|]. split; [vm_compute; reflexivity|].
  split; [vm_compute; reflexivity|]. split.
  - intros d Hd. vm_compute in Hd. destruct d as [|d]; [vm_compute; reflexivity|]. exfalso. vm_compute in Hd. lia.
  - split; [vm_compute; reflexivity|]. split; [vm_compute; reflexivity|]. split; [vm_compute; reflexivity|].
    split; [vm_compute; reflexivity|]. split; [vm_compute; reflexivity|]. eexists. vm_compute. reflexivity.
Qed.
