(* C02 — placeholder until the keystone theorems land; see DESIGN.md *)
From PM Require Import Model.Tree Spec.Tokens.
