(* A resolved position is a token index: the tokens before the position are exactly the tokens the path
   leaves on its left, the tokens after it the ones on its right (the core of C09, and the basis of the
   splice theorem for replace). *)
From Coq Require Import ZArith NArith List Bool Arith Lia.
From PM Require Import Model.Data Model.Mark Model.Tree Spec.Tokens Proofs.DataProofs Proofs.NodeInd
  Proofs.ReplaceValid Proofs.SliceSides Proofs.TokenBasics.
Import ListNotations.

Section WithSchema.
Variable s : schema.
Notation nsize := (node_size s).
Notation fsize := (frag_size s).
Notation toks := (toks s).
Notation ftoks := (ftoks s).
Notation entry := (node * nat * nat)%type.

Definition open_tok (n : node) : tok :=
  match n with Elem ty a m _ => TOpen ty a m | Text _ m => TChar (UBmp 0%N) m end.

(* tokens of the head node's content on the left of the position the path leads to *)
Fixpoint before_p (path : list entry) (toff : nat) {struct path} : list tok :=
  match path with
  | [] => []
  | (n, i, _) :: rest =>
    ftoks (firstn i (node_content n)) ++
    match rest with
    | [] => match nth_error (node_content n) i with Some c => firstn toff (toks c) | None => [] end
    | (c, _, _) :: _ => open_tok c :: before_p rest toff
    end
  end.
(* ... and on its right *)
Fixpoint after_p (path : list entry) (toff : nat) {struct path} : list tok :=
  match path with
  | [] => []
  | (n, i, _) :: rest =>
    match rest with
    | [] => match nth_error (node_content n) i with
            | Some c => skipn toff (toks c) ++ ftoks (skipn (S i) (node_content n))
            | None => []
            end
    | _ :: _ => after_p rest toff ++ [TClose] ++ ftoks (skipn (S i) (node_content n))
    end
  end.

Definition last_off (path : list entry) : nat :=
  match last_entry path with Some (_, _, o) => o | None => 0 end.

Lemma firstn_app_exact {A} (a b : list A) n : n = length a -> firstn n (a ++ b) = a.
Proof. intros ->. rewrite firstn_app, Nat.sub_diag, firstn_all. cbn. apply app_nil_r. Qed.
Lemma skipn_app_exact {A} (a b : list A) n : n = length a -> skipn n (a ++ b) = b.
Proof. intros ->. rewrite skipn_app, Nat.sub_diag, skipn_all. reflexivity. Qed.
Lemma firstn_app_in {A} (a b : list A) n : length a <= n -> firstn n (a ++ b) = a ++ firstn (n - length a) b.
Proof. intros H. rewrite firstn_app. rewrite firstn_all2 by lia. reflexivity. Qed.
Lemma skipn_app_in {A} (a b : list A) n : length a <= n -> skipn n (a ++ b) = skipn (n - length a) b.
Proof. intros H. rewrite skipn_app. rewrite skipn_all2 by lia. reflexivity. Qed.

Lemma firstn_length_app pre (c : node) r :
  firstn (length pre) (pre ++ c :: r) = pre /\ nth_error (pre ++ c :: r) (length pre) = Some c /\
  skipn (S (length pre)) (pre ++ c :: r) = r.
Proof.
  split; [apply firstn_app_exact; reflexivity|]. split; [apply nth_error_app_len|].
  change (c :: r) with ([c] ++ r). rewrite app_assoc. apply skipn_app_exact. rewrite app_length. cbn. lia.
Qed.

Lemma last_entry_single e : last_entry [e] = Some e.
Proof. reflexivity. Qed.

Theorem resolve_in_tokens : forall n po start path po',
  resolve_in s n po start = Ok (path, po') ->
  po <= fsize (node_content n) /\
  last_off path <= start + po /\
  before_p path (start + po - last_off path) = firstn po (ftoks (node_content n)) /\
  after_p path (start + po - last_off path) = skipn po (ftoks (node_content n)).
Proof.
  induction n as [t m|ty a m cs IH] using node_ind2; intros po start path po' H; [discriminate|].
  rewrite resolve_in_unfold in H. destruct (po =? 0) eqn:Ez.
  { apply Nat.eqb_eq in Ez. subst po. inversion H; subst. unfold last_off. rewrite last_entry_single.
    rewrite Nat.add_0_r, Nat.sub_diag. cbn [before_p after_p node_content firstn skipn app].
    split; [lia|]. split; [lia|]. split; [destruct (nth_error cs 0); reflexivity|].
    destruct cs as [|c r]; reflexivity. }
  apply Nat.eqb_neq in Ez. set (n := Elem ty a m cs) in *. cbn [node_content].
  assert (G : forall l pre, cs = pre ++ l -> fsize pre < po ->
              rwalk s n po start l (length pre) (fsize pre) = Ok (path, po') ->
              po <= fsize cs /\ last_off path <= start + po /\
              before_p path (start + po - last_off path) = firstn po (ftoks cs) /\
              after_p path (start + po - last_off path) = skipn po (ftoks cs)).
  { clear H. induction l as [|c r IHl]; intros pre Hcs Hcur H; [discriminate|]. cbn [rwalk] in H. cbv zeta in H.
    assert (Hft : ftoks cs = ftoks pre ++ toks c ++ ftoks r) by (rewrite Hcs, ftoks_app; reflexivity).
    assert (Hfs : fsize cs = fsize pre + nsize c + fsize r) by (rewrite Hcs, frag_size_app; cbn [frag_size]; lia).
    destruct (firstn_length_app pre c r) as (Hfi & Hnth & Hsk). rewrite <- Hcs in Hfi, Hnth, Hsk.
    pose proof (ftoks_length s pre) as Hlp. pose proof (toks_length s c) as Hlc.
    destruct (fsize pre + nsize c =? po) eqn:E1.
    - apply Nat.eqb_eq in E1. inversion H; subst path po'. unfold last_off. rewrite last_entry_single.
      replace (start + po - (start + (fsize pre + nsize c))) with 0 by lia.
      cbn [before_p after_p node_content]. unfold n. cbn [node_content].
      assert (Hcs2 : cs = (pre ++ [c]) ++ r) by (rewrite <- app_assoc; exact Hcs).
      assert (Hl2 : length (pre ++ [c]) = S (length pre)) by (rewrite app_length; cbn; lia).
      assert (Hf2 : firstn (S (length pre)) cs = pre ++ [c]) by (rewrite Hcs2; apply firstn_app_exact; auto).
      split; [lia|]. split; [lia|]. rewrite Hf2, ftoks_app. cbn [Tokens.ftoks]. rewrite app_nil_r.
      split.
      + replace (match nth_error cs (S (length pre)) with Some c0 => firstn 0 (toks c0) | None => [] end) with (@nil tok)
          by (destruct (nth_error cs (S (length pre))); reflexivity).
        rewrite app_nil_r, Hft, app_assoc. symmetry. apply firstn_app_exact. rewrite app_length. lia.
      + rewrite Hft, app_assoc. rewrite skipn_app_exact by (rewrite app_length; lia).
        destruct r as [|c2 r2] eqn:Er.
        * assert (Hn2 : nth_error cs (S (length pre)) = None).
          { apply nth_error_None. rewrite Hcs2, app_nil_r. lia. }
          rewrite Hn2. reflexivity.
        * assert (Hn2 : nth_error cs (S (length pre)) = Some c2).
          { rewrite Hcs2, <- Hl2. apply nth_error_app_len. }
          rewrite Hn2.
          assert (Hs2 : skipn (S (S (length pre))) cs = r2).
          { rewrite Hcs2. change (c2 :: r2) with ([c2] ++ r2). rewrite app_assoc. apply skipn_app_exact.
            rewrite !app_length. cbn. lia. }
          rewrite Hs2. reflexivity.
    - apply Nat.eqb_neq in E1. destruct (po <? fsize pre + nsize c) eqn:E2.
      + apply Nat.ltb_lt in E2. destruct c as [t0 m0|ty1 a1 m1 cs1].
        * inversion H; subst path po'. unfold last_off. rewrite last_entry_single.
          replace (start + po - (start + fsize pre)) with (po - fsize pre) by lia.
          cbn [before_p after_p]. unfold n. cbn [node_content]. rewrite Hfi, Hnth, Hsk.
          split; [lia|]. split; [lia|]. rewrite Hft. split.
          -- rewrite firstn_app_in by lia. rewrite Hlp. f_equal. rewrite firstn_app. 
             replace (po - fsize pre - length (toks (Text t0 m0))) with 0 by lia. cbn [firstn]. rewrite app_nil_r. reflexivity.
          -- rewrite skipn_app_in by lia. rewrite Hlp. rewrite skipn_app.
             replace (po - fsize pre - length (toks (Text t0 m0))) with 0 by lia. reflexivity.
        * destruct (resolve_in s (Elem ty1 a1 m1 cs1) (po - fsize pre - 1) (start + fsize pre + 1)) as [[p1 pp1]|] eqn:E; [|discriminate].
          cbn [bind fst snd] in H. inversion H; subst path po'. clear H.
          assert (Hin : In (Elem ty1 a1 m1 cs1) cs) by (rewrite Hcs; apply in_or_app; right; left; reflexivity).
          destruct (IH _ Hin _ _ _ _ E) as (Hpo1 & Hlo1 & Hb1 & Ha1). cbn [node_content] in *.
          destruct (resolve_in_spec s _ _ _ _ _ E) as ((i1 & o1 & rest1 & Hp1) & _ & _).
          assert (Hnl : is_leaf_ty s ty1 = false).
          { pose proof (node_size_elem s ty1 a1 m1 cs1) as Hs. destruct (is_leaf_ty s ty1); [|reflexivity]. lia. }
          assert (Htk : toks (Elem ty1 a1 m1 cs1) = TOpen ty1 a1 m1 :: ftoks cs1 ++ [TClose])
            by (rewrite toks_elem, Hnl; reflexivity).
          assert (Hlast : last_off ((n, length pre, start + fsize pre) :: p1) = last_off p1).
          { unfold last_off. rewrite last_entry_cons by (rewrite Hp1; discriminate). reflexivity. }
          rewrite Hlast.
          replace (start + fsize pre + 1 + (po - fsize pre - 1)) with (start + po) in * by lia.
          pose proof (ftoks_length s cs1) as Hl1.
          remember (po - fsize pre - 1) as k eqn:Hk. assert (Hpk : po - fsize pre = S k) by lia.
          split; [lia|]. split; [lia|]. rewrite Hft, Htk. split.
          -- cbn [before_p]. unfold n at 1. cbn [node_content]. rewrite Hfi, Hp1. rewrite <- Hp1. rewrite Hb1.
             cbn [open_tok]. rewrite firstn_app_in by lia. rewrite Hlp. f_equal.
             rewrite Hpk. cbn [app firstn]. f_equal.
             rewrite firstn_app. replace (k - length (ftoks cs1 ++ [TClose])) with 0
               by (rewrite app_length; cbn; lia).
             cbn [firstn]. rewrite app_nil_r. rewrite firstn_app.
             replace (k - length (ftoks cs1)) with 0 by lia. cbn [firstn]. rewrite app_nil_r. reflexivity.
          -- cbn [after_p]. rewrite Hp1. rewrite <- Hp1. rewrite Ha1. unfold n. cbn [node_content]. rewrite Hsk.
             rewrite skipn_app_in by lia. rewrite Hlp.
             rewrite Hpk. cbn [app skipn].
             rewrite <- app_assoc. rewrite skipn_app.
             replace (k - length (ftoks cs1)) with 0 by lia. cbn [skipn]. reflexivity.
      + apply Nat.ltb_ge in E2.
        assert (Hl2 : length (pre ++ [c]) = S (length pre)) by (rewrite app_length; cbn; lia).
        assert (Hf2 : fsize (pre ++ [c]) = fsize pre + nsize c) by (rewrite frag_size_app; cbn [frag_size]; lia).
        apply (IHl (pre ++ [c])).
        * rewrite <- app_assoc. exact Hcs.
        * lia.
        * rewrite Hl2, Hf2. exact H. }
  apply (G cs []); auto. cbn. lia.
Qed.

(* every position 0..size resolves *)
Theorem resolve_in_total : forall n po start,
  is_elem n -> po <= fsize (node_content n) -> exists r, resolve_in s n po start = Ok r.
Proof.
  induction n as [t m|ty a m cs IH] using node_ind2; intros po start Hel Hpo.
  { destruct Hel as (? & ? & ? & ? & Hx). discriminate. }
  cbn [node_content] in Hpo. rewrite resolve_in_unfold. destruct (po =? 0) eqn:Ez; [eauto|].
  apply Nat.eqb_neq in Ez. set (n := Elem ty a m cs).
  assert (G : forall l i cur, (forall c, In c l -> In c cs) -> cur < po -> po <= cur + fsize l ->
              exists r, rwalk s n po start l i cur = Ok r).
  { induction l as [|c r IHl]; intros i cur Hin Hcur Hle; [cbn [frag_size] in Hle; lia|].
    cbn [rwalk]. cbn [frag_size] in Hle. cbv zeta.
    destruct (cur + nsize c =? po) eqn:E1; [eauto|]. apply Nat.eqb_neq in E1.
    destruct (po <? cur + nsize c) eqn:E2.
    - apply Nat.ltb_lt in E2. destruct c as [t0 m0|ty1 a1 m1 cs1]; [eauto|].
      assert (Hnl : is_leaf_ty s ty1 = false).
      { pose proof (node_size_elem s ty1 a1 m1 cs1) as Hs. destruct (is_leaf_ty s ty1); [|reflexivity]. lia. }
      pose proof (node_size_elem s ty1 a1 m1 cs1) as Hs. rewrite Hnl in Hs.
      destruct (IH _ (Hin _ (or_introl eq_refl)) (po - cur - 1) (start + cur + 1)) as ([p1 q1] & Hr);
        [unfold is_elem; eauto|cbn [node_content]; lia|].
      rewrite Hr. cbn [bind]. eauto.
    - apply Nat.ltb_ge in E2. apply IHl; [intros c0 Hc0; apply Hin; right; exact Hc0|lia|lia]. }
  apply (G cs 0 0); auto; lia.
Qed.

Theorem resolve_total doc pos :
  is_elem doc -> pos <= fsize (node_content doc) -> exists r, resolve s doc pos = Ok r.
Proof.
  intros Hel Hpos. unfold resolve. replace (fsize (node_content doc) <? pos) with false by (symmetry; apply Nat.ltb_ge; lia).
  destruct (resolve_in_total doc pos 0 Hel Hpos) as ([p q] & Hr). rewrite Hr. cbn [bind]. eauto.
Qed.

End WithSchema.
