(* NodeType.create_and_fill (C15): whatever it returns is a node of the asked type whose children are filler nodes,
   the given content (untouched, in order), filler nodes; the children match the type's content expression up to a
   valid end; the filler nodes are valid, unmarked, generatable; so the node is schema-valid as soon as the given
   content is. *)
From Coq Require Import List Bool Arith Lia.
From PM Require Import Model.Data Model.Mark Model.Tree Model.Step Model.Fill Proofs.ValidityProofs Proofs.FillProofs.
Import ListNotations.

Section WithSchema.
Variable s : schema.
Hypothesis Hdet : det_schema s = true.
Notation valid := (valid s).
Notation start ty := (nt_start (ntype_of s ty)).

Definition NonText (n : node) : Prop := node_is_text n = false.

(* what fill_before puts in: a valid, unmarked element of a generatable type *)
Definition Filler (k : node) : Prop :=
  valid k = true /\ NonText k /\ node_marks k = [] /\ generatable s (node_ty s k) = true.

Lemma from_array_nontext l : Forall NonText l -> from_array l = l.
Proof.
  unfold from_array. induction l as [|x l IH]; intros H; [reflexivity|]. inversion H as [|? ? Hx Hl]; subst.
  cbn [fold_right]. rewrite (IH Hl). destruct x; [discriminate Hx|reflexivity].
Qed.

Lemma frag_append_nontext_r a b : Forall NonText b -> frag_append a b = a ++ b.
Proof.
  intros H. unfold frag_append. destruct b as [|f b']; [rewrite app_nil_r; reflexivity|].
  destruct a as [|x a']; [reflexivity|]. inversion H as [|? ? Hf _]; subst.
  destruct (last (x :: a') f); [|reflexivity]. destruct f; [discriminate Hf|reflexivity].
Qed.

Lemma frag_append_nontext_l a b : Forall NonText a -> frag_append a b = a ++ b.
Proof.
  intros H. unfold frag_append. destruct b as [|f b']; [rewrite app_nil_r; reflexivity|].
  destruct a as [|x a']; [reflexivity|].
  assert (Hl : NonText (last (x :: a') f)).
  { assert (G : forall l d, Forall NonText l -> l <> [] -> NonText (last l d)).
    { induction l as [|y l IHl]; intros d Hf Hne; [congruence|]. inversion Hf; subst. destruct l as [|z l']; [assumption|].
      change (last (y :: z :: l') d) with (last (z :: l') d). apply IHl; [assumption|discriminate]. }
    apply G; [exact H|discriminate]. }
  destruct (last (x :: a') f); [discriminate Hl|reflexivity].
Qed.

Lemma allows_marks_nil ty : allows_marks s ty [] = true.
Proof. unfold allows_marks. destruct (nt_markset (ntype_of s ty)); reflexivity. Qed.

(* the kids loop of create_and_fill0 / fill_nodes *)
Definition kids_go (f : nat -> res (option node)) :=
  fix go (l : list nat) : res (list node) :=
    match l with
    | [] => Ok []
    | t :: r => do n <- f t; match n with None => Err ErrInternal | Some x => do rest <- go r; Ok (x :: rest) end
    end.

Lemma kids_go_spec f : forall tys kids, kids_go f tys = Ok kids -> Forall2 (fun t k => f t = Ok (Some k)) tys kids.
Proof.
  induction tys as [|t r IH]; intros kids H; cbn [kids_go] in H.
  - inversion H. constructor.
  - destruct (f t) as [[x|]|] eqn:E; try discriminate. cbn [bind] in H.
    destruct (kids_go f r) as [rest|] eqn:Er; [|discriminate]. cbn [bind] in H. inversion H; subst kids.
    constructor; [exact E|apply IH; reflexivity].
Qed.

Lemma all_valid_forall l : (fix all (l : list node) : bool := match l with [] => true | c :: r => valid c && all r end) l = true <->
  Forall (fun c => valid c = true) l.
Proof.
  induction l as [|c r IH]; [split; [constructor|reflexivity]|]. rewrite andb_true_iff, IH. split.
  - intros [H1 H2]. constructor; assumption.
  - intros H. inversion H; subst. auto.
Qed.

Lemma fill_finished_end q tys : fill_before_types s q [] true 0 = Some tys ->
  forallb (generatable s) tys = true /\ exists q1, match_types s q tys = Some q1 /\ valid_end s q1 = true.
Proof.
  intros H. destruct (fill_before_types_sound s Hdet _ _ _ _ _ H) as (Hg & q1 & Hm & Hf). split; [exact Hg|].
  exists q1. split; [exact Hm|]. unfold finished, match_fragment in Hf. cbn in Hf. exact Hf.
Qed.

Theorem create_and_fill0_filler : forall fuel ty n,
  generatable s ty = true -> create_and_fill0 s fuel ty = Ok (Some n) -> Filler n /\ node_ty s n = ty.
Proof.
  induction fuel as [|f IH]; intros ty n Hgen H; [discriminate|]. cbn [create_and_fill0] in H.
  destruct (compute_attrs (nt_attrs (ntype_of s ty)) []) as [attrs|]; [|discriminate]. cbn [bind] in H.
  destruct (fill_before_types s (start ty) [] true 0) as [tys|] eqn:Ef; [|discriminate].
  change ((fix go (l : list nat) : res (list node) := match l with [] => Ok [] | t :: r =>
            do n <- create_and_fill0 s f t; match n with None => Err ErrInternal | Some x => do rest <- go r; Ok (x :: rest) end end) tys)
    with (kids_go (create_and_fill0 s f) tys) in H.
  destruct (kids_go (create_and_fill0 s f) tys) as [kids|] eqn:Ek; [|discriminate]. cbn [bind] in H. inversion H; subst n. clear H.
  destruct (fill_finished_end _ _ Ef) as (Hg & q1 & Hm & Hv).
  pose proof (kids_go_spec _ _ _ Ek) as HF.
  assert (Hk : Forall (fun k => Filler k) kids /\ types_of s kids = tys).
  { clear Ek Ef Hm. revert Hg. induction HF as [|t k tys' kids' Hc _ IHF]; intros Hg; [split; [constructor|reflexivity]|].
    cbn [forallb] in Hg. apply andb_prop in Hg. destruct Hg as [Hg1 Hg2]. destruct (IH _ _ Hg1 Hc) as (Hfk & Hty).
    destruct (IHF Hg2) as (H1 & H2). split; [constructor; assumption|]. cbn [types_of List.map]. unfold types_of in H2. rewrite H2, Hty. reflexivity. }
  destruct Hk as (Hfill & Htys).
  assert (Hnt : Forall NonText kids) by (eapply Forall_impl; [|exact Hfill]; intros k (_ & Hn & _); exact Hn).
  rewrite (from_array_nontext _ Hnt). split; [|reflexivity]. split; [|split; [reflexivity|split; [reflexivity|exact Hgen]]].
  cbn [ValidityProofs.valid]. apply andb_true_iff. split; [apply andb_true_iff; split|].
  - unfold valid_children. apply andb_true_iff. split.
    + unfold accepts. rewrite Htys, Hm. exact Hv.
    + apply forallb_forall. intros k Hin. rewrite Forall_forall in Hfill. destruct (Hfill k Hin) as (_ & _ & Hm0 & _).
      rewrite Hm0. apply allows_marks_nil.
  - reflexivity.
  - apply all_valid_forall. eapply Forall_impl; [|exact Hfill]. intros k (Hvk & _). exact Hvk.
Qed.

Lemma fill_before_fillers fuel q after te st l :
  fill_before s fuel q after te st = Ok (Some l) ->
  exists tys, fill_before_types s q after te st = Some tys /\ Forall Filler l /\ types_of s l = tys.
Proof.
  unfold fill_before. destruct (fill_before_types s q after te st) as [tys|] eqn:Ef; [|discriminate].
  unfold fill_nodes.
  change ((fix go (l : list nat) : res (list node) := match l with [] => Ok [] | t :: r =>
            do n <- create_and_fill0 s fuel t; match n with None => Err ErrInternal | Some x => do rest <- go r; Ok (x :: rest) end end) tys)
    with (kids_go (create_and_fill0 s fuel) tys).
  destruct (kids_go (create_and_fill0 s fuel) tys) as [kids|] eqn:Ek; [|discriminate]. cbn [bind]. intros H. inversion H; subst l. clear H.
  destruct (fill_before_types_sound s Hdet _ _ _ _ _ Ef) as (Hg & _).
  pose proof (kids_go_spec _ _ _ Ek) as HF.
  assert (Hk : Forall Filler kids /\ types_of s kids = tys).
  { clear Ek Ef. revert Hg. induction HF as [|t k tys' kids' Hc _ IHF]; intros Hg; [split; [constructor|reflexivity]|].
    cbn [forallb] in Hg. apply andb_prop in Hg. destruct Hg as [Hg1 Hg2]. destruct (create_and_fill0_filler _ _ _ Hg1 Hc) as (Hfk & Hty).
    destruct (IHF Hg2) as (H1 & H2). split; [constructor; assumption|]. cbn [types_of List.map]. unfold types_of in H2. rewrite H2, Hty. reflexivity. }
  destruct Hk as (Hfill & Htys).
  assert (Hnt : Forall NonText kids) by (eapply Forall_impl; [|exact Hfill]; intros k (_ & Hn & _); exact Hn).
  rewrite (from_array_nontext _ Hnt). exists tys. auto.
Qed.

(* NodeType.create_and_fill(attrs, content, marks) *)
Lemma cf_tail fuel ty attrs ms bf content n :
  Forall Filler bf ->
  match match_fragment s (start ty) (bf ++ content) 0 (length (bf ++ content)) with
  | None => Ok None
  | Some matched => do after <- fill_before s fuel matched [] true 0;
                    match after with None => Ok None
                    | Some af => Ok (Some (Elem ty attrs (set_from ms) (frag_append (bf ++ content) af))) end
  end = Ok (Some n) ->
  exists af, n = Elem ty attrs (set_from ms) (bf ++ content ++ af) /\ Forall Filler af /\
             accepts s (start ty) (types_of s (bf ++ content ++ af)) = true.
Proof.
  intros Hbf H. destruct (match_fragment s (start ty) (bf ++ content) 0 (length (bf ++ content))) as [matched|] eqn:Em; [|discriminate].
  destruct (fill_before s fuel matched [] true 0) as [[af|]|] eqn:Ea; try discriminate. cbn [bind] in H. inversion H; subst n. clear H.
  destruct (fill_before_fillers _ _ _ _ _ _ Ea) as (tys & Eft & Haf & Htys).
  destruct (fill_finished_end _ _ Eft) as (_ & q1 & Hm & Hv).
  assert (Hnt : Forall NonText af) by (eapply Forall_impl; [|exact Haf]; intros k (_ & Hn & _); exact Hn).
  rewrite (frag_append_nontext_r _ af Hnt), <- app_assoc.
  exists af. split; [reflexivity|]. split; [exact Haf|].
  unfold accepts. rewrite app_assoc, types_of_app, match_types_app.
  unfold match_fragment in Em. rewrite Nat.sub_0_r, firstn_all in Em. cbn [skipn] in Em. rewrite Em, Htys, Hm. exact Hv.
Qed.

Theorem create_and_fill_spec fuel ty a content ms n :
  create_and_fill s fuel ty a content ms = Ok (Some n) ->
  exists attrs bf af,
    compute_attrs (nt_attrs (ntype_of s ty)) a = Ok attrs /\
    n = Elem ty attrs (set_from ms) (bf ++ content ++ af) /\
    Forall Filler bf /\ Forall Filler af /\
    accepts s (start ty) (types_of s (bf ++ content ++ af)) = true.
Proof.
  unfold create_and_fill. destruct (compute_attrs (nt_attrs (ntype_of s ty)) a) as [attrs|]; [|discriminate]. cbn [bind].
  intros H. destruct (frag_size s content =? 0).
  - cbn [bind] in H. destruct (cf_tail fuel ty attrs ms [] content n (Forall_nil _) H) as (af & E & Haf & Hacc).
    exists attrs, [], af. auto.
  - destruct (fill_before s fuel (start ty) content false 0) as [[bf|]|] eqn:Eb; try discriminate. cbn [bind] in H.
    destruct (fill_before_fillers _ _ _ _ _ _ Eb) as (tys & _ & Hfb & _).
    rewrite (frag_append_nontext_l bf content) in H by (eapply Forall_impl; [|exact Hfb]; intros k (_ & Hn & _); exact Hn).
    destruct (cf_tail fuel ty attrs ms bf content n Hfb H) as (af & E & Haf & Hacc).
    exists attrs, bf, af. auto.
Qed.

Theorem create_and_fill_valid fuel ty a content ms n :
  create_and_fill s fuel ty a content ms = Ok (Some n) ->
  Forall (fun c => valid c = true /\ allows_marks s ty (node_marks c) = true) content ->
  marks_canonical s (set_from ms) = true ->
  valid n = true.
Proof.
  intros H Hc Hms. destruct (create_and_fill_spec _ _ _ _ _ _ H) as (attrs & bf & af & _ & -> & Hbf & Haf & Hacc).
  cbn [ValidityProofs.valid]. apply andb_true_iff. split; [apply andb_true_iff; split|].
  - unfold valid_children. apply andb_true_iff. split; [exact Hacc|]. apply forallb_forall. intros k Hin.
    apply in_app_or in Hin. rewrite Forall_forall in Hbf, Haf, Hc. destruct Hin as [Hin|Hin].
    + destruct (Hbf k Hin) as (_ & _ & E & _). rewrite E. apply allows_marks_nil.
    + apply in_app_or in Hin. destruct Hin as [Hin|Hin]; [exact (proj2 (Hc k Hin))|].
      destruct (Haf k Hin) as (_ & _ & E & _). rewrite E. apply allows_marks_nil.
  - exact Hms.
  - apply all_valid_forall. apply Forall_app. split; [eapply Forall_impl; [|exact Hbf]; intros k (Hv & _); exact Hv|].
    apply Forall_app. split; [eapply Forall_impl; [|exact Hc]; intros k (Hv & _); exact Hv|].
    eapply Forall_impl; [|exact Haf]. intros k (Hv & _). exact Hv.
Qed.

End WithSchema.
