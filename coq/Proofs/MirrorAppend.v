(* Mapping.append_mapping / append_mapping_inverted: which mirror pairs the result holds (C08).  The maps are those of
   [self] followed by those of [other] (resp. the inverses of [other]'s maps in reverse order); every mirror pair of
   [other] reappears, re-based to the new indices, and nothing else is registered. *)
From Coq Require Import ZArith List Bool Lia ZifyBool.
From PM Require Import Model.StepMap Proofs.StepMapProofs Proofs.StepMapProofs2.
Import ListNotations.
Open Scope Z_scope.

(* ------------------------------------------------------------------ generic part
   [gm]: a mirror lookup on indices 0 .. len-1; the pairs registered while appending maps number j0, j0+1, ... *)
Section Generic.
Variable gm : Z -> option Z.
Variable len : Z.

Definition fwd_pair (ss i : Z) : list (Z * Z) :=
  match gm i with
  | Some k => if k <? i then [(ss + i, ss + k)] else []
  | None => []
  end.

Fixpoint fwd_pairs (ss i : Z) (n : nat) : list (Z * Z) :=
  match n with O => [] | S n' => fwd_pair ss i ++ fwd_pairs ss (i + 1) n' end.

Definition GmWF : Prop :=
  forall a b, gm a = Some b -> gm b = Some a /\ a <> b /\ 0 <= a < len /\ 0 <= b < len.

Definition expect (ss j0 i : Z) : option Z :=
  match gm i with
  | Some k => if k <? i then (if j0 <=? i then Some (ss + k) else None)
              else (if j0 <=? k then Some (ss + k) else None)
  | None => None
  end.

Lemma fwd_pairs_lookup ss i : GmWF -> 0 <= i < len ->
  forall n j0, 0 <= j0 -> j0 + Z.of_nat n = len ->
  get_mirror_go (fwd_pairs ss j0 n) (ss + i) = expect ss j0 i.
Proof.
  intros WF Hi. induction n as [|n IH]; intros j0 Hj0 Hlen; cbn [fwd_pairs].
  - unfold expect. cbn [get_mirror_go].
    destruct (gm i) as [k|] eqn:Ek; [|reflexivity]. destruct (WF _ _ Ek) as (_ & _ & _ & Hk).
    destruct (k <? i); [assert (E : (j0 <=? i) = false) by lia|assert (E : (j0 <=? k) = false) by lia]; rewrite E; reflexivity.
  - specialize (IH (j0 + 1) ltac:(lia) ltac:(lia)).
    unfold fwd_pair. destruct (gm j0) as [kj|] eqn:Ej.
    + destruct (WF _ _ Ej) as (Hsym & Hne & _ & Hkj). destruct (kj <? j0) eqn:Elt.
      * cbn [app get_mirror_go]. destruct (ss + j0 =? ss + i) eqn:E1.
        { assert (j0 = i) by lia. subst j0. unfold expect. rewrite Ej, Elt. assert (E : (i <=? i) = true) by lia. rewrite E. reflexivity. }
        destruct (ss + kj =? ss + i) eqn:E2.
        { assert (kj = i) by lia. subst kj. unfold expect. rewrite Hsym.
          assert (E : (j0 <? i) = false) by lia. rewrite E. assert (E' : (j0 <=? j0) = true) by lia. rewrite E'. reflexivity. }
        rewrite IH. unfold expect. destruct (gm i) as [k|] eqn:Ek; [|reflexivity].
        destruct (WF _ _ Ek) as (Hsym' & _ & _ & _).
        destruct (k <? i) eqn:Eki.
        -- assert (j0 <> i) by lia. destruct (j0 <=? i) eqn:A; destruct (j0 + 1 <=? i) eqn:B; try reflexivity; lia.
        -- assert (j0 <> k). { intros ->. rewrite Hsym' in Ej. inversion Ej. lia. }
           destruct (j0 <=? k) eqn:A; destruct (j0 + 1 <=? k) eqn:B; try reflexivity; lia.
      * cbn [app]. rewrite IH. unfold expect. destruct (gm i) as [k|] eqn:Ek; [|reflexivity].
        destruct (WF _ _ Ek) as (Hsym' & Hne' & _ & _).
        destruct (k <? i) eqn:Eki.
        -- assert (j0 <> i). { intros ->. rewrite Ek in Ej. inversion Ej. lia. }
           destruct (j0 <=? i) eqn:A; destruct (j0 + 1 <=? i) eqn:B; try reflexivity; lia.
        -- assert (j0 <> k). { intros ->. rewrite Hsym' in Ej. inversion Ej. lia. }
           destruct (j0 <=? k) eqn:A; destruct (j0 + 1 <=? k) eqn:B; try reflexivity; lia.
    + cbn [app]. rewrite IH. unfold expect. destruct (gm i) as [k|] eqn:Ek; [|reflexivity].
      destruct (WF _ _ Ek) as (Hsym' & Hne' & _ & _).
      destruct (k <? i) eqn:Eki.
      * assert (j0 <> i). { intros ->. rewrite Ek in Ej. discriminate. }
        destruct (j0 <=? i) eqn:A; destruct (j0 + 1 <=? i) eqn:B; try reflexivity; lia.
      * assert (j0 <> k). { intros ->. rewrite Hsym' in Ej. discriminate. }
        destruct (j0 <=? k) eqn:A; destruct (j0 + 1 <=? k) eqn:B; try reflexivity; lia.
Qed.

Lemma fwd_pairs_whole ss i : GmWF -> 0 <= i < len ->
  get_mirror_go (fwd_pairs ss 0 (Z.to_nat len)) (ss + i) = option_map (Z.add ss) (gm i).
Proof.
  intros WF Hi. rewrite (fwd_pairs_lookup ss i WF Hi) by lia. unfold expect.
  destruct (gm i) as [k|] eqn:Ek; [|reflexivity]. destruct (WF _ _ Ek) as (_ & _ & _ & Hk). cbn [option_map].
  destruct (k <? i); [assert (E : (0 <=? i) = true) by lia|assert (E : (0 <=? k) = true) by lia]; rewrite E; reflexivity.
Qed.

Lemma fwd_pairs_ge ss : GmWF -> forall n j0 a b, 0 <= j0 ->
  In (a, b) (fwd_pairs ss j0 n) -> ss <= a /\ ss <= b.
Proof.
  intros WF. induction n as [|n IH]; intros j0 a b Hj0 Hin; [destruct Hin|]. cbn [fwd_pairs] in Hin.
  apply in_app_or in Hin. destruct Hin as [Hin|Hin]; [|exact (IH (j0 + 1) a b ltac:(lia) Hin)].
  unfold fwd_pair in Hin. destruct (gm j0) as [k|] eqn:Ek; [|destruct Hin].
  destruct (WF _ _ Ek) as (_ & _ & _ & Hk). destruct (k <? j0); [|destruct Hin].
  destruct Hin as [E|[]]. inversion E; subst. lia.
Qed.
End Generic.

Lemma gm_app_skip l1 l2 n :
  (forall a b, In (a, b) l1 -> a <> n /\ b <> n) -> get_mirror_go (l1 ++ l2) n = get_mirror_go l2 n.
Proof.
  induction l1 as [|[a b] l1 IH]; intros H; [reflexivity|]. cbn [app get_mirror_go].
  destruct (H a b (or_introl eq_refl)) as (Ha & Hb).
  assert (E1 : (a =? n) = false) by lia. assert (E2 : (b =? n) = false) by lia. rewrite E1, E2.
  apply IH. intros x y Hin. apply H. right. exact Hin.
Qed.

Lemma gm_app_none l1 l2 n : get_mirror_go l2 n = None -> get_mirror_go (l1 ++ l2) n = get_mirror_go l1 n.
Proof.
  intros H. induction l1 as [|[a b] l1 IH]; [exact H|]. cbn [app get_mirror_go].
  destruct (a =? n); [reflexivity|]. destruct (b =? n); [reflexivity|]. exact IH.
Qed.

Lemma gm_none_of_ge l j : (forall a b, In (a, b) l -> a <> j /\ b <> j) -> get_mirror_go l j = None.
Proof.
  induction l as [|[a b] l IH]; intros H; [reflexivity|]. cbn [get_mirror_go].
  destruct (H a b (or_introl eq_refl)) as (Ha & Hb). assert (E1 : (a =? j) = false) by lia. assert (E2 : (b =? j) = false) by lia.
  rewrite E1, E2. apply IH. intros x y Hin. apply H. right. exact Hin.
Qed.

(* the mirror table of [other] pairs map indices of [other]: symmetric, no map is its own mirror *)
Definition MirrorWF (other : mapping) : Prop := GmWF (get_mirror other) (Z.of_nat (length (maps other))).
(* every pair [self] holds refers to maps of [self] *)
Definition MirrorBelow (self : mapping) : Prop :=
  forall a b, In (a, b) (mirror self) -> 0 <= a < Z.of_nat (length (maps self)) /\ 0 <= b < Z.of_nat (length (maps self)).

(* ------------------------------------------------------------------ append_mapping *)
Lemma append_mapping_go_mirror other ss : forall rest self i,
  Z.of_nat (length (maps self)) = ss + i ->
  mirror (append_mapping_go self other rest i ss) = mirror self ++ fwd_pairs (get_mirror other) ss i (length rest).
Proof.
  induction rest as [|m rest IH]; intros self i Hlen; cbn [append_mapping_go fwd_pairs length].
  - rewrite app_nil_r. reflexivity.
  - rewrite IH.
    + unfold fwd_pair. destruct (get_mirror other i) as [k|]; [destruct (k <? i)|]; cbn [append_map set_mirror mirror];
        rewrite ?Hlen, <- ?app_assoc, ?app_nil_l; reflexivity.
    + unfold append_map. destruct (match get_mirror other i with Some k => if k <? i then Some (ss + k) else None | None => None end);
        cbn [set_mirror maps]; rewrite app_length; cbn [length]; lia.
Qed.

Theorem append_mapping_mirror self other :
  mirror (append_mapping self other) =
  mirror self ++ fwd_pairs (get_mirror other) (Z.of_nat (length (maps self))) 0 (length (maps other)).
Proof. unfold append_mapping. apply append_mapping_go_mirror. lia. Qed.

Theorem append_mapping_get_mirror_new self other i :
  MirrorWF other -> MirrorBelow self -> 0 <= i < Z.of_nat (length (maps other)) ->
  get_mirror (append_mapping self other) (Z.of_nat (length (maps self)) + i) =
  option_map (Z.add (Z.of_nat (length (maps self)))) (get_mirror other i).
Proof.
  intros WF HB Hi. unfold get_mirror at 1. rewrite append_mapping_mirror.
  rewrite gm_app_skip by (intros a b Hin; destruct (HB a b Hin); lia).
  rewrite <- (fwd_pairs_whole _ _ _ i WF Hi). rewrite Nat2Z.id. reflexivity.
Qed.

Theorem append_mapping_get_mirror_old self other j :
  MirrorWF other -> 0 <= j < Z.of_nat (length (maps self)) ->
  get_mirror (append_mapping self other) j = get_mirror self j.
Proof.
  intros WF Hj. unfold get_mirror. rewrite append_mapping_mirror. apply gm_app_none. apply gm_none_of_ge.
  intros a b Hin. destruct (fwd_pairs_ge _ _ _ WF _ 0 a b ltac:(lia) Hin). lia.
Qed.

(* ------------------------------------------------------------------ append_mapping_inverted
   map number i of [other] lands, inverted, at index ss + (len - 1 - i); read through the index flip this is the same
   registration scheme over the flipped table *)
Definition flip_gm (other : mapping) (i' : Z) : option Z :=
  let len := Z.of_nat (length (maps other)) in
  option_map (fun k => len - 1 - k) (get_mirror other (len - 1 - i')).

Lemma flip_WF other : MirrorWF other -> GmWF (flip_gm other) (Z.of_nat (length (maps other))).
Proof.
  intros WF a b H. unfold flip_gm in *. set (len := Z.of_nat (length (maps other))) in *.
  destruct (get_mirror other (len - 1 - a)) as [k|] eqn:Ek; [|discriminate]. cbn [option_map] in H. inversion H; subst b.
  destruct (WF _ _ Ek) as (Hsym & Hne & Ha & Hk). replace (len - 1 - (len - 1 - k)) with k by lia.
  rewrite Hsym. cbn [option_map]. split; [f_equal; lia|]. split; lia.
Qed.

Lemma append_mapping_inverted_go_mirror other ss len : len = Z.of_nat (length (maps other)) ->
  forall revrest self i,
  Z.of_nat (length (maps self)) = ss + (len - 1 - i) ->
  mirror (append_mapping_inverted_go self other revrest i (ss + len)) =
  mirror self ++ fwd_pairs (flip_gm other) ss (len - 1 - i) (length revrest).
Proof.
  intros El. induction revrest as [|m rest IH]; intros self i Hlen; cbn [append_mapping_inverted_go fwd_pairs length].
  - rewrite app_nil_r. reflexivity.
  - rewrite IH.
    + replace (len - 1 - (i - 1)) with (len - 1 - i + 1) by lia.
      assert (Ep : fwd_pair (flip_gm other) ss (len - 1 - i) =
                   match get_mirror other i with Some k => if k >? i then [(ss + (len - 1 - i), ss + len - k - 1)] else [] | None => [] end).
      { unfold fwd_pair, flip_gm. rewrite <- El. replace (len - 1 - (len - 1 - i)) with i by lia.
        destruct (get_mirror other i) as [k|]; cbn [option_map]; [|reflexivity].
        destruct (k >? i) eqn:E1; [assert (E2 : (len - 1 - k <? len - 1 - i) = true) by lia|assert (E2 : (len - 1 - k <? len - 1 - i) = false) by lia];
          rewrite E2; [|reflexivity]. do 2 f_equal. lia. }
      rewrite Ep. destruct (get_mirror other i) as [k|]; [destruct (k >? i)|]; cbn [append_map set_mirror mirror];
        rewrite ?Hlen, <- ?app_assoc, ?app_nil_l; reflexivity.
    + unfold append_map. destruct (match get_mirror other i with Some k => if k >? i then Some (ss + len - k - 1) else None | None => None end);
        cbn [set_mirror maps]; rewrite app_length; cbn [length]; lia.
Qed.

Theorem append_mapping_inverted_get_mirror_new self other i ss len :
  MirrorWF other -> MirrorBelow self ->
  ss = Z.of_nat (length (maps self)) -> len = Z.of_nat (length (maps other)) ->
  0 <= i < len ->
  get_mirror (append_mapping_inverted self other) (ss + (len - 1 - i)) =
  option_map (fun k => ss + (len - 1 - k)) (get_mirror other i).
Proof.
  intros WF HB Es El Hi. unfold get_mirror at 1, append_mapping_inverted. rewrite <- Es, <- El.
  rewrite (append_mapping_inverted_go_mirror other ss len El (rev (maps other)) self (len - 1)) by lia.
  replace (len - 1 - (len - 1)) with 0 by lia. rewrite rev_length.
  rewrite gm_app_skip by (intros a b Hin; destruct (HB a b Hin); lia).
  replace (length (maps other)) with (Z.to_nat len) by (rewrite El; apply Nat2Z.id).
  assert (WF' : GmWF (flip_gm other) len) by (rewrite El; apply flip_WF; exact WF).
  rewrite (fwd_pairs_whole (flip_gm other) len ss (len - 1 - i) WF') by lia.
  unfold flip_gm. rewrite <- El. replace (len - 1 - (len - 1 - i)) with i by lia.
  destruct (get_mirror other i); reflexivity.
Qed.
