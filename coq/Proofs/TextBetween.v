(* Node.text_between against the token picture (C09): the text it returns is what one reads off the tokens of the range,
   left to right - a text unit for every character token, the leaf text for every leaf token, the block separator in front
   of every block that opens inside the range unless a separator was just written or nothing has been written yet. *)
From Coq Require Import ZArith NArith List Bool Arith Lia.
From PM Require Import Model.Data Model.Mark Model.Tree Model.Resolve Spec.Tokens
  Proofs.NodeInd Proofs.ReplaceValid Proofs.TokenBasics Proofs.ReplaceTokens Proofs.StepSafe Proofs.Traversal.
Import ListNotations.
Local Open Scope nat_scope.
Local Open Scope list_scope.

Section WithSchema.
Variable s : schema.
Variables (F T : nat) (sep leaf : list N).
Hypothesis HFT : F < T.
Notation nsize := (node_size s).
Notation fsize := (frag_size s).
Notation toks := (toks s).
Notation ftoks := (ftoks s).

Definition sep_empty : bool := match sep with [] => true | _ => false end.
Definition active (i : nat) : bool := (F <=? i) && (i <? T).

(* reading the tokens that sit at indices base, base+1, ...; tokens outside [F, T) are passed over *)
Fixpoint tbtI (l : list tok) (base : nat) (sd : bool) : list N :=
  match l with
  | [] => []
  | t :: r =>
    if active base then
      match t with
      | TChar u _ => unit_val u :: tbtI r (S base) sep_empty
      | TLeaf _ _ _ => leaf ++ tbtI r (S base) sep_empty
      | TOpen ty _ _ => if negb sd && is_block_ty s ty then sep ++ tbtI r (S base) true else tbtI r (S base) sd
      | TClose => tbtI r (S base) sd
      end
    else tbtI r (S base) sd
  end.
Fixpoint tbsI (l : list tok) (base : nat) (sd : bool) : bool :=
  match l with
  | [] => sd
  | t :: r =>
    if active base then
      match t with
      | TChar _ _ | TLeaf _ _ _ => tbsI r (S base) sep_empty
      | TOpen ty _ _ => if negb sd && is_block_ty s ty then tbsI r (S base) true else tbsI r (S base) sd
      | TClose => tbsI r (S base) sd
      end
    else tbsI r (S base) sd
  end.

Lemma tbtI_app a : forall b base sd,
  tbtI (a ++ b) base sd = tbtI a base sd ++ tbtI b (base + length a) (tbsI a base sd).
Proof.
  induction a as [|t a IH]; intros b base sd; cbn [app tbtI tbsI length]; [rewrite Nat.add_0_r; reflexivity|].
  replace (base + S (length a)) with (S base + length a) by lia.
  destruct (active base); [|apply IH].
  destruct t as [ty at_ m| |ty at_ m|u m].
  - destruct (negb sd && is_block_ty s ty); rewrite IH, ?app_assoc; reflexivity.
  - apply IH.
  - rewrite IH, app_assoc. reflexivity.
  - rewrite IH. reflexivity.
Qed.
Lemma tbsI_app a : forall b base sd,
  tbsI (a ++ b) base sd = tbsI b (base + length a) (tbsI a base sd).
Proof.
  induction a as [|t a IH]; intros b base sd; cbn [app tbsI length]; [rewrite Nat.add_0_r; reflexivity|].
  replace (base + S (length a)) with (S base + length a) by lia.
  destruct (active base); [|apply IH].
  destruct t as [ty at_ m| |ty at_ m|u m]; try apply IH.
  destruct (negb sd && is_block_ty s ty); apply IH.
Qed.

(* tokens entirely outside the range do nothing *)
Lemma tbI_outside l : forall base sd, (base + length l <= F \/ T <= base) ->
  tbtI l base sd = [] /\ tbsI l base sd = sd.
Proof.
  induction l as [|t l IH]; intros base sd H; [auto|]. cbn [tbtI tbsI length] in *.
  assert (E : active base = false) by (unfold active; destruct H; [assert ((F <=? base) = false) by (apply Nat.leb_gt; lia)|assert ((base <? T) = false) by (apply Nat.ltb_ge; lia)]; rewrite H0; auto using andb_false_r).
  rewrite E. apply IH. lia.
Qed.

(* the visit side: final state of text_between_go *)
Fixpoint tgs (vs : list visit) (sd : bool) : bool :=
  match vs with
  | [] => sd
  | v :: r =>
    match v_node v with
    | Text _ _ => tgs r sep_empty
    | Elem ty _ _ _ =>
      if is_leaf_ty s ty then tgs r sep_empty
      else if negb sd && is_block_ty s ty then tgs r true else tgs r sd
    end
  end.

Lemma tg_app a : forall b sd,
  text_between_go s (a ++ b) F T sep leaf sd = text_between_go s a F T sep leaf sd ++ text_between_go s b F T sep leaf (tgs a sd).
Proof.
  induction a as [|v a IH]; intros b sd; cbn [app text_between_go tgs]; [reflexivity|].
  destruct (v_node v) as [t m|ty at_ m cs].
  - fold sep_empty. rewrite IH, app_assoc. reflexivity.
  - fold sep_empty. destruct (is_leaf_ty s ty); [rewrite IH, app_assoc; reflexivity|].
    destruct (negb sd && is_block_ty s ty); rewrite IH; [rewrite app_assoc|]; reflexivity.
Qed.
Lemma tgs_app a : forall b sd, tgs (a ++ b) sd = tgs b (tgs a sd).
Proof.
  induction a as [|v a IH]; intros b sd; cbn [app tgs]; [reflexivity|].
  destruct (v_node v) as [t m|ty at_ m cs]; [apply IH|]. destruct (is_leaf_ty s ty); [apply IH|].
  destruct (negb sd && is_block_ty s ty); apply IH.
Qed.

(* a text node: its character tokens inside the range *)
Lemma seg_cons_skip {A} (x : A) l a b : 0 < a -> seg (x :: l) a b = seg l (a - 1) (b - 1).
Proof. intros H. destruct a as [|a]; [lia|]. unfold seg. cbn [skipn]. replace (S a - 1) with a by lia. f_equal. lia. Qed.
Lemma seg_cons_take {A} (x : A) l b : 0 < b -> seg (x :: l) 0 b = x :: seg l 0 (b - 1).
Proof. intros H. destruct b as [|b]; [lia|]. unfold seg. cbn [skipn firstn Nat.sub]. rewrite !Nat.sub_0_r. reflexivity. Qed.

Lemma tbI_text m : forall us q sd,
  tbtI (List.map (fun u => TChar u m) us) q sd = List.map unit_val (seg us (F - q) (T - q)) /\
  tbsI (List.map (fun u => TChar u m) us) q sd = (if (0 <? length us) && (q <? T) && (F <? q + length us) then sep_empty else sd).
Proof.
  induction us as [|u us IH]; intros q sd; cbn [List.map tbtI tbsI length].
  - split; [unfold seg; rewrite skipn_nil, firstn_nil; reflexivity|reflexivity].
  - destruct (IH (S q) sep_empty) as (IH1 & IH2). destruct (IH (S q) sd) as (IH3 & IH4).
    assert (Z0 : (0 <? S (length us)) = true) by (apply Nat.ltb_lt; lia). rewrite Z0. cbn [andb].
    unfold active. destruct (F <=? q) eqn:E1; cbn [andb].
    + apply Nat.leb_le in E1. destruct (q <? T) eqn:E2.
      * apply Nat.ltb_lt in E2. split.
        -- rewrite IH1. replace (F - q) with 0 by lia. rewrite seg_cons_take by lia. cbn [List.map]. f_equal. f_equal.
           replace (F - S q) with 0 by lia. f_equal. lia.
        -- rewrite IH2. assert (X : (F <? q + S (length us)) = true) by (apply Nat.ltb_lt; lia). rewrite X.
           destruct ((0 <? length us) && (S q <? T) && (F <? S q + length us)); reflexivity.
      * apply Nat.ltb_ge in E2. split.
        -- rewrite IH3. unfold seg. replace (T - q - (F - q)) with 0 by lia. replace (T - S q - (F - S q)) with 0 by lia. reflexivity.
        -- rewrite IH4. assert (X : (S q <? T) = false) by (apply Nat.ltb_ge; lia). rewrite X, andb_false_r. reflexivity.
    + apply Nat.leb_gt in E1. split.
      * rewrite IH3. rewrite seg_cons_skip by lia. f_equal. f_equal; lia.
      * rewrite IH4. replace (S q + length us) with (q + S (length us)) by lia.
        destruct (F <? q + S (length us)) eqn:E5; [|rewrite !andb_false_r; reflexivity].
        apply Nat.ltb_lt in E5. rewrite !andb_true_r.
        destruct (0 <? length us) eqn:E0; cbn [andb].
        -- destruct (q <? T) eqn:E2; destruct (S q <? T) eqn:E3; try reflexivity;
             repeat match goal with
                    | H : (_ <? _) = true |- _ => apply Nat.ltb_lt in H
                    | H : (_ <? _) = false |- _ => apply Nat.ltb_ge in H
                    end; try lia.
        -- apply Nat.ltb_ge in E0. assert (length us = 0) by lia. lia.
Qed.

Notation TG vs sd := (text_between_go s vs F T sep leaf sd).
Notation ov := (overlap s F T).

Lemma overlap_visit c q p i :
  ov {| v_node := c; v_pos := q; v_parent := p; v_index := i |} = (q <? T) && (F <? q + nsize c).
Proof. reflexivity. Qed.

Lemma no_overlap_inside c q : wfw s c -> (q <? T) && (F <? q + nsize c) = false ->
  filter ov (all_visits s c (q + 1)) = [].
Proof.
  intros Hw H. apply filter_none. eapply Forall_impl; [|exact (all_visits_within s c (q + 1) Hw)].
  intros v (H1 & H2). unfold overlap.
  assert (Hc : fsize (node_content c) + 1 <= nsize c).
  { destruct c as [t m|ty a m cs]; [cbn [node_content frag_size]; pose proof (wfw_size s _ Hw); lia|]. cbn [node_content].
    destruct cs as [|x xs]; [cbn [frag_size]; pose proof (wfw_size s _ Hw); lia|].
    pose proof (wfw_content_size s _ _ _ _ Hw ltac:(discriminate)). lia. }
  apply andb_false_iff in H. destruct H as [H|H].
  - apply Nat.ltb_ge in H. assert (E : (v_pos v <? T) = false) by (apply Nat.ltb_ge; lia). rewrite E. reflexivity.
  - apply Nat.ltb_ge in H. assert (E : (F <? v_pos v + nsize (v_node v)) = false) by (apply Nat.ltb_ge; lia).
    rewrite E, andb_false_r. reflexivity.
Qed.

(* one child c at absolute position q, with everything listed below it *)
Definition child_visits (n : node) (c : node) (q i : nat) : list visit :=
  {| v_node := c; v_pos := q; v_parent := Some n; v_index := i |} :: all_visits s c (q + 1).

Definition NodeOK (c : node) : Prop :=
  forall st sd, (st < F -> sd = true) ->
    TG (filter ov (all_visits s c st)) sd = tbtI (ftoks (node_content c)) st sd /\
    tgs (filter ov (all_visits s c st)) sd = tbsI (ftoks (node_content c)) st sd.

Lemma child_ok n c q i sd : wfw s c -> NodeOK c -> (q < F -> sd = true) ->
  TG (filter ov (child_visits n c q i)) sd = tbtI (toks c) q sd /\
  tgs (filter ov (child_visits n c q i)) sd = tbsI (toks c) q sd.
Proof.
  intros Hw Hok Hinv. unfold child_visits. cbn [filter]. rewrite overlap_visit.
  destruct c as [t m|ty a m cs].
  - (* text *)
    cbn [all_visits filter Tokens.toks]. destruct (tbI_text m (units t) q sd) as (E1 & E2). rewrite E1, E2.
    rewrite units_length. cbn [node_size]. cbn [wfw] in Hw. assert (Z : (0 <? text_length t) = true) by (apply Nat.ltb_lt; exact Hw).
    rewrite Z. cbn [andb]. destruct ((q <? T) && (F <? q + text_length t)) eqn:Eo.
    + cbn [text_between_go tgs v_node v_pos]. fold sep_empty. rewrite app_nil_r. split; [|reflexivity].
      unfold units_of. rewrite map_seg. unfold seg. f_equal; [|f_equal]; lia.
    + cbn [text_between_go tgs]. split; [|reflexivity]. unfold seg.
      apply andb_false_iff in Eo. destruct Eo as [Eo|Eo]; apply Nat.ltb_ge in Eo.
      * replace (T - q - (F - q)) with 0 by lia. reflexivity.
      * rewrite skipn_all2 by (rewrite units_length; lia). rewrite firstn_nil. reflexivity.
  - pose proof (node_size_elem s ty a m cs) as Hs. rewrite toks_elem. destruct (is_leaf_ty s ty) eqn:El.
    + (* leaf *)
      cbn [wfw] in Hw. destruct Hw as (Hz & _). rewrite (Hz El) in *. cbn [all_visits filter]. rewrite Hs.
      cbn [tbtI tbsI]. unfold active.
      assert (Ea : (q <? T) && (F <? q + 1) = (F <=? q) && (q <? T)).
      { destruct (q <? T); destruct (F <? q + 1) eqn:A; destruct (F <=? q) eqn:B; try reflexivity;
          (apply Nat.ltb_lt in A || apply Nat.ltb_ge in A); (apply Nat.leb_le in B || apply Nat.leb_gt in B); lia. }
      rewrite Ea. destruct ((F <=? q) && (q <? T)).
      * cbn [text_between_go tgs v_node]. rewrite El. fold sep_empty. split; reflexivity.
      * split; reflexivity.
    + (* an element with content *)
      rewrite Hs. cbn [tbtI tbsI]. set (X := ftoks cs).
      assert (HX : length X = fsize cs) by (unfold X; apply ftoks_length).
      assert (Hclose : forall sd', tbtI (X ++ [TClose]) (S q) sd' = tbtI X (S q) sd' /\ tbsI (X ++ [TClose]) (S q) sd' = tbsI X (S q) sd').
      { intros sd'. rewrite tbtI_app, tbsI_app. cbn [tbtI tbsI]. destruct (active (S q + length X)); rewrite ?app_nil_r; split; reflexivity. }
      destruct ((q <? T) && (F <? q + (2 + fsize cs))) eqn:Eo.
      * apply andb_prop in Eo. destruct Eo as [Eo1 Eo2]. apply Nat.ltb_lt in Eo1, Eo2.
        cbn [text_between_go tgs v_node]. rewrite El.
        unfold active. destruct (F <=? q) eqn:Ea; cbn [andb].
        -- (* the node opens inside the range *)
           apply Nat.leb_le in Ea. assert (Et : (q <? T) = true) by (apply Nat.ltb_lt; lia). rewrite Et.
           destruct (negb sd && is_block_ty s ty).
           ++ destruct (Hclose true) as (C1 & C2). rewrite C1, C2.
              destruct (Hok (q + 1) true ltac:(lia)) as (I1 & I2). cbn [node_content] in I1, I2. fold X in I1, I2.
              replace (S q) with (q + 1) by lia. rewrite I1, I2. split; reflexivity.
           ++ destruct (Hclose sd) as (C1 & C2). rewrite C1, C2.
              destruct (Hok (q + 1) sd ltac:(lia)) as (I1 & I2). cbn [node_content] in I1, I2. fold X in I1, I2.
              replace (S q) with (q + 1) by lia. rewrite I1, I2. split; reflexivity.
        -- (* it opened before the range: nothing has been written yet *)
           apply Nat.leb_gt in Ea. rewrite (Hinv Ea). cbn [negb andb].
           destruct (Hclose true) as (C1 & C2). rewrite C1, C2.
           destruct (Hok (q + 1) true ltac:(auto)) as (I1 & I2). cbn [node_content] in I1, I2. fold X in I1, I2.
           replace (S q) with (q + 1) by lia. rewrite I1, I2. split; reflexivity.
      * (* the node does not overlap the range *)
        assert (Hno : filter ov (all_visits s (Elem ty a m cs) (q + 1)) = []).
        { apply no_overlap_inside; [exact Hw|]. rewrite Hs. exact Eo. }
        rewrite Hno. cbn [text_between_go tgs].
        assert (Hout : q + length (TOpen ty a m :: X ++ [TClose]) <= F \/ T <= q).
        { cbn [length]. rewrite app_length, HX. cbn [length]. apply andb_false_iff in Eo. destruct Eo as [Eo|Eo]; apply Nat.ltb_ge in Eo; lia. }
        destruct (tbI_outside (TOpen ty a m :: X ++ [TClose]) q sd Hout) as (O1 & O2). cbn [tbtI tbsI] in O1, O2.
        rewrite O1, O2. split; reflexivity.
Qed.

Lemma node_ok : forall c, wfw s c -> NodeOK c.
Proof.
  induction c as [t m|ty a m cs IH] using node_ind2; intros Hw st sd Hinv.
  - cbn [all_visits filter node_content Tokens.ftoks text_between_go tgs tbtI tbsI]. split; reflexivity.
  - rewrite av_elem. cbn [node_content]. set (n := Elem ty a m cs) in *.
    assert (G : forall l pre i pos sd, cs = pre ++ l -> (st + pos < F -> sd = true) ->
                TG (filter ov (av_go s n st l i pos)) sd = tbtI (ftoks l) (st + pos) sd /\
                tgs (filter ov (av_go s n st l i pos)) sd = tbsI (ftoks l) (st + pos) sd).
    { clear sd Hinv. induction l as [|c r IHl]; intros pre i pos sd Ecs Hinv.
      - cbn [av_go filter Tokens.ftoks text_between_go tgs tbtI tbsI]. split; reflexivity.
      - assert (Hin : In c cs) by (rewrite Ecs; apply in_or_app; right; left; reflexivity).
        pose proof (wfw_child s _ _ _ _ _ Hw Hin) as Hwc.
        change (av_go s n st (c :: r) i pos) with (child_visits n c (st + pos) i ++ av_go s n st r (S i) (pos + nsize c)).
        rewrite filter_app, tg_app, tgs_app. cbn [Tokens.ftoks]. rewrite tbtI_app, tbsI_app, toks_length.
        destruct (child_ok n c (st + pos) i sd Hwc (IH c Hin Hwc) Hinv) as (C1 & C2). rewrite C1, C2.
        set (sd1 := tbsI (toks c) (st + pos) sd).
        assert (Hinv1 : st + (pos + nsize c) < F -> sd1 = true).
        { intros Hlt. unfold sd1. destruct (tbI_outside (toks c) (st + pos) sd) as (_ & O2); [left; rewrite toks_length; lia|].
          rewrite O2. apply Hinv. lia. }
        destruct (IHl (pre ++ [c]) (S i) (pos + nsize c) sd1 ltac:(rewrite <- app_assoc; exact Ecs) Hinv1) as (R1 & R2).
        replace (st + pos + nsize c) with (st + (pos + nsize c)) by lia. rewrite R1, R2. split; reflexivity. }
    destruct (G cs [] 0 0 sd eq_refl ltac:(rewrite Nat.add_0_r; exact Hinv)) as (G1 & G2).
    rewrite Nat.add_0_r in G1, G2. split; assumption.
Qed.

(* skipping the tokens outside the range = reading the tokens of the range *)
Fixpoint tbt (l : list tok) (sd : bool) : list N :=
  match l with
  | [] => []
  | TChar u _ :: r => unit_val u :: tbt r sep_empty
  | TLeaf _ _ _ :: r => leaf ++ tbt r sep_empty
  | TOpen ty _ _ :: r => if negb sd && is_block_ty s ty then sep ++ tbt r true else tbt r sd
  | TClose :: r => tbt r sd
  end.

Lemma tbtI_is_tbt : forall l base sd,
  tbtI l base sd = tbt (seg l (F - base) (T - base)) sd.
Proof.
  induction l as [|t l IH]; intros base sd; [unfold seg; rewrite skipn_nil, firstn_nil; reflexivity|].
  cbn [tbtI]. unfold active. destruct (F <=? base) eqn:E1; cbn [andb].
  - apply Nat.leb_le in E1. destruct (base <? T) eqn:E2.
    + apply Nat.ltb_lt in E2. replace (F - base) with 0 by lia. rewrite seg_cons_take by lia. cbn [tbt].
      replace (T - base - 1) with (T - S base) by lia.
      assert (E : forall sd', tbtI l (S base) sd' = tbt (seg l 0 (T - S base)) sd').
      { intros sd'. rewrite IH. replace (F - S base) with 0 by lia. reflexivity. }
      destruct t as [ty at_ m| |ty at_ m|u m]; rewrite ?E; reflexivity.
    + apply Nat.ltb_ge in E2. rewrite IH. unfold seg. replace (T - S base - (F - S base)) with 0 by lia.
      replace (T - base - (F - base)) with 0 by lia. reflexivity.
  - apply Nat.leb_gt in E1. rewrite IH, seg_cons_skip by lia. f_equal. f_equal; lia.
Qed.

Theorem text_between_tokens doc :
  wfw s doc -> T <= fsize (node_content doc) ->
  text_between s doc F T sep leaf = Ok (tbt (seg (ftoks (node_content doc)) F T) true).
Proof.
  intros Hw HT. unfold text_between. rewrite (nodes_between_exact s doc F T Hw HT). cbn [bind]. f_equal.
  destruct (node_ok doc Hw 0 true ltac:(auto)) as (H1 & _). rewrite H1, tbtI_is_tbt, !Nat.sub_0_r. reflexivity.
Qed.

End WithSchema.
