(* Transform.remove_mark, coverage (C13): every inline node the walk visits, and every mark of it the selector matches, has its
   part of the range inside one `matched` entry of an equal mark - hence inside one planned RemoveMark step.  The planner extends
   the entry touched at the PREVIOUS inline node, so the argument needs the walk's order: visits come in document order
   (pre-order), and - for documents whose inline nodes have no children, which holds in every schema where inline content is
   text and leaves - an inline node ends before everything visited after it begins. *)
From Coq Require Import ZArith NArith List Bool Arith Lia.
From PM Require Import Model.Data Model.Mark Model.Tree Model.Resolve Model.StepMap Model.Step Model.MarkOps Spec.Tokens
  Proofs.DataProofs Proofs.NodeInd Proofs.ReplaceValid Proofs.TokenBasics Proofs.StepSafe Proofs.Traversal.
Import ListNotations.
Local Open Scope nat_scope.
Local Open Scope list_scope.

Section WithSchema.
Variable s : schema.
Notation nsize := (node_size s).
Notation fsize := (frag_size s).

(* ------------------------------------------------------------------ the order of visits *)
Definition vend (v : visit) : nat := v_pos v + nsize (v_node v).

(* w is listed after v: inside v (then v has children) or behind it *)
Definition After (v w : visit) : Prop :=
  (v_pos v < v_pos w /\ vend w <= vend v /\ node_content (v_node v) <> []) \/ vend v <= v_pos w.

Fixpoint Ord (l : list visit) : Prop :=
  match l with [] => True | v :: r => Forall (After v) r /\ Ord r end.

Lemma Ord_app A B : Ord A -> Ord B -> (forall a b, In a A -> In b B -> After a b) -> Ord (A ++ B).
Proof.
  induction A as [|a A IH]; intros HA HB Hc; [exact HB|]. cbn [app Ord]. destruct HA as (Ha & HA). split.
  - apply Forall_app. split; [exact Ha|]. apply Forall_forall. intros b Hb. apply Hc; [left; reflexivity|exact Hb].
  - apply IH; [exact HA|exact HB|]. intros x b Hx Hb. apply Hc; [right; exact Hx|exact Hb].
Qed.

Lemma Ord_filter f : forall l, Ord l -> Ord (filter f l).
Proof.
  induction l as [|v l IH]; intros H; [exact I|]. destruct H as (Hv & Hl). cbn [filter].
  destruct (f v); [|exact (IH Hl)]. cbn [Ord]. split; [|exact (IH Hl)].
  apply Forall_forall. intros w Hw. apply filter_In in Hw. destruct Hw as (Hw & _).
  exact (proj1 (Forall_forall _ _) Hv w Hw).
Qed.

(* everything listed for a child lies strictly inside the child, which then has children *)
Lemma inside_child c base : wfw s c ->
  Forall (fun v => base + 1 <= v_pos v /\ vend v + 1 <= base + nsize c /\ node_content c <> []) (all_visits s c (base + 1)).
Proof.
  intros Hw. destruct c as [t m|ty a m cs]; [constructor|]. destruct cs as [|x xs]; [rewrite av_elem; constructor|].
  pose proof (wfw_content_size s _ _ _ _ Hw ltac:(discriminate)) as Hsz.
  eapply Forall_impl; [|exact (all_visits_within s _ (base + 1) Hw)]. cbn [node_content]. intros v (H1 & H2).
  unfold vend. split; [lia|]. split; [lia|discriminate].
Qed.

Lemma av_go_ord n st : forall l i pos,
  (forall c, In c l -> wfw s c) -> (forall c, In c l -> forall st', Ord (all_visits s c st')) ->
  Ord (av_go s n st l i pos).
Proof.
  induction l as [|c r IHl]; intros i pos Hw Hrec; [exact I|]. cbn [av_go Ord].
  pose proof (Hw c (or_introl eq_refl)) as Hwc.
  pose proof (inside_child c (st + pos) Hwc) as Hin.
  pose proof (av_go_within s n st r (S i) (pos + nsize c) (fun x Hx => Hw x (or_intror Hx))) as Hout.
  split.
  - apply Forall_app. split.
    + eapply Forall_impl; [|exact Hin]. intros v (H1 & H2 & H3). left. unfold vend in *. cbn [v_pos v_node]. split; [lia|]. split; [lia|exact H3].
    + eapply Forall_impl; [|exact Hout]. intros v (H1 & _). right. unfold vend. cbn [v_pos v_node]. lia.
  - apply Ord_app.
    + apply Hrec. left. reflexivity.
    + apply IHl; [intros x Hx; apply Hw; right; exact Hx|intros x Hx; apply Hrec; right; exact Hx].
    + intros a b Ha Hb. right.
      pose proof (proj1 (Forall_forall _ _) Hin a Ha) as (_ & A2 & _).
      pose proof (proj1 (Forall_forall _ _) Hout b Hb) as (B1 & _). lia.
Qed.

Lemma all_visits_ord : forall n st, wfw s n -> Ord (all_visits s n st).
Proof.
  induction n as [t m|ty a m cs IH] using node_ind2; intros st Hw; [exact I|]. rewrite av_elem.
  apply av_go_ord.
  - intros c Hc. exact (wfw_child s _ _ _ _ _ Hw Hc).
  - intros c Hc st'. apply (IH c Hc). exact (wfw_child s _ _ _ _ _ Hw Hc).
Qed.

(* Node.nodes_between with a callback that never prunes lists its nodes in document order *)
Theorem nodes_between_ord doc F T vs :
  wfw s doc -> T <= fsize (node_content doc) ->
  nodes_between_node s (fun _ => true) doc F T 0 = Ok vs -> Ord vs.
Proof.
  intros Hw HT H. rewrite (nodes_between_exact s doc F T Hw HT) in H. inversion H. apply Ord_filter. apply all_visits_ord. exact Hw.
Qed.

(* ------------------------------------------------------------------ the `matched` table *)
Definition CovM (x : mark) (ms : list matched) (a b : nat) : Prop :=
  exists m, In m ms /\ mark_eqb (mt_style m) x = true /\ mt_from m <= a /\ b <= mt_to m.

Definition InvM (ms : list matched) (step E F : nat) : Prop :=
  forall m, In m ms -> mt_step m <= step /\ mt_to m <= E /\ mt_from m <= F.

Lemma rm_update_last_spec : forall ms style step end_ ms',
  rm_update_last ms style step end_ = Some ms' ->
  exists l1 m l2, ms = l1 ++ m :: l2 /\
    ms' = l1 ++ {| mt_style := mt_style m; mt_from := mt_from m; mt_to := end_; mt_step := step |} :: l2 /\
    mark_eqb style (mt_style m) = true.
Proof.
  induction ms as [|m r IH]; intros style step end_ ms' H; cbn [rm_update_last] in H; [discriminate|].
  destruct (rm_update_last r style step end_) as [r'|] eqn:Er.
  - inversion H; subst ms'. destruct (IH _ _ _ _ Er) as (l1 & m0 & l2 & E1 & E2 & E3).
    exists (m :: l1), m0, l2. cbn [app]. rewrite E1, E2. auto.
  - destruct ((mt_step m =? step - 1) && mark_eqb style (mt_style m)) eqn:Ec; [|discriminate].
    apply andb_true_iff in Ec. destruct Ec as (_ & Ec). inversion H; subst ms'.
    exists [], m, r. cbn [app]. auto.
Qed.

Lemma rm_one_spec from pos end_ step ms style :
  InvM ms step end_ (Nat.max pos from) ->
  InvM (rm_one from pos end_ step ms style) step end_ (Nat.max pos from) /\
  (forall y a b, CovM y ms a b -> CovM y (rm_one from pos end_ step ms style) a b) /\
  CovM style (rm_one from pos end_ step ms style) (Nat.max pos from) end_.
Proof.
  intros HI. unfold rm_one. destruct (rm_update_last ms style step end_) as [ms'|] eqn:E.
  - destruct (rm_update_last_spec _ _ _ _ _ E) as (l1 & m & l2 & -> & -> & Em).
    set (m' := {| mt_style := mt_style m; mt_from := mt_from m; mt_to := end_; mt_step := step |}).
    assert (Hm : In m (l1 ++ m :: l2)) by (apply in_or_app; right; left; reflexivity).
    destruct (HI m Hm) as (Hs & Ht & Hf).
    split; [|split].
    + intros x Hx. apply in_app_or in Hx. destruct Hx as [Hx|[<-|Hx]].
      * apply HI. apply in_or_app. left. exact Hx.
      * cbn [m' mt_step mt_to mt_from]. lia.
      * apply HI. apply in_or_app. right. right. exact Hx.
    + intros y a b (x & Hx & Ey & Hfa & Hb). apply in_app_or in Hx. destruct Hx as [Hx|[<-|Hx]].
      * exists x. split; [apply in_or_app; left; exact Hx|auto].
      * exists m'. split; [apply in_or_app; right; left; reflexivity|]. cbn [m' mt_style mt_from mt_to]. split; [exact Ey|]. split; [exact Hfa|lia].
      * exists x. split; [apply in_or_app; right; right; exact Hx|auto].
    + exists m'. split; [apply in_or_app; right; left; reflexivity|]. cbn [m' mt_style mt_from mt_to].
      split; [rewrite mark_eqb_sym; exact Em|]. split; [exact Hf|lia].
  - set (m' := {| mt_style := style; mt_from := Nat.max pos from; mt_to := end_; mt_step := step |}).
    split; [|split].
    + intros x Hx. apply in_app_or in Hx. destruct Hx as [Hx|[<-|[]]]; [exact (HI x Hx)|]. cbn [m' mt_step mt_to mt_from]. lia.
    + intros y a b (x & Hx & Hr). exists x. split; [apply in_or_app; left; exact Hx|exact Hr].
    + exists m'. split; [apply in_or_app; right; left; reflexivity|]. cbn [m' mt_style mt_from mt_to].
      split; [apply mark_eqb_refl|]. lia.
Qed.

Lemma rm_styles_spec from pos end_ step : forall l ms,
  InvM ms step end_ (Nat.max pos from) ->
  InvM (fold_left (rm_one from pos end_ step) l ms) step end_ (Nat.max pos from) /\
  (forall y a b, CovM y ms a b -> CovM y (fold_left (rm_one from pos end_ step) l ms) a b) /\
  (forall x, In x l -> CovM x (fold_left (rm_one from pos end_ step) l ms) (Nat.max pos from) end_).
Proof.
  induction l as [|x l IH]; intros ms HI; cbn [fold_left].
  - split; [exact HI|]. split; [auto|]. intros x [].
  - destruct (rm_one_spec from pos end_ step ms x HI) as (H1 & H2 & H3).
    destruct (IH _ H1) as (G1 & G2 & G3).
    split; [exact G1|]. split; [intros y a b H; apply G2, H2, H|].
    intros y [<-|Hy]; [apply G2, H3|apply G3, Hy].
Qed.

(* ------------------------------------------------------------------ the walk *)
Definition flat_inline (vs : list visit) : Prop :=
  forall v, In v vs -> node_is_inline s (v_node v) = true -> node_content (v_node v) = [].

Lemma rm_fold_covers sel from to : forall vs st E F,
  Ord vs -> flat_inline vs ->
  (forall w, In w vs -> E <= Nat.min (vend w) to /\ F <= Nat.max (v_pos w) from) ->
  InvM (fst st) (snd st) E F ->
  (forall y a b, CovM y (fst st) a b -> CovM y (fst (fold_left (rm_visit s sel from to) vs st)) a b) /\
  (forall v, In v vs -> node_is_inline s (v_node v) = true ->
     forall x, In x (rm_to_remove sel (node_marks (v_node v))) ->
       CovM x (fst (fold_left (rm_visit s sel from to) vs st)) (Nat.max (v_pos v) from) (Nat.min (vend v) to)).
Proof.
  induction vs as [|v vs IH]; intros st E F Ho Hfl Hb HI; cbn [fold_left].
  - split; [auto|]. intros v [].
  - destruct Ho as (Hv & Ho).
    assert (Hfl' : flat_inline vs) by (intros w Hw; apply Hfl; right; exact Hw).
    destruct st as [ms step]. cbn [fst snd] in HI. unfold rm_visit at 2 4. 
    destruct (node_is_inline s (v_node v)) eqn:Ei; cbn [negb].
    + (* an inline node: processed, and it ends before everything that follows begins *)
      set (end_ := Nat.min (v_pos v + nsize (v_node v)) to).
      set (ms' := fold_left (rm_one from (v_pos v) end_ (S step)) (rm_to_remove sel (node_marks (v_node v))) ms).
      destruct (Hb v (or_introl eq_refl)) as (HE & HF). fold (vend v) in end_.
      assert (HI0 : InvM ms (S step) end_ (Nat.max (v_pos v) from)).
      { intros m Hm. destruct (HI m Hm) as (A & B & C). unfold end_. lia. }
      destruct (rm_styles_spec from (v_pos v) end_ (S step) (rm_to_remove sel (node_marks (v_node v))) ms HI0) as (G1 & G2 & G3). fold ms' in G1, G2, G3.
      assert (Hnext : forall w, In w vs -> end_ <= Nat.min (vend w) to /\ Nat.max (v_pos v) from <= Nat.max (v_pos w) from).
      { intros w Hw. pose proof (proj1 (Forall_forall _ _) Hv w Hw) as Ha.
        destruct Ha as [(_ & _ & Hne)|Ha]; [exfalso; apply Hne; apply Hfl; [left; reflexivity|exact Ei]|].
        unfold end_, vend in *. lia. }
      destruct (IH (ms', S step) end_ (Nat.max (v_pos v) from) Ho Hfl' Hnext G1) as (K1 & K2).
      split; [intros y a b H; apply K1; cbn [fst]; apply G2, H|].
      intros w [<-|Hw] Hiw x Hx; [apply K1; cbn [fst]; apply G3, Hx|apply K2; assumption].
    + destruct (IH (ms, step) E F Ho Hfl' (fun w Hw => Hb w (or_intror Hw)) HI) as (K1 & K2).
      split; [exact K1|]. intros w [<-|Hw] Hiw x Hx; [congruence|apply K2; assumption].
Qed.

(* the planner, over the visits of a document whose inline nodes have no children *)
Theorem plan_remove_mark_covers_visits doc from to sel vs sts :
  wfw s doc -> to <= fsize (node_content doc) ->
  nodes_between_node s (fun _ => true) doc from to 0 = Ok vs -> flat_inline vs ->
  plan_remove_mark s doc from to sel = Ok sts ->
  forall v, In v vs -> node_is_inline s (v_node v) = true ->
    forall x, In x (rm_to_remove sel (node_marks (v_node v))) ->
      exists f t m0, In (SRemoveMark f t m0) sts /\ mark_eqb m0 x = true /\
                     f <= Nat.max (v_pos v) from /\ Nat.min (v_pos v + nsize (v_node v)) to <= t.
Proof.
  intros Hw Hto Hvs Hfl Hp v Hin Hi x Hx.
  assert (Ho : Ord vs).
  { rewrite (nodes_between_exact s doc from to Hw Hto) in Hvs. inversion Hvs. apply Ord_filter. apply all_visits_ord. exact Hw. }
  unfold plan_remove_mark in Hp. rewrite Hvs in Hp. cbn [bind] in Hp.
  assert (HI0 : InvM (fst (([] : list matched), 0)) (snd (([] : list matched), 0)) 0 0) by (intros m []).
  destruct (rm_fold_covers sel from to vs ([], 0) 0 0 Ho Hfl (fun w _ => conj (Nat.le_0_l _) (Nat.le_0_l _)) HI0) as (_ & K).
  destruct (K v Hin Hi x Hx) as (m & Hm & Em & Hf & Ht).
  destruct (fold_left (rm_visit s sel from to) vs ([], 0)) as [ms n]. cbn [fst] in Hm.
  inversion Hp; subst sts. exists (mt_from m), (mt_to m), (mt_style m).
  split; [apply in_map_iff; exists m; auto|]. split; [exact Em|]. split; [exact Hf|exact Ht].
Qed.

(* ... and over the document's descendants *)
Theorem plan_remove_mark_covers doc from to sel sts :
  wfw s doc -> leaves_empty s doc -> to <= fsize (node_content doc) ->
  flat_inline (all_visits s doc 0) ->
  plan_remove_mark s doc from to sel = Ok sts ->
  forall p i c q, Sub s doc p i c q -> q < to -> from < q + nsize c -> 0 < nsize c ->
    node_is_inline s c = true ->
    forall x, In x (rm_to_remove sel (node_marks c)) ->
      exists f t m0, In (SRemoveMark f t m0) sts /\ mark_eqb m0 x = true /\
                     f <= Nat.max q from /\ Nat.min (q + nsize c) to <= t.
Proof.
  intros Hw Hle Hto Hfl Hp p i c q HS Hq1 Hq2 Hq3 Hi x Hx.
  pose proof (nodes_between_exact s doc from to Hw Hto) as Hvs.
  set (vs := filter (overlap s from to) (all_visits s doc 0)) in *.
  assert (Hflv : flat_inline vs).
  { intros v Hv. apply Hfl. unfold vs in Hv. apply filter_In in Hv. exact (proj1 Hv). }
  pose proof (nodes_between_complete s doc from to vs Hle Hto Hvs p i c q HS Hq1 Hq2 Hq3) as Hin.
  exact (plan_remove_mark_covers_visits doc from to sel vs sts Hw Hto Hvs Hflv Hp _ Hin Hi x Hx).
Qed.

End WithSchema.
