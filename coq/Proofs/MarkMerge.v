(* Merged mark steps (C16): adding (removing) the same mark over two overlapping or touching ranges, one
   step after the other, gives the token sequence of the single merged step over the union. *)
From Coq Require Import ZArith NArith List Bool Arith Lia.
From PM Require Import Model.Data Model.Mark Model.Tree Model.Resolve Model.StepMap Model.Step Spec.Tokens
  Proofs.DataProofs Proofs.MarkProofs
  Proofs.ReplaceValid Proofs.SliceSides Proofs.TokenBasics Proofs.PathTokens Proofs.ReplaceTokens Proofs.SliceShape
  Proofs.StepFaithful Proofs.SliceTokens Proofs.SliceCut Proofs.TokenLaws Proofs.StepAlgebra Proofs.StepTokens
  Proofs.TokenInj Proofs.ReplaceCanon Proofs.MarkSteps Proofs.MarkPointwise.
Import ListNotations.
Local Open Scope nat_scope.

Section WithSchema.
Variable s : schema.
Notation ftoks := (ftoks s).
Notation V := (V s).
Notation DT := (DT s).

(* ------------------------------------------------------------------ mark-set operations commute with the normal form *)
Fixpoint jnorm_idem (j : json) : jnorm (jnorm j) = jnorm j.
Proof.
  destruct j; cbn [jnorm]; try reflexivity.
  - f_equal. rewrite map_map. induction l as [|x l IH]; [reflexivity|]. cbn [List.map]. f_equal; [apply jnorm_idem|exact IH].
  - f_equal. rewrite map_map. induction l as [|[k x] l IH]; [reflexivity|]. cbn [List.map fst snd]. f_equal; [f_equal; apply jnorm_idem|exact IH].
Qed.
Lemma anorm_idem a : anorm (anorm a) = anorm a.
Proof. unfold anorm. rewrite map_map. apply map_ext. intros [k v]. cbn. f_equal. apply jnorm_idem. Qed.
Lemma mnorm_idem m : mnorm (mnorm m) = mnorm m.
Proof. unfold mnorm. cbn. f_equal. apply anorm_idem. Qed.

Lemma mark_eqb_mnorm_l a b : mark_eqb (mnorm a) b = mark_eqb a b.
Proof.
  destruct (mark_eqb a b) eqn:E.
  - apply mark_norm_eqb. rewrite mnorm_idem. apply mark_eqb_norm. exact E.
  - destruct (mark_eqb (mnorm a) b) eqn:E2; [|reflexivity]. exfalso.
    apply mark_eqb_norm in E2. rewrite mnorm_idem in E2. apply mark_norm_eqb in E2. congruence.
Qed.
Lemma mark_eqb_mnorm_r a b : mark_eqb a (mnorm b) = mark_eqb a b.
Proof.
  destruct (mark_eqb a b) eqn:E.
  - apply mark_norm_eqb. rewrite mnorm_idem. apply mark_eqb_norm. exact E.
  - destruct (mark_eqb a (mnorm b)) eqn:E2; [|reflexivity]. exfalso.
    apply mark_eqb_norm in E2. rewrite mnorm_idem in E2. apply mark_norm_eqb in E2. congruence.
Qed.

Lemma blocks_norm m o : blocks s (mnorm m) (mnorm o) = blocks s m o.
Proof. unfold blocks. cbn [mnorm m_ty]. rewrite mark_eqb_mnorm_l, mark_eqb_mnorm_r. reflexivity. Qed.
Lemma blocked_norm m set : blocked s (mnorm m) (msnorm set) = blocked s m set.
Proof. unfold blocked, msnorm. induction set as [|o r IH]; [reflexivity|]. cbn [List.map existsb]. rewrite blocks_norm, IH. reflexivity. Qed.
Lemma kept_norm m set : kept s (mnorm m) (msnorm set) = msnorm (kept s m set).
Proof.
  unfold kept, msnorm. induction set as [|o r IH]; [reflexivity|]. cbn [List.map filter].
  change (m_ty (mnorm o)) with (m_ty o). change (m_ty (mnorm m)) with (m_ty m) in *.
  destruct (negb (excludes s (m_ty m) (m_ty o))); cbn [List.map]; rewrite IH; reflexivity.
Qed.
Lemma insert_sorted_norm m l : insert_sorted (mnorm m) (msnorm l) = msnorm (insert_sorted m l).
Proof.
  unfold msnorm. induction l as [|x r IH]; [reflexivity|]. cbn [List.map insert_sorted].
  change (m_ty (mnorm x)) with (m_ty x). change (m_ty (mnorm m)) with (m_ty m) in *.
  destruct (m_ty m <? m_ty x); cbn [List.map]; [reflexivity|]. rewrite IH. reflexivity.
Qed.
Lemma add_to_set_norm m set : msnorm (add_to_set s m set) = add_to_set s (mnorm m) (msnorm set).
Proof.
  rewrite !add_to_set_spec, blocked_norm, kept_norm, insert_sorted_norm. destruct (blocked s m set); reflexivity.
Qed.
Lemma remove_from_set_norm m set : msnorm (remove_from_set m set) = remove_from_set (mnorm m) (msnorm set).
Proof.
  unfold remove_from_set, msnorm. induction set as [|o r IH]; [reflexivity|]. cbn [List.map filter].
  rewrite mark_eqb_mnorm_l, mark_eqb_mnorm_r. destruct (negb (mark_eqb o m)); cbn [List.map]; rewrite IH; reflexivity.
Qed.

(* adding / removing twice is adding / removing once *)
Lemma add_to_set_idem m set : add_to_set s m (add_to_set s m set) = add_to_set s m set.
Proof.
  rewrite (add_to_set_spec s m set). destruct (blocked s m set) eqn:Eb.
  - rewrite add_to_set_spec, Eb. reflexivity.
  - rewrite add_to_set_spec.
    assert (Hin : forall l, In m (insert_sorted m l)).
    { induction l as [|x r IH]; cbn [insert_sorted]; [left; reflexivity|]. destruct (m_ty m <? m_ty x); [left; reflexivity|right; exact IH]. }
    assert (Hb : blocked s m (insert_sorted m (kept s m set)) = true).
    { unfold blocked. apply existsb_exists. exists m. split; [apply Hin|]. unfold blocks. rewrite mark_eqb_refl. reflexivity. }
    rewrite Hb. reflexivity.
Qed.
Lemma remove_from_set_idem m set : remove_from_set m (remove_from_set m set) = remove_from_set m set.
Proof.
  unfold remove_from_set. induction set as [|o r IH]; [reflexivity|]. cbn [filter].
  destruct (negb (mark_eqb o m)) eqn:E; [cbn [filter]; rewrite E, IH; reflexivity|exact IH].
Qed.

(* ------------------------------------------------------------------ re-marking a token list *)
Definition ctxT (rty : nat) (T : list tok) (i : nat) : ctx := ctx_after (firstn i T) ([], rty).
Definition remarkedT (u : upd) (rty from to : nat) (T : list tok) : list tok :=
  firstn from T ++ tmap s u (ctxT rty T from) (seg T from to) ++ skipn to T.

Lemma remarked_is_T u doc from to : remarked s u doc from to = remarkedT u (node_ty s doc) from to (ftoks (node_content doc)).
Proof. reflexivity. Qed.

Lemma step_ctx_tnorm c t : step_ctx c (tnorm t) = step_ctx c t.
Proof. destruct t; reflexivity. Qed.
Lemma ctx_after_nt l c : ctx_after (nt l) c = ctx_after l c.
Proof. revert c. induction l as [|t l IH]; intros c; [reflexivity|]. cbn [nt List.map ctx_after fold_left]. rewrite step_ctx_tnorm. apply IH. Qed.

Definition NormalUpd (u uN : upd) : Prop := forall p ty ms, msnorm (u p ty ms) = uN p ty (msnorm ms).

Lemma ftok_tnorm u uN p t : NormalUpd u uN -> tnorm (ftok s u p t) = ftok s uN p (tnorm t).
Proof.
  intros H. destruct t as [ty a ms| |ty a ms|c ms]; cbn [ftok tnorm]; unfold retag; try reflexivity;
    destruct (is_inline_ty s _); try reflexivity; rewrite H; reflexivity.
Qed.
Lemma nt_tmap u uN c l : NormalUpd u uN -> nt (tmap s u c l) = tmap s uN c (nt l).
Proof.
  intros H. revert c. induction l as [|t l IH]; intros c; [reflexivity|]. cbn [tmap nt List.map].
  rewrite (ftok_tnorm u uN _ _ H). fold (nt (tmap s u (step_ctx c t) l)). fold (nt l). rewrite IH, step_ctx_tnorm. reflexivity.
Qed.
Lemma nt_remarkedT u uN rty from to T : NormalUpd u uN ->
  nt (remarkedT u rty from to T) = remarkedT uN rty from to (nt T).
Proof.
  intros H. unfold remarkedT, ctxT. rewrite !nt_app, (nt_tmap u uN _ _ H).
  assert (Hc : ctx_after (firstn from (nt T)) ([], rty) = ctx_after (firstn from T) ([], rty)).
  { unfold nt. rewrite firstn_map. apply ctx_after_nt. }
  rewrite Hc. unfold nt. rewrite <- !firstn_map, <- !skipn_map, <- map_seg. reflexivity.
Qed.

(* token kinds decide the context *)
Lemma sh_ftok u p t : sh (ftok s u p t) = sh t.
Proof. destruct t; reflexivity. Qed.
Lemma shs_tmap u c l : shs (tmap s u c l) = shs l.
Proof. revert c. induction l as [|t l IH]; intros c; [reflexivity|]. cbn [tmap shs List.map]. rewrite sh_ftok. f_equal. apply IH. Qed.
Lemma step_ctx_sh c t t' : sh t = sh t' -> step_ctx c t = step_ctx c t'.
Proof. destruct t, t'; cbn; intros H; inversion H; reflexivity. Qed.
Lemma ctx_after_shs : forall l l' c, shs l = shs l' -> ctx_after l c = ctx_after l' c.
Proof.
  induction l as [|t l IH]; intros [|t' l'] c H; try discriminate; [reflexivity|]. cbn [shs List.map] in H. inversion H as [[H1 H2]].
  cbn [ctx_after fold_left]. rewrite (step_ctx_sh c t t' H1). apply IH. exact H2.
Qed.
Lemma shs_remarkedT u rty from to T : from <= to -> shs (remarkedT u rty from to T) = shs T.
Proof.
  intros H. unfold remarkedT. rewrite !shs_app, shs_tmap, <- !shs_app. f_equal. symmetry. apply split3. exact H.
Qed.
Lemma ctxT_remarkedT u rty from to T i : from <= to -> ctxT rty (remarkedT u rty from to T) i = ctxT rty T i.
Proof.
  intros H. unfold ctxT. apply ctx_after_shs. rewrite !shs_firstn. rewrite shs_remarkedT by exact H. reflexivity.
Qed.

Lemma remarkedT_length u rty from to T : from <= to -> to <= length T -> length (remarkedT u rty from to T) = length T.
Proof.
  intros H1 H2. unfold remarkedT. rewrite !app_length, tmap_length, firstn_length, skipn_length. unfold seg.
  rewrite firstn_length, skipn_length. lia.
Qed.

Lemma ctxT_split rty T from j : ctx_after (firstn j (skipn from T)) (ctxT rty T from) = ctxT rty T (from + j).
Proof.
  unfold ctxT. rewrite <- ctx_after_app. f_equal. rewrite Nat.add_comm.
  rewrite (firstn_skipn_split T from (j + from)) by lia. f_equal. f_equal. lia.
Qed.

Lemma remarkedT_nth u rty from to T i t :
  from <= to -> to <= length T -> nth_error T i = Some t ->
  nth_error (remarkedT u rty from to T) i =
    Some (if (from <=? i) && (i <? to) then ftok s u (snd (ctxT rty T i)) t else t).
Proof.
  intros Hft Hto Hn. unfold remarkedT.
  assert (LA : length (firstn from T) = from) by (rewrite firstn_length; lia).
  assert (LS : length (seg T from to) = to - from) by (unfold seg; rewrite firstn_length, skipn_length; lia).
  destruct (from <=? i) eqn:E1; cbn [andb].
  - apply Nat.leb_le in E1. destruct (i <? to) eqn:E2.
    + apply Nat.ltb_lt in E2. rewrite nth_error_app2 by lia. rewrite LA.
      rewrite nth_error_app1 by (rewrite tmap_length; lia).
      assert (Hs : nth_error (seg T from to) (i - from) = Some t).
      { unfold seg. rewrite nth_firstn by lia. rewrite nth_skipn. replace (from + (i - from)) with i by lia. exact Hn. }
      rewrite (tmap_nth s u _ _ _ _ Hs). f_equal. f_equal. f_equal.
      unfold seg. rewrite firstn_firstn, Nat.min_l by lia. rewrite ctxT_split. f_equal. lia.
    + apply Nat.ltb_ge in E2. rewrite nth_error_app2 by lia. rewrite LA.
      rewrite nth_error_app2 by (rewrite tmap_length; lia). rewrite tmap_length, LS, nth_skipn. rewrite <- Hn. f_equal. lia.
  - apply Nat.leb_gt in E1. rewrite nth_error_app1 by lia. rewrite nth_firstn by lia. exact Hn.
Qed.

Lemma nth_error_ext_eq {A} : forall (l1 l2 : list A), (forall i, nth_error l1 i = nth_error l2 i) -> l1 = l2.
Proof.
  induction l1 as [|x l1 IH]; intros [|y l2] H; [reflexivity| | |].
  - specialize (H 0). discriminate.
  - specialize (H 0). discriminate.
  - pose proof (H 0) as H0. cbn in H0. inversion H0; subst. f_equal. apply IH. intros i. apply (H (S i)).
Qed.

(* ------------------------------------------------------------------ two overlapping or touching ranges = their union *)
Definition IdemUpd (u : upd) : Prop := forall p ty ms, u p ty (u p ty ms) = u p ty ms.

Lemma ftok_idem u p t : IdemUpd u -> ftok s u p (ftok s u p t) = ftok s u p t.
Proof.
  intros H. destruct t as [ty a ms| |ty a ms|c ms]; cbn [ftok]; unfold retag; try reflexivity;
    destruct (is_inline_ty s _); try reflexivity; rewrite H; reflexivity.
Qed.

Theorem remarkedT_union u rty f1 t1 f2 t2 T :
  IdemUpd u -> f1 <= t1 -> f2 <= t2 -> f1 <= t2 -> f2 <= t1 -> t1 <= length T -> t2 <= length T ->
  remarkedT u rty f2 t2 (remarkedT u rty f1 t1 T) = remarkedT u rty (Nat.min f1 f2) (Nat.max t1 t2) T.
Proof.
  intros Hu H1 H2 H12 H21 L1 L2. apply nth_error_ext_eq. intros i.
  pose proof (remarkedT_length u rty f1 t1 T H1 L1) as Len1.
  destruct (nth_error T i) as [t|] eqn:En.
  - rewrite (remarkedT_nth u rty (Nat.min f1 f2) (Nat.max t1 t2) T i t) by (try lia; exact En).
    pose proof (remarkedT_nth u rty f1 t1 T i t H1 L1 En) as E1.
    assert (L2' : t2 <= length (remarkedT u rty f1 t1 T)) by lia.
    rewrite (remarkedT_nth u rty f2 t2 _ i _ H2 L2' E1).
    rewrite ctxT_remarkedT by exact H1.
    destruct (f1 <=? i) eqn:A1; destruct (i <? t1) eqn:A2; destruct (f2 <=? i) eqn:B1; destruct (i <? t2) eqn:B2;
      cbn [andb];
      repeat match goal with
             | H : (_ <=? _) = true |- _ => apply Nat.leb_le in H
             | H : (_ <=? _) = false |- _ => apply Nat.leb_gt in H
             | H : (_ <? _) = true |- _ => apply Nat.ltb_lt in H
             | H : (_ <? _) = false |- _ => apply Nat.ltb_ge in H
             end;
      try (replace (Nat.min f1 f2 <=? i) with true by (symmetry; apply Nat.leb_le; lia));
      try (replace (Nat.min f1 f2 <=? i) with false by (symmetry; apply Nat.leb_gt; lia));
      try (replace (i <? Nat.max t1 t2) with true by (symmetry; apply Nat.ltb_lt; lia));
      try (replace (i <? Nat.max t1 t2) with false by (symmetry; apply Nat.ltb_ge; lia));
      cbn [andb]; try reflexivity; try (rewrite ftok_idem by exact Hu; reflexivity); try lia.
  - (* beyond the end *)
    assert (Hi : length T <= i) by (apply nth_error_None; exact En).
    transitivity (@None tok); [|symmetry]; apply nth_error_None; rewrite !remarkedT_length; try lia.
Qed.

(* ------------------------------------------------------------------ the mark steps in normalised vocabulary *)
Lemma NormalUpd_add m : NormalUpd (u_add s m) (u_add s (mnorm m)).
Proof. intros p ty ms. unfold u_add. change (m_ty (mnorm m)) with (m_ty m). destruct (_ && _); [apply add_to_set_norm|reflexivity]. Qed.
Lemma NormalUpd_remove m : NormalUpd (u_remove m) (u_remove (mnorm m)).
Proof. intros p ty ms. apply remove_from_set_norm. Qed.
Lemma IdemUpd_add m : IdemUpd (u_add s m).
Proof. intros p ty ms. unfold u_add. destruct (_ && _); [apply add_to_set_idem|reflexivity]. Qed.
Lemma IdemUpd_remove m : IdemUpd (u_remove m).
Proof. intros p ty ms. apply remove_from_set_idem. Qed.

Definition step_updN (st : step) : upd :=
  match st with
  | SAddMark _ _ m => u_add s (mnorm m)
  | SRemoveMark _ _ m => u_remove (mnorm m)
  | _ => fun _ _ ms => ms
  end.

Lemma mark_step_root st from to doc d' :
  mark_step_range st = Some (from, to) -> apply s st doc = ROk d' ->
  node_ty s d' = node_ty s doc /\ to <= length (DT doc).
Proof.
  intros Hr H. destruct (apply_mark_inv s _ _ _ _ _ Hr H) as (old & f & parent & Eo & Hf & Er).
  unfold node_replace in Er.
  destruct (resolve s doc from) as [rf|] eqn:Ef; [|discriminate]. cbn [bind] in Er.
  destruct (resolve s doc to) as [rt|] eqn:Et; [|discriminate]. cbn [bind] in Er.
  destruct (resolve_tokens s _ _ _ Et) as (Hto & _). rewrite DT_length. split; [|exact Hto].
  unfold replace_rp in Er. destruct (rp_depth rf <? _); [discriminate|]. destruct (negb _); [discriminate|].
  destruct (rp_pos _ <? rp_pos _); [discriminate|]. destruct (_ && _); [discriminate|].
  destruct (replace_outer_copy s _ _ _ _ _ _ Er) as (n & X & En & ->).
  destruct (resolve_spec s _ _ _ Ef) as (_ & _ & _ & (i & o & rest & Hh) & _).
  unfold rp_node, path_at in En. rewrite Hh in En. cbn in En. inversion En; subst n.
  apply node_copy_markup.
Qed.

Theorem mark_step_normalised st from to doc d' :
  V doc -> from <= to -> mark_step_range st = Some (from, to) -> apply s st doc = ROk d' ->
  DT d' = remarkedT (step_updN st) (node_ty s doc) from to (DT doc).
Proof.
  intros Hd Hft Hr H. rewrite (mark_step_pointwise s _ _ _ _ _ Hd Hft Hr H), remarked_is_T.
  destruct st; try discriminate; cbn [step_upd step_updN].
  - apply nt_remarkedT. apply NormalUpd_add.
  - apply nt_remarkedT. apply NormalUpd_remove.
Qed.

(* ------------------------------------------------------------------ C16 for mark steps *)
Theorem merged_mark_step a b m doc da dab dm :
  V doc -> V da -> merge s a b = Some m ->
  (exists f t, mark_step_range a = Some (f, t) /\ f <= t) ->
  (exists f t, mark_step_range b = Some (f, t) /\ f <= t) ->
  apply s a doc = ROk da -> apply s b da = ROk dab -> apply s m doc = ROk dm ->
  DT dm = DT dab.
Proof.
  intros Hd Hda Hm (f1 & t1 & Ra & H1) (f2 & t2 & Rb & H2) A1 A2 A3.
  destruct (mark_step_root _ _ _ _ _ Ra A1) as (Hty & L1).
  destruct (mark_step_root _ _ _ _ _ Rb A2) as (_ & L2).
  pose proof (mark_step_normalised _ _ _ _ _ Hd H1 Ra A1) as Ea.
  pose proof (mark_step_normalised _ _ _ _ _ Hda H2 Rb A2) as Eab.
  rewrite Hty in Eab.
  assert (Hlen : length (DT da) = length (DT doc)) by (rewrite Ea; apply remarkedT_length; assumption).
  destruct a as [| |fa ta ma|fa ta ma| | | |]; try discriminate; destruct b as [| |fb tb mb|fb tb mb| | | |]; try discriminate;
    cbn [mark_step_range] in Ra, Rb; inversion Ra; inversion Rb; subst; cbn [merge] in Hm;
    (destruct (mark_eqb mb ma && (f1 <=? t2) && (f2 <=? t1)) eqn:Ec; [|discriminate]);
    apply andb_prop in Ec; destruct Ec as [Ec C3]; apply andb_prop in Ec; destruct Ec as [C1 C2];
    apply Nat.leb_le in C2, C3; apply mark_eqb_norm in C1; inversion Hm; subst m; clear Hm;
    cbn [step_updN] in Ea, Eab; rewrite C1 in Eab.
  - assert (Hmm : Nat.min f1 f2 <= Nat.max t1 t2) by lia.
    rewrite (mark_step_normalised (SAddMark (Nat.min f1 f2) (Nat.max t1 t2) ma) _ _ _ _ Hd Hmm eq_refl A3). cbn [step_updN].
    rewrite Eab, Ea. symmetry. apply remarkedT_union; try assumption; try lia. apply IdemUpd_add.
  - assert (Hmm : Nat.min f1 f2 <= Nat.max t1 t2) by lia.
    rewrite (mark_step_normalised (SRemoveMark (Nat.min f1 f2) (Nat.max t1 t2) ma) _ _ _ _ Hd Hmm eq_refl A3). cbn [step_updN].
    rewrite Eab, Ea. symmetry. apply remarkedT_union; try assumption; try lia. apply IdemUpd_remove.
Qed.

End WithSchema.
