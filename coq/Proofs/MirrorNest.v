(* Nested mirror pairs (C08): a mapping made of maps m1 ... mn followed by their inverses in reverse order, each
   pair registered as mirrors - the shape rebasing and undo histories build - returns EVERY position to where it
   started, positions inside deleted content included (they jump over the whole inner nest through the recover
   value). *)
From Coq Require Import ZArith List Bool Lia ZifyBool.
From PM Require Import Model.StepMap Proofs.StepMapProofs Proofs.StepMapProofs2.
Import ListNotations.
Open Scope Z_scope.

(* indices i .. j-1 of the mapping hold m1 .. mn, inv mn .. inv m1, mirrored pairwise *)
Fixpoint Nest (mp : mapping) (i j : Z) (ms : list stepmap) : Prop :=
  match ms with
  | [] => j = i
  | m :: r =>
    nthZ (maps mp) i = Some m /\ nthZ (maps mp) (j - 1) = Some (invert m) /\
    get_mirror mp i = Some (j - 1) /\ get_mirror mp (j - 1) = Some i /\
    inverted m = false /\ sep_ranges (-1) (ranges m) /\ Z.of_nat (length (ranges m)) <= 65536 /\
    i + 1 <= j - 1 /\ Nest mp (i + 1) (j - 1) r
  end.

Lemma sep_wf0 rs : sep_ranges (-1) rs -> wf_ranges 0 rs.
Proof.
  destruct rs as [|[[s a] b] rs]; simpl; auto. intros (H1 & H2 & H3 & H4). repeat split; try lia. apply sep_wf. exact H4.
Qed.

Lemma nest_go : forall ms mp i j p a del fuel,
  Nest mp i j ms -> j <= mto mp -> 0 <= p -> (2 * length ms <= fuel)%nat ->
  exists fuel' del', (fuel - 2 * length ms <= fuel')%nat /\
    mapping_go fuel mp i p a del = mapping_go fuel' mp j p a del'.
Proof.
  induction ms as [|m ms IH]; intros mp i j p a del fuel Hn Hj Hp Hf.
  - cbn [Nest] in Hn. subst j. exists fuel, del. split; [lia|reflexivity].
  - cbn [Nest] in Hn. destruct Hn as (N1 & N2 & G1 & G2 & Hinv & Hsep & Hlen & Hij & Hn).
    cbn [length] in *. destruct fuel as [|f]; [lia|].
    destruct (mr_recover (map_result m p a)) as [rv|] eqn:Er.
    + exists f, del. split; [lia|].
      assert (J : mapping_go (S f) mp i p a del = mapping_go f mp (j - 1 + 1) p a del).
      { apply (mapping_go_jump f mp i p a del m rv (j - 1) (invert m) p); auto; try lia.
        apply (recover_roundtrip m p a rv); auto. }
      rewrite J. replace (j - 1 + 1) with j by lia. reflexivity.
    + assert (J1 : mapping_go (S f) mp i p a del =
                   mapping_go f mp (i + 1) (mr_pos (map_result m p a)) a (Z.lor del (mr_del (map_result m p a)))).
      { apply (mapping_go_plain f mp i p a del m); auto; lia. }
      set (p1 := mr_pos (map_result m p a)) in *.
      assert (Hp1 : 0 <= p1).
      { unfold p1, map_result. rewrite Hinv.
        pose proof (map_go_lower (ranges m) 0 0 p a 0 (sep_wf0 _ Hsep) Hp). lia. }
      destruct f as [|f']; [lia|].
      destruct (IH mp (i + 1) (j - 1) p1 a (Z.lor del (mr_del (map_result m p a))) (S f') Hn ltac:(lia) Hp1 ltac:(lia))
        as (f2 & del2 & Hf2 & E2).
      destruct f2 as [|f3]; [lia|].
      assert (J3 : mapping_go (S f3) mp (j - 1) p1 a del2 =
                   mapping_go f3 mp (j - 1 + 1) (mr_pos (map_result (invert m) p1 a)) a
                     (Z.lor del2 (mr_del (map_result (invert m) p1 a)))).
      { apply (mapping_go_plain f3 mp (j - 1) p1 a del2 (invert m)); auto; try lia.
        right. rewrite G2. lia. }
      assert (Hback : mr_pos (map_result (invert m) p1 a) = p).
      { unfold p1, map_result, invert. cbn [ranges inverted]. rewrite Hinv. cbn [negb].
        unfold map_result in Er. rewrite Hinv in Er.
        replace 0 with (- 0) at 3 by lia. apply (inverse_norecover (ranges m) 0 0 0 p a (-1)); auto. lia. }
      exists f3, (Z.lor del2 (mr_del (map_result (invert m) p1 a))). split; [lia|].
      rewrite J1, E2, J3, Hback. replace (j - 1 + 1) with j by lia. reflexivity.
Qed.

(* the mapping Mapping.append_map / append_mapping_inverted build for maps [ms]: ms, then their inverses in reverse
   order, with the mirror pairs registered innermost first or outermost first - any list of pairs giving the lookups
   below *)
Theorem nested_mirror_roundtrip ms mp p a :
  Nest mp 0 (mto mp) ms -> mfrom mp = 0 -> mirror mp <> [] -> 0 <= p ->
  mto mp = 2 * Z.of_nat (length ms) ->
  mapping_map mp p a = Some p.
Proof.
  intros Hn Hfrom Hmir Hp Hto. unfold mapping_map, mapping_map_result.
  destruct (mirror mp) as [|pr rest] eqn:Em; [contradiction|]. rewrite Hfrom.
  replace (Z.to_nat (mto mp - 0)) with (2 * length ms)%nat by lia.
  destruct (nest_go ms mp 0 (mto mp) p a 0 (2 * length ms)%nat Hn ltac:(lia) Hp ltac:(lia)) as (f' & del' & _ & E).
  rewrite E, mapping_go_done by lia. reflexivity.
Qed.
