(* Node.replace is a splice of the flat token sequence (C02), up to Python's `==` on attribute values
   ([tnorm]): tokens(result) = tokens(doc)[:from] ++ inner tokens of the slice ++ tokens(doc)[to:]. *)
From Coq Require Import ZArith NArith List Bool Arith Lia.
From PM Require Import Model.Data Model.Mark Model.Tree Spec.Tokens Proofs.DataProofs Proofs.NodeInd
  Proofs.ReplaceValid Proofs.SliceSides Proofs.TokenBasics Proofs.PathTokens.
Import ListNotations.

Section WithSchema.
Variable s : schema.
Notation nsize := (node_size s).
Notation fsize := (frag_size s).
Notation toks := (toks s).
Notation ftoks := (ftoks s).
Notation entry := (node * nat * nat)%type.

Ltac lnorm := repeat (first [rewrite <- app_assoc | progress cbn [app]]).

Definition nt (l : list tok) : list tok := List.map tnorm l.
Lemma nt_app a b : nt (a ++ b) = nt a ++ nt b.
Proof. apply map_app. Qed.

Lemma nt_text_marks t m m' : marks_eqb m m' = true -> nt (toks (Text t m)) = nt (toks (Text t m')).
Proof.
  intros H. apply marks_eqb_norm in H. cbn [Tokens.toks]. unfold nt. rewrite !map_map. apply map_ext.
  intros u. cbn [tnorm]. rewrite H. reflexivity.
Qed.

Lemma toks_text_app t t' m : toks (Text (t ++ t') m) = toks (Text t m) ++ toks (Text t' m).
Proof. cbn [Tokens.toks]. rewrite units_app, map_app. reflexivity. Qed.

Lemma rev_cons_split {A} (l : list A) x r : rev l = x :: r -> l = removelast l ++ [x].
Proof.
  intros H. assert (Hl : l = rev r ++ [x]) by (rewrite <- (rev_involutive l), H; reflexivity).
  rewrite Hl at 2. rewrite Hl at 1. rewrite removelast_last. reflexivity.
Qed.

Lemma add_node_toks c target : nt (ftoks (add_node c target)) = nt (ftoks target) ++ nt (toks c).
Proof.
  assert (Hd : nt (ftoks (target ++ [c])) = nt (ftoks target) ++ nt (toks c)).
  { rewrite ftoks_app, nt_app. cbn [Tokens.ftoks]. rewrite app_nil_r. reflexivity. }
  unfold add_node. destruct c as [t m|ty a m cs]; [|exact Hd].
  destruct (rev target) as [|[t' m'|? ? ? ?] r] eqn:Er; try exact Hd.
  destruct (marks_eqb m m') eqn:Em; [|exact Hd].
  pose proof (rev_cons_split _ _ _ Er) as Hs. rewrite Hs at 2.
  rewrite !ftoks_app, !nt_app. cbn [Tokens.ftoks]. rewrite !app_nil_r. rewrite <- app_assoc. f_equal.
  rewrite toks_text_app, nt_app. f_equal. apply nt_text_marks. exact Em.
Qed.

Lemma add_all_toks l : forall target, nt (ftoks (add_all l target)) = nt (ftoks target) ++ nt (ftoks l).
Proof.
  induction l as [|c l IH]; intros target; cbn [add_all Tokens.ftoks].
  - rewrite app_nil_r. reflexivity.
  - rewrite IH, add_node_toks, nt_app, app_assoc. reflexivity.
Qed.

Lemma last_split {A} (a : list A) d : a <> [] -> a = removelast a ++ [last a d].
Proof. intros H. apply app_removelast_last. exact H. Qed.

Lemma frag_append_toks a b : nt (ftoks (frag_append a b)) = nt (ftoks a) ++ nt (ftoks b).
Proof.
  unfold frag_append. destruct b as [|first b']; [cbn; rewrite app_nil_r; reflexivity|].
  destruct a as [|a0 a']; [reflexivity|]. set (a := a0 :: a') in *.
  assert (Hd : nt (ftoks (a ++ first :: b')) = nt (ftoks a) ++ nt (ftoks (first :: b')))
    by (rewrite ftoks_app, nt_app; reflexivity).
  destruct (last a first) as [t m|? ? ? ?] eqn:El; [|exact Hd].
  destruct first as [t' m'|? ? ? ?]; [|exact Hd].
  destruct (marks_eqb m m') eqn:Em; [|exact Hd].
  assert (Hs : a = removelast a ++ [Text t m]) by (rewrite <- El; apply last_split; discriminate).
  rewrite Hs at 2. rewrite !ftoks_app, !nt_app. cbn [Tokens.ftoks]. rewrite !app_nil_r, !nt_app.
  rewrite <- !app_assoc. f_equal. rewrite toks_text_app, nt_app, <- app_assoc. f_equal. f_equal.
  apply nt_text_marks. exact Em.
Qed.

Lemma close_toks n c r :
  close s n c = Ok r -> nonleaf s n -> is_elem n -> toks r = open_tok n :: ftoks c ++ [TClose].
Proof.
  intros H Hn (ty & a & m & cs & ->). apply close_copy in H. subst r. cbn [node_copy open_tok].
  rewrite toks_elem. unfold nonleaf in Hn. cbn [node_ty] in Hn. rewrite Hn. reflexivity.
Qed.

(* ---------------------------------------------------------------- add_range *)
(* tokens of node(r, d)'s content on the left / right of the path's child at that level *)
Definition left_of (r : rpos) (d : nat) : list tok :=
  match path_at r d with
  | Some (n, i, _) =>
    ftoks (firstn i (node_content n)) ++
    (if d =? rp_depth r
     then match nth_error (node_content n) i with Some c => firstn (rp_text_offset r) (toks c) | None => [] end
     else [])
  | None => []
  end.
Definition right_of (r : rpos) (d : nat) : list tok :=
  match path_at r d with
  | Some (n, i, _) =>
    if d =? rp_depth r
    then match nth_error (node_content n) i with
         | Some c => skipn (rp_text_offset r) (toks c) ++ ftoks (skipn (S i) (node_content n))
         | None => []
         end
    else ftoks (skipn (S i) (node_content n))
  | None => []
  end.

Lemma firstn_skipn_all {A} (l : list A) k : firstn (length l - k) (skipn k l) = skipn k l.
Proof. rewrite <- (skipn_length k l). apply firstn_all. Qed.

Lemma path_at_depth_le r d x : path_at r d = Some x -> d <= rp_depth r.
Proof.
  unfold path_at, rp_depth. intros H. assert (d < length (rp_path r)) by (apply nth_error_Some; congruence). lia.
Qed.

Lemma node_before_toks r x :
  rp_node_before s r = Ok (Some x) -> rp_text_offset r <> 0 -> TextAt r ->
  exists n i o c, path_at r (rp_depth r) = Some (n, i, o) /\ nth_error (node_content n) i = Some c /\
                  toks x = firstn (rp_text_offset r) (toks c).
Proof.
  unfold rp_node_before, rp_parent. intros H Ez Ht.
  destruct (rp_node r (rp_depth r)) as [parent|] eqn:En; [|discriminate]. cbn [bind] in H.
  destruct (rp_index r (rp_depth r)) as [index|] eqn:Ei; [|discriminate]. cbn [bind] in H.
  destruct (rp_node_path _ _ _ En) as (i0 & o0 & Hp). destruct (rp_index_path _ _ _ Ei) as (n1 & o1 & Hp1).
  rewrite Hp in Hp1. inversion Hp1; subst n1 i0 o1. clear Hp1.
  destruct (rp_text_offset r =? 0) eqn:Ez'; [apply Nat.eqb_eq in Ez'; contradiction|]. cbn [negb] in H.
  destruct (Ht Ez) as (n2 & i2 & o2 & t & m & Hp2 & Hc2).
  rewrite Hp in Hp2. inversion Hp2; subst n2 i2 o2. rewrite Hc2 in H.
  destruct (text_cut t m 0 (rp_text_offset r)) as [c|] eqn:Et; [|discriminate].
  cbn [bind] in H. inversion H; subst. exists parent, index, o0, (Text t m). split; [exact Hp|]. split; [exact Hc2|].
  rewrite (text_cut_toks s _ _ _ _ _ Et). unfold seg. rewrite Nat.sub_0_r. reflexivity.
Qed.

Lemma node_after_toks r x :
  rp_node_after s r = Ok (Some x) -> rp_text_offset r <> 0 -> TextAt r ->
  exists n i o c, path_at r (rp_depth r) = Some (n, i, o) /\ nth_error (node_content n) i = Some c /\
                  toks x = skipn (rp_text_offset r) (toks c).
Proof.
  unfold rp_node_after, rp_parent. intros H Ez Ht.
  destruct (rp_node r (rp_depth r)) as [parent|] eqn:En; [|discriminate]. cbn [bind] in H.
  destruct (rp_index r (rp_depth r)) as [index|] eqn:Ei; [|discriminate]. cbn [bind] in H.
  destruct (rp_node_path _ _ _ En) as (i0 & o0 & Hp). destruct (rp_index_path _ _ _ Ei) as (n1 & o1 & Hp1).
  rewrite Hp in Hp1. inversion Hp1; subst n1 i0 o1. clear Hp1.
  destruct (Ht Ez) as (n2 & i2 & o2 & t & m & Hp2 & Hc2).
  rewrite Hp in Hp2. inversion Hp2; subst n2 i2 o2. rewrite Hc2 in H.
  destruct (rp_text_offset r =? 0) eqn:Ez'; [apply Nat.eqb_eq in Ez'; contradiction|].
  destruct (text_cut t m (rp_text_offset r) (text_length t)) as [c|] eqn:Et; [|discriminate].
  cbn [bind] in H. inversion H; subst. exists parent, index, o0, (Text t m). split; [exact Hp|]. split; [exact Hc2|].
  rewrite (text_cut_toks s _ _ _ _ _ Et). unfold seg.
  pose proof (toks_length s (Text t m)) as Hl. cbn [node_size] in Hl. rewrite <- Hl. apply firstn_skipn_all.
Qed.

Lemma add_range_left e depth target l :
  add_range s None (Some e) depth target = Ok l -> TextAt e ->
  nt (ftoks l) = nt (ftoks target) ++ nt (left_of e depth).
Proof.
  unfold add_range. intros H Ht.
  destruct (rp_node e depth) as [n|] eqn:En; [|discriminate]. cbn [bind] in H.
  destruct (rp_index e depth) as [ei|] eqn:Eei; [|discriminate]. cbn [bind] in H.
  destruct (length (node_content n) <? ei); [discriminate|]. cbn [bind] in H.
  destruct (rp_node_path _ _ _ En) as (i0 & o0 & Hp). destruct (rp_index_path _ _ _ Eei) as (n1 & o1 & Hp1).
  rewrite Hp in Hp1. inversion Hp1; subst n1 i0 o1. clear Hp1.
  unfold left_of. rewrite Hp. rewrite Nat.sub_0_r in H. cbn [skipn] in H.
  rewrite nt_app, app_assoc, <- add_all_toks.
  destruct (rp_depth e =? depth) eqn:Ed.
  - apply Nat.eqb_eq in Ed. subst depth. rewrite Nat.eqb_refl. cbn [andb] in H.
    destruct (rp_text_offset e =? 0) eqn:Ez; cbn [negb] in H.
    + apply Nat.eqb_eq in Ez. rewrite Ez. inversion H; subst.
      replace (match nth_error (node_content n) ei with Some c => firstn 0 (toks c) | None => [] end) with (@nil tok)
        by (destruct (nth_error (node_content n) ei); reflexivity).
      cbn. rewrite app_nil_r. reflexivity.
    + apply Nat.eqb_neq in Ez. destruct (rp_node_before s e) as [[x|]|] eqn:Enb; try discriminate.
      cbn [bind] in H. inversion H; subst.
      destruct (node_before_toks _ _ Enb Ez Ht) as (n2 & i2 & o2 & c & Hp2 & Hc & Hx).
      rewrite Hp in Hp2. inversion Hp2; subst n2 i2 o2. rewrite Hc, <- Hx. apply add_node_toks.
  - cbn [andb] in H. inversion H; subst. rewrite Nat.eqb_sym, Ed. cbn. rewrite app_nil_r. reflexivity.
Qed.

Lemma skipn_nth_cons {A} (l : list A) i c : nth_error l i = Some c -> skipn i l = c :: skipn (S i) l.
Proof.
  revert i. induction l as [|x l IH]; intros [|i] H; try discriminate.
  - inversion H; reflexivity.
  - cbn [nth_error] in H. cbn [skipn]. apply IH. exact H.
Qed.

Lemma add_range_right sp depth target l :
  add_range s (Some sp) None depth target = Ok l -> TextAt sp ->
  nt (ftoks l) = nt (ftoks target) ++ nt (right_of sp depth).
Proof.
  unfold add_range. intros H Ht.
  destruct (rp_node sp depth) as [n|] eqn:En; [|discriminate]. cbn [bind] in H.
  destruct (rp_index sp depth) as [si|] eqn:Esi; [|discriminate]. cbn [bind] in H.
  destruct (rp_node_path _ _ _ En) as (i0 & o0 & Hp). destruct (rp_index_path _ _ _ Esi) as (n1 & o1 & Hp1).
  rewrite Hp in Hp1. inversion Hp1; subst n1 i0 o1. clear Hp1.
  pose proof (path_at_depth_le _ _ _ Hp) as Hle.
  unfold right_of. rewrite Hp.
  destruct (depth <? rp_depth sp) eqn:Ed.
  - apply Nat.ltb_lt in Ed. cbn [bind] in H. rewrite Nat.ltb_irrefl in H. cbn [bind] in H.
    rewrite firstn_skipn_all in H. inversion H; subst.
    replace (depth =? rp_depth sp) with false by (symmetry; apply Nat.eqb_neq; lia).
    apply add_all_toks.
  - apply Nat.ltb_ge in Ed. assert (depth = rp_depth sp) by lia. subst depth. rewrite Nat.eqb_refl.
    destruct (rp_text_offset sp =? 0) eqn:Ez; cbn [negb] in H.
    + apply Nat.eqb_eq in Ez. rewrite Ez. cbn [bind] in H. rewrite Nat.ltb_irrefl in H. cbn [bind] in H.
      rewrite firstn_skipn_all in H. inversion H; subst. rewrite add_all_toks. f_equal. f_equal.
      destruct (nth_error (node_content n) si) as [c|] eqn:Ec.
      * rewrite (skipn_nth_cons _ _ _ Ec). reflexivity.
      * apply nth_error_None in Ec. rewrite skipn_all2 by lia. reflexivity.
    + apply Nat.eqb_neq in Ez. destruct (rp_node_after s sp) as [[x|]|] eqn:Ena; try discriminate.
      cbn [bind] in H. rewrite Nat.ltb_irrefl in H. cbn [bind] in H.
      rewrite firstn_skipn_all in H. inversion H; subst.
      destruct (node_after_toks _ _ Ena Ez Ht) as (n2 & i2 & o2 & c & Hp2 & Hc & Hx).
      rewrite Hp in Hp2. inversion Hp2; subst n2 i2 o2. rewrite Hc, <- Hx.
      rewrite add_all_toks, add_node_toks, nt_app, app_assoc. reflexivity.
Qed.

Lemma add_range_mid sp e depth target l :
  add_range s (Some sp) (Some e) depth target = Ok l ->
  rp_text_offset sp = 0 -> rp_text_offset e = 0 ->
  exists n ei o si, path_at e depth = Some (n, ei, o) /\ rp_index sp depth = Ok si /\
    nt (ftoks l) = nt (ftoks target) ++
                   nt (ftoks (seg (node_content n) (if depth <? rp_depth sp then S si else si) ei)).
Proof.
  unfold add_range. intros H Hzs Hze.
  destruct (rp_node e depth) as [n|] eqn:En; [|discriminate]. cbn [bind] in H.
  destruct (rp_index e depth) as [ei|] eqn:Eei; [|discriminate]. cbn [bind] in H.
  destruct (rp_index sp depth) as [si|] eqn:Esi; [|discriminate]. cbn [bind] in H.
  destruct (rp_node_path _ _ _ En) as (i0 & o0 & Hp). destruct (rp_index_path _ _ _ Eei) as (n1 & o1 & Hp1).
  rewrite Hp in Hp1. inversion Hp1; subst n1 i0 o1. clear Hp1.
  exists n, ei, o0, si. split; [exact Hp|]. split; [reflexivity|].
  rewrite Hzs, Hze in H. cbn [Nat.eqb negb] in H. rewrite andb_false_r in H.
  destruct (depth <? rp_depth sp); cbn [bind] in H;
    (destruct (length (node_content n) <? ei); [discriminate|]); cbn [bind] in H; inversion H; subst;
    apply add_all_toks.
Qed.

(* ---------------------------------------------------------------- paths level by level *)
Lemma skipn_path r d x : path_at r d = Some x -> skipn d (rp_path r) = x :: skipn (S d) (rp_path r).
Proof. unfold path_at. apply skipn_nth_cons. Qed.

Lemma skipn_S_nil r d : rp_depth r <= d -> skipn (S d) (rp_path r) = [].
Proof. unfold rp_depth. intros H. apply skipn_all2. lia. Qed.

Lemma path_at_S_some r d : d < rp_depth r -> exists x, path_at r (S d) = Some x.
Proof.
  unfold rp_depth, path_at. intros H. destruct (nth_error (rp_path r) (S d)) as [x|] eqn:E; [eauto|].
  apply nth_error_None in E. lia.
Qed.

Lemma before_p_final r d n i o toff :
  path_at r d = Some (n, i, o) -> rp_depth r <= d ->
  before_p s (skipn d (rp_path r)) toff =
  ftoks (firstn i (node_content n)) ++
  match nth_error (node_content n) i with Some c => firstn toff (toks c) | None => [] end.
Proof. intros Hp Hd. rewrite (skipn_path _ _ _ Hp), (skipn_S_nil _ _ Hd). reflexivity. Qed.

Lemma before_p_inner r d n i o c i' o' toff :
  path_at r d = Some (n, i, o) -> path_at r (S d) = Some (c, i', o') ->
  before_p s (skipn d (rp_path r)) toff =
  ftoks (firstn i (node_content n)) ++ open_tok c :: before_p s (skipn (S d) (rp_path r)) toff.
Proof.
  intros Hp Hp'. rewrite (skipn_path _ _ _ Hp). cbn [before_p]. rewrite (skipn_path _ _ _ Hp'). reflexivity.
Qed.

Lemma after_p_final r d n i o toff :
  path_at r d = Some (n, i, o) -> rp_depth r <= d ->
  after_p s (skipn d (rp_path r)) toff =
  match nth_error (node_content n) i with
  | Some c => skipn toff (toks c) ++ ftoks (skipn (S i) (node_content n))
  | None => []
  end.
Proof. intros Hp Hd. rewrite (skipn_path _ _ _ Hp), (skipn_S_nil _ _ Hd). reflexivity. Qed.

Lemma after_p_inner r d n i o x toff :
  path_at r d = Some (n, i, o) -> path_at r (S d) = Some x ->
  after_p s (skipn d (rp_path r)) toff =
  after_p s (skipn (S d) (rp_path r)) toff ++ [TClose] ++ ftoks (skipn (S i) (node_content n)).
Proof.
  intros Hp Hp'. rewrite (skipn_path _ _ _ Hp). cbn [after_p]. rewrite (skipn_path _ _ _ Hp'). reflexivity.
Qed.

Lemma left_of_final r d n i o :
  path_at r d = Some (n, i, o) -> rp_depth r <= d ->
  left_of r d = before_p s (skipn d (rp_path r)) (rp_text_offset r).
Proof.
  intros Hp Hd. rewrite (before_p_final _ _ _ _ _ _ Hp Hd). unfold left_of. rewrite Hp.
  pose proof (path_at_depth_le _ _ _ Hp). replace (d =? rp_depth r) with true by (symmetry; apply Nat.eqb_eq; lia).
  reflexivity.
Qed.
Lemma left_of_inner r d n i o :
  path_at r d = Some (n, i, o) -> d < rp_depth r -> left_of r d = ftoks (firstn i (node_content n)).
Proof.
  intros Hp Hd. unfold left_of. rewrite Hp. replace (d =? rp_depth r) with false by (symmetry; apply Nat.eqb_neq; lia).
  apply app_nil_r.
Qed.
Lemma right_of_final r d n i o :
  path_at r d = Some (n, i, o) -> rp_depth r <= d ->
  right_of r d = after_p s (skipn d (rp_path r)) (rp_text_offset r).
Proof.
  intros Hp Hd. rewrite (after_p_final _ _ _ _ _ _ Hp Hd). unfold right_of. rewrite Hp.
  pose proof (path_at_depth_le _ _ _ Hp). replace (d =? rp_depth r) with true by (symmetry; apply Nat.eqb_eq; lia).
  reflexivity.
Qed.
Lemma right_of_inner r d n i o :
  path_at r d = Some (n, i, o) -> d < rp_depth r -> right_of r d = ftoks (skipn (S i) (node_content n)).
Proof.
  intros Hp Hd. unfold right_of. rewrite Hp. replace (d =? rp_depth r) with false by (symmetry; apply Nat.eqb_neq; lia).
  reflexivity.
Qed.

(* ---------------------------------------------------------------- replace_two_way *)
Lemma joinable_node before after depth n :
  joinable s before after depth = Ok n -> rp_node before depth = Ok n /\ exists a, rp_node after depth = Ok a.
Proof.
  unfold joinable. destruct (rp_node before depth) as [n0|]; [|discriminate]. cbn [bind].
  destruct (rp_node after depth) as [a0|]; [|discriminate]. cbn [bind].
  destruct (check_join s n0 a0); [|discriminate]. cbn [bind]. intros H; inversion H; subst. eauto.
Qed.

Lemma two_way_toks : forall fuel from to depth l,
  replace_two_way s fuel from to depth = Ok l ->
  rp_depth from = rp_depth to -> TextAt from -> TextAt to -> PathShape s from ->
  nt (ftoks l) = nt (before_p s (skipn depth (rp_path from)) (rp_text_offset from)) ++
                 nt (after_p s (skipn depth (rp_path to)) (rp_text_offset to)).
Proof.
  induction fuel as [|fuel IH]; intros from to depth l H Hdep Htf Htt Hsh; [discriminate|].
  cbn [replace_two_way] in H.
  destruct (add_range s None (Some from) depth []) as [c1|] eqn:E1; [|discriminate]. cbn [bind] in H.
  pose proof (add_range_left _ _ _ _ E1 Htf) as Hc1. cbn [Tokens.ftoks nt List.map app] in Hc1.
  (* the path entries at this depth *)
  assert (Hpf : exists n i o, path_at from depth = Some (n, i, o)).
  { unfold add_range in E1. destruct (rp_node from depth) as [n|] eqn:En; [|discriminate].
    destruct (rp_node_path _ _ _ En) as (i & o & Hp). eauto. }
  destruct Hpf as (nf & i_f & o_f & Hpf).
  destruct (depth <? rp_depth from) eqn:Ed.
  - apply Nat.ltb_lt in Ed.
    destruct (joinable s from to (S depth)) as [ty|] eqn:Ej; [|discriminate]. cbn [bind] in H.
    destruct (replace_two_way s fuel from to (S depth)) as [inner|] eqn:Ei; [|discriminate]. cbn [bind] in H.
    destruct (close s ty inner) as [cl|] eqn:Ec; [|discriminate]. cbn [bind] in H.
    destruct (joinable_node _ _ _ _ Ej) as (Hty & (a & Ha)).
    destruct (Hsh _ _ Hty) as (Hel & Hnl). specialize (Hnl (Nat.lt_0_succ depth)).
    pose proof (close_toks _ _ _ Ec Hnl Hel) as Hcl.
    pose proof (add_range_right _ _ _ _ H Htt) as Hl.
    rewrite Hl, add_node_toks, Hc1, Hcl.
    destruct (rp_node_path _ _ _ Hty) as (i1 & o1 & Hpf1).
    destruct (rp_node_path _ _ _ Ha) as (i2 & o2 & Hpt1).
    assert (Hpt : exists n i o, path_at to depth = Some (n, i, o)).
    { unfold add_range in H. destruct (rp_node to depth) as [n|] eqn:En; [|discriminate].
      destruct (rp_node_path _ _ _ En) as (i & o & Hp). eauto. }
    destruct Hpt as (nt_ & i_t & o_t & Hpt).
    rewrite (left_of_inner _ _ _ _ _ Hpf Ed), (right_of_inner _ _ _ _ _ Hpt ltac:(lia)).
    rewrite (before_p_inner _ _ _ _ _ _ _ _ _ Hpf Hpf1), (after_p_inner _ _ _ _ _ _ _ Hpt Hpt1).
    specialize (IH _ _ _ _ Ei Hdep Htf Htt Hsh).
    unfold nt in *. rewrite ?map_app. cbn [List.map]. rewrite ?map_app. cbn [List.map]. rewrite IH.
    rewrite <- !app_assoc. cbn [app]. f_equal. f_equal. rewrite <- !app_assoc. reflexivity.
  - apply Nat.ltb_ge in Ed. cbn [bind] in H.
    pose proof (add_range_right _ _ _ _ H Htt) as Hl. rewrite Hl, Hc1.
    assert (Hpt : exists n i o, path_at to depth = Some (n, i, o)).
    { unfold add_range in H. destruct (rp_node to depth) as [n|] eqn:En; [|discriminate].
      destruct (rp_node_path _ _ _ En) as (i & o & Hp). eauto. }
    destruct Hpt as (nt_ & i_t & o_t & Hpt).
    rewrite (left_of_final _ _ _ _ _ Hpf Ed), (right_of_final _ _ _ _ _ Hpt ltac:(lia)). reflexivity.
Qed.

(* ---------------------------------------------------------------- replace_three_way *)
(* tokens strictly between two positions (text offsets 0) given by their paths from a common node *)
Fixpoint between (ps pe : list entry) {struct ps} : list tok :=
  match ps, pe with
  | (n, si, _) :: rs, (_, ei, _) :: re =>
    match rs, re with
    | _ :: _, (c2, _, _) :: _ =>
      if si =? ei then between rs re
      else after_p s rs 0 ++ [TClose] ++ ftoks (seg (node_content n) (S si) ei) ++ open_tok c2 :: before_p s re 0
    | _ :: _, [] => after_p s rs 0 ++ [TClose] ++ ftoks (seg (node_content n) (S si) ei)
    | [], (c2, _, _) :: _ => ftoks (seg (node_content n) si ei) ++ open_tok c2 :: before_p s re 0
    | [], [] => ftoks (seg (node_content n) si ei)
    end
  | _, _ => []
  end.

Definition SameNode (a b : rpos) (d : nat) : Prop := exists n, rp_node a d = Ok n /\ rp_node b d = Ok n.

Lemma TextAt_zero r : rp_text_offset r = 0 -> TextAt r.
Proof. intros H Hn. congruence. Qed.

Lemma rp_node_of_path r d n i o : path_at r d = Some (n, i, o) -> rp_node r d = Ok n /\ rp_index r d = Ok i.
Proof. unfold rp_node, rp_index. intros ->. auto. Qed.

Lemma nt_cons x l : nt (x :: l) = tnorm x :: nt l.
Proof. reflexivity. Qed.

Lemma three_way_toks : forall fuel from start end_ to depth l,
  replace_three_way s fuel from start end_ to depth = Ok l ->
  rp_depth start = rp_depth from -> rp_depth end_ = rp_depth to ->
  rp_text_offset start = 0 -> rp_text_offset end_ = 0 ->
  TextAt from -> TextAt to -> PathShape s from -> PathShape s end_ ->
  linked (rp_path start) -> linked (rp_path end_) -> SameNode start end_ depth ->
  nt (ftoks l) = nt (before_p s (skipn depth (rp_path from)) (rp_text_offset from)) ++
                 nt (between (skipn depth (rp_path start)) (skipn depth (rp_path end_))) ++
                 nt (after_p s (skipn depth (rp_path to)) (rp_text_offset to)).
Proof.
  induction fuel as [|fuel IH]; intros from start end_ to depth l H Hds Hde Hzs Hze Htf Htt Hshf Hshe Hls Hle Hsame;
    [discriminate|].
  cbn [replace_three_way] in H.
  destruct (if depth <? rp_depth from then do n <- joinable s from start (S depth); Ok (Some n) else Ok None)
    as [open_start|] eqn:Eos; [|discriminate]. cbn [bind] in H.
  destruct (if depth <? rp_depth to then do n <- joinable s end_ to (S depth); Ok (Some n) else Ok None)
    as [open_end|] eqn:Eoe; [|discriminate]. cbn [bind] in H.
  destruct (add_range s None (Some from) depth []) as [c1|] eqn:E1; [|discriminate]. cbn [bind] in H.
  pose proof (add_range_left _ _ _ _ E1 Htf) as Hc1. cbn [Tokens.ftoks nt List.map app] in Hc1.
  assert (Hpf : exists n i o, path_at from depth = Some (n, i, o)).
  { unfold add_range in E1. destruct (rp_node from depth) as [n|] eqn:En; [|discriminate].
    destruct (rp_node_path _ _ _ En) as (i & o & Hp). eauto. }
  destruct Hpf as (nf & i_f & o_f & Hpf).
  match type of H with
  | bind ?mid _ = _ => destruct mid as [c2|] eqn:E2; [|discriminate]
  end. cbn [bind] in H.
  pose proof (add_range_right _ _ _ _ H Htt) as Hl.
  assert (Hpt : exists n i o, path_at to depth = Some (n, i, o)).
  { unfold add_range in H. destruct (rp_node to depth) as [n|] eqn:En; [|discriminate].
    destruct (rp_node_path _ _ _ En) as (i & o & Hp). eauto. }
  destruct Hpt as (nt_ & i_t & o_t & Hpt).
  destruct Hsame as (ns & Hns & Hne).
  destruct (rp_node_path _ _ _ Hns) as (si & o_s & Hps). destruct (rp_node_path _ _ _ Hne) as (ei & o_e & Hpe).
  pose proof (TextAt_zero _ Hzs) as Hts. pose proof (TextAt_zero _ Hze) as Hte.
  rewrite Hl. clear Hl H.
  (* the open nodes *)
  assert (Hos : match open_start with
                | Some os => depth < rp_depth from /\ exists i o, path_at from (S depth) = Some (os, i, o) /\
                             nonleaf s os /\ is_elem os /\ exists x, path_at start (S depth) = Some x
                | None => rp_depth from <= depth end).
  { destruct (depth <? rp_depth from) eqn:Ed.
    - apply Nat.ltb_lt in Ed. destruct (joinable s from start (S depth)) as [n|] eqn:Ej; [|discriminate].
      cbn [bind] in Eos. inversion Eos; subst. destruct (joinable_node _ _ _ _ Ej) as (Hn & (a & Ha)).
      destruct (rp_node_path _ _ _ Hn) as (i & o & Hp). destruct (Hshf _ _ Hn) as (Hel & Hnl).
      destruct (rp_node_path _ _ _ Ha) as (i' & o' & Hp'). split; [exact Ed|]. exists i, o. eauto 8 using Nat.lt_0_succ.
    - apply Nat.ltb_ge in Ed. inversion Eos; subst. exact Ed. }
  assert (Hoe : match open_end with
                | Some oe => depth < rp_depth to /\ exists i o, path_at end_ (S depth) = Some (oe, i, o) /\
                             nonleaf s oe /\ is_elem oe /\ exists x, path_at to (S depth) = Some x
                | None => rp_depth to <= depth end).
  { destruct (depth <? rp_depth to) eqn:Ed.
    - apply Nat.ltb_lt in Ed. destruct (joinable s end_ to (S depth)) as [n|] eqn:Ej; [|discriminate].
      cbn [bind] in Eoe. inversion Eoe; subst. destruct (joinable_node _ _ _ _ Ej) as (Hn & (a & Ha)).
      destruct (rp_node_path _ _ _ Hn) as (i & o & Hp). destruct (Hshe _ _ Hn) as (Hel & Hnl).
      destruct (rp_node_path _ _ _ Ha) as (i' & o' & Hp'). split; [exact Ed|]. exists i, o. eauto 8 using Nat.lt_0_succ.
    - apply Nat.ltb_ge in Ed. inversion Eoe; subst. exact Ed. }
  clear Eos Eoe.
  rewrite (skipn_path _ _ _ Hps), (skipn_path _ _ _ Hpe). cbn [between].
  destruct open_start as [os|]; destruct open_end as [oe|].
  - (* both sides open *)
    destruct Hos as (Hdf & i1 & o1 & Hpf1 & Hnl1 & Hel1 & (xs & Hps1)).
    destruct Hoe as (Hdt & i2 & o2 & Hpe1 & Hnl2 & Hel2 & (xt & Hpt1)).
    rewrite (left_of_inner _ _ _ _ _ Hpf Hdf) in Hc1.
    rewrite (right_of_inner _ _ _ _ _ Hpt Hdt).
    rewrite (before_p_inner _ _ _ _ _ _ _ _ _ Hpf Hpf1), (after_p_inner _ _ _ _ _ _ _ Hpt Hpt1).
    rewrite (skipn_path _ _ _ Hps1), (skipn_path _ _ _ Hpe1). rewrite <- (skipn_path _ _ _ Hps1), <- (skipn_path _ _ _ Hpe1).
    destruct (proj2 (rp_node_of_path _ _ _ _ _ Hps)). destruct (proj2 (rp_node_of_path _ _ _ _ _ Hpe)).
    rewrite (proj2 (rp_node_of_path _ _ _ _ _ Hps)), (proj2 (rp_node_of_path _ _ _ _ _ Hpe)) in E2. cbn [bind] in E2.
    destruct (si =? ei) eqn:Esame.
    + destruct (check_join s os oe); [|discriminate]. cbn [bind] in E2.
      destruct (replace_three_way s fuel from start end_ to (S depth)) as [inner|] eqn:Ei; [|discriminate].
      cbn [bind] in E2. destruct (close s os inner) as [cl|] eqn:Ec; [|discriminate]. cbn [bind] in E2.
      inversion E2; subst c2. clear E2.
      pose proof (close_toks _ _ _ Ec Hnl1 Hel1) as Hcl.
      assert (Hsame' : SameNode start end_ (S depth)).
      { apply Nat.eqb_eq in Esame. subst ei. destruct xs as [[cs_ is_] os_]. 
        pose proof (Hls _ _ _ _ _ _ _ Hps Hps1) as Hch1. pose proof (Hle _ _ _ _ _ _ _ Hpe Hpe1) as Hch2.
        rewrite Hch1 in Hch2. inversion Hch2; subst. exists oe.
        split; [apply (rp_node_of_path _ _ _ _ _ Hps1)|apply (rp_node_of_path _ _ _ _ _ Hpe1)]. }
      specialize (IH _ _ _ _ _ _ Ei Hds Hde Hzs Hze Htf Htt Hshf Hshe Hls Hle Hsame').
      rewrite add_node_toks, Hc1, Hcl. unfold nt in *. rewrite ?map_app. cbn [List.map]. rewrite ?map_app. cbn [List.map].
      rewrite IH. rewrite ?map_app. lnorm. reflexivity.
    + destruct (replace_two_way s fuel from start (S depth)) as [inner|] eqn:Ei; [|discriminate].
      cbn [bind] in E2. destruct (close s os inner) as [cl|] eqn:Ec; [|discriminate]. cbn [bind] in E2.
      destruct (add_range s (Some start) (Some end_) depth (add_node cl c1)) as [c'|] eqn:Ea; [|discriminate].
      cbn [bind] in E2.
      destruct (replace_two_way s fuel end_ to (S depth)) as [inner2|] eqn:Ei2; [|discriminate].
      cbn [bind] in E2. destruct (close s oe inner2) as [cl2|] eqn:Ec2; [|discriminate]. cbn [bind] in E2.
      inversion E2; subst c2. clear E2.
      pose proof (close_toks _ _ _ Ec Hnl1 Hel1) as Hcl. pose proof (close_toks _ _ _ Ec2 Hnl2 Hel2) as Hcl2.
      pose proof (two_way_toks _ _ _ _ _ Ei (eq_sym Hds) Htf Hts Hshf) as Hi1.
      pose proof (two_way_toks _ _ _ _ _ Ei2 Hde Hte Htt Hshe) as Hi2.
      destruct (add_range_mid _ _ _ _ _ Ea Hzs Hze) as (n' & ei' & o' & si' & Hpe' & Hsi' & Hmid).
      rewrite Hpe in Hpe'. inversion Hpe'; subst n' ei' o'.
      rewrite (proj2 (rp_node_of_path _ _ _ _ _ Hps)) in Hsi'. inversion Hsi'; subst si'.
      replace (depth <? rp_depth start) with true in Hmid by (symmetry; apply Nat.ltb_lt; lia).
      rewrite Hzs in Hi1. rewrite Hze in Hi2.
      rewrite add_node_toks, Hmid, add_node_toks, Hc1, Hcl, Hcl2.
      unfold nt in *. rewrite ?map_app. cbn [List.map]. rewrite ?map_app. cbn [List.map].
      rewrite Hi1, Hi2. rewrite ?map_app. cbn [List.map]. lnorm. reflexivity.
  - (* only the start side is open *)
    destruct Hos as (Hdf & i1 & o1 & Hpf1 & Hnl1 & Hel1 & (xs & Hps1)).
    rewrite (left_of_inner _ _ _ _ _ Hpf Hdf) in Hc1.
    rewrite (right_of_final _ _ _ _ _ Hpt Hoe).
    rewrite (before_p_inner _ _ _ _ _ _ _ _ _ Hpf Hpf1).
    rewrite (skipn_path _ _ _ Hps1). rewrite <- (skipn_path _ _ _ Hps1).
    rewrite (skipn_S_nil end_ depth) by lia.
    destruct (replace_two_way s fuel from start (S depth)) as [inner|] eqn:Ei; [|discriminate].
    cbn [bind] in E2. destruct (close s os inner) as [cl|] eqn:Ec; [|discriminate]. cbn [bind] in E2.
    destruct (add_range s (Some start) (Some end_) depth (add_node cl c1)) as [c''|] eqn:Ea; [|discriminate].
    cbn [bind] in E2. inversion E2; subst c2. clear E2.
    pose proof (close_toks _ _ _ Ec Hnl1 Hel1) as Hcl.
    pose proof (two_way_toks _ _ _ _ _ Ei (eq_sym Hds) Htf Hts Hshf) as Hi1. rewrite Hzs in Hi1.
    destruct (add_range_mid _ _ _ _ _ Ea Hzs Hze) as (n' & ei' & o' & si' & Hpe' & Hsi' & Hmid).
    rewrite Hpe in Hpe'. inversion Hpe'; subst n' ei' o'.
    rewrite (proj2 (rp_node_of_path _ _ _ _ _ Hps)) in Hsi'. inversion Hsi'; subst si'.
    replace (depth <? rp_depth start) with true in Hmid by (symmetry; apply Nat.ltb_lt; lia).
    rewrite Hmid, add_node_toks, Hc1, Hcl.
    unfold nt in *. rewrite ?map_app. cbn [List.map]. rewrite ?map_app. cbn [List.map].
    rewrite Hi1. rewrite ?map_app. cbn [List.map]. lnorm. reflexivity.
  - (* only the end side is open *)
    destruct Hoe as (Hdt & i2 & o2 & Hpe1 & Hnl2 & Hel2 & (xt & Hpt1)).
    rewrite (left_of_final _ _ _ _ _ Hpf Hos) in Hc1.
    rewrite (right_of_inner _ _ _ _ _ Hpt Hdt).
    rewrite (after_p_inner _ _ _ _ _ _ _ Hpt Hpt1).
    rewrite (skipn_path _ _ _ Hpe1). rewrite <- (skipn_path _ _ _ Hpe1).
    rewrite (skipn_S_nil start depth) by lia.
    cbn [bind] in E2.
    destruct (add_range s (Some start) (Some end_) depth c1) as [c''|] eqn:Ea; [|discriminate].
    cbn [bind] in E2.
    destruct (replace_two_way s fuel end_ to (S depth)) as [inner2|] eqn:Ei2; [|discriminate].
    cbn [bind] in E2. destruct (close s oe inner2) as [cl2|] eqn:Ec2; [|discriminate]. cbn [bind] in E2.
    inversion E2; subst c2. clear E2.
    pose proof (close_toks _ _ _ Ec2 Hnl2 Hel2) as Hcl2.
    pose proof (two_way_toks _ _ _ _ _ Ei2 Hde Hte Htt Hshe) as Hi2. rewrite Hze in Hi2.
    destruct (add_range_mid _ _ _ _ _ Ea Hzs Hze) as (n' & ei' & o' & si' & Hpe' & Hsi' & Hmid).
    rewrite Hpe in Hpe'. inversion Hpe'; subst n' ei' o'.
    rewrite (proj2 (rp_node_of_path _ _ _ _ _ Hps)) in Hsi'. inversion Hsi'; subst si'.
    replace (depth <? rp_depth start) with false in Hmid by (symmetry; apply Nat.ltb_ge; lia).
    rewrite add_node_toks, Hmid, Hc1, Hcl2.
    unfold nt in *. rewrite ?map_app. cbn [List.map]. rewrite ?map_app. cbn [List.map].
    rewrite Hi2. rewrite ?map_app. cbn [List.map]. lnorm. reflexivity.
  - (* neither side is open *)
    rewrite (left_of_final _ _ _ _ _ Hpf Hos) in Hc1.
    rewrite (right_of_final _ _ _ _ _ Hpt Hoe).
    rewrite (skipn_S_nil start depth) by lia. rewrite (skipn_S_nil end_ depth) by lia.
    cbn [bind] in E2.
    destruct (add_range s (Some start) (Some end_) depth c1) as [c''|] eqn:Ea; [|discriminate].
    cbn [bind] in E2. inversion E2; subst c2. clear E2.
    destruct (add_range_mid _ _ _ _ _ Ea Hzs Hze) as (n' & ei' & o' & si' & Hpe' & Hsi' & Hmid).
    rewrite Hpe in Hpe'. inversion Hpe'; subst n' ei' o'.
    rewrite (proj2 (rp_node_of_path _ _ _ _ _ Hps)) in Hsi'. inversion Hsi'; subst si'.
    replace (depth <? rp_depth start) with false in Hmid by (symmetry; apply Nat.ltb_ge; lia).
    rewrite Hmid, Hc1. lnorm. reflexivity.
Qed.

(* ---------------------------------------------------------------- paths as structures *)
Inductive IsPath : node -> list entry -> Prop :=
| IP_last n i o : IsPath n [(n, i, o)]
| IP_cons n i o c rest :
    child_at n i = Some c -> nonleaf s c -> is_elem c -> IsPath c rest -> IsPath n ((n, i, o) :: rest).

Lemma IsPath_head n p : IsPath n p -> exists i o rest, p = (n, i, o) :: rest.
Proof. intros H; inversion H; subst; eauto. Qed.

Lemma IsPath_of_linked : forall p n i o rest,
  p = (n, i, o) :: rest -> linked p ->
  (forall d x i o, nth_error p d = Some (x, i, o) -> is_elem x /\ (0 < d -> nonleaf s x)) ->
  IsPath n p.
Proof.
  induction p as [|e p IH]; intros n i o rest Hp Hl Hsh; [discriminate|]. inversion Hp; subst e p. clear Hp.
  destruct rest as [|[[c i'] o'] rest']; [apply IP_last|].
  assert (Hc : child_at n i = Some c) by (eapply (Hl 0); reflexivity).
  destruct (Hsh 1 c i' o' eq_refl) as [Hel Hnl].
  apply (IP_cons n i o c); [exact Hc|apply Hnl; lia|exact Hel|]. eapply (IH c i' o' rest' eq_refl).
  - intros d n1 i1 o1 n2 i2 o2 H1 H2. eapply (Hl (S d)); eauto.
  - intros d x i0 o0 Hx. destruct (Hsh (S d) x i0 o0 Hx) as [He Hn]. split; [exact He|]. intros _. apply Hn. lia.
Qed.

Lemma ftoks_split_at l i (c : node) :
  nth_error l i = Some c -> ftoks l = ftoks (firstn i l) ++ toks c ++ ftoks (skipn (S i) l).
Proof.
  intros H. rewrite <- (firstn_skipn i l) at 1. rewrite ftoks_app, (skipn_nth_cons _ _ _ H). reflexivity.
Qed.

Lemma toks_nonleaf c : nonleaf s c -> is_elem c -> toks c = open_tok c :: ftoks (node_content c) ++ [TClose].
Proof.
  intros Hn (ty & a & m & cs & ->). rewrite toks_elem. unfold nonleaf in Hn. cbn [node_ty] in Hn. rewrite Hn. reflexivity.
Qed.

(* the tokens on the two sides of a path make up the content of its head node *)
Lemma path_split : forall n p toff, IsPath n p ->
  before_p s p toff ++ after_p s p toff = ftoks (node_content n).
Proof.
  intros n p toff H. induction H as [n i o|n i o c rest Hc Hnl Hel Hr IH].
  - cbn [before_p after_p]. destruct (nth_error (node_content n) i) as [c|] eqn:E.
    + rewrite (ftoks_split_at _ _ _ E). rewrite <- app_assoc. f_equal. rewrite app_assoc, firstn_skipn. reflexivity.
    + apply nth_error_None in E. rewrite firstn_all2 by lia. rewrite !app_nil_r. reflexivity.
  - destruct (IsPath_head _ _ Hr) as (i' & o' & rest' & ->).
    cbn [before_p after_p]. cbn [before_p after_p] in IH.
    unfold child_at in Hc. rewrite (ftoks_split_at _ _ _ Hc), (toks_nonleaf _ Hnl Hel), <- IH.
    lnorm. reflexivity.
Qed.

(* the first path is not to the right of the second *)
Fixpoint ple (ps pe : list entry) {struct ps} : Prop :=
  match ps, pe with
  | (_, si, _) :: rs, (_, ei, _) :: re =>
    match rs, re with
    | [], _ => si <= ei
    | _ :: _, [] => si < ei
    | _ :: _, _ :: _ => si < ei \/ (si = ei /\ ple rs re)
    end
  | _, _ => True
  end.

Lemma firstn_S_nth {A} (l : list A) : forall i c, nth_error l i = Some c -> firstn (S i) l = firstn i l ++ [c].
Proof.
  induction l as [|x l IH]; intros [|i] c H; try discriminate.
  - inversion H; reflexivity.
  - cbn [nth_error] in H. cbn [firstn app]. f_equal. apply IH. exact H.
Qed.

Lemma firstn_seg {A} (l : list A) a b : a <= b -> firstn b l = firstn a l ++ seg l a b.
Proof.
  intros H. unfold seg. rewrite <- (firstn_skipn a (firstn b l)). f_equal.
  - rewrite firstn_firstn. f_equal. lia.
  - rewrite skipn_firstn_comm. reflexivity.
Qed.

Lemma before_p_one n i o : before_p s [(n, i, o)] 0 = ftoks (firstn i (node_content n)).
Proof.
  cbn [before_p]. destruct (nth_error (node_content n) i); cbn [firstn]; apply app_nil_r.
Qed.
Lemma before_p_two n i o c i' o' r t :
  before_p s ((n, i, o) :: (c, i', o') :: r) t =
  ftoks (firstn i (node_content n)) ++ open_tok c :: before_p s ((c, i', o') :: r) t.
Proof. reflexivity. Qed.
Lemma between_11 n si so n' ei eo : between [(n, si, so)] [(n', ei, eo)] = ftoks (seg (node_content n) si ei).
Proof. reflexivity. Qed.
Lemma between_12 n si so n' ei eo c2 i2 o2 re :
  between [(n, si, so)] ((n', ei, eo) :: (c2, i2, o2) :: re) =
  ftoks (seg (node_content n) si ei) ++ open_tok c2 :: before_p s ((c2, i2, o2) :: re) 0.
Proof. reflexivity. Qed.
Lemma between_21 n si so e1 rs n' ei eo :
  between ((n, si, so) :: e1 :: rs) [(n', ei, eo)] =
  after_p s (e1 :: rs) 0 ++ [TClose] ++ ftoks (seg (node_content n) (S si) ei).
Proof. reflexivity. Qed.
Lemma between_22 n si so e1 rs n' ei eo c2 i2 o2 re :
  between ((n, si, so) :: e1 :: rs) ((n', ei, eo) :: (c2, i2, o2) :: re) =
  if si =? ei then between (e1 :: rs) ((c2, i2, o2) :: re)
  else after_p s (e1 :: rs) 0 ++ [TClose] ++ ftoks (seg (node_content n) (S si) ei) ++
       open_tok c2 :: before_p s ((c2, i2, o2) :: re) 0.
Proof. reflexivity. Qed.

Lemma ftoks_upto_child l si ei (c : node) :
  nth_error l si = Some c -> si < ei ->
  ftoks (firstn ei l) = ftoks (firstn si l) ++ toks c ++ ftoks (seg l (S si) ei).
Proof.
  intros Hc Hlt. rewrite (firstn_seg l (S si) ei) by lia. rewrite ftoks_app, (firstn_S_nth _ _ _ Hc), ftoks_app.
  cbn [Tokens.ftoks]. rewrite app_nil_r, <- app_assoc. reflexivity.
Qed.

Lemma before_between : forall n ps pe, IsPath n ps -> IsPath n pe -> ple ps pe ->
  before_p s pe 0 = before_p s ps 0 ++ between ps pe.
Proof.
  intros n ps pe Hs. revert pe. induction Hs as [n si so|n si so c rs Hc Hnl Hel Hr IH]; intros pe He Hle.
  - (* the first position ends here *)
    inversion He as [n' ei eo|n' ei eo c2 re Hc2 Hnl2 Hel2 Hr2]; subst.
    + cbn [ple] in Hle. rewrite between_11, !before_p_one, <- ftoks_app, <- firstn_seg by exact Hle. reflexivity.
    + destruct (IsPath_head _ _ Hr2) as (i' & o' & rest' & ->). cbn [ple] in Hle.
      rewrite between_12, before_p_two, before_p_one, app_assoc, <- ftoks_app, <- firstn_seg by exact Hle. reflexivity.
  - (* the first position goes deeper *)
    destruct (IsPath_head _ _ Hr) as (i1 & o1 & rest1 & Hrs). unfold child_at in Hc.
    inversion He as [n' ei eo|n' ei eo c2 re Hc2 Hnl2 Hel2 Hr2]; subst pe.
    + subst. cbn [ple] in Hle.
      rewrite between_21, before_p_two, before_p_one, (ftoks_upto_child _ _ _ _ Hc Hle).
      rewrite (toks_nonleaf _ Hnl Hel), <- (path_split _ _ 0 Hr). lnorm. reflexivity.
    + subst. destruct (IsPath_head _ _ Hr2) as (i2 & o2 & rest2 & Hre). subst re. cbn [ple] in Hle.
      rewrite between_22, !before_p_two.
      destruct (si =? ei) eqn:Esame.
      * apply Nat.eqb_eq in Esame. subst ei. destruct Hle as [Hlt|[_ Hle]]; [lia|].
        unfold child_at in Hc2. rewrite Hc in Hc2. inversion Hc2; subst c2.
        rewrite (IH _ Hr2 Hle). lnorm. reflexivity.
      * apply Nat.eqb_neq in Esame. destruct Hle as [Hlt|[Heq _]]; [|lia].
        rewrite (ftoks_upto_child _ _ _ _ Hc Hlt).
        rewrite (toks_nonleaf _ Hnl Hel), <- (path_split _ _ 0 Hr). lnorm. reflexivity.
Qed.

(* ---------------------------------------------------------------- cutting a fragment between its children *)
Lemma seg_app {A} (a b : list A) x y :
  seg (a ++ b) x y = seg a x (Nat.min (length a) y) ++ seg b (x - length a) (y - length a).
Proof.
  unfold seg. rewrite skipn_app, firstn_app, skipn_length. f_equal.
  - destruct (Nat.le_gt_cases (length a) y) as [H|H].
    + rewrite Nat.min_l by lia. rewrite !firstn_all2; [reflexivity|rewrite skipn_length; lia|rewrite skipn_length; lia].
    + rewrite Nat.min_r by lia. reflexivity.
  - f_equal. lia.
Qed.

Lemma seg_nil {A} (l : list A) x y : y <= x -> seg l x y = [].
Proof. intros H. unfold seg. replace (y - x) with 0 by lia. reflexivity. Qed.

Lemma seg_whole {A} (l : list A) y : length l <= y -> seg l 0 y = l.
Proof. intros H. unfold seg. cbn [skipn]. apply firstn_all2. lia. Qed.

Lemma seg_beyond {A} (l : list A) x y : length l <= x -> seg l x y = [].
Proof. intros H. unfold seg. rewrite skipn_all2 by lia. apply firstn_nil. Qed.

Lemma frag_cut_go_toks : forall l pos from to l',
  frag_cut_go s l pos from to = Ok l' -> nosplit s l pos from -> nosplit s l pos to ->
  ftoks l' = seg (ftoks l) (from - pos) (to - pos).
Proof.
  induction l as [|c r IH]; intros pos from to l' H Hf Ht; cbn [frag_cut_go] in H.
  - destruct (pos <? to); [discriminate|]. inversion H; subst. unfold seg. rewrite skipn_nil, firstn_nil. reflexivity.
  - destruct (pos <? to) eqn:Ept.
    2:{ apply Nat.ltb_ge in Ept. inversion H; subst. symmetry. apply seg_nil. lia. }
    apply Nat.ltb_lt in Ept. cbn [nosplit] in Hf, Ht. destruct Hf as [Hf1 Hf2], Ht as [Ht1 Ht2].
    cbv zeta in H. cbn [Tokens.ftoks]. rewrite seg_app. pose proof (toks_length s c) as Hlc. rewrite Hlc.
    destruct (from <? pos + nsize c) eqn:Efe.
    + apply Nat.ltb_lt in Efe.
      destruct ((pos <? from) || (to <? pos + nsize c)) eqn:Ecut.
      * destruct c as [t m|ty a m cs].
        -- destruct (text_cut t m (from - pos) (Nat.min (text_length t) (to - pos))) as [c'|] eqn:Ec; [|discriminate].
           cbn [bind] in H. destruct (frag_cut_go s r (pos + nsize (Text t m)) from to) as [rest|] eqn:Er; [|discriminate].
           cbn [bind] in H. inversion H; subst. cbn [Tokens.ftoks].
           rewrite (text_cut_toks s _ _ _ _ _ Ec), (IH _ _ _ _ Er Hf2 Ht2). cbn [node_size]. f_equal. f_equal; lia.
        -- exfalso. apply orb_prop in Ecut. destruct Ecut as [E|E]; apply Nat.ltb_lt in E.
           ++ apply Hf1. lia.
           ++ apply Ht1. lia.
      * apply orb_false_elim in Ecut. destruct Ecut as [Ec1 Ec2]. apply Nat.ltb_ge in Ec1, Ec2.
        cbn [bind] in H. destruct (frag_cut_go s r (pos + nsize c) from to) as [rest|] eqn:Er; [|discriminate].
        cbn [bind] in H. inversion H; subst. cbn [Tokens.ftoks]. rewrite (IH _ _ _ _ Er Hf2 Ht2).
        replace (from - pos) with 0 by lia. rewrite Nat.min_l by lia. rewrite seg_whole by lia. f_equal. f_equal; lia.
    + apply Nat.ltb_ge in Efe. rewrite (IH _ _ _ _ H Hf2 Ht2).
      assert (Hb : length (toks c) <= from - pos) by (rewrite Hlc; lia).
      rewrite (seg_beyond (toks c) _ _ Hb). cbn [app]. f_equal; lia.
Qed.

Lemma frag_cut_toks l from to l' :
  frag_cut s l from to = Ok l' -> nosplit s l 0 from -> nosplit s l 0 to ->
  ftoks l' = seg (ftoks l) from to.
Proof.
  unfold frag_cut. intros H Hf Ht.
  destruct ((from =? 0) && (to =? fsize l)) eqn:E.
  - apply andb_prop in E. destruct E as [E1 E2]. apply Nat.eqb_eq in E1, E2. subst. inversion H; subst.
    symmetry. apply seg_whole. rewrite ftoks_length. lia.
  - destruct (to <=? from) eqn:El.
    + apply Nat.leb_le in El. inversion H; subst. symmetry. apply seg_nil. exact El.
    + rewrite (frag_cut_go_toks _ _ _ _ _ H Hf Ht). rewrite !Nat.sub_0_r. reflexivity.
Qed.

(* ---------------------------------------------------------------- the last level of a resolved position *)
Lemma resolve_in_rest ty a m cs po start p po' :
  resolve_in s (Elem ty a m cs) po start = Ok (p, po') ->
  (exists i o, p = [(Elem ty a m cs, i, o)] /\ po' = po) \/
  (exists c po2 st2 rest i o, In c cs /\ resolve_in s c po2 st2 = Ok (rest, po') /\
     p = (Elem ty a m cs, i, o) :: rest /\ st2 + po2 = start + po).
Proof.
  rewrite resolve_in_unfold. destruct (po =? 0) eqn:Ez.
  { intros H; inversion H; subst. left. eauto. }
  apply Nat.eqb_neq in Ez. set (n := Elem ty a m cs).
  assert (G : forall l i cur, (forall c, In c l -> In c cs) -> cur < po ->
              rwalk s n po start l i cur = Ok (p, po') ->
              (exists i o, p = [(n, i, o)] /\ po' = po) \/
              (exists c po2 st2 rest i o, In c cs /\ resolve_in s c po2 st2 = Ok (rest, po') /\
                 p = (n, i, o) :: rest /\ st2 + po2 = start + po)).
  { induction l as [|c r IHl]; intros i cur Hin Hcur H; [discriminate|]. cbn [rwalk] in H. cbv zeta in H.
    destruct (cur + nsize c =? po) eqn:E1; [inversion H; subst; left; eauto|]. apply Nat.eqb_neq in E1.
    destruct (po <? cur + nsize c) eqn:E2.
    - apply Nat.ltb_lt in E2. destruct c as [t0 m0|ty1 a1 m1 cs1]; [inversion H; subst; left; eauto|].
      destruct (resolve_in s (Elem ty1 a1 m1 cs1) (po - cur - 1) (start + cur + 1)) as [[p1 pp1]|] eqn:E; [|discriminate].
      cbn [bind fst snd] in H. inversion H; subst. right.
      exists (Elem ty1 a1 m1 cs1), (po - cur - 1), (start + cur + 1), p1, i, (start + cur).
      split; [apply Hin; left; reflexivity|]. split; [exact E|]. split; [reflexivity|lia].
    - apply Nat.ltb_ge in E2. eapply (IHl (S i) (cur + nsize c)); eauto; [|lia]. intros c0 Hc0. apply Hin. right. exact Hc0. }
  intros H. eapply (G cs 0 0); eauto. lia.
Qed.

Lemma resolve_in_last : forall n po start p po',
  resolve_in s n po start = Ok (p, po') ->
  exists nl il ol, last_entry p = Some (nl, il, ol) /\
    before_p s [(nl, il, ol)] (start + po - ol) = firstn po' (ftoks (node_content nl)) /\
    after_p s [(nl, il, ol)] (start + po - ol) = skipn po' (ftoks (node_content nl)).
Proof.
  induction n as [t m|ty a m cs IH] using node_ind2; intros po start p po' H; [discriminate|].
  destruct (resolve_in_rest _ _ _ _ _ _ _ _ H) as [(i & o & -> & ->)|(c & po2 & st2 & rest & i & o & Hin & Hr & -> & Hg)].
  - destruct (resolve_in_tokens s _ _ _ _ _ H) as (_ & _ & Hb & Ha).
    exists (Elem ty a m cs), i, o. split; [reflexivity|]. unfold last_off in Hb, Ha. rewrite last_entry_single in Hb, Ha.
    split; assumption.
  - destruct (IH _ Hin _ _ _ _ Hr) as (nl & il & ol & Hl & Hb & Ha).
    exists nl, il, ol. rewrite Hg in Hb, Ha. split; [|split; assumption].
    destruct (resolve_in_spec s _ _ _ _ _ Hr) as ((i1 & o1 & rest1 & Hp1) & _ & _).
    rewrite last_entry_cons by (rewrite Hp1; discriminate). exact Hl.
Qed.

Lemma resolve_last doc pos r :
  resolve s doc pos = Ok r ->
  exists nl il ol, path_at r (rp_depth r) = Some (nl, il, ol) /\
    before_p s [(nl, il, ol)] (rp_text_offset r) = firstn (rp_parent_offset r) (ftoks (node_content nl)) /\
    after_p s [(nl, il, ol)] (rp_text_offset r) = skipn (rp_parent_offset r) (ftoks (node_content nl)).
Proof.
  unfold resolve. destruct (fsize (node_content doc) <? pos); [discriminate|].
  destruct (resolve_in s doc pos 0) as [[p po]|] eqn:E; [|discriminate]. cbn [bind fst snd]. intros H. inversion H; subst r.
  destruct (resolve_in_last _ _ _ _ _ E) as (nl & il & ol & Hl & Hb & Ha).
  exists nl, il, ol. unfold path_at, rp_depth, rp_text_offset, rp_last_offset, path_at, rp_depth. cbn [rp_path rp_pos rp_parent_offset].
  unfold last_entry in Hl. rewrite Hl. cbn [Nat.add] in Hb, Ha. auto.
Qed.

Lemma resolve_tokens doc pos r :
  resolve s doc pos = Ok r ->
  pos <= fsize (node_content doc) /\
  before_p s (rp_path r) (rp_text_offset r) = firstn pos (ftoks (node_content doc)) /\
  after_p s (rp_path r) (rp_text_offset r) = skipn pos (ftoks (node_content doc)).
Proof.
  unfold resolve. destruct (fsize (node_content doc) <? pos); [discriminate|].
  destruct (resolve_in s doc pos 0) as [[p po]|] eqn:E; [|discriminate]. cbn [bind fst snd]. intros H. inversion H; subst r.
  destruct (resolve_in_tokens s _ _ _ _ _ E) as (Hle & _ & Hb & Ha).
  unfold rp_text_offset, rp_last_offset, path_at, rp_depth. cbn [rp_path rp_pos].
  unfold last_off, last_entry in Hb, Ha. cbn [Nat.add] in Hb, Ha. auto.
Qed.

(* ---------------------------------------------------------------- replace_outer *)
Lemma replace_outer_copy fuel from to sl depth r :
  replace_outer s fuel from to sl depth = Ok r ->
  exists n X, rp_node from depth = Ok n /\ r = node_copy n X.
Proof.
  destruct fuel as [|fuel]; [discriminate|]. cbn [replace_outer].
  destruct (rp_index from depth) as [index|]; [|discriminate]. cbn [bind].
  destruct (rp_node from depth) as [n|] eqn:En; [|discriminate]. cbn [bind].
  destruct (rp_index to depth) as [tindex|]; [|discriminate]. cbn [bind].
  intros H. exists n.
  destruct ((index =? tindex) && (depth <? rp_depth from - sl_open_start sl)).
  { destruct (replace_outer s fuel from to sl (S depth)); [|discriminate]. cbn [bind] in H. inversion H; subst. eauto. }
  destruct (fsize (sl_content sl) =? 0).
  { destruct (replace_two_way s (S (rp_depth from)) from to depth); [|discriminate]. cbn [bind] in H.
    apply close_copy in H. eauto. }
  destruct ((sl_open_start sl =? 0) && (sl_open_end sl =? 0) && (rp_depth from =? depth) && (rp_depth to =? depth)) eqn:Ec.
  { apply andb_prop in Ec. destruct Ec as [Ec _]. apply andb_prop in Ec. destruct Ec as [_ Ed]. apply Nat.eqb_eq in Ed.
    unfold rp_parent in H. rewrite Ed, En in H. cbn [bind] in H.
    destruct (frag_cut s (node_content n) 0 (rp_parent_offset from)); [|discriminate]. cbn [bind] in H.
    destruct (frag_cut s (node_content n) (rp_parent_offset to) (fsize (node_content n))); [|discriminate]. cbn [bind] in H.
    apply close_copy in H. eauto. }
  destruct (prepare_slice s sl from) as [[st en]|]; [|discriminate]. cbn [bind] in H.
  destruct (replace_three_way s (S (rp_depth from + rp_depth to + rp_depth st)) from st en to depth); [|discriminate].
  cbn [bind] in H. apply close_copy in H. eauto.
Qed.

Definition LastTok (r : rpos) : Prop :=
  exists nl il ol, path_at r (rp_depth r) = Some (nl, il, ol) /\
    before_p s [(nl, il, ol)] (rp_text_offset r) = firstn (rp_parent_offset r) (ftoks (node_content nl)) /\
    after_p s [(nl, il, ol)] (rp_text_offset r) = skipn (rp_parent_offset r) (ftoks (node_content nl)).

(* what the splice theorem needs of the two positions prepare_slice resolves inside the wrapped slice *)
Definition PrepFits (from to : rpos) (sl : slice) (st en : rpos) : Prop :=
  rp_depth st = rp_depth from /\ rp_depth en = rp_depth to /\
  rp_text_offset st = 0 /\ rp_text_offset en = 0 /\
  PathShape s en /\ linked (rp_path st) /\ linked (rp_path en) /\
  forall d, d <= rp_depth from - sl_open_start sl ->
    SameNode st en d /\
    nt (between (skipn d (rp_path st)) (skipn d (rp_path en))) = nt (inner_toks s sl).

Lemma node_copy_content n X : is_elem n -> node_content (node_copy n X) = X.
Proof. intros (ty & a & m & cs & ->). reflexivity. Qed.

Lemma inner_toks_closed sl : sl_open_start sl = 0 -> sl_open_end sl = 0 -> inner_toks s sl = ftoks (sl_content sl).
Proof. intros H0 H1. unfold inner_toks. rewrite H0, H1, !Nat.sub_0_r. cbn [skipn]. apply firstn_all. Qed.

Lemma inner_toks_empty sl : fsize (sl_content sl) = 0 -> inner_toks s sl = [].
Proof.
  intros H. unfold inner_toks. pose proof (ftoks_length s (sl_content sl)) as Hl. rewrite H in Hl.
  destruct (ftoks (sl_content sl)); [|discriminate]. rewrite skipn_nil, firstn_nil. reflexivity.
Qed.

Lemma replace_outer_toks : forall fuel from to sl depth r,
  replace_outer s fuel from to sl depth = Ok r ->
  TextAt from -> TextAt to -> PathShape s from -> linked (rp_path from) -> linked (rp_path to) ->
  SameNode from to depth -> LastTok from -> LastTok to -> NoSplitP s from -> NoSplitP s to ->
  depth <= rp_depth from - sl_open_start sl ->
  (fsize (sl_content sl) = 0 -> rp_depth from = rp_depth to) ->
  (forall st en, prepare_slice s sl from = Ok (st, en) -> PrepFits from to sl st en) ->
  nt (ftoks (node_content r)) =
  nt (before_p s (skipn depth (rp_path from)) (rp_text_offset from)) ++ nt (inner_toks s sl) ++
  nt (after_p s (skipn depth (rp_path to)) (rp_text_offset to)).
Proof.
  induction fuel as [|fuel IH]; intros from to sl depth r H Htf Htt Hsh Hlf Hlt Hsame Hlastf Hlastt Hnf Hnt Hdepth Hempty Hprep;
    [discriminate|].
  cbn [replace_outer] in H.
  destruct (rp_index from depth) as [index|] eqn:Ei; [|discriminate]. cbn [bind] in H.
  destruct (rp_node from depth) as [n|] eqn:En; [|discriminate]. cbn [bind] in H.
  destruct (rp_index to depth) as [tindex|] eqn:Eti; [|discriminate]. cbn [bind] in H.
  destruct (rp_index_path _ _ _ Ei) as (n0 & o0 & Hpf).
  assert (n0 = n) by (unfold rp_node in En; rewrite Hpf in En; inversion En; auto). subst n0.
  destruct Hsame as (n1 & Hn1 & Hn2). assert (n1 = n) by congruence. subst n1.
  destruct (rp_index_path _ _ _ Eti) as (n3 & o3 & Hpt).
  assert (n3 = n) by (unfold rp_node in Hn2; rewrite Hpt in Hn2; inversion Hn2; auto). subst n3.
  destruct (Hsh _ _ En) as (Heln & _).
  destruct ((index =? tindex) && (depth <? rp_depth from - sl_open_start sl)) eqn:Edesc.
  { destruct (replace_outer s fuel from to sl (S depth)) as [inner|] eqn:Einner; [|discriminate]. cbn [bind] in H.
    inversion H; subst r. clear H.
    apply andb_prop in Edesc. destruct Edesc as [Eidx Elt]. apply Nat.eqb_eq in Eidx. subst tindex. apply Nat.ltb_lt in Elt.
    destruct (replace_outer_copy _ _ _ _ _ _ Einner) as (n' & X & En' & ->).
    destruct (replace_outer_markup s _ _ _ _ _ _ Einner) as (_ & (ti' & Eti')).
    destruct (rp_node_path _ _ _ En') as (i1 & o1 & Hpf1).
    destruct (rp_index_path _ _ _ Eti') as (n2 & o2 & Hpt1).
    assert (Hchild : child_at n index = Some n') by (eapply Hlf; eauto).
    assert (Hchild2 : child_at n index = Some n2) by (eapply Hlt; eauto).
    assert (n2 = n') by congruence. subst n2.
    destruct (Hsh _ _ En') as (Hel' & Hnl'). specialize (Hnl' (Nat.lt_0_succ depth)).
    assert (Hsame' : SameNode from to (S depth)).
    { exists n'. split; [exact En'|]. unfold rp_node. rewrite Hpt1. reflexivity. }
    specialize (IH _ _ _ _ _ Einner Htf Htt Hsh Hlf Hlt Hsame' Hlastf Hlastt Hnf Hnt ltac:(lia) Hempty Hprep).
    rewrite (node_copy_content _ _ Hel') in IH.
    rewrite (node_copy_content _ _ Heln). unfold replace_child. rewrite !ftoks_app. cbn [Tokens.ftoks]. rewrite app_nil_r.
    assert (Htk : toks (node_copy n' X) = open_tok n' :: ftoks X ++ [TClose]).
    { destruct Hel' as (ty & a & m & cs & ->). cbn [node_copy open_tok]. rewrite toks_elem.
      unfold nonleaf in Hnl'. cbn [node_ty] in Hnl'. rewrite Hnl'. reflexivity. }
    rewrite Htk, (before_p_inner _ _ _ _ _ _ _ _ _ Hpf Hpf1), (after_p_inner _ _ _ _ _ _ _ Hpt Hpt1).
    unfold nt in *. rewrite ?map_app. cbn [List.map]. rewrite ?map_app. cbn [List.map]. rewrite IH. lnorm. reflexivity. }
  destruct (fsize (sl_content sl) =? 0) eqn:Esz.
  { apply Nat.eqb_eq in Esz.
    destruct (replace_two_way s (S (rp_depth from)) from to depth) as [c|] eqn:E2; [|discriminate]. cbn [bind] in H.
    apply close_copy in H. subst r. rewrite (node_copy_content _ _ Heln).
    rewrite (two_way_toks _ _ _ _ _ E2 (Hempty Esz) Htf Htt Hsh), (inner_toks_empty _ Esz). reflexivity. }
  destruct ((sl_open_start sl =? 0) && (sl_open_end sl =? 0) && (rp_depth from =? depth) && (rp_depth to =? depth)) eqn:Ec.
  { apply andb_prop in Ec. destruct Ec as [Ec Edt]. apply andb_prop in Ec. destruct Ec as [Ec Edf].
    apply andb_prop in Ec. destruct Ec as [Eos Eoe]. apply Nat.eqb_eq in Edt, Edf, Eos, Eoe.
    destruct Hnf as (pf & Epf & Hnsf). destruct Hnt as (pt & Ept & Hnst).
    unfold rp_parent in *. rewrite Edf, En in Epf. inversion Epf; subst pf.
    rewrite Edt, Hn2 in Ept. inversion Ept; subst pt.
    rewrite Edf, En in H. cbn [bind] in H.
    destruct (frag_cut s (node_content n) 0 (rp_parent_offset from)) as [a|] eqn:Ea; [|discriminate]. cbn [bind] in H.
    destruct (frag_cut s (node_content n) (rp_parent_offset to) (fsize (node_content n))) as [b|] eqn:Eb; [|discriminate].
    cbn [bind] in H. apply close_copy in H. subst r. rewrite (node_copy_content _ _ Heln).
    rewrite !frag_append_toks.
    assert (Ha : ftoks a = firstn (rp_parent_offset from) (ftoks (node_content n))).
    { rewrite (frag_cut_toks _ _ _ _ Ea); [|apply nosplit_before; lia|exact Hnsf]. unfold seg. rewrite Nat.sub_0_r. reflexivity. }
    assert (Hb : ftoks b = skipn (rp_parent_offset to) (ftoks (node_content n))).
    { rewrite (frag_cut_toks _ _ _ _ Eb); [|exact Hnst|apply nosplit_after; lia]. unfold seg.
      rewrite <- (ftoks_length s (node_content n)). apply firstn_skipn_all. }
    destruct Hlastf as (nl & il & ol & Hpl & Hbl & _). rewrite Edf, Hpf in Hpl. inversion Hpl; subst nl il ol.
    destruct Hlastt as (nl & il & ol & Hpl2 & _ & Hal). rewrite Edt, Hpt in Hpl2. inversion Hpl2; subst nl il ol.
    rewrite (skipn_path _ _ _ Hpf), (skipn_S_nil from depth) by lia.
    rewrite (skipn_path _ _ _ Hpt), (skipn_S_nil to depth) by lia.
    rewrite Hbl, Hal, Ha, Hb, (inner_toks_closed _ Eos Eoe). rewrite app_assoc. reflexivity. }
  destruct (prepare_slice s sl from) as [[st en]|] eqn:Eprep; [|discriminate]. cbn [bind] in H.
  destruct (replace_three_way s (S (rp_depth from + rp_depth to + rp_depth st)) from st en to depth) as [c|] eqn:E3;
    [|discriminate]. cbn [bind] in H.
  apply close_copy in H. subst r. rewrite (node_copy_content _ _ Heln).
  destruct (Hprep _ _ eq_refl) as (Hds & Hde & Hzs & Hze & Hshe & Hls & Hle & Hall).
  destruct (Hall depth Hdepth) as (Hsn & Hbt).
  rewrite (three_way_toks _ _ _ _ _ _ _ E3 Hds Hde Hzs Hze Htf Htt Hsh Hshe Hls Hle Hsn), Hbt. reflexivity.
Qed.

(* ---------------------------------------------------------------- Node.replace *)
Lemma resolve_LastTok doc pos r : resolve s doc pos = Ok r -> LastTok r.
Proof. intros H. exact (resolve_last _ _ _ H). Qed.

Theorem node_replace_toks_gen doc from to sl d' :
  node_replace s doc from to sl = Ok d' ->
  (fsize (sl_content sl) = 0 -> sl_open_start sl = sl_open_end sl) ->
  (forall rf rt st en, resolve s doc from = Ok rf -> resolve s doc to = Ok rt ->
     sl_open_start sl <= rp_depth rf -> rp_depth rt = rp_depth rf - sl_open_start sl + sl_open_end sl ->
     prepare_slice s sl rf = Ok (st, en) -> PrepFits rf rt sl st en) ->
  exists X, d' = node_copy doc X /\
    nt (ftoks X) = nt (firstn from (ftoks (node_content doc))) ++ nt (inner_toks s sl) ++
                   nt (skipn to (ftoks (node_content doc))).
Proof.
  intros H Hempty Hprep. unfold node_replace in H.
  destruct (resolve s doc from) as [rf|] eqn:Ef; [|discriminate]. cbn [bind] in H.
  destruct (resolve s doc to) as [rt|] eqn:Et; [|discriminate]. cbn [bind] in H.
  unfold replace_rp in H. destruct (rp_depth rf <? sl_open_start sl) eqn:E1; [discriminate|].
  apply Nat.ltb_ge in E1.
  destruct (negb _) eqn:E2; [discriminate|]. apply negb_false_iff in E2. apply Z.eqb_eq in E2.
  destruct (rp_pos rt <? rp_pos rf); [discriminate|]. destruct (_ && _); [discriminate|].
  destruct (resolve_spec s _ _ _ Ef) as (_ & Hlf & Htf & (i1 & o1 & r1 & Hh1) & Hnf).
  destruct (resolve_spec s _ _ _ Et) as (_ & Hlt & Htt & (i2 & o2 & r2 & Hh2) & Hnt).
  destruct (resolve_tokens _ _ _ Ef) as (_ & Hbf & _). destruct (resolve_tokens _ _ _ Et) as (_ & _ & Hat).
  destruct (replace_outer_copy _ _ _ _ _ _ H) as (n & X & Hn & ->).
  assert (n = doc) by (unfold rp_node, path_at in Hn; rewrite Hh1 in Hn; cbn in Hn; inversion Hn; auto). subst n.
  exists X. split; [reflexivity|].
  pose proof (resolve_PathShape s _ _ _ Ef) as Hsh. destruct (Hsh _ _ Hn) as (Hel & _).
  pose proof (replace_outer_toks _ _ _ _ _ _ H Htf Htt Hsh Hlf Hlt) as Ho.
  rewrite (node_copy_content _ _ Hel) in Ho. cbn [skipn] in Ho. rewrite Hbf, Hat in Ho. apply Ho.
  - exists doc. split; [exact Hn|]. unfold rp_node, path_at. rewrite Hh2. reflexivity.
  - eapply resolve_LastTok; eauto.
  - eapply resolve_LastTok; eauto.
  - exact Hnf.
  - exact Hnt.
  - lia.
  - intros Hz. specialize (Hempty Hz). lia.
  - intros st en Hp. eapply Hprep; eauto. lia.
Qed.

End WithSchema.
