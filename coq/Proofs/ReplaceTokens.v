(* Node.replace is a splice of the flat token sequence (C02), up to Python's `==` on attribute values
   ([tnorm]): tokens(result) = tokens(doc)[:from] ++ inner tokens of the slice ++ tokens(doc)[to:]. *)
From Coq Require Import ZArith NArith List Bool Arith Lia.
From PM Require Import Model.Data Model.Mark Model.Tree Spec.Tokens Proofs.DataProofs Proofs.NodeInd
  Proofs.ReplaceValid Proofs.SliceSides Proofs.TokenBasics Proofs.PathTokens.
Import ListNotations.

Section WithSchema.
Variable s : schema.
Notation nsize := (node_size s).
Notation fsize := (frag_size s).
Notation toks := (toks s).
Notation ftoks := (ftoks s).
Notation entry := (node * nat * nat)%type.

Definition nt (l : list tok) : list tok := List.map tnorm l.
Lemma nt_app a b : nt (a ++ b) = nt a ++ nt b.
Proof. apply map_app. Qed.

Lemma nt_text_marks t m m' : marks_eqb m m' = true -> nt (toks (Text t m)) = nt (toks (Text t m')).
Proof.
  intros H. apply marks_eqb_norm in H. cbn [Tokens.toks]. unfold nt. rewrite !map_map. apply map_ext.
  intros u. cbn [tnorm]. rewrite H. reflexivity.
Qed.

Lemma toks_text_app t t' m : toks (Text (t ++ t') m) = toks (Text t m) ++ toks (Text t' m).
Proof. cbn [Tokens.toks]. rewrite units_app, map_app. reflexivity. Qed.

Lemma rev_cons_split {A} (l : list A) x r : rev l = x :: r -> l = removelast l ++ [x].
Proof.
  intros H. assert (Hl : l = rev r ++ [x]) by (rewrite <- (rev_involutive l), H; reflexivity).
  rewrite Hl at 2. rewrite Hl at 1. rewrite removelast_last. reflexivity.
Qed.

Lemma add_node_toks c target : nt (ftoks (add_node c target)) = nt (ftoks target) ++ nt (toks c).
Proof.
  assert (Hd : nt (ftoks (target ++ [c])) = nt (ftoks target) ++ nt (toks c)).
  { rewrite ftoks_app, nt_app. cbn [Tokens.ftoks]. rewrite app_nil_r. reflexivity. }
  unfold add_node. destruct c as [t m|ty a m cs]; [|exact Hd].
  destruct (rev target) as [|[t' m'|? ? ? ?] r] eqn:Er; try exact Hd.
  destruct (marks_eqb m m') eqn:Em; [|exact Hd].
  pose proof (rev_cons_split _ _ _ Er) as Hs. rewrite Hs at 2.
  rewrite !ftoks_app, !nt_app. cbn [Tokens.ftoks]. rewrite !app_nil_r. rewrite <- app_assoc. f_equal.
  rewrite toks_text_app, nt_app. f_equal. apply nt_text_marks. exact Em.
Qed.

Lemma add_all_toks l : forall target, nt (ftoks (add_all l target)) = nt (ftoks target) ++ nt (ftoks l).
Proof.
  induction l as [|c l IH]; intros target; cbn [add_all Tokens.ftoks].
  - rewrite app_nil_r. reflexivity.
  - rewrite IH, add_node_toks, nt_app, app_assoc. reflexivity.
Qed.

Lemma last_split {A} (a : list A) d : a <> [] -> a = removelast a ++ [last a d].
Proof. intros H. apply app_removelast_last. exact H. Qed.

Lemma frag_append_toks a b : nt (ftoks (frag_append a b)) = nt (ftoks a) ++ nt (ftoks b).
Proof.
  unfold frag_append. destruct b as [|first b']; [cbn; rewrite app_nil_r; reflexivity|].
  destruct a as [|a0 a']; [reflexivity|]. set (a := a0 :: a') in *.
  assert (Hd : nt (ftoks (a ++ first :: b')) = nt (ftoks a) ++ nt (ftoks (first :: b')))
    by (rewrite ftoks_app, nt_app; reflexivity).
  destruct (last a first) as [t m|? ? ? ?] eqn:El; [|exact Hd].
  destruct first as [t' m'|? ? ? ?]; [|exact Hd].
  destruct (marks_eqb m m') eqn:Em; [|exact Hd].
  assert (Hs : a = removelast a ++ [Text t m]) by (rewrite <- El; apply last_split; discriminate).
  rewrite Hs at 2. rewrite !ftoks_app, !nt_app. cbn [Tokens.ftoks]. rewrite !app_nil_r, !nt_app.
  rewrite <- !app_assoc. f_equal. rewrite toks_text_app, nt_app, <- app_assoc. f_equal. f_equal.
  apply nt_text_marks. exact Em.
Qed.

Lemma close_toks n c r :
  close s n c = Ok r -> nonleaf s n -> is_elem n -> toks r = open_tok n :: ftoks c ++ [TClose].
Proof.
  intros H Hn (ty & a & m & cs & ->). apply close_copy in H. subst r. cbn [node_copy open_tok].
  rewrite toks_elem. unfold nonleaf in Hn. cbn [node_ty] in Hn. rewrite Hn. reflexivity.
Qed.

End WithSchema.
