(* Node.replace is a splice of the flat token sequence (C02), up to Python's `==` on attribute values
   ([tnorm]): tokens(result) = tokens(doc)[:from] ++ inner tokens of the slice ++ tokens(doc)[to:]. *)
From Coq Require Import ZArith NArith List Bool Arith Lia.
From PM Require Import Model.Data Model.Mark Model.Tree Spec.Tokens Proofs.DataProofs Proofs.NodeInd
  Proofs.ReplaceValid Proofs.SliceSides Proofs.TokenBasics Proofs.PathTokens.
Import ListNotations.

Section WithSchema.
Variable s : schema.
Notation nsize := (node_size s).
Notation fsize := (frag_size s).
Notation toks := (toks s).
Notation ftoks := (ftoks s).
Notation entry := (node * nat * nat)%type.

Definition nt (l : list tok) : list tok := List.map tnorm l.
Lemma nt_app a b : nt (a ++ b) = nt a ++ nt b.
Proof. apply map_app. Qed.

Lemma nt_text_marks t m m' : marks_eqb m m' = true -> nt (toks (Text t m)) = nt (toks (Text t m')).
Proof.
  intros H. apply marks_eqb_norm in H. cbn [Tokens.toks]. unfold nt. rewrite !map_map. apply map_ext.
  intros u. cbn [tnorm]. rewrite H. reflexivity.
Qed.

Lemma toks_text_app t t' m : toks (Text (t ++ t') m) = toks (Text t m) ++ toks (Text t' m).
Proof. cbn [Tokens.toks]. rewrite units_app, map_app. reflexivity. Qed.

Lemma rev_cons_split {A} (l : list A) x r : rev l = x :: r -> l = removelast l ++ [x].
Proof.
  intros H. assert (Hl : l = rev r ++ [x]) by (rewrite <- (rev_involutive l), H; reflexivity).
  rewrite Hl at 2. rewrite Hl at 1. rewrite removelast_last. reflexivity.
Qed.

Lemma add_node_toks c target : nt (ftoks (add_node c target)) = nt (ftoks target) ++ nt (toks c).
Proof.
  assert (Hd : nt (ftoks (target ++ [c])) = nt (ftoks target) ++ nt (toks c)).
  { rewrite ftoks_app, nt_app. cbn [Tokens.ftoks]. rewrite app_nil_r. reflexivity. }
  unfold add_node. destruct c as [t m|ty a m cs]; [|exact Hd].
  destruct (rev target) as [|[t' m'|? ? ? ?] r] eqn:Er; try exact Hd.
  destruct (marks_eqb m m') eqn:Em; [|exact Hd].
  pose proof (rev_cons_split _ _ _ Er) as Hs. rewrite Hs at 2.
  rewrite !ftoks_app, !nt_app. cbn [Tokens.ftoks]. rewrite !app_nil_r. rewrite <- app_assoc. f_equal.
  rewrite toks_text_app, nt_app. f_equal. apply nt_text_marks. exact Em.
Qed.

Lemma add_all_toks l : forall target, nt (ftoks (add_all l target)) = nt (ftoks target) ++ nt (ftoks l).
Proof.
  induction l as [|c l IH]; intros target; cbn [add_all Tokens.ftoks].
  - rewrite app_nil_r. reflexivity.
  - rewrite IH, add_node_toks, nt_app, app_assoc. reflexivity.
Qed.

Lemma last_split {A} (a : list A) d : a <> [] -> a = removelast a ++ [last a d].
Proof. intros H. apply app_removelast_last. exact H. Qed.

Lemma frag_append_toks a b : nt (ftoks (frag_append a b)) = nt (ftoks a) ++ nt (ftoks b).
Proof.
  unfold frag_append. destruct b as [|first b']; [cbn; rewrite app_nil_r; reflexivity|].
  destruct a as [|a0 a']; [reflexivity|]. set (a := a0 :: a') in *.
  assert (Hd : nt (ftoks (a ++ first :: b')) = nt (ftoks a) ++ nt (ftoks (first :: b')))
    by (rewrite ftoks_app, nt_app; reflexivity).
  destruct (last a first) as [t m|? ? ? ?] eqn:El; [|exact Hd].
  destruct first as [t' m'|? ? ? ?]; [|exact Hd].
  destruct (marks_eqb m m') eqn:Em; [|exact Hd].
  assert (Hs : a = removelast a ++ [Text t m]) by (rewrite <- El; apply last_split; discriminate).
  rewrite Hs at 2. rewrite !ftoks_app, !nt_app. cbn [Tokens.ftoks]. rewrite !app_nil_r, !nt_app.
  rewrite <- !app_assoc. f_equal. rewrite toks_text_app, nt_app, <- app_assoc. f_equal. f_equal.
  apply nt_text_marks. exact Em.
Qed.

Lemma close_toks n c r :
  close s n c = Ok r -> nonleaf s n -> is_elem n -> toks r = open_tok n :: ftoks c ++ [TClose].
Proof.
  intros H Hn (ty & a & m & cs & ->). apply close_copy in H. subst r. cbn [node_copy open_tok].
  rewrite toks_elem. unfold nonleaf in Hn. cbn [node_ty] in Hn. rewrite Hn. reflexivity.
Qed.

(* ---------------------------------------------------------------- add_range *)
(* tokens of node(r, d)'s content on the left / right of the path's child at that level *)
Definition left_of (r : rpos) (d : nat) : list tok :=
  match path_at r d with
  | Some (n, i, _) =>
    ftoks (firstn i (node_content n)) ++
    (if d =? rp_depth r
     then match nth_error (node_content n) i with Some c => firstn (rp_text_offset r) (toks c) | None => [] end
     else [])
  | None => []
  end.
Definition right_of (r : rpos) (d : nat) : list tok :=
  match path_at r d with
  | Some (n, i, _) =>
    if d =? rp_depth r
    then match nth_error (node_content n) i with
         | Some c => skipn (rp_text_offset r) (toks c) ++ ftoks (skipn (S i) (node_content n))
         | None => []
         end
    else ftoks (skipn (S i) (node_content n))
  | None => []
  end.

Lemma firstn_skipn_all {A} (l : list A) k : firstn (length l - k) (skipn k l) = skipn k l.
Proof. rewrite <- (skipn_length k l). apply firstn_all. Qed.

Lemma path_at_depth_le r d x : path_at r d = Some x -> d <= rp_depth r.
Proof.
  unfold path_at, rp_depth. intros H. assert (d < length (rp_path r)) by (apply nth_error_Some; congruence). lia.
Qed.

Lemma node_before_toks r x :
  rp_node_before s r = Ok (Some x) -> rp_text_offset r <> 0 -> TextAt r ->
  exists n i o c, path_at r (rp_depth r) = Some (n, i, o) /\ nth_error (node_content n) i = Some c /\
                  toks x = firstn (rp_text_offset r) (toks c).
Proof.
  unfold rp_node_before, rp_parent. intros H Ez Ht.
  destruct (rp_node r (rp_depth r)) as [parent|] eqn:En; [|discriminate]. cbn [bind] in H.
  destruct (rp_index r (rp_depth r)) as [index|] eqn:Ei; [|discriminate]. cbn [bind] in H.
  destruct (rp_node_path _ _ _ En) as (i0 & o0 & Hp). destruct (rp_index_path _ _ _ Ei) as (n1 & o1 & Hp1).
  rewrite Hp in Hp1. inversion Hp1; subst n1 i0 o1. clear Hp1.
  destruct (rp_text_offset r =? 0) eqn:Ez'; [apply Nat.eqb_eq in Ez'; contradiction|]. cbn [negb] in H.
  destruct (Ht Ez) as (n2 & i2 & o2 & t & m & Hp2 & Hc2).
  rewrite Hp in Hp2. inversion Hp2; subst n2 i2 o2. rewrite Hc2 in H.
  destruct (text_cut t m 0 (rp_text_offset r)) as [c|] eqn:Et; [|discriminate].
  cbn [bind] in H. inversion H; subst. exists parent, index, o0, (Text t m). split; [exact Hp|]. split; [exact Hc2|].
  rewrite (text_cut_toks s _ _ _ _ _ Et). unfold seg. rewrite Nat.sub_0_r. reflexivity.
Qed.

Lemma node_after_toks r x :
  rp_node_after s r = Ok (Some x) -> rp_text_offset r <> 0 -> TextAt r ->
  exists n i o c, path_at r (rp_depth r) = Some (n, i, o) /\ nth_error (node_content n) i = Some c /\
                  toks x = skipn (rp_text_offset r) (toks c).
Proof.
  unfold rp_node_after, rp_parent. intros H Ez Ht.
  destruct (rp_node r (rp_depth r)) as [parent|] eqn:En; [|discriminate]. cbn [bind] in H.
  destruct (rp_index r (rp_depth r)) as [index|] eqn:Ei; [|discriminate]. cbn [bind] in H.
  destruct (rp_node_path _ _ _ En) as (i0 & o0 & Hp). destruct (rp_index_path _ _ _ Ei) as (n1 & o1 & Hp1).
  rewrite Hp in Hp1. inversion Hp1; subst n1 i0 o1. clear Hp1.
  destruct (Ht Ez) as (n2 & i2 & o2 & t & m & Hp2 & Hc2).
  rewrite Hp in Hp2. inversion Hp2; subst n2 i2 o2. rewrite Hc2 in H.
  destruct (rp_text_offset r =? 0) eqn:Ez'; [apply Nat.eqb_eq in Ez'; contradiction|].
  destruct (text_cut t m (rp_text_offset r) (text_length t)) as [c|] eqn:Et; [|discriminate].
  cbn [bind] in H. inversion H; subst. exists parent, index, o0, (Text t m). split; [exact Hp|]. split; [exact Hc2|].
  rewrite (text_cut_toks s _ _ _ _ _ Et). unfold seg.
  pose proof (toks_length s (Text t m)) as Hl. cbn [node_size] in Hl. rewrite <- Hl. apply firstn_skipn_all.
Qed.

Lemma add_range_left e depth target l :
  add_range s None (Some e) depth target = Ok l -> TextAt e ->
  nt (ftoks l) = nt (ftoks target) ++ nt (left_of e depth).
Proof.
  unfold add_range. intros H Ht.
  destruct (rp_node e depth) as [n|] eqn:En; [|discriminate]. cbn [bind] in H.
  destruct (rp_index e depth) as [ei|] eqn:Eei; [|discriminate]. cbn [bind] in H.
  destruct (length (node_content n) <? ei); [discriminate|]. cbn [bind] in H.
  destruct (rp_node_path _ _ _ En) as (i0 & o0 & Hp). destruct (rp_index_path _ _ _ Eei) as (n1 & o1 & Hp1).
  rewrite Hp in Hp1. inversion Hp1; subst n1 i0 o1. clear Hp1.
  unfold left_of. rewrite Hp. rewrite Nat.sub_0_r in H. cbn [skipn] in H.
  rewrite nt_app, app_assoc, <- add_all_toks.
  destruct (rp_depth e =? depth) eqn:Ed.
  - apply Nat.eqb_eq in Ed. subst depth. rewrite Nat.eqb_refl. cbn [andb] in H.
    destruct (rp_text_offset e =? 0) eqn:Ez; cbn [negb] in H.
    + apply Nat.eqb_eq in Ez. rewrite Ez. inversion H; subst.
      replace (match nth_error (node_content n) ei with Some c => firstn 0 (toks c) | None => [] end) with (@nil tok)
        by (destruct (nth_error (node_content n) ei); reflexivity).
      cbn. rewrite app_nil_r. reflexivity.
    + apply Nat.eqb_neq in Ez. destruct (rp_node_before s e) as [[x|]|] eqn:Enb; try discriminate.
      cbn [bind] in H. inversion H; subst.
      destruct (node_before_toks _ _ Enb Ez Ht) as (n2 & i2 & o2 & c & Hp2 & Hc & Hx).
      rewrite Hp in Hp2. inversion Hp2; subst n2 i2 o2. rewrite Hc, <- Hx. apply add_node_toks.
  - cbn [andb] in H. inversion H; subst. rewrite Nat.eqb_sym, Ed. cbn. rewrite app_nil_r. reflexivity.
Qed.

Lemma skipn_nth_cons {A} (l : list A) i c : nth_error l i = Some c -> skipn i l = c :: skipn (S i) l.
Proof.
  revert i. induction l as [|x l IH]; intros [|i] H; try discriminate.
  - inversion H; reflexivity.
  - cbn [nth_error] in H. cbn [skipn]. apply IH. exact H.
Qed.

Lemma add_range_right sp depth target l :
  add_range s (Some sp) None depth target = Ok l -> TextAt sp ->
  nt (ftoks l) = nt (ftoks target) ++ nt (right_of sp depth).
Proof.
  unfold add_range. intros H Ht.
  destruct (rp_node sp depth) as [n|] eqn:En; [|discriminate]. cbn [bind] in H.
  destruct (rp_index sp depth) as [si|] eqn:Esi; [|discriminate]. cbn [bind] in H.
  destruct (rp_node_path _ _ _ En) as (i0 & o0 & Hp). destruct (rp_index_path _ _ _ Esi) as (n1 & o1 & Hp1).
  rewrite Hp in Hp1. inversion Hp1; subst n1 i0 o1. clear Hp1.
  pose proof (path_at_depth_le _ _ _ Hp) as Hle.
  unfold right_of. rewrite Hp.
  destruct (depth <? rp_depth sp) eqn:Ed.
  - apply Nat.ltb_lt in Ed. cbn [bind] in H. rewrite Nat.ltb_irrefl in H. cbn [bind] in H.
    rewrite firstn_skipn_all in H. inversion H; subst.
    replace (depth =? rp_depth sp) with false by (symmetry; apply Nat.eqb_neq; lia).
    apply add_all_toks.
  - apply Nat.ltb_ge in Ed. assert (depth = rp_depth sp) by lia. subst depth. rewrite Nat.eqb_refl.
    destruct (rp_text_offset sp =? 0) eqn:Ez; cbn [negb] in H.
    + apply Nat.eqb_eq in Ez. rewrite Ez. cbn [bind] in H. rewrite Nat.ltb_irrefl in H. cbn [bind] in H.
      rewrite firstn_skipn_all in H. inversion H; subst. rewrite add_all_toks. f_equal. f_equal.
      destruct (nth_error (node_content n) si) as [c|] eqn:Ec.
      * rewrite (skipn_nth_cons _ _ _ Ec). reflexivity.
      * apply nth_error_None in Ec. rewrite skipn_all2 by lia. reflexivity.
    + apply Nat.eqb_neq in Ez. destruct (rp_node_after s sp) as [[x|]|] eqn:Ena; try discriminate.
      cbn [bind] in H. rewrite Nat.ltb_irrefl in H. cbn [bind] in H.
      rewrite firstn_skipn_all in H. inversion H; subst.
      destruct (node_after_toks _ _ Ena Ez Ht) as (n2 & i2 & o2 & c & Hp2 & Hc & Hx).
      rewrite Hp in Hp2. inversion Hp2; subst n2 i2 o2. rewrite Hc, <- Hx.
      rewrite add_all_toks, add_node_toks, nt_app, app_assoc. reflexivity.
Qed.

Lemma add_range_mid sp e depth target l :
  add_range s (Some sp) (Some e) depth target = Ok l ->
  rp_text_offset sp = 0 -> rp_text_offset e = 0 ->
  exists n ei o si, path_at e depth = Some (n, ei, o) /\ rp_index sp depth = Ok si /\
    nt (ftoks l) = nt (ftoks target) ++
                   nt (ftoks (seg (node_content n) (if depth <? rp_depth sp then S si else si) ei)).
Proof.
  unfold add_range. intros H Hzs Hze.
  destruct (rp_node e depth) as [n|] eqn:En; [|discriminate]. cbn [bind] in H.
  destruct (rp_index e depth) as [ei|] eqn:Eei; [|discriminate]. cbn [bind] in H.
  destruct (rp_index sp depth) as [si|] eqn:Esi; [|discriminate]. cbn [bind] in H.
  destruct (rp_node_path _ _ _ En) as (i0 & o0 & Hp). destruct (rp_index_path _ _ _ Eei) as (n1 & o1 & Hp1).
  rewrite Hp in Hp1. inversion Hp1; subst n1 i0 o1. clear Hp1.
  exists n, ei, o0, si. split; [exact Hp|]. split; [reflexivity|].
  rewrite Hzs, Hze in H. cbn [Nat.eqb negb] in H. rewrite andb_false_r in H.
  destruct (depth <? rp_depth sp); cbn [bind] in H;
    (destruct (length (node_content n) <? ei); [discriminate|]); cbn [bind] in H; inversion H; subst;
    apply add_all_toks.
Qed.

(* ---------------------------------------------------------------- paths level by level *)
Lemma skipn_path r d x : path_at r d = Some x -> skipn d (rp_path r) = x :: skipn (S d) (rp_path r).
Proof. unfold path_at. apply skipn_nth_cons. Qed.

Lemma skipn_S_nil r d : rp_depth r <= d -> skipn (S d) (rp_path r) = [].
Proof. unfold rp_depth. intros H. apply skipn_all2. lia. Qed.

Lemma path_at_S_some r d : d < rp_depth r -> exists x, path_at r (S d) = Some x.
Proof.
  unfold rp_depth, path_at. intros H. destruct (nth_error (rp_path r) (S d)) as [x|] eqn:E; [eauto|].
  apply nth_error_None in E. lia.
Qed.

Lemma before_p_final r d n i o toff :
  path_at r d = Some (n, i, o) -> rp_depth r <= d ->
  before_p s (skipn d (rp_path r)) toff =
  ftoks (firstn i (node_content n)) ++
  match nth_error (node_content n) i with Some c => firstn toff (toks c) | None => [] end.
Proof. intros Hp Hd. rewrite (skipn_path _ _ _ Hp), (skipn_S_nil _ _ Hd). reflexivity. Qed.

Lemma before_p_inner r d n i o c i' o' toff :
  path_at r d = Some (n, i, o) -> path_at r (S d) = Some (c, i', o') ->
  before_p s (skipn d (rp_path r)) toff =
  ftoks (firstn i (node_content n)) ++ open_tok c :: before_p s (skipn (S d) (rp_path r)) toff.
Proof.
  intros Hp Hp'. rewrite (skipn_path _ _ _ Hp). cbn [before_p]. rewrite (skipn_path _ _ _ Hp'). reflexivity.
Qed.

Lemma after_p_final r d n i o toff :
  path_at r d = Some (n, i, o) -> rp_depth r <= d ->
  after_p s (skipn d (rp_path r)) toff =
  match nth_error (node_content n) i with
  | Some c => skipn toff (toks c) ++ ftoks (skipn (S i) (node_content n))
  | None => []
  end.
Proof. intros Hp Hd. rewrite (skipn_path _ _ _ Hp), (skipn_S_nil _ _ Hd). reflexivity. Qed.

Lemma after_p_inner r d n i o x toff :
  path_at r d = Some (n, i, o) -> path_at r (S d) = Some x ->
  after_p s (skipn d (rp_path r)) toff =
  after_p s (skipn (S d) (rp_path r)) toff ++ [TClose] ++ ftoks (skipn (S i) (node_content n)).
Proof.
  intros Hp Hp'. rewrite (skipn_path _ _ _ Hp). cbn [after_p]. rewrite (skipn_path _ _ _ Hp'). reflexivity.
Qed.

Lemma left_of_final r d n i o :
  path_at r d = Some (n, i, o) -> rp_depth r <= d ->
  left_of r d = before_p s (skipn d (rp_path r)) (rp_text_offset r).
Proof.
  intros Hp Hd. rewrite (before_p_final _ _ _ _ _ _ Hp Hd). unfold left_of. rewrite Hp.
  pose proof (path_at_depth_le _ _ _ Hp). replace (d =? rp_depth r) with true by (symmetry; apply Nat.eqb_eq; lia).
  reflexivity.
Qed.
Lemma left_of_inner r d n i o :
  path_at r d = Some (n, i, o) -> d < rp_depth r -> left_of r d = ftoks (firstn i (node_content n)).
Proof.
  intros Hp Hd. unfold left_of. rewrite Hp. replace (d =? rp_depth r) with false by (symmetry; apply Nat.eqb_neq; lia).
  apply app_nil_r.
Qed.
Lemma right_of_final r d n i o :
  path_at r d = Some (n, i, o) -> rp_depth r <= d ->
  right_of r d = after_p s (skipn d (rp_path r)) (rp_text_offset r).
Proof.
  intros Hp Hd. rewrite (after_p_final _ _ _ _ _ _ Hp Hd). unfold right_of. rewrite Hp.
  pose proof (path_at_depth_le _ _ _ Hp). replace (d =? rp_depth r) with true by (symmetry; apply Nat.eqb_eq; lia).
  reflexivity.
Qed.
Lemma right_of_inner r d n i o :
  path_at r d = Some (n, i, o) -> d < rp_depth r -> right_of r d = ftoks (skipn (S i) (node_content n)).
Proof.
  intros Hp Hd. unfold right_of. rewrite Hp. replace (d =? rp_depth r) with false by (symmetry; apply Nat.eqb_neq; lia).
  reflexivity.
Qed.

(* ---------------------------------------------------------------- replace_two_way *)
Lemma joinable_node before after depth n :
  joinable s before after depth = Ok n -> rp_node before depth = Ok n /\ exists a, rp_node after depth = Ok a.
Proof.
  unfold joinable. destruct (rp_node before depth) as [n0|]; [|discriminate]. cbn [bind].
  destruct (rp_node after depth) as [a0|]; [|discriminate]. cbn [bind].
  destruct (check_join s n0 a0); [|discriminate]. cbn [bind]. intros H; inversion H; subst. eauto.
Qed.

Lemma two_way_toks : forall fuel from to depth l,
  replace_two_way s fuel from to depth = Ok l ->
  rp_depth from = rp_depth to -> TextAt from -> TextAt to -> PathShape s from ->
  nt (ftoks l) = nt (before_p s (skipn depth (rp_path from)) (rp_text_offset from)) ++
                 nt (after_p s (skipn depth (rp_path to)) (rp_text_offset to)).
Proof.
  induction fuel as [|fuel IH]; intros from to depth l H Hdep Htf Htt Hsh; [discriminate|].
  cbn [replace_two_way] in H.
  destruct (add_range s None (Some from) depth []) as [c1|] eqn:E1; [|discriminate]. cbn [bind] in H.
  pose proof (add_range_left _ _ _ _ E1 Htf) as Hc1. cbn [Tokens.ftoks nt List.map app] in Hc1.
  (* the path entries at this depth *)
  assert (Hpf : exists n i o, path_at from depth = Some (n, i, o)).
  { unfold add_range in E1. destruct (rp_node from depth) as [n|] eqn:En; [|discriminate].
    destruct (rp_node_path _ _ _ En) as (i & o & Hp). eauto. }
  destruct Hpf as (nf & i_f & o_f & Hpf).
  destruct (depth <? rp_depth from) eqn:Ed.
  - apply Nat.ltb_lt in Ed.
    destruct (joinable s from to (S depth)) as [ty|] eqn:Ej; [|discriminate]. cbn [bind] in H.
    destruct (replace_two_way s fuel from to (S depth)) as [inner|] eqn:Ei; [|discriminate]. cbn [bind] in H.
    destruct (close s ty inner) as [cl|] eqn:Ec; [|discriminate]. cbn [bind] in H.
    destruct (joinable_node _ _ _ _ Ej) as (Hty & (a & Ha)).
    destruct (Hsh _ _ Hty) as (Hel & Hnl). specialize (Hnl (Nat.lt_0_succ depth)).
    pose proof (close_toks _ _ _ Ec Hnl Hel) as Hcl.
    pose proof (add_range_right _ _ _ _ H Htt) as Hl.
    rewrite Hl, add_node_toks, Hc1, Hcl.
    destruct (rp_node_path _ _ _ Hty) as (i1 & o1 & Hpf1).
    destruct (rp_node_path _ _ _ Ha) as (i2 & o2 & Hpt1).
    assert (Hpt : exists n i o, path_at to depth = Some (n, i, o)).
    { unfold add_range in H. destruct (rp_node to depth) as [n|] eqn:En; [|discriminate].
      destruct (rp_node_path _ _ _ En) as (i & o & Hp). eauto. }
    destruct Hpt as (nt_ & i_t & o_t & Hpt).
    rewrite (left_of_inner _ _ _ _ _ Hpf Ed), (right_of_inner _ _ _ _ _ Hpt ltac:(lia)).
    rewrite (before_p_inner _ _ _ _ _ _ _ _ _ Hpf Hpf1), (after_p_inner _ _ _ _ _ _ _ Hpt Hpt1).
    specialize (IH _ _ _ _ Ei Hdep Htf Htt Hsh).
    unfold nt in *. rewrite !map_app. cbn [List.map]. rewrite !map_app. cbn [List.map]. rewrite IH.
    rewrite <- !app_assoc. cbn [app]. f_equal. f_equal. rewrite <- !app_assoc. reflexivity.
  - apply Nat.ltb_ge in Ed. cbn [bind] in H.
    pose proof (add_range_right _ _ _ _ H Htt) as Hl. rewrite Hl, Hc1.
    assert (Hpt : exists n i o, path_at to depth = Some (n, i, o)).
    { unfold add_range in H. destruct (rp_node to depth) as [n|] eqn:En; [|discriminate].
      destruct (rp_node_path _ _ _ En) as (i & o & Hp). eauto. }
    destruct Hpt as (nt_ & i_t & o_t & Hpt).
    rewrite (left_of_final _ _ _ _ _ Hpf Ed), (right_of_final _ _ _ _ _ Hpt ltac:(lia)). reflexivity.
Qed.

End WithSchema.
