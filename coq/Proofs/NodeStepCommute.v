(* A node-level step (attribute, add / remove node mark) and a replace step that touch separated parts of a document
   commute after rebasing (C17): neither is dropped, and if both orders apply the results have the same tokens. *)
From Coq Require Import ZArith NArith List Bool Arith Lia.
From PM Require Import Model.Data Model.Mark Model.Tree Model.Resolve Model.StepMap Model.Step Spec.Tokens
  Proofs.DataProofs Proofs.MarkProofs Proofs.JsonProofs
  Proofs.ReplaceValid Proofs.SliceSides Proofs.TokenBasics Proofs.PathTokens Proofs.ReplaceTokens Proofs.SliceShape
  Proofs.StepFaithful Proofs.TokenLaws Proofs.StepAlgebra Proofs.StepTokens Proofs.NodeSteps Proofs.MarkMerge Proofs.AttrUndo
  Proofs.NodeStepValid.
Import ListNotations.
Local Open Scope nat_scope.
Local Open Scope list_scope.

Section WithSchema.
Variable s : schema.
Notation V := (V s).
Notation DT := (DT s).
Notation IT := (IT s).
Notation ShapeS sl := (Shape s (sl_content sl) (sl_open_start sl) (sl_open_end sl)).
Notation OpenS sl := (OpenOK s (sl_content sl) (sl_open_start sl) (sl_open_end sl)).

(* the node step at another position *)
Definition move_step (st : step) (p : nat) : step :=
  match st with
  | SAddNodeMark _ m => SAddNodeMark p m
  | SRemoveNodeMark _ m => SRemoveNodeMark p m
  | SAttr _ a v => SAttr p a v
  | x => x
  end.
Lemma move_is_node_step st pos p : is_node_step st = Some pos -> is_node_step (move_step st p) = Some p.
Proof. destruct st; cbn; intros H; inversion H; reflexivity. Qed.
Lemma move_node_update st p n : node_update s (move_step st p) n = node_update s st n.
Proof. destruct st; reflexivity. Qed.

(* what a node step writes depends on the addressed node's markup only up to == *)
Lemma node_update_norm st pos ty a m cs a' m' a2 m2 cs2 a2' m2' :
  is_node_step st = Some pos ->
  tnorm (head_tok s ty a m) = tnorm (head_tok s ty a2 m2) ->
  node_update s st (Elem ty a m cs) = Ok (Elem ty a' m' []) ->
  node_update s st (Elem ty a2 m2 cs2) = Ok (Elem ty a2' m2' []) ->
  tnorm (head_tok s ty a' m') = tnorm (head_tok s ty a2' m2').
Proof.
  intros Hst Hh H1 H2. destruct (head_tok_norm_inj s _ _ _ _ _ _ Hh) as (_ & Ha & Hm).
  assert (G : forall at1 at2 ms1 ms2, anorm at1 = anorm at2 -> msnorm ms1 = msnorm ms2 ->
            type_create s ty at1 [] ms1 = Ok (Elem ty a' m' []) -> type_create s ty at2 [] ms2 = Ok (Elem ty a2' m2' []) ->
            tnorm (head_tok s ty a' m') = tnorm (head_tok s ty a2' m2')).
  { intros at1 at2 ms1 ms2 Ea Em T1 T2. unfold type_create in T1, T2. destruct (is_text_ty s ty); [discriminate|].
    destruct (compute_attrs (nt_attrs (ntype_of s ty)) at1) as [x1|] eqn:C1; [|discriminate].
    destruct (compute_attrs (nt_attrs (ntype_of s ty)) at2) as [x2|] eqn:C2; [|discriminate].
    cbn [bind] in T1, T2. inversion T1; inversion T2; subst.
    destruct (compute_attrs_norm _ _ _ _ Ea C1) as (ry & Ery & Hry). rewrite C2 in Ery. inversion Ery; subst ry.
    unfold head_tok. destruct (is_leaf_ty s ty); cbn [tnorm]; rewrite Hry, !set_from_norm, Em; reflexivity. }
  destruct st; try discriminate; cbn [node_update node_ty node_attrs node_marks] in H1, H2.
  - eapply G; [exact Ha| |exact H1|exact H2]. rewrite !add_to_set_norm, Hm. reflexivity.
  - eapply G; [exact Ha| |exact H1|exact H2]. rewrite !remove_from_set_norm, Hm. reflexivity.
  - eapply G; [|exact Hm|exact H1|exact H2]. rewrite !anorm_set_attr, Ha. reflexivity.
Qed.

Lemma node_step_result st pos doc d' :
  V doc -> is_node_step st = Some pos -> apply s st doc = ROk d' ->
  exists ty a m cs a' m',
    node_update s st (Elem ty a m cs) = Ok (Elem ty a' m' []) /\
    nth_error (DT doc) pos = Some (tnorm (head_tok s ty a m)) /\
    DT d' = firstn pos (DT doc) ++ [tnorm (head_tok s ty a' m')] ++ skipn (S pos) (DT doc).
Proof.
  intros Hd Hst H. destruct (node_step_splice s st pos doc d' Hd Hst H) as (ty & a & m & cs & a' & m' & _ & Hu & Hn & E).
  exists ty, a, m, cs, a', m'. auto.
Qed.

Lemma nth_split {A} (T : list A) p x : nth_error T p = Some x -> T = firstn p T ++ [x] ++ skipn (S p) T.
Proof.
  revert T. induction p as [|p IH]; intros [|t T] H; try discriminate.
  - cbn in H. inversion H. reflexivity.
  - cbn [nth_error] in H. cbn [firstn skipn app]. f_equal. apply IH. exact H.
Qed.

(* the node step lies behind the replaced range: t < pos *)
Theorem node_step_after_replace_commute f t sl structure st pos doc da db :
  V doc -> empty_match_valid_end s -> OpenS sl -> f <= t -> t < pos -> is_node_step st = Some pos ->
  apply s (SReplace f t sl structure) doc = ROk da ->
  apply s st doc = ROk db ->
  let pos' := pos + length (IT sl) - (t - f) in
  step_map st (get_map s (SReplace f t sl structure)) = Some (move_step st pos') /\
  step_map (SReplace f t sl structure) (get_map s st) = Some (SReplace f t sl false) /\
  forall dab dba,
    apply s (move_step st pos') da = ROk dab -> apply s (SReplace f t sl false) db = ROk dba ->
    DT dab = DT dba.
Proof.
  intros Hd Hem Ho Hft Htp Hst Ha Hb pos'.
  pose proof (OpenOK_Shape s _ _ _ Ho) as Hs. pose proof (IT_length s sl Hs) as Hl.
  assert (Hmap : get_map s st = empty_map) by (destruct st; try discriminate; reflexivity).
  split; [|split].
  - destruct st; try discriminate; cbn [is_node_step] in Hst; inversion Hst; subst;
      cbn [step_map get_map move_step]; rewrite map_result_single_after by lia;
      cbn [deleted_after mr_del mr_pos Z.land Z.lor Z.ltb Z.compare]; unfold pos'; repeat f_equal; lia.
  - rewrite Hmap. cbn [step_map]. unfold map_result, empty_map. cbn [ranges inverted map_go mr_pos mr_del].
    unfold deleted. cbn [mr_del Z.land Z.ltb Z.compare andb]. rewrite !Z.add_0_r.
    assert (E : (Z.max (Z.of_nat f) (Z.of_nat t)) = Z.of_nat t) by lia. rewrite E, !Nat2Z.id. reflexivity.
  - intros dab dba Hab Hba.
    destruct (replace_step_splice s _ _ _ _ _ _ Hd Hs Ha) as (_ & Ht & Ea).
    destruct (node_step_result st pos doc db Hd Hst Hb) as (ty & a & m & cs & a' & m' & Hu & Hn & Eb).
    pose proof (apply_replace_valid s _ _ _ _ _ _ Hd Ho Ha) as Hda.
    assert (Hdb : V db).
    { apply (node_step_valid s st pos doc db Hem Hd); [|exact Hb].
      destruct st; try discriminate; cbn [is_node_step] in Hst; inversion Hst; reflexivity. }
    destruct (node_step_result (move_step st pos') pos' da dab Hda (move_is_node_step _ _ _ Hst) Hab)
      as (ty2 & a2 & m2 & cs2 & a2' & m2' & Hu2 & Hn2 & Eab).
    rewrite move_node_update in Hu2.
    destruct (replace_step_splice s _ _ _ _ _ _ Hdb Hs Hba) as (_ & _ & Eba).
    assert (Hp : pos < length (DT doc)) by (apply nth_error_Some; rewrite Hn; discriminate).
    (* cut the document at f, t, pos *)
    set (T := DT doc) in *. set (P := firstn f T). set (S0 := skipn t T). set (I := IT sl) in *.
    assert (LP : length P = f) by (unfold P; rewrite firstn_length; lia).
    assert (HS0 : nth_error S0 (pos - t) = Some (tnorm (head_tok s ty a m))).
    { unfold S0. rewrite nth_skipn. replace (t + (pos - t)) with pos by lia. exact Hn. }
    assert (ES0 : S0 = firstn (pos - t) S0 ++ [tnorm (head_tok s ty a m)] ++ skipn (S (pos - t)) S0) by (apply nth_split; exact HS0).
    set (S1 := firstn (pos - t) S0) in *. set (S2 := skipn (S (pos - t)) S0) in *.
    assert (LS1 : length S1 = pos - t).
    { unfold S1. rewrite firstn_length. apply (f_equal (@length tok)) in ES0. rewrite !app_length in ES0. cbn [length] in ES0.
      assert (pos - t < length S0) by (apply nth_error_Some; rewrite HS0; discriminate). lia. }
    assert (Ea' : DT da = P ++ I ++ S1 ++ [tnorm (head_tok s ty a m)] ++ S2) by (rewrite Ea; fold P S0; rewrite ES0 at 1; reflexivity).
    assert (Hpos' : pos' = length (P ++ I ++ S1)) by (rewrite !app_length; unfold pos', I; lia).
    (* the node found after the replace step is the same node, up to == *)
    assert (Hsame : tnorm (head_tok s ty2 a2 m2) = tnorm (head_tok s ty a m)).
    { rewrite Ea' in Hn2. replace (P ++ I ++ S1 ++ [tnorm (head_tok s ty a m)] ++ S2)
        with ((P ++ I ++ S1) ++ [tnorm (head_tok s ty a m)] ++ S2) in Hn2 by (rewrite <- !app_assoc; reflexivity).
      rewrite nth_error_app2 in Hn2 by lia. rewrite Hpos', Nat.sub_diag in Hn2. cbn in Hn2. inversion Hn2. reflexivity. }
    destruct (head_tok_norm_inj s _ _ _ _ _ _ Hsame) as (-> & _ & _).
    assert (Hx : tnorm (head_tok s ty a2' m2') = tnorm (head_tok s ty a' m')).
    { eapply (node_update_norm st pos ty a2 m2 cs2 a2' m2' a m cs a' m'); eauto. }
    set (x := tnorm (head_tok s ty a' m')) in *.
    (* a then b' *)
    assert (Eab' : DT dab = P ++ I ++ S1 ++ [x] ++ S2).
    { rewrite Eab, Hx, Ea'.
      replace (P ++ I ++ S1 ++ [tnorm (head_tok s ty a m)] ++ S2)
        with ((P ++ I ++ S1) ++ [tnorm (head_tok s ty a m)] ++ S2) by (rewrite <- !app_assoc; reflexivity).
      rewrite firstn_exact by exact Hpos'.
      replace ((P ++ I ++ S1) ++ [tnorm (head_tok s ty a m)] ++ S2)
        with (((P ++ I ++ S1) ++ [tnorm (head_tok s ty a m)]) ++ S2) by (rewrite <- !app_assoc; reflexivity).
      rewrite skipn_exact by (rewrite app_length; cbn [length]; lia). rewrite <- !app_assoc. reflexivity. }
    (* b then a *)
    assert (ET : T = P ++ seg T f t ++ S1 ++ [tnorm (head_tok s ty a m)] ++ S2).
    { rewrite <- ES0. unfold P, S0. apply split3. exact Hft. }
    assert (Lseg : length (seg T f t) = t - f) by (unfold seg; rewrite firstn_length, skipn_length; lia).
    assert (Eb' : DT db = P ++ seg T f t ++ S1 ++ [x] ++ S2).
    { rewrite Eb. fold x. rewrite ET at 1 2.
      replace (P ++ seg T f t ++ S1 ++ [tnorm (head_tok s ty a m)] ++ S2)
        with ((P ++ seg T f t ++ S1) ++ [tnorm (head_tok s ty a m)] ++ S2) by (rewrite <- !app_assoc; reflexivity).
      rewrite firstn_exact by (rewrite !app_length; lia).
      replace ((P ++ seg T f t ++ S1) ++ [tnorm (head_tok s ty a m)] ++ S2)
        with (((P ++ seg T f t ++ S1) ++ [tnorm (head_tok s ty a m)]) ++ S2) by (rewrite <- !app_assoc; reflexivity).
      rewrite skipn_exact by (rewrite !app_length; cbn [length]; lia). rewrite <- !app_assoc. reflexivity. }
    rewrite Eab', Eba, Eb'. rewrite firstn_exact by lia.
    rewrite (app_assoc P (seg T f t)). rewrite skipn_exact by (rewrite app_length; lia). reflexivity.
Qed.


(* the node step lies before the replaced range: pos < f *)
Theorem node_step_before_replace_commute f t sl structure st pos doc da db :
  V doc -> empty_match_valid_end s -> OpenS sl -> f <= t -> pos < f -> is_node_step st = Some pos ->
  apply s (SReplace f t sl structure) doc = ROk da ->
  apply s st doc = ROk db ->
  step_map st (get_map s (SReplace f t sl structure)) = Some st /\
  step_map (SReplace f t sl structure) (get_map s st) = Some (SReplace f t sl false) /\
  forall dab dba,
    apply s st da = ROk dab -> apply s (SReplace f t sl false) db = ROk dba ->
    DT dab = DT dba.
Proof.
  intros Hd Hem Ho Hft Hpf Hst Ha Hb.
  pose proof (OpenOK_Shape s _ _ _ Ho) as Hs. pose proof (IT_length s sl Hs) as Hl.
  assert (Hmap : get_map s st = empty_map) by (destruct st; try discriminate; reflexivity).
  split; [|split].
  - destruct st; try discriminate; cbn [is_node_step] in Hst; inversion Hst; subst;
      cbn [step_map get_map]; rewrite map_result_single_before by lia;
      cbn [deleted_after mr_del mr_pos Z.land Z.lor Z.ltb Z.compare]; rewrite Nat2Z.id; reflexivity.
  - rewrite Hmap. cbn [step_map]. unfold map_result, empty_map. cbn [ranges inverted map_go mr_pos mr_del].
    unfold deleted. cbn [mr_del Z.land Z.ltb Z.compare andb]. rewrite !Z.add_0_r.
    assert (E : (Z.max (Z.of_nat f) (Z.of_nat t)) = Z.of_nat t) by lia. rewrite E, !Nat2Z.id. reflexivity.
  - intros dab dba Hab Hba.
    destruct (replace_step_splice s _ _ _ _ _ _ Hd Hs Ha) as (Hf & Ht & Ea).
    destruct (node_step_result st pos doc db Hd Hst Hb) as (ty & a & m & cs & a' & m' & Hu & Hn & Eb).
    pose proof (apply_replace_valid s _ _ _ _ _ _ Hd Ho Ha) as Hda.
    assert (Hdb : V db).
    { apply (node_step_valid s st pos doc db Hem Hd); [|exact Hb].
      destruct st; try discriminate; cbn [is_node_step] in Hst; inversion Hst; reflexivity. }
    destruct (node_step_result st pos da dab Hda Hst Hab) as (ty2 & a2 & m2 & cs2 & a2' & m2' & Hu2 & Hn2 & Eab).
    destruct (replace_step_splice s _ _ _ _ _ _ Hdb Hs Hba) as (_ & _ & Eba).
    set (T := DT doc) in *. set (I := IT sl) in *.
    set (A := firstn pos T). set (y := tnorm (head_tok s ty a m)) in *.
    assert (ET : T = A ++ [y] ++ skipn (S pos) T) by (apply nth_split; exact Hn).
    assert (LA : length A = pos) by (unfold A; rewrite firstn_length; assert (pos < length T) by (apply nth_error_Some; rewrite Hn; discriminate); lia).
    (* cut the rest at f and t *)
    set (R := skipn (S pos) T) in *.
    assert (LR : length R = length T - S pos) by (unfold R; apply skipn_length).
    set (B := firstn (f - S pos) R). set (S0 := skipn (t - S pos) R).
    assert (LB : length B = f - S pos) by (unfold B; rewrite firstn_length; lia).
    assert (EP : firstn f T = A ++ [y] ++ B).
    { rewrite ET at 1. replace (A ++ [y] ++ R) with ((A ++ [y]) ++ R) by (rewrite <- app_assoc; reflexivity).
      rewrite firstn_app_r by (rewrite app_length; cbn [length]; lia). rewrite app_length. cbn [length].
      rewrite <- app_assoc. unfold B. repeat f_equal. lia. }
    assert (ES : skipn t T = S0).
    { rewrite ET at 1. replace (A ++ [y] ++ R) with ((A ++ [y]) ++ R) by (rewrite <- app_assoc; reflexivity).
      rewrite skipn_app_r by (rewrite app_length; cbn [length]; lia). rewrite app_length. cbn [length].
      unfold S0. f_equal. lia. }
    assert (Ea' : DT da = A ++ [y] ++ B ++ I ++ S0) by (rewrite Ea, EP, ES, <- !app_assoc; reflexivity).
    assert (Hsame : tnorm (head_tok s ty2 a2 m2) = y).
    { rewrite Ea' in Hn2. rewrite nth_error_app2 in Hn2 by lia. rewrite LA, Nat.sub_diag in Hn2. cbn in Hn2. inversion Hn2. reflexivity. }
    unfold y in Hsame. destruct (head_tok_norm_inj s _ _ _ _ _ _ Hsame) as (-> & _ & _).
    assert (Hx : tnorm (head_tok s ty a2' m2') = tnorm (head_tok s ty a' m')).
    { eapply (node_update_norm st pos ty a2 m2 cs2 a2' m2' a m cs a' m'); eauto. }
    set (x := tnorm (head_tok s ty a' m')) in *.
    assert (Eab' : DT dab = A ++ [x] ++ B ++ I ++ S0).
    { rewrite Eab, Hx, Ea'. rewrite firstn_exact by lia.
      replace (A ++ [y] ++ B ++ I ++ S0) with ((A ++ [y]) ++ B ++ I ++ S0) by (rewrite <- app_assoc; reflexivity).
      rewrite skipn_exact by (rewrite app_length; cbn [length]; lia). reflexivity. }
    assert (Eb' : DT db = A ++ [x] ++ R) by (rewrite Eb; reflexivity).
    rewrite Eab', Eba, Eb'.
    replace (A ++ [x] ++ R) with ((A ++ [x]) ++ R) by (rewrite <- app_assoc; reflexivity).
    rewrite firstn_app_r by (rewrite app_length; cbn [length]; lia).
    rewrite skipn_app_r by (rewrite app_length; cbn [length]; lia).
    rewrite app_length. cbn [length]. rewrite <- !app_assoc. cbn [app].
    rewrite LA. replace (f - (pos + 1)) with (f - S pos) by lia. replace (t - (pos + 1)) with (t - S pos) by lia. reflexivity.
Qed.

End WithSchema.
