(* nested induction principle for [node] *)
From Coq Require Import List.
From PM Require Import Model.Data.
Import ListNotations.
Section node_ind2.
  Variable P : node -> Prop.
  Hypothesis HT : forall t m, P (Text t m).
  Hypothesis HE : forall ty a m cs, (forall c, In c cs -> P c) -> P (Elem ty a m cs).
  Fixpoint node_ind2 (n : node) : P n :=
    match n with
    | Text t m => HT t m
    | Elem ty a m cs =>
      HE ty a m cs
        ((fix go (l : list node) : forall c, In c l -> P c :=
            match l with
            | [] => fun c H => match H with end
            | x :: r => fun c H =>
              match H with
              | or_introl e => eq_rect x P (node_ind2 x) c e
              | or_intror h => go r c h
              end
            end) cs)
    end.
End node_ind2.
