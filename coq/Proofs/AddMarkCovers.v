(* Transform.add_mark, coverage (C13): every inline descendant that overlaps [from, to), does not carry the mark yet and sits
   in a parent whose type allows it has its part of the range inside one of the planned AddMark steps of that very mark.
   (MarkOpsProofs.v shows the converse bound: no planned step reaches outside [from, to].) *)
From Coq Require Import ZArith NArith List Bool Arith Lia.
From PM Require Import Model.Data Model.Mark Model.Tree Model.Resolve Model.StepMap Model.Step Model.MarkOps Spec.Tokens
  Proofs.ReplaceValid Proofs.TokenBasics Proofs.StepSafe Proofs.Traversal.
Import ListNotations.
Local Open Scope nat_scope.

Section WithSchema.
Variable s : schema.
Notation nsize := (node_size s).
Notation fsize := (frag_size s).

Definition Covers (mk : mark) (added : list step) (a b : nat) : Prop :=
  exists f t, In (SAddMark f t mk) added /\ f <= a /\ b <= t.
Definition AllMk (mk : mark) (added : list step) : Prop :=
  forall st, In st added -> exists f t, st = SAddMark f t mk /\ f <= t.

Definition qualifies (mk : mark) (v : visit) : Prop :=
  node_is_inline s (v_node v) = true /\ is_in_set mk (node_marks (v_node v)) = false /\
  exists p, v_parent v = Some p /\ allows_mark_type s (node_ty s p) (m_ty mk) = true.

Lemma am_visit_added mk from to st v :
  Nat.max (v_pos v) from <= Nat.min (v_pos v + nsize (v_node v)) to ->
  AllMk mk (snd st) ->
  AllMk mk (snd (am_visit s mk from to st v)) /\
  (forall a b, Covers mk (snd st) a b -> Covers mk (snd (am_visit s mk from to st v)) a b) /\
  (qualifies mk v ->
   Covers mk (snd (am_visit s mk from to st v)) (Nat.max (v_pos v) from) (Nat.min (v_pos v + nsize (v_node v)) to)).
Proof.
  destruct st as [removed added]. cbn [snd]. intros Hov HA. unfold am_visit.
  destruct (node_is_inline s (v_node v)) eqn:Ei; cbn [negb].
  2:{ cbn [snd]. split; [exact HA|]. split; [auto|]. intros (Q & _). congruence. }
  destruct (is_in_set mk (node_marks (v_node v))) eqn:Em; cbn [negb andb].
  { cbn [snd]. split; [exact HA|]. split; [auto|]. intros (_ & Q & _). congruence. }
  destruct (match v_parent v with Some p => allows_mark_type s (node_ty s p) (m_ty mk) | None => false end) eqn:Ep.
  2:{ cbn [snd]. split; [exact HA|]. split; [auto|]. intros (_ & _ & p & Hp & Hal). rewrite Hp, Hal in Ep. discriminate. }
  cbn [snd]. set (start := Nat.max (v_pos v) from) in *. set (end_ := Nat.min (v_pos v + nsize (v_node v)) to) in *.
  destruct added as [|h rest].
  { split; [intros st [<-|[]]; eauto|]. split; [intros a b (f & t & [] & _)|].
    intros _. exists start, end_. split; [left; reflexivity|lia]. }
  destruct (HA h (or_introl eq_refl)) as (f0 & t0 & -> & H0).
  destruct (t0 =? start) eqn:Et.
  - apply Nat.eqb_eq in Et. split; [|split].
    + intros st [<-|Hin]; [exists f0, end_; split; [reflexivity|lia]|]. apply HA. right. exact Hin.
    + intros a b (f & t & [E|Hin] & Hf & Ht).
      * inversion E; subst f t. exists f0, end_. split; [left; reflexivity|lia].
      * exists f, t. split; [right; exact Hin|lia].
    + intros _. exists f0, end_. split; [left; reflexivity|lia].
  - split; [|split].
    + intros st [<-|Hin]; [eauto|]. apply HA. exact Hin.
    + intros a b (f & t & Hin & Hf & Ht). exists f, t. split; [right; exact Hin|lia].
    + intros _. exists start, end_. split; [left; reflexivity|lia].
Qed.

Lemma am_fold_covers mk from to : forall vs st,
  Forall (fun v => Nat.max (v_pos v) from <= Nat.min (v_pos v + nsize (v_node v)) to) vs ->
  AllMk mk (snd st) ->
  AllMk mk (snd (fold_left (am_visit s mk from to) vs st)) /\
  (forall a b, Covers mk (snd st) a b -> Covers mk (snd (fold_left (am_visit s mk from to) vs st)) a b) /\
  (forall v, In v vs -> qualifies mk v ->
     Covers mk (snd (fold_left (am_visit s mk from to) vs st)) (Nat.max (v_pos v) from) (Nat.min (v_pos v + nsize (v_node v)) to)).
Proof.
  induction vs as [|v vs IH]; intros st Hov HA; cbn [fold_left].
  - split; [exact HA|]. split; [auto|]. intros v [].
  - inversion Hov as [|? ? Hv Hr]; subst.
    destruct (am_visit_added mk from to st v Hv HA) as (HA' & Hmono & Hcov).
    destruct (IH (am_visit s mk from to st v) Hr HA') as (HA2 & Hmono2 & Hcov2).
    split; [exact HA2|]. split; [intros a b H; apply Hmono2, Hmono, H|].
    intros w [<-|Hin] Hq; [apply Hmono2, Hcov, Hq|apply Hcov2; assumption].
Qed.

(* the planner, over the visits *)
Theorem plan_add_mark_covers_visits doc from to mk vs sts :
  leaves_empty s doc -> from <= to ->
  nodes_between_node s (fun _ => true) doc from to 0 = Ok vs ->
  plan_add_mark s doc from to mk = Ok sts ->
  forall v, In v vs -> qualifies mk v ->
    exists f t, In (SAddMark f t mk) sts /\ f <= Nat.max (v_pos v) from /\ Nat.min (v_pos v + nsize (v_node v)) to <= t.
Proof.
  intros Hle Hft Hvs Hp v Hin Hq. unfold plan_add_mark in Hp. rewrite Hvs in Hp. cbn [bind] in Hp.
  pose proof (nodes_between_sound s _ _ _ _ _ Hle Hvs) as Hok.
  assert (Hov : Forall (fun v => Nat.max (v_pos v) from <= Nat.min (v_pos v + nsize (v_node v)) to) vs).
  { eapply Forall_impl; [|exact Hok]. intros w (_ & H1 & H2 & _). lia. }
  assert (HA0 : AllMk mk (snd (([] : list step), ([] : list step)))) by (intros st []).
  destruct (am_fold_covers mk from to vs ([], []) Hov HA0) as (_ & _ & Hcov).
  destruct (Hcov v Hin Hq) as (f & t & Hi & Hf & Ht).
  destruct (fold_left (am_visit s mk from to) vs ([], [])) as [removed added]. cbn [snd] in Hi.
  inversion Hp; subst sts. exists f, t. split; [|auto]. apply in_or_app. right. apply in_rev in Hi. exact Hi.
Qed.

(* ... and over the document's descendants: every overlapping inline descendant that lacks the mark under an allowing parent *)
Theorem plan_add_mark_covers doc from to mk sts :
  leaves_empty s doc -> from <= to -> to <= fsize (node_content doc) ->
  plan_add_mark s doc from to mk = Ok sts ->
  forall p i c q, Sub s doc p i c q -> q < to -> from < q + nsize c -> 0 < nsize c ->
    node_is_inline s c = true -> is_in_set mk (node_marks c) = false ->
    allows_mark_type s (node_ty s p) (m_ty mk) = true ->
    exists f t, In (SAddMark f t mk) sts /\ f <= Nat.max q from /\ Nat.min (q + nsize c) to <= t.
Proof.
  intros Hle Hft Hto Hp p i c q HS Hq1 Hq2 Hq3 Hi Hm Hal.
  destruct (nb_total s (fun _ => true) doc from to 0 Hto) as (vs & Hvs).
  pose proof (nodes_between_complete s doc from to vs Hle Hto Hvs p i c q HS Hq1 Hq2 Hq3) as Hin.
  apply (plan_add_mark_covers_visits doc from to mk vs sts Hle Hft Hvs Hp _ Hin).
  split; [exact Hi|]. split; [exact Hm|]. exists p. auto.
Qed.

(* ------------------------------------------------------------------ the marks the new mark displaces
   every mark of such a node that is not in the set add_to_set would give has a planned RemoveMark step over the same part *)
Definition CoversRm (x : mark) (removed : list step) (a b : nat) : Prop :=
  exists f t m0, In (SRemoveMark f t m0) removed /\ mark_eqb m0 x = true /\ f <= a /\ b <= t.
Definition AllRm (removed : list step) : Prop :=
  forall st, In st removed -> exists f t m0, st = SRemoveMark f t m0 /\ f <= t.

Lemma am_remove_one_covers start end_ new_set removed x :
  start <= end_ -> AllRm removed ->
  AllRm (am_remove_one start end_ new_set removed x) /\
  (forall y a b, CoversRm y removed a b -> CoversRm y (am_remove_one start end_ new_set removed x) a b) /\
  (is_in_set x new_set = false -> mark_eqb x x = true -> CoversRm x (am_remove_one start end_ new_set removed x) start end_).
Proof.
  intros Hse HA. unfold am_remove_one. destruct (is_in_set x new_set) eqn:Ein.
  { split; [exact HA|]. split; [auto|]. intros Q. discriminate. }
  assert (Push : AllRm (SRemoveMark start end_ x :: removed) /\
                 (forall y a b, CoversRm y removed a b -> CoversRm y (SRemoveMark start end_ x :: removed) a b) /\
                 (false = false -> mark_eqb x x = true -> CoversRm x (SRemoveMark start end_ x :: removed) start end_)).
  { split; [intros st [<-|Hin]; [eauto|apply HA; exact Hin]|]. split.
    - intros y a b (f & t & m0 & Hin & He & Hf & Ht). exists f, t, m0. split; [right; exact Hin|auto].
    - intros _ Hr. exists start, end_, x. split; [left; reflexivity|]. split; [exact Hr|lia]. }
  destruct removed as [|h rest]; [exact Push|].
  destruct (HA h (or_introl eq_refl)) as (f0 & t0 & m0 & -> & H0).
  destruct ((t0 =? start) && mark_eqb m0 x) eqn:Et; [|exact Push].
  apply andb_true_iff in Et. destruct Et as (Et & Em). apply Nat.eqb_eq in Et.
  split; [|split].
  - intros st [<-|Hin]; [exists f0, end_, m0; split; [reflexivity|lia]|]. apply HA. right. exact Hin.
  - intros y a b (f & t & m1 & [E|Hin] & He & Hf & Ht).
    + inversion E; subst f t m1. exists f0, end_, m0. split; [left; reflexivity|]. split; [exact He|lia].
    + exists f, t, m1. split; [right; exact Hin|auto].
  - intros _ _. exists f0, end_, m0. split; [left; reflexivity|]. split; [exact Em|lia].
Qed.

Lemma am_remove_fold_covers start end_ new_set : forall l removed,
  start <= end_ -> AllRm removed ->
  AllRm (fold_left (am_remove_one start end_ new_set) l removed) /\
  (forall y a b, CoversRm y removed a b -> CoversRm y (fold_left (am_remove_one start end_ new_set) l removed) a b) /\
  (forall x, In x l -> is_in_set x new_set = false -> mark_eqb x x = true ->
     CoversRm x (fold_left (am_remove_one start end_ new_set) l removed) start end_).
Proof.
  induction l as [|x l IH]; intros removed Hse HA; cbn [fold_left].
  - split; [exact HA|]. split; [auto|]. intros x [].
  - destruct (am_remove_one_covers start end_ new_set removed x Hse HA) as (HA' & Hmono & Hcov).
    destruct (IH _ Hse HA') as (HA2 & Hmono2 & Hcov2).
    split; [exact HA2|]. split; [intros y a b H; apply Hmono2, Hmono, H|].
    intros y [<-|Hin] Hn Hr; [apply Hmono2, Hcov; assumption|apply Hcov2; assumption].
Qed.

Lemma am_visit_removed mk from to st v :
  Nat.max (v_pos v) from <= Nat.min (v_pos v + nsize (v_node v)) to ->
  AllRm (fst st) ->
  AllRm (fst (am_visit s mk from to st v)) /\
  (forall y a b, CoversRm y (fst st) a b -> CoversRm y (fst (am_visit s mk from to st v)) a b) /\
  (qualifies mk v -> forall x, In x (node_marks (v_node v)) ->
     is_in_set x (add_to_set s mk (node_marks (v_node v))) = false -> mark_eqb x x = true ->
     CoversRm x (fst (am_visit s mk from to st v)) (Nat.max (v_pos v) from) (Nat.min (v_pos v + nsize (v_node v)) to)).
Proof.
  destruct st as [removed added]. cbn [fst]. intros Hov HA. unfold am_visit.
  destruct (node_is_inline s (v_node v)) eqn:Ei; cbn [negb].
  2:{ cbn [fst]. split; [exact HA|]. split; [auto|]. intros (Q & _). congruence. }
  destruct (is_in_set mk (node_marks (v_node v))) eqn:Em; cbn [negb andb].
  { cbn [fst]. split; [exact HA|]. split; [auto|]. intros (_ & Q & _). congruence. }
  destruct (match v_parent v with Some p => allows_mark_type s (node_ty s p) (m_ty mk) | None => false end) eqn:Ep.
  2:{ cbn [fst]. split; [exact HA|]. split; [auto|]. intros (_ & _ & p & Hp & Hal). rewrite Hp, Hal in Ep. discriminate. }
  cbn [fst].
  destruct (am_remove_fold_covers (Nat.max (v_pos v) from) (Nat.min (v_pos v + nsize (v_node v)) to)
              (add_to_set s mk (node_marks (v_node v))) (node_marks (v_node v)) removed Hov HA) as (H1 & H2 & H3).
  split; [exact H1|]. split; [exact H2|]. intros _ x Hin Hn Hr. apply H3; assumption.
Qed.

Theorem plan_add_mark_removes_displaced doc from to mk sts :
  leaves_empty s doc -> from <= to -> to <= fsize (node_content doc) ->
  plan_add_mark s doc from to mk = Ok sts ->
  forall p i c q, Sub s doc p i c q -> q < to -> from < q + nsize c -> 0 < nsize c ->
    node_is_inline s c = true -> is_in_set mk (node_marks c) = false ->
    allows_mark_type s (node_ty s p) (m_ty mk) = true ->
    forall x, In x (node_marks c) -> is_in_set x (add_to_set s mk (node_marks c)) = false -> mark_eqb x x = true ->
    exists f t m0, In (SRemoveMark f t m0) sts /\ mark_eqb m0 x = true /\ f <= Nat.max q from /\ Nat.min (q + nsize c) to <= t.
Proof.
  intros Hle Hft Hto Hp p i c q HS Hq1 Hq2 Hq3 Hi Hm Hal x Hx Hn Hr.
  destruct (nb_total s (fun _ => true) doc from to 0 Hto) as (vs & Hvs).
  pose proof (nodes_between_complete s doc from to vs Hle Hto Hvs p i c q HS Hq1 Hq2 Hq3) as Hin.
  unfold plan_add_mark in Hp. rewrite Hvs in Hp. cbn [bind] in Hp.
  pose proof (nodes_between_sound s _ _ _ _ _ Hle Hvs) as Hok.
  assert (Hov : Forall (fun v => Nat.max (v_pos v) from <= Nat.min (v_pos v + nsize (v_node v)) to) vs).
  { eapply Forall_impl; [|exact Hok]. intros w (_ & H1 & H2 & _). lia. }
  assert (G : forall vs st, Forall (fun v => Nat.max (v_pos v) from <= Nat.min (v_pos v + nsize (v_node v)) to) vs ->
            AllRm (fst st) ->
            AllRm (fst (fold_left (am_visit s mk from to) vs st)) /\
            (forall y a b, CoversRm y (fst st) a b -> CoversRm y (fst (fold_left (am_visit s mk from to) vs st)) a b) /\
            (forall v, In v vs -> qualifies mk v -> forall x, In x (node_marks (v_node v)) ->
               is_in_set x (add_to_set s mk (node_marks (v_node v))) = false -> mark_eqb x x = true ->
               CoversRm x (fst (fold_left (am_visit s mk from to) vs st))
                 (Nat.max (v_pos v) from) (Nat.min (v_pos v + nsize (v_node v)) to))).
  { clear. induction vs as [|v vs IH]; intros st Hov HA; cbn [fold_left].
    - split; [exact HA|]. split; [auto|]. intros v [].
    - inversion Hov as [|? ? Hv Hrest]; subst.
      destruct (am_visit_removed mk from to st v Hv HA) as (HA' & Hmono & Hcov).
      destruct (IH _ Hrest HA') as (HA2 & Hmono2 & Hcov2).
      split; [exact HA2|]. split; [intros y a b H; apply Hmono2, Hmono, H|].
      intros w [<-|Hin] Hq x Hx Hn Hr; [apply Hmono2, Hcov; assumption|apply Hcov2; assumption]. }
  assert (HA0 : AllRm (fst (([] : list step), ([] : list step)))) by (intros st []).
  destruct (G vs ([], []) Hov HA0) as (_ & _ & Hcov).
  assert (Hq : qualifies mk {| v_node := c; v_pos := q; v_parent := Some p; v_index := i |}).
  { split; [exact Hi|]. split; [exact Hm|]. exists p. auto. }
  destruct (Hcov _ Hin Hq x Hx Hn Hr) as (f & t & m0 & Hi0 & He & Hf & Ht). cbn [v_node v_pos] in Hf, Ht.
  destruct (fold_left (am_visit s mk from to) vs ([], [])) as [removed added]. cbn [fst] in Hi0.
  inversion Hp; subst sts. exists f, t, m0. split; [|auto]. apply in_or_app. left. apply in_rev in Hi0. exact Hi0.
Qed.

End WithSchema.
