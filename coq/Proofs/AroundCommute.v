(* A replace step in front of a replace-around step (lift, wrap, set_node_markup ...): with at least one untouched token
   between them they commute after rebasing (C17) - the replace step does not move, the replace-around step is shifted by the
   replace step's size change, and both orders give the same token sequence. *)
From Coq Require Import ZArith NArith List Bool Arith Lia.
From PM Require Import Model.Data Model.Mark Model.Tree Model.StepMap Model.Step Spec.Tokens
  Proofs.ReplaceValid Proofs.SliceSides Proofs.TokenBasics Proofs.ReplaceTokens Proofs.SliceShape Proofs.TokenLaws
  Proofs.StepAlgebra Proofs.SliceTokens Proofs.AroundTokens Proofs.MarkSteps Proofs.MarkPointwise Proofs.MarkMerge Proofs.MarkCommute.
Import ListNotations.
Local Open Scope nat_scope.

Section WithSchema.
Variable s : schema.
Notation V := (V s).
Notation DT := (DT s).
Notation IT := (IT s).
Notation ShapeS sl := (Shape s (sl_content sl) (sl_open_start sl) (sl_open_end sl)).
Notation OpenS sl := (OpenOK s (sl_content sl) (sl_open_start sl) (sl_open_end sl)).

Lemma map_result_two_before (f x y g x' y' p a : Z) : (p < f)%Z ->
  map_result {| ranges := [(f, x, y); (g, x', y')]; inverted := false |} p a = {| mr_pos := p; mr_del := 0; mr_recover := None |}.
Proof.
  intros H. unfold map_result. cbn [inverted ranges map_go start_of].
  destruct (f - 0 >? p)%Z eqn:E; [f_equal; lia|]. rewrite Z.gtb_ltb in E. apply Z.ltb_ge in E. lia.
Qed.

Theorem replace_before_around_commute f1 t1 s1 st1 from to gf gt sl ins st doc da db :
  V doc -> OpenS s1 -> ShapeS sl -> f1 <= t1 -> t1 < from -> from <= gf -> gf <= gt -> gt <= to -> ins <= length (IT sl) ->
  apply s (SReplace f1 t1 s1 st1) doc = ROk da ->
  apply s (SReplaceAround from to gf gt sl ins st) doc = ROk db ->
  let d := length (IT s1) in let sh p := p + d - (t1 - f1) in
  step_map (SReplace f1 t1 s1 st1) (get_map s (SReplaceAround from to gf gt sl ins st)) = Some (SReplace f1 t1 s1 false) /\
  step_map (SReplaceAround from to gf gt sl ins st) (get_map s (SReplace f1 t1 s1 st1)) =
    Some (SReplaceAround (sh from) (sh to) (sh gf) (sh gt) sl ins st) /\
  forall dab dba,
    V db ->
    apply s (SReplaceAround (sh from) (sh to) (sh gf) (sh gt) sl ins st) da = ROk dab ->
    apply s (SReplace f1 t1 s1 false) db = ROk dba ->
    DT dab = DT dba.
Proof.
  intros Hd Ho1 Hs2 H1 Hsep Hfg Hg Hgt Hi Ha Hb d sh.
  pose proof (OpenOK_Shape s _ _ _ Ho1) as Hs1. pose proof (IT_length s s1 Hs1) as Hl1.
  split; [|split].
  - cbn [step_map get_map]. rewrite !map_result_two_before by lia.
    unfold deleted. cbn [mr_del mr_pos Z.land Z.ltb Z.compare andb].
    assert (E : (Z.max (Z.of_nat f1) (Z.of_nat t1)) = Z.of_nat t1) by lia. rewrite E, !Nat2Z.id. reflexivity.
  - cbn [step_map get_map]. unfold StepMap.map. rewrite !map_result_single_after by lia.
    unfold deleted. cbn [mr_del mr_pos Z.land Z.ltb Z.compare andb orb].
    rewrite <- Hl1. fold d.
    match goal with |- context [(?x <? ?y)%Z || (?z <? ?w)%Z] =>
      assert (E1 : (x <? y)%Z = false) by (apply Z.ltb_ge; lia); assert (E2 : (z <? w)%Z = false) by (apply Z.ltb_ge; lia) end.
    rewrite E1, E2. cbn [orb]. unfold sh. f_equal. f_equal; lia.
  - intros dab dba Hdb Hab Hba.
    destruct (replace_step_splice s _ _ _ _ _ _ Hd Hs1 Ha) as (Hf1 & Ht1 & Ea).
    destruct (replace_around_splice s _ _ _ _ _ _ _ _ _ Hd Hs2 Hg Hi Hb) as (Hfr & Hto & Eb).
    pose proof (apply_replace_valid s _ _ _ _ _ _ Hd Ho1 Ha) as Hda.
    assert (Hg' : sh gf <= sh gt) by (unfold sh; lia).
    destruct (replace_around_splice s _ _ _ _ _ _ _ _ _ Hda Hs2 Hg' Hi Hab) as (_ & _ & Eab).
    destruct (replace_step_splice s _ _ _ _ _ _ Hdb Hs1 Hba) as (_ & _ & Eba).
    set (T := DT doc) in *. set (I1 := IT s1) in *. set (I2 := IT sl) in *.
    set (A := firstn f1 T). set (B := skipn t1 T).
    assert (LA : length A = f1) by (unfold A; rewrite firstn_length; lia).
    assert (LB : length B = length T - t1) by (unfold B; apply skipn_length).
    assert (Eda : DT da = (A ++ I1) ++ B) by (rewrite Ea, <- app_assoc; reflexivity).
    assert (LAI : length (A ++ I1) = f1 + d) by (rewrite app_length; unfold d; lia).
    (* positions behind the replaced range, read in da *)
    assert (Hfirst : forall p, t1 <= p -> p <= length T -> firstn (sh p) (DT da) = (A ++ I1) ++ firstn (p - t1) B).
    { intros p Hp Hpl. unfold sh. rewrite Eda, firstn_app, LAI. rewrite firstn_all2 by lia. f_equal. f_equal. lia. }
    assert (Hskip : forall p, t1 <= p -> p <= length T -> skipn (sh p) (DT da) = skipn p T).
    { intros p Hp Hpl. unfold sh. rewrite Eda, skipn_app, LAI. rewrite skipn_all2 by lia. cbn [app].
      unfold B. rewrite skipn_skipn_add. f_equal. lia. }
    assert (Hseg : forall p q, t1 <= p -> p <= q -> q <= length T -> seg (DT da) (sh p) (sh q) = seg T p q).
    { intros p q Hp Hpq Hq. unfold seg. rewrite (Hskip p) by lia. f_equal. unfold sh. lia. }
    rewrite Eab, (Hfirst from), (Hseg gf gt), (Hskip to) by lia.
    (* the other order: the replace-around step does not touch anything in front of `from` *)
    assert (Efdb : firstn f1 (DT db) = A).
    { rewrite Eb, firstn_app, firstn_firstn. replace (Nat.min f1 from) with f1 by lia.
      rewrite firstn_length. replace (f1 - Nat.min from (length T)) with 0 by lia. cbn [firstn]. apply app_nil_r. }
    assert (Esdb : skipn t1 (DT db) = firstn (from - t1) B ++ firstn ins I2 ++ seg T gf gt ++ skipn ins I2 ++ skipn to T).
    { rewrite Eb, skipn_app, firstn_length. replace (t1 - Nat.min from (length T)) with 0 by lia. cbn [skipn].
      f_equal. unfold B. rewrite skipn_firstn_comm. reflexivity. }
    rewrite Eba, Efdb, Esdb. fold T I2. rewrite <- !app_assoc. reflexivity.
Qed.

(* ------------------------------------------------------------------ ... and a replace step behind a replace-around step *)
Lemma map_result_two_after (f x y g x' y' p a : Z) : (0 <= x)%Z -> (0 <= x')%Z -> (f + x <= g)%Z -> (g + x' < p)%Z ->
  map_result {| ranges := [(f, x, y); (g, x', y')]; inverted := false |} p a =
    {| mr_pos := p + (y - x) + (y' - x'); mr_del := 0; mr_recover := None |}.
Proof.
  intros Hx Hx' Hfg H. unfold map_result. cbn [inverted ranges map_go start_of old_of new_of].
  destruct (f - 0 >? p)%Z eqn:E0; [destruct (Z.gtb_spec (f - 0) p); [lia|discriminate]|].
  destruct (p <=? f - 0 + x)%Z eqn:E1; [apply Z.leb_le in E1; lia|].
  destruct (g - 0 >? p)%Z eqn:E2; [destruct (Z.gtb_spec (g - 0) p); [lia|discriminate]|].
  destruct (p <=? g - 0 + x')%Z eqn:E3; [apply Z.leb_le in E3; lia|]. f_equal; lia.
Qed.

Theorem replace_after_around_commute f1 t1 s1 st1 from to gf gt sl ins st doc da db :
  V doc -> OpenS s1 -> ShapeS sl -> from <= gf -> gf <= gt -> gt <= to -> to < f1 -> f1 <= t1 -> ins <= length (IT sl) ->
  apply s (SReplaceAround from to gf gt sl ins st) doc = ROk da ->
  apply s (SReplace f1 t1 s1 st1) doc = ROk db ->
  let sh p := p + length (IT sl) + (gt - gf) - (to - from) in
  step_map (SReplaceAround from to gf gt sl ins st) (get_map s (SReplace f1 t1 s1 st1)) =
    Some (SReplaceAround from to gf gt sl ins st) /\
  step_map (SReplace f1 t1 s1 st1) (get_map s (SReplaceAround from to gf gt sl ins st)) = Some (SReplace (sh f1) (sh t1) s1 false) /\
  forall dab dba,
    V da -> V db ->
    apply s (SReplace (sh f1) (sh t1) s1 false) da = ROk dab ->
    apply s (SReplaceAround from to gf gt sl ins st) db = ROk dba ->
    DT dab = DT dba.
Proof.
  intros Hd Ho1 Hs2 Hfg Hg Hgt Hsep H1 Hi Ha Hb sh.
  pose proof (OpenOK_Shape s _ _ _ Ho1) as Hs1. pose proof (IT_length s sl Hs2) as Hl2.
  split; [|split].
  - cbn [step_map get_map]. unfold StepMap.map. rewrite !map_result_single_before by lia.
    unfold deleted. cbn [mr_del mr_pos Z.land Z.ltb Z.compare andb orb].
    assert (E1 : (Z.of_nat gf <? Z.of_nat from)%Z = false) by (apply Z.ltb_ge; lia).
    assert (E2 : (Z.of_nat to <? Z.of_nat gt)%Z = false) by (apply Z.ltb_ge; lia).
    rewrite E1, E2. cbn [orb]. rewrite !Nat2Z.id. reflexivity.
  - cbn [step_map get_map]. rewrite !map_result_two_after by lia.
    unfold deleted. cbn [mr_del mr_pos Z.land Z.ltb Z.compare andb]. rewrite <- Hl2.
    unfold sh. f_equal. f_equal; lia.
  - intros dab dba Hda Hdb Hab Hba.
    destruct (replace_around_splice s _ _ _ _ _ _ _ _ _ Hd Hs2 Hg Hi Ha) as (Hfr & Hto & Ea).
    destruct (replace_step_splice s _ _ _ _ _ _ Hd Hs1 Hb) as (Hf1 & Ht1 & Eb).
    destruct (replace_step_splice s _ _ _ _ _ _ Hda Hs1 Hab) as (_ & _ & Eab).
    destruct (replace_around_splice s _ _ _ _ _ _ _ _ _ Hdb Hs2 Hg Hi Hba) as (_ & _ & Eba).
    set (T := DT doc) in *. set (I1 := IT s1) in *. set (I2 := IT sl) in *.
    set (H := firstn from T ++ firstn ins I2 ++ seg T gf gt ++ skipn ins I2).
    assert (LH : length H = from + length I2 + (gt - gf)).
    { unfold H. rewrite !app_length, !firstn_length, skipn_length. unfold seg. rewrite firstn_length, skipn_length. lia. }
    assert (Eda : DT da = H ++ skipn to T) by (rewrite Ea; unfold H; rewrite <- !app_assoc; reflexivity).
    assert (Hfirst : firstn (sh f1) (DT da) = H ++ seg T to f1).
    { unfold sh. rewrite Eda, firstn_app, LH. rewrite firstn_all2 by lia. f_equal. unfold seg. f_equal. lia. }
    assert (Hskip : skipn (sh t1) (DT da) = skipn t1 T).
    { unfold sh. rewrite Eda, skipn_app, LH. rewrite skipn_all2 by lia. cbn [app]. rewrite skipn_skipn_add. f_equal. lia. }
    rewrite Eab, Hfirst, Hskip.
    (* the other order *)
    assert (Efr : firstn from (DT db) = firstn from T).
    { rewrite Eb, firstn_app, firstn_firstn. replace (Nat.min from f1) with from by lia.
      rewrite firstn_length. replace (from - Nat.min f1 (length T)) with 0 by lia. cbn [firstn]. apply app_nil_r. }
    assert (Esg : seg (DT db) gf gt = seg T gf gt).
    { rewrite Eb. rewrite seg_in_first by (rewrite firstn_length; lia). unfold seg. rewrite skipn_firstn_comm, firstn_firstn. f_equal. lia. }
    assert (Est : skipn to (DT db) = seg T to f1 ++ I1 ++ skipn t1 T).
    { rewrite Eb, skipn_app, firstn_length. replace (to - Nat.min f1 (length T)) with 0 by lia. cbn [skipn].
      f_equal. unfold seg. rewrite skipn_firstn_comm. reflexivity. }
    rewrite Eba, Efr, Esg, Est. unfold H. fold T I1 I2. rewrite <- !app_assoc. reflexivity.
Qed.

(* ------------------------------------------------------------------ a mark step in front of a replace-around step *)
Lemma around_step_root from to gf gt sl ins st doc d' :
  apply s (SReplaceAround from to gf gt sl ins st) doc = ROk d' -> node_ty s d' = node_ty s doc.
Proof.
  intros H. destruct (apply_around_inv s _ _ _ _ _ _ _ _ _ H) as (gap & sl' & _ & _ & _ & _ & Er).
  assert (Ha : apply s (SReplace from to sl' false) doc = ROk d').
  { cbn [apply]. unfold lift, from_replace. rewrite Er. reflexivity. }
  exact (replace_step_root s _ _ _ _ _ _ Ha).
Qed.

Theorem mark_step_before_around_commute from to gf gt sl ins st b f2 t2 doc da db :
  V doc -> ShapeS sl -> from <= gf -> gf <= gt -> gt <= to -> ins <= length (IT sl) ->
  mark_step_range b = Some (f2, t2) -> f2 <= t2 -> t2 < from ->
  apply s (SReplaceAround from to gf gt sl ins st) doc = ROk da ->
  apply s b doc = ROk db ->
  step_map b (get_map s (SReplaceAround from to gf gt sl ins st)) = Some b /\
  step_map (SReplaceAround from to gf gt sl ins st) (get_map s b) = Some (SReplaceAround from to gf gt sl ins st) /\
  forall dab dba,
    V da -> V db -> apply s b da = ROk dab -> apply s (SReplaceAround from to gf gt sl ins st) db = ROk dba ->
    DT dab = DT dba.
Proof.
  intros Hd Hs Hfg Hg Hgt Hi Rb H2 Hsep Ha Hb.
  assert (Mb : get_map s b = empty_map) by (destruct b; try discriminate; reflexivity).
  split; [|split].
  - destruct b; try discriminate; cbn [mark_step_range] in Rb; inversion Rb; subst;
      cbn [step_map get_map]; rewrite !map_result_two_before by lia;
      unfold deleted; cbn [mr_del mr_pos Z.land Z.ltb Z.compare andb orb];
      (destruct (Z.of_nat t2 <? Z.of_nat f2)%Z eqn:E; [apply Z.ltb_lt in E; lia|]); rewrite !Nat2Z.id; reflexivity.
  - rewrite Mb. cbn [step_map]. unfold StepMap.map, map_result, empty_map. cbn [ranges inverted map_go mr_pos mr_del].
    unfold deleted. cbn [mr_del Z.land Z.ltb Z.compare andb orb]. rewrite !Z.add_0_r.
    assert (E1 : (Z.of_nat gf <? Z.of_nat from)%Z = false) by (apply Z.ltb_ge; lia).
    assert (E2 : (Z.of_nat to <? Z.of_nat gt)%Z = false) by (apply Z.ltb_ge; lia).
    rewrite E1, E2. cbn [orb]. rewrite !Nat2Z.id. reflexivity.
  - intros dab dba Hda Hdb Hab Hba.
    destruct (replace_around_splice s _ _ _ _ _ _ _ _ _ Hd Hs Hg Hi Ha) as (Hfr & Hto & Ea).
    pose proof (around_step_root _ _ _ _ _ _ _ _ _ Ha) as Tya.
    pose proof (mark_step_normalised s _ _ _ _ _ Hd H2 Rb Hb) as Eb.
    pose proof (mark_step_normalised s _ _ _ _ _ Hda H2 Rb Hab) as Eab. rewrite Tya in Eab.
    destruct (replace_around_splice s _ _ _ _ _ _ _ _ _ Hdb Hs Hg Hi Hba) as (_ & _ & Eba).
    set (T := DT doc) in *. set (rty := node_ty s doc) in *. set (u := step_updN s b) in *. set (I := IT sl) in *.
    set (P := firstn from T). assert (LP : length P = from) by (unfold P; rewrite firstn_length; lia).
    assert (ET : T = P ++ skipn from T) by (unfold P; symmetry; apply firstn_skipn).
    assert (EbT : DT db = remarkedT s u rty f2 t2 P ++ skipn from T).
    { rewrite Eb. rewrite ET at 1. apply remarkedT_app_l; lia. }
    assert (LRP : length (remarkedT s u rty f2 t2 P) = from) by (rewrite remarkedT_length; lia).
    rewrite Eab, Ea. fold P. rewrite (remarkedT_app_l s u rty f2 t2 P) by lia.
    rewrite Eba, EbT.
    assert (E1 : firstn from (remarkedT s u rty f2 t2 P ++ skipn from T) = remarkedT s u rty f2 t2 P).
    { rewrite firstn_app, LRP, Nat.sub_diag. cbn [firstn]. rewrite app_nil_r. rewrite <- LRP at 1. apply firstn_all. }
    assert (E2 : forall p, from <= p -> skipn p (remarkedT s u rty f2 t2 P ++ skipn from T) = skipn p T).
    { intros p Hp. rewrite skipn_app, LRP. rewrite skipn_all2 by lia. cbn [app]. rewrite skipn_skipn_add. f_equal. lia. }
    rewrite E1. unfold seg. rewrite !E2 by lia. reflexivity.
Qed.

(* ------------------------------------------------------------------ two replace-around steps *)
Theorem two_around_steps_commute f1 t1 gf1 gt1 sl1 ins1 st1 f2 t2 gf2 gt2 sl2 ins2 st2 doc da db :
  V doc -> ShapeS sl1 -> ShapeS sl2 ->
  f1 <= gf1 -> gf1 <= gt1 -> gt1 <= t1 -> ins1 <= length (IT sl1) ->
  t1 < f2 -> f2 <= gf2 -> gf2 <= gt2 -> gt2 <= t2 -> ins2 <= length (IT sl2) ->
  apply s (SReplaceAround f1 t1 gf1 gt1 sl1 ins1 st1) doc = ROk da ->
  apply s (SReplaceAround f2 t2 gf2 gt2 sl2 ins2 st2) doc = ROk db ->
  let sh p := p + length (IT sl1) + (gt1 - gf1) - (t1 - f1) in
  step_map (SReplaceAround f1 t1 gf1 gt1 sl1 ins1 st1) (get_map s (SReplaceAround f2 t2 gf2 gt2 sl2 ins2 st2)) =
    Some (SReplaceAround f1 t1 gf1 gt1 sl1 ins1 st1) /\
  step_map (SReplaceAround f2 t2 gf2 gt2 sl2 ins2 st2) (get_map s (SReplaceAround f1 t1 gf1 gt1 sl1 ins1 st1)) =
    Some (SReplaceAround (sh f2) (sh t2) (sh gf2) (sh gt2) sl2 ins2 st2) /\
  forall dab dba,
    V da -> V db ->
    apply s (SReplaceAround (sh f2) (sh t2) (sh gf2) (sh gt2) sl2 ins2 st2) da = ROk dab ->
    apply s (SReplaceAround f1 t1 gf1 gt1 sl1 ins1 st1) db = ROk dba ->
    DT dab = DT dba.
Proof.
  intros Hd Hs1 Hs2 A1 A2 A3 Hi1 Hsep B1 B2 B3 Hi2 Ha Hb sh.
  pose proof (IT_length s sl1 Hs1) as Hl1.
  split; [|split].
  - cbn [step_map get_map]. unfold StepMap.map. rewrite !map_result_two_before by lia.
    unfold deleted. cbn [mr_del mr_pos Z.land Z.ltb Z.compare andb orb].
    assert (E1 : (Z.of_nat gf1 <? Z.of_nat f1)%Z = false) by (apply Z.ltb_ge; lia).
    assert (E2 : (Z.of_nat t1 <? Z.of_nat gt1)%Z = false) by (apply Z.ltb_ge; lia).
    rewrite E1, E2. cbn [orb]. rewrite !Nat2Z.id. reflexivity.
  - cbn [step_map get_map]. unfold StepMap.map. rewrite !map_result_two_after by lia.
    unfold deleted. cbn [mr_del mr_pos Z.land Z.ltb Z.compare andb orb]. rewrite <- Hl1.
    match goal with |- context [(?x <? ?y)%Z || (?z <? ?w)%Z] =>
      assert (E1 : (x <? y)%Z = false) by (apply Z.ltb_ge; lia); assert (E2 : (z <? w)%Z = false) by (apply Z.ltb_ge; lia) end.
    rewrite E1, E2. cbn [orb]. unfold sh. f_equal. f_equal; lia.
  - intros dab dba Hda Hdb Hab Hba.
    destruct (replace_around_splice s _ _ _ _ _ _ _ _ _ Hd Hs1 A2 Hi1 Ha) as (Hf1 & Ht1 & Ea).
    destruct (replace_around_splice s _ _ _ _ _ _ _ _ _ Hd Hs2 B2 Hi2 Hb) as (Hf2 & Ht2 & Eb).
    assert (B2' : sh gf2 <= sh gt2) by (unfold sh; lia).
    destruct (replace_around_splice s _ _ _ _ _ _ _ _ _ Hda Hs2 B2' Hi2 Hab) as (_ & _ & Eab).
    destruct (replace_around_splice s _ _ _ _ _ _ _ _ _ Hdb Hs1 A2 Hi1 Hba) as (_ & _ & Eba).
    set (T := DT doc) in *. set (I1 := IT sl1) in *. set (I2 := IT sl2) in *.
    set (H := firstn f1 T ++ firstn ins1 I1 ++ seg T gf1 gt1 ++ skipn ins1 I1).
    assert (LH : length H = f1 + length I1 + (gt1 - gf1)).
    { unfold H. rewrite !app_length, !firstn_length, skipn_length. unfold seg. rewrite firstn_length, skipn_length. lia. }
    assert (Eda : DT da = H ++ skipn t1 T) by (rewrite Ea; unfold H; rewrite <- !app_assoc; reflexivity).
    assert (Hfirst : forall p, t1 <= p -> p <= length T -> firstn (sh p) (DT da) = H ++ seg T t1 p).
    { intros p Hp Hpl. unfold sh. rewrite Eda, firstn_app, LH. rewrite firstn_all2 by lia. f_equal. unfold seg. f_equal. lia. }
    assert (Hskip : forall p, t1 <= p -> p <= length T -> skipn (sh p) (DT da) = skipn p T).
    { intros p Hp Hpl. unfold sh. rewrite Eda, skipn_app, LH. rewrite skipn_all2 by lia. cbn [app]. rewrite skipn_skipn_add. f_equal. lia. }
    assert (Hseg : forall p q, t1 <= p -> p <= q -> q <= length T -> seg (DT da) (sh p) (sh q) = seg T p q).
    { intros p q Hp Hpq Hq. unfold seg. rewrite (Hskip p) by lia. f_equal. unfold sh. lia. }
    rewrite Eab, (Hfirst f2), (Hseg gf2 gt2), (Hskip t2) by lia.
    (* the other order: the second step does not touch anything in front of f2 *)
    assert (Efr : firstn f1 (DT db) = firstn f1 T).
    { rewrite Eb, firstn_app, firstn_firstn. replace (Nat.min f1 f2) with f1 by lia.
      rewrite firstn_length. replace (f1 - Nat.min f2 (length T)) with 0 by lia. cbn [firstn]. apply app_nil_r. }
    assert (Esg : seg (DT db) gf1 gt1 = seg T gf1 gt1).
    { rewrite Eb. rewrite seg_in_first by (rewrite firstn_length; lia). unfold seg. rewrite skipn_firstn_comm, firstn_firstn. f_equal. lia. }
    assert (Est : skipn t1 (DT db) = seg T t1 f2 ++ firstn ins2 I2 ++ seg T gf2 gt2 ++ skipn ins2 I2 ++ skipn t2 T).
    { rewrite Eb, skipn_app, firstn_length. replace (t1 - Nat.min f2 (length T)) with 0 by lia. cbn [skipn].
      f_equal. unfold seg. rewrite skipn_firstn_comm. reflexivity. }
    rewrite Eba, Efr, Esg, Est. unfold H. fold T I1 I2. rewrite <- !app_assoc. reflexivity.
Qed.

(* ------------------------------------------------------------------ a mark step behind a replace-around step
   as for a replace step: provided the chain of nodes open at the end of the step's range is the same before and after it *)
Theorem mark_step_after_around_commute from to gf gt sl ins st b f2 t2 doc da db :
  V doc -> ShapeS sl -> from <= gf -> gf <= gt -> gt <= to -> ins <= length (IT sl) ->
  mark_step_range b = Some (f2, t2) -> to < f2 -> f2 <= t2 ->
  ctx_after (firstn from (DT doc) ++ firstn ins (IT sl) ++ seg (DT doc) gf gt ++ skipn ins (IT sl)) ([], node_ty s doc)
    = ctx_after (firstn to (DT doc)) ([], node_ty s doc) ->
  apply s (SReplaceAround from to gf gt sl ins st) doc = ROk da ->
  apply s b doc = ROk db ->
  let sh p := p + length (IT sl) + (gt - gf) - (to - from) in
  let b' := move_mark_step b (sh f2) (sh t2) in
  step_map b (get_map s (SReplaceAround from to gf gt sl ins st)) = Some b' /\
  step_map (SReplaceAround from to gf gt sl ins st) (get_map s b) = Some (SReplaceAround from to gf gt sl ins st) /\
  forall dab dba,
    V da -> V db -> apply s b' da = ROk dab -> apply s (SReplaceAround from to gf gt sl ins st) db = ROk dba ->
    DT dab = DT dba.
Proof.
  intros Hd Hs Hfg Hg Hgt Hi Rb Hsep H2 Hctx Ha Hb sh b'.
  pose proof (IT_length s sl Hs) as Hl.
  assert (Mb : get_map s b = empty_map) by (destruct b; try discriminate; reflexivity).
  assert (Rb' : mark_step_range b' = Some (sh f2, sh t2)) by (unfold b'; destruct b; try discriminate; reflexivity).
  assert (Hu : step_updN s b' = step_updN s b) by (unfold b'; destruct b; try discriminate; reflexivity).
  split; [|split].
  - unfold b'. destruct b; try discriminate; cbn [mark_step_range] in Rb; inversion Rb; subst;
      cbn [step_map get_map move_mark_step]; rewrite !map_result_two_after by lia;
      unfold deleted; cbn [mr_del mr_pos Z.land Z.ltb Z.compare andb orb]; rewrite <- Hl;
      match goal with |- context [(?x <? ?y)%Z] => destruct (x <? y)%Z eqn:E; [apply Z.ltb_lt in E; lia|] end;
      unfold sh; f_equal; f_equal; lia.
  - rewrite Mb. cbn [step_map]. unfold StepMap.map, map_result, empty_map. cbn [ranges inverted map_go mr_pos mr_del].
    unfold deleted. cbn [mr_del Z.land Z.ltb Z.compare andb orb]. rewrite !Z.add_0_r.
    assert (E1 : (Z.of_nat gf <? Z.of_nat from)%Z = false) by (apply Z.ltb_ge; lia).
    assert (E2 : (Z.of_nat to <? Z.of_nat gt)%Z = false) by (apply Z.ltb_ge; lia).
    rewrite E1, E2. cbn [orb]. rewrite !Nat2Z.id. reflexivity.
  - intros dab dba Hda Hdb Hab Hba.
    destruct (replace_around_splice s _ _ _ _ _ _ _ _ _ Hd Hs Hg Hi Ha) as (Hfr & Hto & Ea).
    pose proof (around_step_root _ _ _ _ _ _ _ _ _ Ha) as Tya.
    destruct (mark_step_root s _ _ _ _ _ Rb Hb) as (_ & Lb).
    pose proof (mark_step_normalised s _ _ _ _ _ Hd H2 Rb Hb) as Eb.
    assert (H2' : sh f2 <= sh t2) by (unfold sh; lia).
    pose proof (mark_step_normalised s _ _ _ _ _ Hda H2' Rb' Hab) as Eab. rewrite Tya, Hu in Eab.
    destruct (replace_around_splice s _ _ _ _ _ _ _ _ _ Hdb Hs Hg Hi Hba) as (_ & _ & Eba).
    set (T := DT doc) in *. set (rty := node_ty s doc) in *. set (u := step_updN s b) in *. set (I := IT sl) in *.
    set (H := firstn from T ++ firstn ins I ++ seg T gf gt ++ skipn ins I) in *.
    set (Q := firstn to T). set (S0 := skipn to T).
    assert (LH : length H = from + length I + (gt - gf)).
    { unfold H. rewrite !app_length, !firstn_length, skipn_length. unfold seg. rewrite firstn_length, skipn_length. lia. }
    assert (LQ : length Q = to) by (unfold Q; rewrite firstn_length; lia).
    assert (ET : T = Q ++ S0) by (unfold Q, S0; symmetry; apply firstn_skipn).
    assert (Eda : DT da = H ++ S0) by (rewrite Ea; unfold H, S0; rewrite <- !app_assoc; reflexivity).
    (* b then a: the mark step works behind `to` *)
    assert (EbT : DT db = Q ++ remarkedTc s u (ctx_after Q ([], rty)) (f2 - to) (t2 - to) S0).
    { rewrite Eb. rewrite ET at 1. replace f2 with (length Q + (f2 - to)) at 1 by lia. replace t2 with (length Q + (t2 - to)) at 1 by lia.
      apply remarkedT_app_r. lia. }
    assert (Efr : firstn from (DT db) = firstn from T).
    { rewrite EbT, firstn_app. replace (from - length Q) with 0 by lia. cbn [firstn]. rewrite app_nil_r. unfold Q. rewrite firstn_firstn. f_equal. lia. }
    assert (Esg : seg (DT db) gf gt = seg T gf gt).
    { rewrite EbT. rewrite seg_in_first by lia. unfold Q, seg. rewrite skipn_firstn_comm, firstn_firstn. f_equal. lia. }
    assert (Est : skipn to (DT db) = remarkedTc s u (ctx_after Q ([], rty)) (f2 - to) (t2 - to) S0).
    { rewrite EbT, skipn_app. rewrite skipn_all2 by lia. cbn [app]. replace (to - length Q) with 0 by lia. reflexivity. }
    rewrite Eba, Efr, Esg, Est.
    (* a then b' *)
    rewrite Eab, Eda. replace (sh f2) with (length H + (f2 - to)) by (unfold sh; lia). replace (sh t2) with (length H + (t2 - to)) by (unfold sh; lia).
    rewrite remarkedT_app_r by lia. unfold H at 1. rewrite <- !app_assoc.
    unfold H, I, Q, rty, T in *. rewrite Hctx. reflexivity.
Qed.

End WithSchema.
