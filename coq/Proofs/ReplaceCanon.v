(* Node.replace keeps documents in normal form (no empty text, no adjacent text nodes with equal marks,
   leaf nodes without content), so that token-level equalities become document equalities (TokenInj). *)
From Coq Require Import ZArith NArith List Bool Arith Lia.
From PM Require Import Model.Data Model.Mark Model.Tree Spec.Tokens Proofs.DataProofs Proofs.NodeInd
  Proofs.ReplaceValid Proofs.SliceSides Proofs.TokenBasics Proofs.PathTokens Proofs.ReplaceTokens Proofs.SliceShape
  Proofs.TokenInj.
Import ListNotations.
Local Open Scope nat_scope.

Section WithSchema.
Variable s : schema.
Notation nsize := (node_size s).
Notation fsize := (frag_size s).
Notation canon := (canon s).
Notation canon_list := (canon_list s).
Notation entry := (node * nat * nat)%type.

Definition CN (n : node) : Prop := canon n = true.
Definition CL (l : list node) : Prop := canon_list l = true.

Definition seam (x y : node) : bool :=
  match x, y with Text _ m, Text _ m' => negb (marks_eqb m m') | _, _ => true end.

(* marks_eqb is an equivalence (it is equality of normal forms) *)
Lemma marks_eqb_iff a b : marks_eqb a b = true <-> msnorm a = msnorm b.
Proof. split; [apply marks_eqb_norm|apply marks_norm_eqb]. Qed.
Lemma marks_eqb_sym a b : marks_eqb a b = marks_eqb b a.
Proof.
  destruct (marks_eqb a b) eqn:E1; destruct (marks_eqb b a) eqn:E2; auto.
  - apply marks_eqb_iff in E1. symmetry in E1. apply marks_eqb_iff in E1. congruence.
  - apply marks_eqb_iff in E2. symmetry in E2. apply marks_eqb_iff in E2. congruence.
Qed.
Lemma marks_eqb_trans a b c : marks_eqb a b = true -> marks_eqb b c = true -> marks_eqb a c = true.
Proof. rewrite !marks_eqb_iff. congruence. Qed.

Lemma CL_nil : CL []. Proof. reflexivity. Qed.
Lemma CL_single x : CL [x] <-> CN x.
Proof. unfold CL, CN. cbn [Proofs.TokenInj.canon_list]. destruct x; rewrite !andb_true_r; tauto. Qed.
Lemma CL_cons2 x y r : CL (x :: y :: r) <-> CN x /\ seam x y = true /\ CL (y :: r).
Proof.
  unfold CL, CN. cbn [Proofs.TokenInj.canon_list]. unfold seam.
  destruct x as [t m|ty a m cs]; destruct y as [t' m'|ty' a' m' cs']; rewrite ?andb_true_iff; tauto.
Qed.
Lemma CL_tail x r : CL (x :: r) -> CL r.
Proof. unfold CL. intros H. apply canon_list_cons in H. tauto. Qed.
Lemma CL_head x r : CL (x :: r) -> CN x.
Proof. unfold CL, CN. intros H. apply canon_list_cons in H. tauto. Qed.
Lemma CL_In l x : CL l -> In x l -> CN x.
Proof.
  induction l as [|y l IH]; intros H Hin; [destruct Hin|]. destruct Hin as [->|Hin]; [eapply CL_head; eauto|].
  apply IH; [eapply CL_tail; eauto|exact Hin].
Qed.
Lemma CN_children ty a m cs : CN (Elem ty a m cs) -> CL cs.
Proof. unfold CN, CL. rewrite canon_elem. intros H. apply andb_prop in H. tauto. Qed.
Lemma CN_elem ty a m cs : is_leaf_ty s ty = false -> CL cs -> CN (Elem ty a m cs).
Proof. unfold CN, CL. rewrite canon_elem. intros -> ->. reflexivity. Qed.

Lemma CL_firstn n : forall l, CL l -> CL (firstn n l).
Proof.
  induction n as [|n IH]; intros l H; [exact CL_nil|]. destruct l as [|x l]; [exact CL_nil|]. cbn [firstn].
  destruct l as [|y l]; [destruct n; exact H|]. apply CL_cons2 in H. destruct H as (Hx & Hs & Hr).
  destruct n as [|n]; [cbn [firstn]; apply CL_single; exact Hx|].
  specialize (IH _ Hr). cbn [firstn] in IH |- *. apply CL_cons2. auto.
Qed.
Lemma CL_skipn n : forall l, CL l -> CL (skipn n l).
Proof. induction n as [|n IH]; intros l H; [exact H|]. destruct l as [|x l]; [exact CL_nil|]. cbn [skipn]. apply IH. eapply CL_tail; eauto. Qed.

(* ------------------------------------------------------------------ add_node keeps the normal form *)
Lemma add_node_cons c x y r : add_node c (x :: y :: r) = x :: add_node c (y :: r).
Proof.
  unfold add_node. destruct c as [t m|? ? ? ?]; [|reflexivity].
  assert (Hrev : forall z, rev (x :: y :: r) = z :: tl (rev (x :: y :: r)) -> rev (y :: r) = z :: tl (rev (y :: r))).
  { intros z. cbn [rev]. destruct (rev r ++ [y]) as [|w rest] eqn:E; [destruct (rev r); discriminate|].
    cbn [app tl]. intros H. inversion H. reflexivity. }
  assert (Hhd : hd_error (rev (x :: y :: r)) = hd_error (rev (y :: r))).
  { cbn [rev]. destruct (rev r ++ [y]) as [|w rest] eqn:E; [destruct (rev r); discriminate|]. reflexivity. }
  destruct (rev (x :: y :: r)) as [|z1 rest1] eqn:E1; [destruct (rev r ++ [y]); discriminate|].
  destruct (rev (y :: r)) as [|z2 rest2] eqn:E2; [cbn [rev] in E2; destruct (rev r); discriminate|].
  cbn [hd_error] in Hhd. inversion Hhd; subst z2.
  destruct z1 as [t' m'|? ? ? ?]; [|reflexivity]. destruct (marks_eqb m m'); [|reflexivity].
  cbn [removelast app]. reflexivity.
Qed.

Lemma text_nonempty_app (t t' : cps) : t <> [] -> t' ++ t <> [].
Proof. destruct t'; [auto|discriminate]. Qed.

Lemma add_node_CL c : CN c -> forall target, CL target -> CL (add_node c target) /\
  (forall x r, target = x :: r -> exists y r', add_node c target = y :: r' /\ forall z, seam z x = true -> seam z y = true).
Proof.
  intros Hc. induction target as [|x rest IH]; intros Ht.
  - split; [|intros; discriminate]. unfold add_node. destruct c; cbn [rev app]; apply CL_single; exact Hc.
  - destruct rest as [|y r].
    + (* one element: merge or append *)
      unfold add_node. destruct c as [t m|ty a mk cs].
      * cbn [rev app]. destruct x as [t' m'|ty' a' mk' cs'].
        -- destruct (marks_eqb m m') eqn:E.
           ++ cbn [removelast app]. split.
              ** apply CL_single. unfold CN in *. cbn in Hc |- *. destruct t as [|c0 t]; [discriminate|]. destruct t'; reflexivity.
              ** intros x0 r0 Hx. inversion Hx; subst. eexists _, _. split; [reflexivity|].
                 intros z Hz. destruct z as [tz mz|]; [|reflexivity]. cbn [seam] in *.
                 destruct (marks_eqb mz m) eqn:E2; [|reflexivity]. rewrite (marks_eqb_trans _ _ _ E2 E) in Hz. discriminate.
           ++ split.
              ** cbn [app]. apply CL_cons2. split; [eapply CL_head; eauto|]. split; [cbn [seam]; rewrite marks_eqb_sym, E; reflexivity|].
                 apply CL_single. exact Hc.
              ** intros x0 r0 Hx. inversion Hx; subst. eexists _, _. split; [reflexivity|]. auto.
        -- split.
           ++ cbn [app]. apply CL_cons2. split; [eapply CL_head; eauto|]. split; [reflexivity|apply CL_single; exact Hc].
           ++ intros x0 r0 Hx. inversion Hx; subst. eexists _, _. split; [reflexivity|]. auto.
      * split.
        -- cbn [app]. apply CL_cons2. split; [eapply CL_head; eauto|]. split; [destruct x; reflexivity|apply CL_single; exact Hc].
        -- intros x0 r0 Hx. inversion Hx; subst. eexists _, _. split; [reflexivity|]. auto.
    + rewrite add_node_cons. apply CL_cons2 in Ht. destruct Ht as (Hx & Hs & Hr).
      destruct (IH Hr) as (Hcl & Hhd). destruct (Hhd y r eq_refl) as (y' & r' & E & Hseam). rewrite E in *.
      split.
      * apply CL_cons2. split; [exact Hx|]. split; [apply Hseam; exact Hs|exact Hcl].
      * intros x0 r0 Hx0. inversion Hx0; subst. eexists _, _. split; [reflexivity|]. auto.
Qed.

Lemma add_all_CL l : forall target, (forall x, In x l -> CN x) -> CL target -> CL (add_all l target).
Proof.
  induction l as [|c r IH]; intros target Hl Ht; [exact Ht|]. cbn [add_all]. apply IH.
  - intros x Hx. apply Hl. right. exact Hx.
  - apply add_node_CL; [apply Hl; left; reflexivity|exact Ht].
Qed.

End WithSchema.
