(* Node.replace keeps documents in normal form (no empty text, no adjacent text nodes with equal marks,
   leaf nodes without content), so that token-level equalities become document equalities (TokenInj). *)
From Coq Require Import ZArith NArith List Bool Arith Lia.
From PM Require Import Model.Data Model.Mark Model.Tree Spec.Tokens Proofs.DataProofs Proofs.NodeInd
  Proofs.ReplaceValid Proofs.SliceSides Proofs.TokenBasics Proofs.PathTokens Proofs.ReplaceTokens Proofs.SliceShape
  Proofs.TokenInj Proofs.SliceTokens.
Import ListNotations.
Local Open Scope nat_scope.

Section WithSchema.
Variable s : schema.
Notation nsize := (node_size s).
Notation fsize := (frag_size s).
Notation canon := (canon s).
Notation canon_list := (canon_list s).
Notation entry := (node * nat * nat)%type.

Definition CN (n : node) : Prop := canon n = true.
Definition CL (l : list node) : Prop := canon_list l = true.

Definition seam (x y : node) : bool :=
  match x, y with Text _ m, Text _ m' => negb (marks_eqb m m') | _, _ => true end.

(* marks_eqb is an equivalence (it is equality of normal forms) *)
Lemma marks_eqb_iff a b : marks_eqb a b = true <-> msnorm a = msnorm b.
Proof. split; [apply marks_eqb_norm|apply marks_norm_eqb]. Qed.
Lemma marks_eqb_sym a b : marks_eqb a b = marks_eqb b a.
Proof.
  destruct (marks_eqb a b) eqn:E1; destruct (marks_eqb b a) eqn:E2; auto.
  - apply marks_eqb_iff in E1. symmetry in E1. apply marks_eqb_iff in E1. congruence.
  - apply marks_eqb_iff in E2. symmetry in E2. apply marks_eqb_iff in E2. congruence.
Qed.
Lemma marks_eqb_trans a b c : marks_eqb a b = true -> marks_eqb b c = true -> marks_eqb a c = true.
Proof. rewrite !marks_eqb_iff. congruence. Qed.

Lemma CL_nil : CL []. Proof. reflexivity. Qed.
Lemma CL_single x : CL [x] <-> CN x.
Proof. unfold CL, CN. cbn [Proofs.TokenInj.canon_list]. destruct x; rewrite !andb_true_r; tauto. Qed.
Lemma CL_cons2 x y r : CL (x :: y :: r) <-> CN x /\ seam x y = true /\ CL (y :: r).
Proof.
  unfold CL, CN. cbn [Proofs.TokenInj.canon_list]. unfold seam.
  destruct x as [t m|ty a m cs]; destruct y as [t' m'|ty' a' m' cs']; rewrite ?andb_true_iff; tauto.
Qed.
Lemma CL_tail x r : CL (x :: r) -> CL r.
Proof. unfold CL. intros H. apply canon_list_cons in H. tauto. Qed.
Lemma CL_head x r : CL (x :: r) -> CN x.
Proof. unfold CL, CN. intros H. apply canon_list_cons in H. tauto. Qed.
Lemma CL_In l x : CL l -> In x l -> CN x.
Proof.
  induction l as [|y l IH]; intros H Hin; [destruct Hin|]. destruct Hin as [->|Hin]; [eapply CL_head; eauto|].
  apply IH; [eapply CL_tail; eauto|exact Hin].
Qed.
Lemma CN_children ty a m cs : CN (Elem ty a m cs) -> CL cs.
Proof. unfold CN, CL. rewrite canon_elem. intros H. apply andb_prop in H. tauto. Qed.
Lemma CN_elem ty a m cs : is_leaf_ty s ty = false -> CL cs -> CN (Elem ty a m cs).
Proof. unfold CN, CL. rewrite canon_elem. intros -> ->. reflexivity. Qed.

Lemma CL_firstn n : forall l, CL l -> CL (firstn n l).
Proof.
  induction n as [|n IH]; intros l H; [exact CL_nil|]. destruct l as [|x l]; [exact CL_nil|]. cbn [firstn].
  destruct l as [|y l]; [destruct n; exact H|]. apply CL_cons2 in H. destruct H as (Hx & Hs & Hr).
  destruct n as [|n]; [cbn [firstn]; apply CL_single; exact Hx|].
  specialize (IH _ Hr). cbn [firstn] in IH |- *. apply CL_cons2. auto.
Qed.
Lemma CL_skipn n : forall l, CL l -> CL (skipn n l).
Proof. induction n as [|n IH]; intros l H; [exact H|]. destruct l as [|x l]; [exact CL_nil|]. cbn [skipn]. apply IH. eapply CL_tail; eauto. Qed.

(* ------------------------------------------------------------------ add_node keeps the normal form *)
Lemma add_node_cons c x y r : add_node c (x :: y :: r) = x :: add_node c (y :: r).
Proof.
  unfold add_node. destruct c as [t m|? ? ? ?]; [|reflexivity]. cbn [rev].
  destruct (rev r ++ [y]) as [|z rest] eqn:E; [destruct (rev r); discriminate|]. cbn [app].
  destruct z as [t' m'|? ? ? ?]; [|reflexivity]. destruct (marks_eqb m m'); reflexivity.
Qed.

Lemma text_nonempty_app (t t' : cps) : t <> [] -> t' ++ t <> [].
Proof. destruct t'; [auto|discriminate]. Qed.

Lemma add_node_CL c : CN c -> forall target, CL target -> CL (add_node c target) /\
  (forall x r, target = x :: r -> exists y r', add_node c target = y :: r' /\ forall z, seam z x = true -> seam z y = true).
Proof.
  intros Hc. induction target as [|x rest IH]; intros Ht.
  - split; [|intros; discriminate]. unfold add_node. destruct c; cbn [rev app]; apply CL_single; exact Hc.
  - destruct rest as [|y r].
    + (* one element: merge or append *)
      unfold add_node. destruct c as [t m|ty a mk cs].
      * cbn [rev app]. destruct x as [t' m'|ty' a' mk' cs'].
        -- destruct (marks_eqb m m') eqn:E.
           ++ cbn [removelast app]. split.
              ** apply CL_single. unfold CN in *. cbn in Hc |- *. destruct t as [|c0 t]; [discriminate|]. destruct t'; reflexivity.
              ** intros x0 r0 Hx. inversion Hx; subst. eexists _, _. split; [reflexivity|].
                 intros z Hz. destruct z as [tz mz|]; [|reflexivity]. cbn [seam] in *.
                 destruct (marks_eqb mz m) eqn:E2; [|reflexivity]. rewrite (marks_eqb_trans _ _ _ E2 E) in Hz. discriminate.
           ++ split.
              ** cbn [app]. apply CL_cons2. split; [eapply CL_head; eauto|]. split; [cbn [seam]; rewrite marks_eqb_sym, E; reflexivity|].
                 apply CL_single. exact Hc.
              ** intros x0 r0 Hx. inversion Hx; subst. eexists _, _. split; [reflexivity|]. auto.
        -- split.
           ++ cbn [app]. apply CL_cons2. split; [eapply CL_head; eauto|]. split; [reflexivity|apply CL_single; exact Hc].
           ++ intros x0 r0 Hx. inversion Hx; subst. eexists _, _. split; [reflexivity|]. auto.
      * split.
        -- cbn [app]. apply CL_cons2. split; [eapply CL_head; eauto|]. split; [destruct x; reflexivity|apply CL_single; exact Hc].
        -- intros x0 r0 Hx. inversion Hx; subst. eexists _, _. split; [reflexivity|]. auto.
    + rewrite add_node_cons. apply CL_cons2 in Ht. destruct Ht as (Hx & Hs & Hr).
      destruct (IH Hr) as (Hcl & Hhd). destruct (Hhd y r eq_refl) as (y' & r' & E & Hseam). rewrite E in *.
      split.
      * apply CL_cons2. split; [exact Hx|]. split; [apply Hseam; exact Hs|exact Hcl].
      * intros x0 r0 Hx0. inversion Hx0; subst. eexists _, _. split; [reflexivity|]. auto.
Qed.

Lemma add_all_CL l : forall target, (forall x, In x l -> CN x) -> CL target -> CL (add_all l target).
Proof.
  induction l as [|c r IH]; intros target Hl Ht; [exact Ht|]. cbn [add_all]. apply IH.
  - intros x Hx. apply Hl. right. exact Hx.
  - apply add_node_CL; [apply Hl; left; reflexivity|exact Ht].
Qed.

(* ------------------------------------------------------------------ nodes along resolved paths *)
Definition PathC (r : rpos) : Prop := forall n i o, In (n, i, o) (rp_path r) -> CN n.
(* every node on the path is an element node that is not a leaf (the root too) *)
Definition PathNL (r : rpos) : Prop := forall d x, rp_node r d = Ok x -> is_elem x /\ nonleaf s x.

Lemma In_firstn_skipn {A} (c : A) k a l : In c (firstn k (skipn a l)) -> In c l.
Proof.
  intros H. assert (H1 : In c (skipn a l)).
  { rewrite <- (firstn_skipn k (skipn a l)). apply in_or_app. left. exact H. }
  rewrite <- (firstn_skipn a l). apply in_or_app. right. exact H1.
Qed.

Lemma IsPath_CN n p : IsPath s n p -> CN n -> forall x i o, In (x, i, o) p -> CN x.
Proof.
  intros H. induction H as [n i o|n i o c rest Hc Hnl Hel Hr IH]; intros Hn x i' o' Hin.
  - destruct Hin as [E|[]]. inversion E; subst. exact Hn.
  - destruct Hin as [E|Hin]; [inversion E; subst; exact Hn|].
    assert (Hcc : CN c).
    { destruct n as [t m|ty a m cs]; [destruct i; discriminate|].
      eapply CL_In; [eapply CN_children; exact Hn|]. unfold child_at in Hc. eapply nth_error_In. exact Hc. }
    apply (IH Hcc x i' o' Hin).
Qed.

Lemma resolve_PathC doc pos r : CN doc -> resolve s doc pos = Ok r -> PathC r.
Proof.
  unfold resolve. destruct (fsize (node_content doc) <? pos); [discriminate|].
  destruct (resolve_in s doc pos 0) as [[p po]|] eqn:E; [|discriminate]. cbn [bind fst snd]. intros Hd H. inversion H; subst r.
  intros n i o Hin. cbn [rp_path] in Hin. eapply IsPath_CN; [eapply resolve_in_IsPath; exact E|exact Hd|exact Hin].
Qed.

Lemma PathC_node r d n : PathC r -> rp_node r d = Ok n -> CN n.
Proof.
  intros H Hn. destruct (rp_node_path _ _ _ Hn) as (i & o & Hp). unfold path_at in Hp. apply nth_error_In in Hp. eapply H; eauto.
Qed.
Lemma PathC_child r d n i o j c : PathC r -> path_at r d = Some (n, i, o) -> child_at n j = Some c -> CN c.
Proof.
  intros H Hp Hc. unfold path_at in Hp. apply nth_error_In in Hp. specialize (H _ _ _ Hp).
  destruct n as [t m|ty a m cs]; [destruct j; discriminate|].
  eapply CL_In; [eapply CN_children; exact H|]. unfold child_at in Hc. eapply nth_error_In; exact Hc.
Qed.

Lemma text_cut_CN t m a b n : text_cut t m a b = Ok n -> CN (Text t m) -> CN n.
Proof.
  unfold text_cut. destruct ((a =? 0) && (b =? text_length t)); [intros H; inversion H; auto|].
  destruct (cut_text t a b) as [x|]; [|discriminate]. cbn [bind]. destruct x as [|c x]; [discriminate|].
  intros H _. inversion H. reflexivity.
Qed.

Lemma rp_node_after_CN r x :
  rp_node_after s r = Ok (Some x) -> PathC r -> TextAt r -> CN x.
Proof.
  unfold rp_node_after, rp_parent. intros H Hp Ht.
  destruct (rp_node r (rp_depth r)) as [parent|] eqn:En; [|discriminate]. cbn [bind] in H.
  destruct (rp_index r (rp_depth r)) as [index|] eqn:Ei; [|discriminate]. cbn [bind] in H.
  destruct (rp_node_path _ _ _ En) as (i0 & o0 & Hpa). destruct (rp_index_path _ _ _ Ei) as (n1 & o1 & Hp1).
  rewrite Hpa in Hp1. inversion Hp1; subst n1 i0 o1. clear Hp1.
  destruct (child_at parent index) as [child|] eqn:Ec.
  - assert (Hcc : CN child) by (eapply PathC_child; eauto).
    destruct (rp_text_offset r =? 0) eqn:Ez; [inversion H; subst; exact Hcc|]. apply Nat.eqb_neq in Ez.
    destruct (Ht Ez) as (n2 & i2 & o2 & t & m & Hp2 & Hc2).
    rewrite Hpa in Hp2. inversion Hp2; subst n2 i2 o2. rewrite Ec in Hc2. inversion Hc2; subst child.
    destruct (text_cut t m (rp_text_offset r) (text_length t)) as [c|] eqn:Et; [|discriminate].
    cbn [bind] in H. inversion H; subst. eapply text_cut_CN; eauto.
  - destruct (index =? length (node_content parent)); discriminate.
Qed.

Lemma rp_node_before_CN r x :
  rp_node_before s r = Ok (Some x) -> rp_text_offset r <> 0 -> PathC r -> TextAt r -> CN x.
Proof.
  unfold rp_node_before, rp_parent. intros H Ez Hp Ht.
  destruct (rp_node r (rp_depth r)) as [parent|] eqn:En; [|discriminate]. cbn [bind] in H.
  destruct (rp_index r (rp_depth r)) as [index|] eqn:Ei; [|discriminate]. cbn [bind] in H.
  destruct (rp_node_path _ _ _ En) as (i0 & o0 & Hpa). destruct (rp_index_path _ _ _ Ei) as (n1 & o1 & Hp1).
  rewrite Hpa in Hp1. inversion Hp1; subst n1 i0 o1. clear Hp1.
  destruct (rp_text_offset r =? 0) eqn:Ez'; [apply Nat.eqb_eq in Ez'; contradiction|]. cbn [negb] in H.
  destruct (Ht Ez) as (n2 & i2 & o2 & t & m & Hp2 & Hc2).
  rewrite Hpa in Hp2. inversion Hp2; subst n2 i2 o2. rewrite Hc2 in H.
  assert (Hcc : CN (Text t m)) by (eapply PathC_child; eauto).
  destruct (text_cut t m 0 (rp_text_offset r)) as [c|] eqn:Et; [|discriminate].
  cbn [bind] in H. inversion H; subst. eapply text_cut_CN; eauto.
Qed.

(* ------------------------------------------------------------------ add_range *)
Lemma add_range_CL start end_ depth target l :
  add_range s start end_ depth target = Ok l -> CL target ->
  (forall sp, start = Some sp -> PathC sp /\ TextAt sp) ->
  (forall e, end_ = Some e -> PathC e /\ TextAt e) ->
  CL l.
Proof.
  unfold add_range. intros H Ht Hs He.
  destruct (match end_ with Some e => rp_node e depth | None => match start with Some st => rp_node st depth | None => Err ErrInternal end end)
    as [n|] eqn:En; [|discriminate]. cbn [bind] in H.
  destruct (match end_ with Some e => rp_index e depth | None => Ok (length (node_content n)) end) as [end_index|] eqn:Eei;
    [|discriminate]. cbn [bind] in H.
  assert (Hn : CN n).
  { destruct end_ as [e|]; [eapply PathC_node; [apply (He e eq_refl)|exact En]|].
    destruct start as [sp|]; [eapply PathC_node; [apply (Hs sp eq_refl)|exact En]|discriminate]. }
  assert (Hkids : forall c, In c (node_content n) -> CN c).
  { intros c Hc. destruct n as [t m|ty a m cs]; [destruct Hc|]. eapply CL_In; [eapply CN_children; exact Hn|exact Hc]. }
  destruct (match start with
            | None => Ok (0, target)
            | Some sp => do si <- rp_index sp depth;
                         if depth <? rp_depth sp then Ok (S si, target)
                         else if negb (rp_text_offset sp =? 0)
                              then do na <- rp_node_after s sp;
                                   match na with Some x => Ok (S si, add_node x target) | None => Err ErrInternal end
                              else Ok (si, target)
            end) as [[start_index target1]|] eqn:Est; [|discriminate]. cbn [bind] in H.
  assert (Ht1 : CL target1).
  { destruct start as [sp|]; [|inversion Est; subst; auto].
    destruct (rp_index sp depth) as [si|]; [|discriminate]. cbn [bind] in Est.
    destruct (depth <? rp_depth sp); [inversion Est; subst; auto|].
    destruct (rp_text_offset sp =? 0) eqn:Ez; cbn [negb] in Est; [inversion Est; subst; auto|].
    destruct (rp_node_after s sp) as [[x|]|] eqn:Ena; try discriminate. cbn [bind] in Est. inversion Est; subst.
    destruct (Hs sp eq_refl) as [Hp Hta]. apply add_node_CL; auto. eapply rp_node_after_CN; eauto. }
  destruct (length (node_content n) <? end_index); [discriminate|]. cbn [bind] in H.
  assert (Hall : CL (add_all (firstn (end_index - start_index) (skipn start_index (node_content n))) target1)).
  { apply add_all_CL; [|exact Ht1]. intros x Hx. apply Hkids. eapply In_firstn_skipn; exact Hx. }
  destruct end_ as [e|]; [|inversion H; subst; exact Hall].
  destruct (rp_depth e =? depth); cbn [andb] in H; [|inversion H; subst; exact Hall].
  destruct (rp_text_offset e =? 0) eqn:Ez; cbn [negb] in H; [inversion H; subst; exact Hall|].
  apply Nat.eqb_neq in Ez.
  destruct (rp_node_before s e) as [[x|]|] eqn:Enb; try discriminate. cbn [bind] in H. inversion H; subst.
  destruct (He e eq_refl) as [Hp Hte]. apply add_node_CL; auto. eapply rp_node_before_CN; eauto.
Qed.

(* ------------------------------------------------------------------ the recursive rebuilds *)
Lemma close_CN n content r :
  close s n content = Ok r -> is_elem n -> nonleaf s n -> CL content -> CN r /\ is_elem r.
Proof.
  intros H (ty & a & m & cs & ->) Hnl Hc. apply close_copy in H. subst r. cbn [node_copy].
  split; [apply CN_elem; [exact Hnl|exact Hc]|unfold is_elem; eauto].
Qed.

Lemma joinable_NL before after depth n : joinable s before after depth = Ok n -> PathNL before -> is_elem n /\ nonleaf s n.
Proof. intros H Hp. destruct (joinable_node s _ _ _ _ H) as (Hn & _). apply (Hp _ _ Hn). Qed.

Lemma two_way_CL : forall fuel from to depth l,
  replace_two_way s fuel from to depth = Ok l ->
  PathC from -> TextAt from -> PathNL from -> PathC to -> TextAt to -> CL l.
Proof.
  induction fuel as [|fuel IH]; intros from to depth l H Hcf Htf Hnf Hct Htt; [discriminate|].
  cbn [replace_two_way] in H.
  destruct (add_range s None (Some from) depth []) as [c1|] eqn:E1; [|discriminate]. cbn [bind] in H.
  assert (Hc1 : CL c1).
  { eapply add_range_CL; [exact E1|exact CL_nil|intros sp Hsp; discriminate|]. intros e He; inversion He; subst; auto. }
  destruct (if depth <? rp_depth from
            then do ty <- joinable s from to (S depth);
                 do inner <- replace_two_way s fuel from to (S depth);
                 do cl <- close s ty inner; Ok (add_node cl c1)
            else Ok c1) as [c2|] eqn:E2; [|discriminate]. cbn [bind] in H.
  assert (Hc2 : CL c2).
  { destruct (depth <? rp_depth from); [|inversion E2; subst; auto].
    destruct (joinable s from to (S depth)) as [ty|] eqn:Ej; [|discriminate]. cbn [bind] in E2.
    destruct (replace_two_way s fuel from to (S depth)) as [inner|] eqn:Ei; [|discriminate]. cbn [bind] in E2.
    destruct (close s ty inner) as [cl|] eqn:Ec; [|discriminate]. cbn [bind] in E2. inversion E2; subst.
    destruct (joinable_NL _ _ _ _ Ej Hnf) as (Hel & Hnl).
    apply add_node_CL; auto. eapply close_CN; eauto. }
  eapply add_range_CL; [exact H|exact Hc2| |intros e He; discriminate].
  intros sp Hsp; inversion Hsp; subst; auto.
Qed.

Lemma three_way_CL : forall fuel from start end_ to depth l,
  replace_three_way s fuel from start end_ to depth = Ok l ->
  PathC from -> TextAt from -> PathNL from ->
  PathC start -> TextAt start -> PathNL start ->
  PathC end_ -> TextAt end_ -> PathNL end_ ->
  PathC to -> TextAt to -> CL l.
Proof.
  induction fuel as [|fuel IH]; intros from start end_ to depth l H Hcf Htf Hnf Hcs Hts Hns Hce Hte Hne Hct Htt; [discriminate|].
  cbn [replace_three_way] in H.
  destruct (if depth <? rp_depth from then do n <- joinable s from start (S depth); Ok (Some n) else Ok None) as [open_start|] eqn:Eos;
    [|discriminate]. cbn [bind] in H.
  destruct (if depth <? rp_depth to then do n <- joinable s end_ to (S depth); Ok (Some n) else Ok None) as [open_end|] eqn:Eoe;
    [|discriminate]. cbn [bind] in H.
  assert (Hos : forall os, open_start = Some os -> is_elem os /\ nonleaf s os).
  { intros os ->. destruct (depth <? rp_depth from); [|discriminate].
    destruct (joinable s from start (S depth)) as [n|] eqn:Ej; [|discriminate]. cbn [bind] in Eos. inversion Eos; subst.
    eapply joinable_NL; eauto. }
  assert (Hoe : forall oe, open_end = Some oe -> is_elem oe /\ nonleaf s oe).
  { intros oe ->. destruct (depth <? rp_depth to); [|discriminate].
    destruct (joinable s end_ to (S depth)) as [n|] eqn:Ej; [|discriminate]. cbn [bind] in Eoe. inversion Eoe; subst.
    eapply joinable_NL; eauto. }
  destruct (add_range s None (Some from) depth []) as [c1|] eqn:E1; [|discriminate]. cbn [bind] in H.
  assert (Hc1 : CL c1).
  { eapply add_range_CL; [exact E1|exact CL_nil|intros sp Hsp; discriminate|]. intros e He; inversion He; subst; auto. }
  (* helpers *)
  assert (Htwo1 : forall inner, replace_two_way s fuel from start (S depth) = Ok inner -> CL inner).
  { intros inner Hi. eapply two_way_CL; eauto. }
  assert (Htwo2 : forall inner, replace_two_way s fuel end_ to (S depth) = Ok inner -> CL inner).
  { intros inner Hi. eapply two_way_CL; eauto. }
  assert (Hmid : forall tg c', add_range s (Some start) (Some end_) depth tg = Ok c' -> CL tg -> CL c').
  { intros tg c' Ha Htg. eapply add_range_CL; [exact Ha|exact Htg| |].
    - intros sp Hsp; inversion Hsp; subst; auto.
    - intros e He; inversion He; subst; auto. }
  match type of H with (do c2 <- ?X; _) = _ => destruct X as [c2|] eqn:E2; [|discriminate] end. cbn [bind] in H.
  assert (Hc2 : CL c2).
  { destruct open_start as [os|]; destruct open_end as [oe|].
    - destruct (rp_index start depth) as [si|]; [|discriminate]. cbn [bind] in E2.
      destruct (rp_index end_ depth) as [ei|]; [|discriminate]. cbn [bind] in E2.
      destruct (si =? ei).
      + destruct (check_join s os oe); [|discriminate]. cbn [bind] in E2.
        destruct (replace_three_way s fuel from start end_ to (S depth)) as [inner|] eqn:Ei; [|discriminate]. cbn [bind] in E2.
        destruct (close s os inner) as [cl|] eqn:Ec; [|discriminate]. cbn [bind] in E2. inversion E2; subst.
        destruct (Hos os eq_refl) as (Hel & Hnl).
        apply add_node_CL; auto. eapply close_CN; eauto.
      + destruct (replace_two_way s fuel from start (S depth)) as [inner|] eqn:Ei; [|discriminate]. cbn [bind] in E2.
        destruct (close s os inner) as [cl|] eqn:Ec; [|discriminate]. cbn [bind] in E2.
        destruct (add_range s (Some start) (Some end_) depth (add_node cl c1)) as [c'|] eqn:Ea; [|discriminate]. cbn [bind] in E2.
        destruct (replace_two_way s fuel end_ to (S depth)) as [inner2|] eqn:Ei2; [|discriminate]. cbn [bind] in E2.
        destruct (close s oe inner2) as [cl2|] eqn:Ec2; [|discriminate]. cbn [bind] in E2. inversion E2; subst.
        destruct (Hos os eq_refl) as (Hel & Hnl). destruct (Hoe oe eq_refl) as (Hel2 & Hnl2).
        apply add_node_CL; [eapply close_CN; eauto|].
        eapply Hmid; [exact Ea|]. apply add_node_CL; auto. eapply close_CN; eauto.
    - destruct (replace_two_way s fuel from start (S depth)) as [inner|] eqn:Ei; [|discriminate]. cbn [bind] in E2.
      destruct (close s os inner) as [cl|] eqn:Ec; [|discriminate]. cbn [bind] in E2.
      destruct (add_range s (Some start) (Some end_) depth (add_node cl c1)) as [c''|] eqn:Ea; [|discriminate]. cbn [bind] in E2.
      inversion E2; subst. destruct (Hos os eq_refl) as (Hel & Hnl).
      eapply Hmid; [exact Ea|]. apply add_node_CL; auto. eapply close_CN; eauto.
    - cbn [bind] in E2.
      destruct (add_range s (Some start) (Some end_) depth c1) as [c''|] eqn:Ea; [|discriminate]. cbn [bind] in E2.
      destruct (replace_two_way s fuel end_ to (S depth)) as [inner2|] eqn:Ei2; [|discriminate]. cbn [bind] in E2.
      destruct (close s oe inner2) as [cl2|] eqn:Ec2; [|discriminate]. cbn [bind] in E2. inversion E2; subst.
      destruct (Hoe oe eq_refl) as (Hel2 & Hnl2).
      apply add_node_CL; [eapply close_CN; eauto|]. eapply Hmid; eauto.
    - cbn [bind] in E2.
      destruct (add_range s (Some start) (Some end_) depth c1) as [c''|] eqn:Ea; [|discriminate]. cbn [bind] in E2.
      inversion E2; subst. eapply Hmid; eauto. }
  eapply add_range_CL; [exact H|exact Hc2| |intros e He; discriminate].
  intros sp Hsp; inversion Hsp; subst; auto.
Qed.

(* ------------------------------------------------------------------ lists that differ only inside nodes *)
(* same place in the text-merging sense: both element nodes, or text nodes with == marks *)
Definition mclass (x y : node) : Prop :=
  match x, y with
  | Text _ m, Text _ m' => marks_eqb m m' = true
  | Elem _ _ _ _, Elem _ _ _ _ => True
  | _, _ => False
  end.
Lemma mclass_refl x : mclass x x.
Proof. destruct x; cbn; auto. apply marks_eqb_refl. Qed.
Lemma seam_class_l x x' z : mclass x' x -> seam x z = seam x' z.
Proof.
  destruct x as [t m|]; destruct x' as [t' m'|]; cbn; try contradiction; auto. intros H.
  destruct z as [tz mz|]; [|reflexivity]. cbn. f_equal.
  destruct (marks_eqb m mz) eqn:E1; destruct (marks_eqb m' mz) eqn:E2; auto.
  - rewrite (marks_eqb_trans _ _ _ H E1) in E2. discriminate.
  - rewrite marks_eqb_sym in H. rewrite (marks_eqb_trans _ _ _ H E2) in E1. discriminate.
Qed.
Lemma seam_class_r x x' z : mclass x' x -> seam z x = seam z x'.
Proof.
  destruct x as [t m|]; destruct x' as [t' m'|]; cbn; try contradiction; auto; intros H; destruct z as [tz mz|]; try reflexivity.
  cbn. f_equal.
  destruct (marks_eqb mz m) eqn:E1; destruct (marks_eqb mz m') eqn:E2; auto.
  - rewrite marks_eqb_sym in H. rewrite (marks_eqb_trans _ _ _ E1 H) in E2. discriminate.
  - rewrite (marks_eqb_trans _ _ _ E2 H) in E1. discriminate.
Qed.

Lemma CL_Forall2 : forall l' l, Forall2 (fun x' x => mclass x' x /\ CN x') l' l -> CL l -> CL l'.
Proof.
  induction l' as [|x' l' IH]; intros l HF Hl; [exact CL_nil|].
  inversion HF as [|a b la lb (Hc & Hcn) HF' E1 E2]; subst.
  destruct l' as [|y' l'']; [apply CL_single; exact Hcn|].
  inversion HF' as [|a2 b2 la2 lb2 (Hc2 & Hcn2) HF'' E3 E4]; subst.
  apply CL_cons2 in Hl. destruct Hl as (_ & Hs & Hr).
  apply CL_cons2. split; [exact Hcn|]. split; [|eapply IH; eauto].
  rewrite <- (seam_class_l b x' y' Hc). rewrite <- (seam_class_r b2 y' b Hc2). exact Hs.
Qed.

Lemma Forall2_refl_CL l : CL l -> Forall2 (fun x' x => mclass x' x /\ CN x') l l.
Proof.
  induction l as [|x l IH]; intros H; constructor.
  - split; [apply mclass_refl|eapply CL_head; eauto].
  - apply IH. eapply CL_tail; eauto.
Qed.

Lemma replace_child_CL l i x0 x : CL l -> nth_error l i = Some x0 -> mclass x x0 -> CN x -> CL (replace_child l i x).
Proof.
  intros Hl Hn Hc Hx.
  assert (El : l = firstn i l ++ x0 :: skipn (S i) l) by (rewrite <- (skipn_nth_cons _ _ _ Hn); symmetry; apply firstn_skipn).
  apply (CL_Forall2 _ (firstn i l ++ x0 :: skipn (S i) l)); [|rewrite <- El; exact Hl]. unfold replace_child. cbn [app].
  apply Forall2_app; [apply Forall2_refl_CL, CL_firstn; exact Hl|].
  constructor; [auto|]. apply Forall2_refl_CL, CL_skipn. exact Hl.
Qed.

(* ------------------------------------------------------------------ Fragment.cut / Node.cut *)
Definition NodeCutCN (n : node) : Prop :=
  CN n -> forall a b n', node_cut s n a b = Ok n' -> CN n' /\ mclass n' n.

Lemma CN_size_pos c : CN c -> 1 <= nsize c.
Proof.
  destruct c as [t m|ty a m cs]; intros H.
  - unfold CN in H. cbn in H. destruct t as [|c t]; [discriminate|]. cbn [node_size text_length]. unfold cp_units. destruct (N.leb 65536 c); lia.
  - rewrite node_size_elem. destruct (is_leaf_ty s ty); lia.
Qed.

Lemma frag_cut_go_F2 : forall l, (forall c, In c l -> NodeCutCN c) -> CL l ->
  forall pos from to l', frag_cut_go s l pos from to = Ok l' ->
  exists j k, Forall2 (fun x' x => mclass x' x /\ CN x') l' (firstn k (skipn j l)) /\ (from <= pos -> j = 0).
Proof.
  induction l as [|c r IH]; intros Hcut Hl pos from to l' H; cbn [frag_cut_go] in H.
  - destruct (pos <? to); [discriminate|]. inversion H; subst. exists 0, 0. split; [constructor|auto].
  - destruct (pos <? to) eqn:Ept.
    2:{ inversion H; subst. exists 0, 0. split; [constructor|auto]. }
    cbv zeta in H. pose proof (CN_size_pos c (CL_head _ _ Hl)) as Hsz.
    assert (IHr : forall pos from to l', frag_cut_go s r pos from to = Ok l' ->
              exists j k, Forall2 (fun x' x => mclass x' x /\ CN x') l' (firstn k (skipn j r)) /\ (from <= pos -> j = 0)).
    { apply IH; [intros c0 Hc0; apply Hcut; right; exact Hc0|eapply CL_tail; eauto]. }
    destruct (from <? pos + nsize c) eqn:Efe.
    + apply Nat.ltb_lt in Efe.
      destruct (_ : res node) as [c'|] eqn:Ec in H; [|discriminate]. cbn [bind] in H.
      destruct (frag_cut_go s r (pos + nsize c) from to) as [rest|] eqn:Er; [|discriminate]. cbn [bind] in H. inversion H; subst l'.
      destruct (IHr _ _ _ _ Er) as (j & k & HF & Hj). rewrite (Hj ltac:(lia)) in HF. cbn [skipn] in HF.
      exists 0, (S k). split; [|auto]. cbn [skipn firstn]. constructor; [|exact HF].
      destruct ((pos <? from) || (to <? pos + nsize c)).
      * destruct c as [t m|ty a m cc].
        -- split; [|eapply text_cut_CN; [exact Ec|eapply CL_head; eauto]].
           unfold text_cut in Ec. destruct ((from - pos =? 0) && _); [inversion Ec; apply mclass_refl|].
           destruct (cut_text t _ _) as [x|]; [|discriminate]. cbn [bind] in Ec. destruct x; [discriminate|]. inversion Ec. cbn. apply marks_eqb_refl.
        -- destruct (Hcut _ (or_introl eq_refl) (CL_head _ _ Hl) _ _ _ Ec) as (H1 & H2). auto.
      * inversion Ec; subst. split; [apply mclass_refl|eapply CL_head; eauto].
    + apply Nat.ltb_ge in Efe. destruct (IHr _ _ _ _ H) as (j & k & HF & Hj).
      exists (S j), k. split; [exact HF|]. intros Hle. lia.
Qed.

Theorem node_cut_CN : forall n, NodeCutCN n.
Proof.
  induction n as [t m|ty a m cs IH] using node_ind2; intros Hn a0 b n' H.
  - cbn [node_cut] in H. split; [eapply text_cut_CN; eauto|].
    unfold text_cut in H. destruct ((a0 =? 0) && _); [inversion H; apply mclass_refl|].
    destruct (cut_text t _ _) as [x|]; [|discriminate]. cbn [bind] in H. destruct x; [discriminate|]. inversion H. cbn. apply marks_eqb_refl.
  - rewrite node_cut_unfold in H. destruct ((a0 =? 0) && (b =? fsize cs)); [inversion H; subst; split; [exact Hn|exact I]|].
    pose proof (CN_children _ _ _ _ Hn) as Hcs.
    unfold CN in Hn. rewrite canon_elem in Hn. apply andb_prop in Hn. destruct Hn as [Hleaf _].
    destruct (b <=? a0).
    + inversion H; subst. split; [|exact I]. unfold CN. rewrite canon_elem. destruct (is_leaf_ty s ty); reflexivity.
    + destruct (frag_cut_go s cs 0 a0 b) as [cs'|] eqn:Ec; [|discriminate]. cbn [bind] in H. inversion H; subst. split; [|exact I].
      destruct (frag_cut_go_F2 cs IH Hcs _ _ _ _ Ec) as (j & k & HF & _).
      assert (Hcl : CL cs') by (eapply CL_Forall2; [exact HF|apply CL_firstn, CL_skipn; exact Hcs]).
      unfold CN. rewrite canon_elem. unfold CL in Hcl. rewrite Hcl, andb_true_r.
      destruct (is_leaf_ty s ty); [|reflexivity]. destruct cs as [|c0 cs0]; [|discriminate].
      cbn [skipn firstn] in HF. destruct j, k; cbn in HF; inversion HF; reflexivity.
Qed.

Lemma frag_cut_CL l from to l' : CL l -> frag_cut s l from to = Ok l' -> CL l'.
Proof.
  intros Hl H. unfold frag_cut in H. destruct ((from =? 0) && (to =? fsize l)); [inversion H; subst; exact Hl|].
  destruct (to <=? from); [inversion H; exact CL_nil|].
  destruct (frag_cut_go_F2 l (fun c _ => node_cut_CN c) Hl _ _ _ _ H) as (j & k & HF & _).
  eapply CL_Forall2; [exact HF|apply CL_firstn, CL_skipn; exact Hl].
Qed.

(* ------------------------------------------------------------------ Fragment.append *)
Lemma CL_app : forall a b, CL a -> CL b ->
  (forall x y r, rev a = x :: r -> hd_error b = Some y -> seam x y = true) -> CL (a ++ b).
Proof.
  induction a as [|x a IH]; intros b Ha Hb Hs; [exact Hb|]. cbn [app].
  destruct a as [|y a'].
  - cbn [app]. destruct b as [|z b']; [exact Ha|]. apply CL_cons2. split; [eapply CL_head; eauto|].
    split; [apply (Hs x z []); reflexivity|exact Hb].
  - apply CL_cons2 in Ha. destruct Ha as (Hx & Hxy & Hr). cbn [app]. apply CL_cons2. split; [exact Hx|]. split; [exact Hxy|].
    apply (IH b Hr Hb). intros x0 y0 r0 Hrev Hhd. apply (Hs x0 y0 (r0 ++ [x])); [|exact Hhd].
    cbn [rev] in *. rewrite Hrev. reflexivity.
Qed.

Lemma frag_append_CL a b : CL a -> CL b -> CL (frag_append a b).
Proof.
  intros Ha Hb. unfold frag_append. destruct b as [|first b']; [exact Ha|]. destruct a as [|a0 a']; [exact Hb|].
  set (A := a0 :: a') in *.
  assert (HlastA : exists r, rev A = last A first :: r).
  { assert (HA : A <> []) by discriminate. exists (rev (removelast A)).
    transitivity (rev (removelast A ++ [last A first])); [f_equal; apply last_split; exact HA|rewrite rev_app_distr; reflexivity]. }
  destruct HlastA as (rA & HrevA).
  assert (Hplain : seam (last A first) first = true -> CL (A ++ first :: b')).
  { intros Hs. apply CL_app; auto. intros x y r Hr Hh. rewrite HrevA in Hr. inversion Hr; subst. cbn in Hh. inversion Hh; subst. exact Hs. }
  destruct (last A first) as [t m|ty a m cs] eqn:El; [|apply Hplain; reflexivity].
  destruct first as [t' m'|ty' a'' m' cs']; [|apply Hplain; reflexivity].
  destruct (marks_eqb m m') eqn:Em; [|apply Hplain; cbn; rewrite Em; reflexivity].
  (* merged *)
  assert (HA : A = removelast A ++ [Text t m]) by (rewrite <- El; apply last_split; discriminate).
  assert (Hm : CL (removelast A ++ [Text (t ++ t') m])).
  { eapply CL_Forall2; [|rewrite HA in Ha; exact Ha]. apply Forall2_app.
    - apply Forall2_refl_CL. rewrite HA in Ha. clear -Ha. revert Ha. generalize (removelast A) as l. intros l.
      induction l as [|x l IH]; intros H; [exact CL_nil|]. destruct l as [|y l'].
      + cbn [app] in H. apply CL_cons2 in H. apply CL_single. tauto.
      + cbn [app] in H. apply CL_cons2 in H. destruct H as (H1 & H2 & H3). apply CL_cons2. split; [exact H1|]. split; [exact H2|].
        apply IH. exact H3.
    - constructor; [|constructor]. split; [cbn; apply marks_eqb_refl|].
      assert (Hc : CN (Text t m)) by (eapply CL_In; [exact Ha|]; rewrite HA; apply in_or_app; right; left; reflexivity).
      unfold CN in *. cbn in Hc |- *. destruct t; [discriminate|reflexivity]. }
  cbn [app]. change (removelast A ++ Text (t ++ t') m :: b') with (removelast A ++ [Text (t ++ t') m] ++ b').
  rewrite app_assoc. apply CL_app; [exact Hm|eapply CL_tail; exact Hb|].
  intros x y r Hr Hh. rewrite rev_app_distr in Hr. cbn in Hr. inversion Hr; subst x.
  destruct b' as [|z b'']; [discriminate|]. cbn in Hh. inversion Hh; subst y.
  apply CL_cons2 in Hb. destruct Hb as (_ & Hs & _).
  rewrite (seam_class_l (Text (t ++ t') m) (Text t' m') z); [exact Hs|]. cbn. rewrite marks_eqb_sym. exact Em.
Qed.

(* ------------------------------------------------------------------ the prepared slice *)
Record Good (r : rpos) : Prop := { g_c : PathC r; g_t : TextAt r; g_nl : PathNL r; g_l : linked (rp_path r) }.

Lemma resolve_Good doc pos r : CN doc -> nonleaf s doc -> resolve s doc pos = Ok r -> Good r.
Proof.
  intros Hc Hnl H. destruct (resolve_spec s _ _ _ H) as (_ & Hl & Ht & (i & o & rest & Hh) & _).
  split; [eapply resolve_PathC; eauto|exact Ht| |exact Hl].
  intros d x Hx. destruct (resolve_PathShape s _ _ _ H d x Hx) as (Hel & Hn). split; [exact Hel|].
  destruct d as [|d]; [|apply Hn; lia]. unfold rp_node, path_at in Hx. rewrite Hh in Hx. cbn in Hx. inversion Hx; subst. exact Hnl.
Qed.

Lemma wrap_up_CN along : PathNL along -> forall i n w,
  wrap_up along i n = Ok w -> CN n -> is_elem n -> nonleaf s n -> CN w /\ is_elem w /\ nonleaf s w.
Proof.
  intros Hp. induction i as [|i IH]; intros n w H Hn Hel Hnl; cbn [wrap_up] in H.
  - inversion H; subst. auto.
  - destruct (rp_node along i) as [a|] eqn:Ea; [|discriminate]. cbn [bind] in H.
    destruct (Hp _ _ Ea) as ((ty & at_ & m & cs & ->) & Hnla). cbn [node_copy] in H.
    apply (IH _ _ H).
    + apply CN_elem; [exact Hnla|apply CL_single; exact Hn].
    + unfold is_elem. eauto.
    + exact Hnla.
Qed.

Lemma prepare_slice_Good sl along st en :
  prepare_slice s sl along = Ok (st, en) -> PathNL along -> CL (sl_content sl) -> Good st /\ Good en.
Proof.
  intros H Hp Hc. apply (prepare_slice_ok s) in H. unfold prepare_slice0 in H.
  destruct (rp_node along (rp_depth along - sl_open_start sl)) as [parent|] eqn:En; [|discriminate]. cbn [bind] in H.
  destruct (wrap_up along (rp_depth along - sl_open_start sl) (node_copy parent (sl_content sl))) as [w|] eqn:Ew; [|discriminate].
  cbn [bind] in H. destruct (fsize (node_content w) <? sl_open_end sl + (rp_depth along - sl_open_start sl)); [discriminate|].
  destruct (resolve s w (sl_open_start sl + (rp_depth along - sl_open_start sl))) as [a|] eqn:Ea; [|discriminate]. cbn [bind] in H.
  destruct (resolve s w (fsize (node_content w) - sl_open_end sl - (rp_depth along - sl_open_start sl))) as [b|] eqn:Eb;
    [|discriminate]. cbn [bind] in H. inversion H; subst.
  destruct (Hp _ _ En) as ((ty & at_ & m & cs & ->) & Hnlp). cbn [node_copy] in Ew.
  destruct (wrap_up_CN along Hp _ _ _ Ew) as (Hw & Helw & Hnlw).
  - apply CN_elem; [exact Hnlp|exact Hc].
  - unfold is_elem; eauto.
  - exact Hnlp.
  - split; eapply resolve_Good; eauto.
Qed.

(* ------------------------------------------------------------------ replace_outer / Node.replace *)
Lemma replace_outer_CN : forall fuel from to sl depth r,
  replace_outer s fuel from to sl depth = Ok r ->
  Good from -> Good to -> CL (sl_content sl) -> CN r /\ is_elem r.
Proof.
  induction fuel as [|fuel IH]; intros from to sl depth r H Gf Gt Hc; [discriminate|]. cbn [replace_outer] in H.
  destruct (rp_index from depth) as [index|] eqn:Ei; [|discriminate]. cbn [bind] in H.
  destruct (rp_node from depth) as [n|] eqn:En; [|discriminate]. cbn [bind] in H.
  destruct (rp_index to depth) as [tindex|] eqn:Eti; [|discriminate]. cbn [bind] in H.
  destruct (g_nl _ Gf _ _ En) as ((ty & a & m & cs & ->) & Hnl).
  pose proof (PathC_node _ _ _ (g_c _ Gf) En) as Hn.
  assert (Hclose : forall c r', close s (Elem ty a m cs) c = Ok r' -> CL c -> CN r' /\ is_elem r').
  { intros c r' Hcl Hcc. eapply close_CN; eauto. unfold is_elem; eauto. }
  destruct ((index =? tindex) && (depth <? rp_depth from - sl_open_start sl)) eqn:E1.
  - destruct (replace_outer s fuel from to sl (S depth)) as [inner|] eqn:Eo; [|discriminate]. cbn [bind] in H.
    inversion H; subst r. cbn [node_copy node_content].
    destruct (IH _ _ _ _ _ Eo Gf Gt Hc) as (Hin & (ty2 & a2 & m2 & cs2 & ->)).
    (* the child that is replaced is the next node of the path: an element node *)
    destruct (replace_outer_markup s _ _ _ _ _ _ Eo) as ((n2 & En2 & _) & _).
    destruct (rp_node_path _ _ _ En) as (i0 & o0 & Hp0). destruct (rp_index_path _ _ _ Ei) as (n1 & o1 & Hp1).
    rewrite Hp0 in Hp1. inversion Hp1; subst n1 i0 o1.
    destruct (rp_node_path _ _ _ En2) as (i2 & o2 & Hp2).
    pose proof (g_l _ Gf depth _ _ _ _ _ _ Hp0 Hp2) as Hchild. unfold child_at in Hchild. cbn [node_content] in Hchild.
    destruct (g_nl _ Gf _ _ En2) as ((ty3 & a3 & m3 & cs3 & ->) & _).
    split; [|unfold is_elem; eauto]. apply CN_elem; [exact Hnl|].
    eapply replace_child_CL; [eapply CN_children; exact Hn|exact Hchild|exact I|exact Hin].
  - destruct (fsize (sl_content sl) =? 0).
    + destruct (replace_two_way s (S (rp_depth from)) from to depth) as [c|] eqn:E2; [|discriminate]. cbn [bind] in H.
      apply (Hclose _ _ H). eapply two_way_CL; [exact E2|apply Gf|apply Gf|apply Gf|apply Gt|apply Gt].
    + destruct ((sl_open_start sl =? 0) && (sl_open_end sl =? 0) && (rp_depth from =? depth) && (rp_depth to =? depth)) eqn:E3.
      * unfold rp_parent in H. destruct (rp_node from (rp_depth from)) as [parent|] eqn:Ep; [|discriminate]. cbn [bind] in H.
        destruct (frag_cut s (node_content parent) 0 (rp_parent_offset from)) as [a1|] eqn:Ea; [|discriminate]. cbn [bind] in H.
        destruct (frag_cut s (node_content parent) (rp_parent_offset to) (fsize (node_content parent))) as [b1|] eqn:Eb; [|discriminate].
        cbn [bind] in H.
        destruct (g_nl _ Gf _ _ Ep) as ((ty2 & a2 & m2 & cs2 & ->) & Hnl2).
        pose proof (PathC_node _ _ _ (g_c _ Gf) Ep) as Hpn. pose proof (CN_children _ _ _ _ Hpn) as Hcs2. cbn [node_content] in *.
        eapply close_CN; [exact H|unfold is_elem; eauto|exact Hnl2|].
        apply frag_append_CL; [apply frag_append_CL; [eapply frag_cut_CL; eauto|exact Hc]|eapply frag_cut_CL; eauto].
      * destruct (prepare_slice s sl from) as [[start end_]|] eqn:Eps; [|discriminate]. cbn [bind] in H.
        destruct (replace_three_way s _ from start end_ to depth) as [c|] eqn:E3w; [|discriminate]. cbn [bind] in H.
        destruct (prepare_slice_Good _ _ _ _ Eps (g_nl _ Gf) Hc) as (Gs & Ge).
        apply (Hclose _ _ H).
        eapply three_way_CL; [exact E3w|apply Gf|apply Gf|apply Gf|apply Gs|apply Gs|apply Gs|apply Ge|apply Ge|apply Ge|apply Gt|apply Gt].
Qed.

Theorem node_replace_canon doc from to sl d' :
  CN doc -> nonleaf s doc -> CL (sl_content sl) -> node_replace s doc from to sl = Ok d' -> CN d'.
Proof.
  intros Hd Hnl Hc H. unfold node_replace in H.
  destruct (resolve s doc from) as [rf|] eqn:Ef; [|discriminate]. cbn [bind] in H.
  destruct (resolve s doc to) as [rt|] eqn:Et; [|discriminate]. cbn [bind] in H.
  unfold replace_rp in H. destruct (rp_depth rf <? sl_open_start sl); [discriminate|].
  destruct (negb _); [discriminate|]. destruct (rp_pos rt <? rp_pos rf); [discriminate|]. destruct (_ && _); [discriminate|].
  eapply replace_outer_CN; [exact H|eapply resolve_Good; eauto|eapply resolve_Good; eauto|exact Hc].
Qed.

End WithSchema.
