(* From equal token sequences to equal documents: for documents and slices in normal form, exact undo,
   merged steps, rebased separated steps and re-inserted slices give documents that are equal by Node.eq. *)
From Coq Require Import ZArith NArith List Bool Arith Lia.
From PM Require Import Model.Data Model.Mark Model.Tree Model.StepMap Model.Step Spec.Tokens
  Proofs.DataProofs Proofs.ReplaceValid Proofs.SliceSides Proofs.TokenBasics Proofs.PathTokens Proofs.ReplaceTokens
  Proofs.SliceShape Proofs.StepFaithful Proofs.SliceTokens Proofs.SliceCut Proofs.TokenLaws Proofs.StepAlgebra
  Proofs.StepTokens Proofs.TokenInj Proofs.ReplaceCanon.
Import ListNotations.
Local Open Scope nat_scope.

Section WithSchema.
Variable s : schema.
Notation fsize := (frag_size s).
Notation ftoks := (ftoks s).
Notation V := (V s).
Notation DT := (DT s).
Notation IT := (IT s).
Notation CN := (CN s).
Notation CL := (CL s).
Notation ShapeS sl := (Shape s (sl_content sl) (sl_open_start sl) (sl_open_end sl)).
Notation OpenS sl := (OpenOK s (sl_content sl) (sl_open_start sl) (sl_open_end sl)).

(* a document in normal form whose root is not a leaf type *)
Definition NormalDoc (d : node) : Prop := CN d /\ nonleaf s d.

(* a replace step keeps the root's markup and the normal form *)
Lemma apply_replace_normal from to sl structure doc d' :
  NormalDoc doc -> CL (sl_content sl) -> apply s (SReplace from to sl structure) doc = ROk d' ->
  NormalDoc d' /\ exists ty a m cs cs', doc = Elem ty a m cs /\ d' = Elem ty a m cs'.
Proof.
  intros (Hc & Hnl) Hs H. apply apply_replace_inv in H.
  pose proof (node_replace_canon s _ _ _ _ _ Hc Hnl Hs H) as Hc'.
  unfold node_replace in H.
  destruct (resolve s doc from) as [rf|] eqn:Ef; [|discriminate]. cbn [bind] in H.
  destruct (resolve s doc to) as [rt|] eqn:Et; [|discriminate]. cbn [bind] in H.
  unfold replace_rp in H. destruct (rp_depth rf <? sl_open_start sl); [discriminate|]. destruct (negb _); [discriminate|].
  destruct (rp_pos rt <? rp_pos rf); [discriminate|]. destruct (_ && _); [discriminate|].
  destruct (replace_outer_copy s _ _ _ _ _ _ H) as (n & X & En & ->).
  destruct (resolve_spec s _ _ _ Ef) as (_ & _ & _ & (i & o & rest & Hh) & _).
  unfold rp_node, path_at in En. rewrite Hh in En. cbn in En. inversion En; subst n.
  destruct (resolve_PathShape s _ _ _ Ef 0 doc) as ((ty & a & m & cs & ->) & _).
  { unfold rp_node, path_at. rewrite Hh. reflexivity. }
  cbn [node_copy] in *. split; [split; [exact Hc'|exact Hnl]|]. eauto 10.
Qed.

Lemma NormalDoc_eq d1 d2 ty a m cs1 cs2 :
  d1 = Elem ty a m cs1 -> d2 = Elem ty a m cs2 -> NormalDoc d1 -> NormalDoc d2 ->
  DT d1 = DT d2 -> node_eqb d1 d2 = true.
Proof.
  intros -> -> (H1 & _) (H2 & _) HT. apply (doc_eq_of_tokens s); auto.
  - eapply CN_children; exact H1.
  - eapply CN_children; exact H2.
  - apply attrs_eqb_refl.
  - apply marks_eqb_refl.
Qed.

Lemma node_slice_CL doc from to sl : CN doc -> node_slice s doc from to = Ok sl -> CL (sl_content sl).
Proof.
  intros Hc H. unfold node_slice in H. destruct (from =? to); [inversion H; exact (CL_nil s)|].
  destruct (resolve s doc from) as [rf|] eqn:Ef; [|discriminate]. cbn [bind] in H.
  destruct (resolve s doc to) as [rt|]; [|discriminate]. cbn [bind] in H.
  destruct (shared_depth s rf to) as [d|]; [|discriminate]. cbn [bind] in H.
  destruct (rp_start rf d) as [st|]; [|discriminate]. cbn [bind] in H.
  destruct (rp_node rf d) as [n|] eqn:En; [|discriminate]. cbn [bind] in H.
  destruct (frag_cut s (node_content n) (from - st) (to - st)) as [content|] eqn:Ec; [|discriminate]. cbn [bind] in H.
  inversion H; subst sl. cbn [sl_content].
  pose proof (PathC_node s _ _ _ (resolve_PathC s _ _ _ Hc Ef) En) as Hn.
  eapply frag_cut_CL; [|exact Ec]. destruct n as [t m|ty a m cs]; [exact (CL_nil s)|]. eapply CN_children; exact Hn.
Qed.

(* ------------------------------------------------------------------ C04: exact undo, as documents *)
Theorem replace_step_undo_eq from to sl structure doc d' inv d'' :
  V doc -> NormalDoc doc -> OpenS sl -> CL (sl_content sl) -> from <= to ->
  apply s (SReplace from to sl structure) doc = ROk d' ->
  invert_step s (SReplace from to sl structure) doc = Ok inv ->
  apply s inv d' = ROk d'' ->
  node_eqb d'' doc = true.
Proof.
  intros Hd Hn Ho Hcl Hft Ha Hi Hb.
  pose proof (replace_step_undo s _ _ _ _ _ _ _ _ Hd Ho Hft Ha Hi Hb) as HT.
  destruct (apply_replace_normal _ _ _ _ _ _ Hn Hcl Ha) as (Hn' & ty & a & m & cs & cs' & -> & ->).
  cbn [invert_step] in Hi. destruct (node_slice s (Elem ty a m cs) from to) as [old|] eqn:Eo; [|discriminate]. cbn [bind] in Hi.
  inversion Hi; subst inv.
  assert (Hco : CL (sl_content old)) by (eapply node_slice_CL; [apply Hn|exact Eo]).
  destruct (apply_replace_normal _ _ _ _ _ _ Hn' Hco Hb) as (Hn'' & ty2 & a2 & m2 & cs2 & cs2' & E1 & ->).
  inversion E1; subst ty2 a2 m2 cs2.
  eapply NormalDoc_eq; eauto.
Qed.

(* C02: re-inserting a slice where it was cut gives back an equal document *)
Theorem reinsert_cut_slice_eq from to doc sl d' :
  V doc -> NormalDoc doc -> from <= to ->
  node_slice s doc from to = Ok sl -> node_replace s doc from to sl = Ok d' ->
  node_eqb d' doc = true.
Proof.
  intros Hd Hn Hft Hs Hr.
  destruct (node_slice_IT s _ _ _ _ Hft Hs) as (Hsh & HI).
  assert (Ha : apply s (SReplace from to sl false) doc = ROk d').
  { cbn [apply]. unfold lift, from_replace. rewrite Hr. reflexivity. }
  destruct (replace_step_splice s _ _ _ _ _ _ Hd Hsh Ha) as (_ & _ & E).
  assert (Hcl : CL (sl_content sl)) by (eapply node_slice_CL; [apply Hn|exact Hs]).
  destruct (apply_replace_normal _ _ _ _ _ _ Hn Hcl Ha) as (Hn' & ty & a & m & cs & cs' & -> & ->).
  eapply NormalDoc_eq; eauto. rewrite E, HI. symmetry. apply split3. exact Hft.
Qed.

(* ------------------------------------------------------------------ C16: the merged step gives an equal document *)
Theorem merged_replace_step_eq f1 t1 s1 st1 f2 t2 s2 st2 m doc da dab dm :
  V doc -> NormalDoc doc ->
  OpenS s1 -> CL (sl_content s1) -> f1 <= t1 ->
  ShapeS s2 -> CL (sl_content s2) -> f2 <= t2 ->
  merge s (SReplace f1 t1 s1 st1) (SReplace f2 t2 s2 st2) = Some m ->
  apply s (SReplace f1 t1 s1 st1) doc = ROk da ->
  apply s (SReplace f2 t2 s2 st2) da = ROk dab ->
  apply s m doc = ROk dm ->
  node_eqb dm dab = true.
Proof.
  intros Hd Hn Ho1 Hc1 H1 Hs2 Hc2 H2 Hm A1 A2 A3.
  assert (HT : DT dm = DT dab).
  { eapply (merged_replace_step s (SReplace f1 t1 s1 st1) (SReplace f2 t2 s2 st2)); eauto.
    - intros f t sl st E. inversion E; subst. auto.
    - intros f t sl st E. inversion E; subst. auto. }
  destruct (apply_replace_normal _ _ _ _ _ _ Hn Hc1 A1) as (Hna & ty & a & mk & cs & csa & -> & ->).
  destruct (apply_replace_normal _ _ _ _ _ _ Hna Hc2 A2) as (Hnab & ty2 & a2 & mk2 & cs2 & csab & E1 & ->).
  inversion E1; subst ty2 a2 mk2 cs2.
  (* the merged step's slice is in normal form too *)
  cbn [merge] in Hm. destruct (st1 || st2); [discriminate|].
  assert (Hmm : exists fm tm slm, m = SReplace fm tm slm false /\ CL (sl_content slm)).
  { destruct ((Z.of_nat f1 + slice_size s s1 =? Z.of_nat f2)%Z && (sl_open_end s1 =? 0) && (sl_open_start s2 =? 0)).
    - inversion Hm. eexists _, _, _. split; [reflexivity|].
      destruct (slice_size s s1 + slice_size s s2 =? 0)%Z; [exact (CL_nil s)|]. cbn [sl_content]. apply frag_append_CL; auto.
    - destruct ((t2 =? f1) && (sl_open_start s1 =? 0) && (sl_open_end s2 =? 0)); [|discriminate].
      inversion Hm. eexists _, _, _. split; [reflexivity|].
      destruct (slice_size s s1 + slice_size s s2 =? 0)%Z; [exact (CL_nil s)|]. cbn [sl_content]. apply frag_append_CL; auto. }
  destruct Hmm as (fm & tm & slm & -> & Hcm).
  destruct (apply_replace_normal _ _ _ _ _ _ Hn Hcm A3) as (Hnm & ty3 & a3 & mk3 & cs3 & csm & E3 & ->).
  inversion E3; subst ty3 a3 mk3 cs3.
  eapply NormalDoc_eq; eauto.
Qed.

(* ------------------------------------------------------------------ C17: both orders give equal documents *)
Theorem replace_steps_commute_eq f1 t1 s1 st1 f2 t2 s2 st2 doc da db dab dba :
  V doc -> NormalDoc doc ->
  OpenS s1 -> CL (sl_content s1) -> OpenS s2 -> CL (sl_content s2) ->
  f1 <= t1 -> t1 < f2 -> f2 <= t2 ->
  apply s (SReplace f1 t1 s1 st1) doc = ROk da ->
  apply s (SReplace f2 t2 s2 st2) doc = ROk db ->
  apply s (SReplace (f2 + length (IT s1) - (t1 - f1)) (t2 + length (IT s1) - (t1 - f1)) s2 false) da = ROk dab ->
  apply s (SReplace f1 t1 s1 false) db = ROk dba ->
  node_eqb dab dba = true.
Proof.
  intros Hd Hn Ho1 Hc1 Ho2 Hc2 H1 H12 H2 Aa Ab Aab Aba.
  destruct (replace_steps_commute s _ _ _ _ _ _ _ _ _ _ _ Hd Ho1 Ho2 H1 H12 H2 Aa Ab) as (_ & _ & HT).
  specialize (HT _ _ Aab Aba).
  destruct (apply_replace_normal _ _ _ _ _ _ Hn Hc1 Aa) as (Hna & ty & a & mk & cs & csa & -> & ->).
  destruct (apply_replace_normal _ _ _ _ _ _ Hn Hc2 Ab) as (Hnb & ty2 & a2 & mk2 & cs2 & csb & E2 & ->).
  inversion E2; subst ty2 a2 mk2 cs2.
  destruct (apply_replace_normal _ _ _ _ _ _ Hna Hc2 Aab) as (Hnab & ty3 & a3 & mk3 & cs3 & csab & E3 & ->).
  inversion E3; subst ty3 a3 mk3 cs3.
  destruct (apply_replace_normal _ _ _ _ _ _ Hnb Hc1 Aba) as (Hnba & ty4 & a4 & mk4 & cs4 & csba & E4 & ->).
  inversion E4; subst ty4 a4 mk4 cs4.
  eapply NormalDoc_eq; eauto.
Qed.

End WithSchema.
