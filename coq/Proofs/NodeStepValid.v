(* Attribute, node-mark and document-attribute steps never yield an invalid document (C01): the node Node.node_at
   finds in a valid document is valid, the updated node keeps a canonical mark set (CanonicalMarks.v), and the
   replacement goes through Node.replace (ReplaceValid.v). *)
From Coq Require Import ZArith NArith List Bool Arith Lia.
From PM Require Import Model.Data Model.Mark Model.Tree Model.Resolve Model.StepMap Model.Step Spec.Tokens
  Proofs.DataProofs Proofs.MarkProofs Proofs.JsonProofs Proofs.CanonicalMarks
  Proofs.ReplaceValid Proofs.SliceSides Proofs.TokenBasics Proofs.PathTokens Proofs.ReplaceTokens Proofs.SliceShape
  Proofs.StepFaithful Proofs.TokenLaws Proofs.StepAlgebra.
Import ListNotations.
Local Open Scope nat_scope.

Section WithSchema.
Variable s : schema.
Notation nsize := (node_size s).
Notation V := (V s).
Notation OpenS sl := (OpenOK s (sl_content sl) (sl_open_start sl) (sl_open_end sl)).

Lemma node_at_valid : forall fuel n pos c, V n -> node_at s fuel n pos = Ok (Some c) -> V c.
Proof.
  induction fuel as [|fuel IH]; intros n pos c Hn H; [discriminate|]. cbn [node_at] in H.
  destruct (find_index s (node_content n) pos) as [[index offset]|]; [|discriminate]. cbn [bind] in H.
  destruct (child_at n index) as [ch|] eqn:Ec; [|discriminate].
  assert (Hch : V ch).
  { destruct n as [t m|ty a m cs]; [destruct index; discriminate|]. unfold child_at in Ec. cbn [node_content] in Ec.
    apply (V_children s _ _ _ _ Hn). eapply nth_error_In. exact Ec. }
  destruct ((offset =? pos) || node_is_text ch); [inversion H; subst c; exact Hch|]. eapply IH; eauto.
Qed.

(* the schema fact used for leaf nodes: ContentMatch.empty (state 0 of the schema's table, the content match of every
   leaf type) is a valid end - a leaf type accepts the empty content *)
Definition empty_match_valid_end : Prop := valid_end s 0 = true.
Definition leaves_accept_empty : Prop := forall ty, is_leaf_ty s ty = true -> valid_content s ty [] = true.
Lemma leaves_accept_empty_of : empty_match_valid_end -> leaves_accept_empty.
Proof.
  intros H ty Hl. unfold is_leaf_ty in Hl. apply Nat.eqb_eq in Hl. unfold valid_content, match_fragment. rewrite Hl.
  cbn. rewrite andb_true_r. exact H.
Qed.

Lemma set_from_clean ms : Clean s ms -> set_from ms = ms.
Proof. intros [Hs _]. apply set_from_sorted. exact Hs. Qed.

(* the one-node slice a node step builds is acceptable to Node.replace *)
Lemma updated_slice_ok ty a m cs a' m' :
  leaves_accept_empty -> V (Elem ty a m cs) -> marks_canonical s m' = true ->
  OpenS (SL [Elem ty a' m' []] 0 (if is_leaf_ty s ty then 0 else 1)).
Proof.
  intros Hle Hn Hm. cbn [sl_content sl_open_start sl_open_end OpenOK].
  destruct (is_leaf_ty s ty) eqn:El; cbn [OpenR].
  - intros x [<-|[]]. unfold ReplaceValid.V. rewrite check_elem. rewrite (Hle ty El), Hm. reflexivity.
  - exists [], ty, a', m', []. split; [reflexivity|]. split; [split; [exact El|exact Hm]|]. split; intros x [].
Qed.

Theorem node_step_valid st pos doc d' :
  empty_match_valid_end -> V doc ->
  match st with SAddNodeMark p _ | SRemoveNodeMark p _ | SAttr p _ _ => p = pos | _ => False end ->
  apply s st doc = ROk d' -> V d'.
Proof.
  intros Hem Hd Hst H. pose proof (leaves_accept_empty_of Hem) as Hle.
  assert (G : forall upd, apply s st doc = node_step s doc pos upd tt ->
              (forall ty a m cs u, V (Elem ty a m cs) -> upd (Elem ty a m cs) = Ok u ->
                 exists a' m', u = Elem ty a' m' [] /\ marks_canonical s m' = true) ->
              (forall t mk u, upd (Text t mk) = Ok u -> False) -> V d').
  { intros upd Eap Hupd Htext. rewrite Eap in H. unfold node_step, lift in H.
    destruct (node_at s (S (nsize doc)) doc pos) as [[n|]|] eqn:En; try discriminate.
    destruct (upd n) as [updated|] eqn:Eu; [|discriminate].
    pose proof (node_at_valid _ _ _ _ Hd En) as Hn.
    destruct n as [t mk|ty a m cs]; [exfalso; eapply Htext; eauto|].
    destruct (Hupd _ _ _ _ _ Hn Eu) as (a' & m' & -> & Hm'). cbn [node_ty] in H.
    assert (Ha : apply s (SReplace pos (pos + 1) (SL [Elem ty a' m' []] 0 (if is_leaf_ty s ty then 0 else 1)) false) doc = ROk d').
    { cbn [apply]. unfold lift. exact H. }
    eapply (apply_replace_valid s); [exact Hd| |exact Ha]. eapply updated_slice_ok; eauto. }
  assert (Hcreate : forall ty a m cs at_ ms u, V (Elem ty a m cs) -> Clean s ms ->
            type_create s ty at_ [] ms = Ok u -> exists a' m', u = Elem ty a' m' [] /\ marks_canonical s m' = true).
  { intros ty a m cs at_ ms u Hn Hc Hu. unfold type_create in Hu. destruct (is_text_ty s ty); [discriminate|].
    destruct (compute_attrs _ _) as [a'|]; [|discriminate]. cbn [bind] in Hu. inversion Hu; subst u.
    exists a', (set_from ms). split; [reflexivity|]. rewrite (set_from_clean ms Hc). apply clean_canonical. exact Hc. }
  assert (Hmarks : forall ty a m cs, V (Elem ty a m cs) -> Clean s m).
  { intros ty a m cs Hn. apply canonical_clean. unfold ReplaceValid.V in Hn. rewrite check_elem in Hn.
    apply andb_prop in Hn. destruct Hn as [Hn _]. apply andb_prop in Hn. tauto. }
  assert (Htxt : forall ty at_ ms u t mk, ty = node_ty s (Text t mk) -> type_create s ty at_ [] ms = Ok u -> False).
  { intros ty at_ ms u t mk -> Hu. unfold type_create in Hu. cbn [node_ty] in Hu. unfold is_text_ty in Hu.
    rewrite Nat.eqb_refl in Hu. discriminate. }
  destruct st; try contradiction; subst; eapply G; try reflexivity.
  - intros ty a m0 cs u Hn Hu. cbn [node_ty node_attrs node_marks] in Hu.
    eapply Hcreate; [exact Hn| |exact Hu]. apply add_to_set_clean. eapply Hmarks; exact Hn.
  - intros t mk u Hu. eapply Htxt; [reflexivity|exact Hu].
  - intros ty a m0 cs u Hn Hu. cbn [node_ty node_attrs node_marks] in Hu.
    eapply Hcreate; [exact Hn| |exact Hu]. apply remove_from_set_clean. eapply Hmarks; exact Hn.
  - intros t mk u Hu. eapply Htxt; [reflexivity|exact Hu].
  - intros ty a m0 cs u Hn Hu. cbn [node_ty node_attrs node_marks] in Hu.
    eapply Hcreate; [exact Hn| |exact Hu]. eapply Hmarks; exact Hn.
  - intros t mk u Hu. eapply Htxt; [reflexivity|exact Hu].
Qed.

(* a DocAttrStep changes the root's attributes only: validity does not look at them *)
Theorem doc_attr_step_valid attr value doc d' : V doc -> apply s (SDocAttr attr value) doc = ROk d' -> V d'.
Proof.
  intros Hd H. cbn [apply] in H. unfold lift, type_create in H.
  destruct (is_text_ty s (node_ty s doc)) eqn:Et; [discriminate|].
  destruct (compute_attrs _ _) as [a'|]; [|discriminate]. cbn [bind] in H. inversion H; subst d'.
  destruct doc as [t mk|ty a m cs]; cbn [node_ty node_content node_marks] in *.
  { unfold is_text_ty in Et. rewrite Nat.eqb_refl in Et. discriminate. }
  unfold ReplaceValid.V in *. rewrite check_elem in *.
  apply andb_prop in Hd. destruct Hd as [Hd Hc]. apply andb_prop in Hd. destruct Hd as [Hv Hm].
  pose proof (canonical_clean s m Hm) as Hcl. rewrite (set_from_clean m Hcl), Hv, Hm, Hc. reflexivity.
Qed.

End WithSchema.
