(* find_diff_start reports the true first difference (C20): for fragments in normal form whose text has no
   lone surrogate code points, the reported position is the start position plus the length of the longest
   common prefix of the two markup-annotated token sequences (Spec/DiffSpec.v). *)
From Coq Require Import ZArith NArith List Bool Arith Lia.
From PM Require Import Model.Data Model.Mark Model.Tree Spec.Tokens Spec.DiffSpec Model.Diff
  Proofs.DataProofs Proofs.NodeInd Proofs.DiffProofs Proofs.TokenBasics Proofs.ReplaceTokens Proofs.TokenInj Proofs.ReplaceCanon.
Import ListNotations.
Local Open Scope nat_scope.

Section WithSchema.
Variable s : schema.
Notation nsize := (node_size s).
Notation fsize := (frag_size s).
Notation atoks := (atoks s).
Notation aftoks := (aftoks s).
Notation canon := (canon s).
Notation canon_list := (canon_list s).
Notation fds := (find_diff_start s never).
Notation nds := (node_diff_start s never).

(* a Unicode code point (< 0x110000) that is not a lone surrogate (D800..DFFF) *)
Definition ok_cp (c : N) : bool := ((N.ltb c 55296 || N.ltb 57343 c) && N.ltb c 1114112)%N.
Definition ok_text (t : cps) : bool := forallb ok_cp t.
Fixpoint ok_node (n : node) : bool :=
  match n with
  | Text t _ => ok_text t
  | Elem _ _ _ cs => (fix go (l : list node) : bool := match l with [] => true | c :: r => ok_node c && go r end) cs
  end.
Fixpoint ok_list (l : list node) : bool := match l with [] => true | c :: r => ok_node c && ok_list r end.
Lemma ok_node_elem ty a m cs : ok_node (Elem ty a m cs) = ok_list cs.
Proof. reflexivity. Qed.

(* ------------------------------------------------------------------ text *)
Definition vals (t : cps) : list N := List.map unit_val (units t).

(* the 16-bit values determine the text when there are no lone surrogates *)
Lemma vals_inj : forall t t', ok_text t = true -> ok_text t' = true -> vals t = vals t' -> t = t'.
Proof.
  induction t as [|c t IH]; intros [|c' t'] Ht Ht' H.
  - reflexivity.
  - unfold vals in H. cbn [units] in H. destruct (N.leb 65536 c'); discriminate.
  - unfold vals in H. cbn [units] in H. destruct (N.leb 65536 c); discriminate.
  - cbn [ok_text forallb] in Ht, Ht'. apply andb_prop in Ht, Ht'. destruct Ht as [Hc Ht]. destruct Ht' as [Hc' Ht'].
    unfold ok_cp in Hc, Hc'. apply andb_prop in Hc, Hc'. destruct Hc as [Hc Hu]. destruct Hc' as [Hc' Hu'].
    apply N.ltb_lt in Hu, Hu'. unfold vals in H. cbn [units] in H.
    destruct (N.leb_spec 65536 c) as [L|L]; destruct (N.leb_spec 65536 c') as [L'|L']; cbn [List.map] in H.
    + assert (H1 : unit_val (UHi c) = unit_val (UHi c')) by (exact (f_equal (hd 0%N) H)).
      assert (H2 : unit_val (ULo c) = unit_val (ULo c')) by (exact (f_equal (fun l => hd 0%N (tl l)) H)).
      assert (H3 : List.map unit_val (units t) = List.map unit_val (units t')) by (exact (f_equal (fun l => tl (tl l)) H)).
      unfold unit_val in H1, H2.
      pose proof (N.div_mod (c - 65536) 1024 ltac:(discriminate)) as D1.
      pose proof (N.div_mod (c' - 65536) 1024 ltac:(discriminate)) as D2.
      set (q := ((c - 65536) / 1024)%N) in *. set (r := ((c - 65536) mod 1024)%N) in *.
      set (q' := ((c' - 65536) / 1024)%N) in *. set (r' := ((c' - 65536) mod 1024)%N) in *.
      assert (c = c') by lia. subst c'. f_equal. apply IH; auto.
    + exfalso. assert (H1 : unit_val (UHi c) = unit_val (UBmp c')) by (exact (f_equal (hd 0%N) H)).
      unfold unit_val in H1.
      pose proof (N.div_mod (c - 65536) 1024 ltac:(discriminate)) as D1.
      pose proof (N.mod_lt (c - 65536) 1024 ltac:(discriminate)) as D2.
      set (q := ((c - 65536) / 1024)%N) in *. set (r := ((c - 65536) mod 1024)%N) in *.
      apply orb_prop in Hc'. destruct Hc' as [E|E]; apply N.ltb_lt in E; lia.
    + exfalso. assert (H1 : unit_val (UBmp c) = unit_val (UHi c')) by (exact (f_equal (hd 0%N) H)).
      unfold unit_val in H1.
      pose proof (N.div_mod (c' - 65536) 1024 ltac:(discriminate)) as D1.
      pose proof (N.mod_lt (c' - 65536) 1024 ltac:(discriminate)) as D2.
      set (q := ((c' - 65536) / 1024)%N) in *. set (r := ((c' - 65536) mod 1024)%N) in *.
      apply orb_prop in Hc. destruct Hc as [E|E]; apply N.ltb_lt in E; lia.
    + assert (H1 : unit_val (UBmp c) = unit_val (UBmp c')) by (exact (f_equal (hd 0%N) H)).
      assert (H3 : List.map unit_val (units t) = List.map unit_val (units t')) by (exact (f_equal (@tl N) H)).
      unfold unit_val in H1. subst c'. f_equal. apply IH; auto.
Qed.

Definition achars (m : list mark) (l : list unit16) : list atok := List.map (fun u => AChar (unit_val u) m) l.

(* what follows a run of text tokens does not continue it *)
Definition NoChar (m : list mark) (R : list atok) : Prop :=
  match R with AChar _ m' :: _ => marks_eqb m' m = false | _ => True end.

Lemma lcp_achars m m' : marks_eqb m m' = true -> forall U U' Rx Ry,
  NoChar m' Rx -> NoChar m Ry ->
  List.map unit_val U <> List.map unit_val U' ->
  lcp (achars m U ++ Rx) (achars m' U' ++ Ry) = lcp_units U U'.
Proof.
  intros Hm. induction U as [|u U IH]; intros U' Rx Ry N1 N2 Hne.
  - destruct U' as [|u' U']; [contradiction|]. cbn [achars List.map app lcp_units].
    destruct Rx as [|x Rx]; [reflexivity|]. cbn [lcp]. destruct x as [| | |v mx]; try reflexivity.
    cbn [NoChar] in N1. cbn [atok_eqb]. rewrite N1, andb_false_r. reflexivity.
  - destruct U' as [|u' U'].
    + cbn [achars List.map app lcp_units]. destruct Ry as [|y Ry]; [reflexivity|]. cbn [lcp]. destruct y as [| | |v my]; try reflexivity.
      cbn [NoChar] in N2. cbn [atok_eqb]. rewrite marks_eqb_sym, N2, andb_false_r. reflexivity.
    + cbn [achars List.map app lcp lcp_units atok_eqb]. unfold unit_eqb. rewrite Hm, andb_true_r.
      destruct (N.eqb (unit_val u) (unit_val u')) eqn:E; [|reflexivity]. f_equal. apply IH; auto.
      apply N.eqb_eq in E. intros Heq. apply Hne. cbn [List.map]. rewrite E, Heq. reflexivity.
Qed.

(* ------------------------------------------------------------------ equal-up-to-== token lists *)
Fixpoint alleq (a b : list atok) : bool :=
  match a, b with
  | [], [] => true
  | x :: a', y :: b' => atok_eqb x y && alleq a' b'
  | _, _ => false
  end.
Lemma lcp_alleq : forall a b Ra Rb, alleq a b = true -> lcp (a ++ Ra) (b ++ Rb) = length a + lcp Ra Rb.
Proof.
  induction a as [|x a IH]; intros [|y b] Ra Rb H; try discriminate; [reflexivity|].
  cbn [alleq] in H. apply andb_prop in H. destruct H as [H1 H2]. cbn [app lcp length]. rewrite H1. cbn [Nat.add]. f_equal. apply IH. exact H2.
Qed.
Lemma alleq_app a b c d : alleq a b = true -> alleq c d = true -> alleq (a ++ c) (b ++ d) = true.
Proof.
  revert b. induction a as [|x a IH]; intros [|y b] H1 H2; try discriminate; [exact H2|].
  cbn [alleq] in H1. apply andb_prop in H1. destruct H1 as [E1 E2]. cbn [app alleq]. rewrite E1. apply IH; auto.
Qed.
Lemma alleq_achars m m' U : marks_eqb m m' = true -> alleq (achars m U) (achars m' U) = true.
Proof. intros Hm. induction U as [|u U IH]; [reflexivity|]. cbn [achars List.map alleq atok_eqb]. rewrite N.eqb_refl, Hm. exact IH. Qed.

Lemma atoks_length : forall n, length (atoks n) = nsize n.
Proof.
  induction n as [t m|ty a m cs IH] using node_ind2.
  - cbn [DiffSpec.atoks node_size]. rewrite map_length. apply units_length.
  - cbn [DiffSpec.atoks]. rewrite node_size_elem. destruct (is_leaf_ty s ty); [reflexivity|].
    cbn [length]. rewrite app_length. cbn [length]. f_equal.
    assert (G : length ((fix go (l : list node) : list atok := match l with [] => [] | c :: r => atoks c ++ go r end) cs) = fsize cs).
    { clear -IH. induction cs as [|c r IHr]; [reflexivity|]. cbn [frag_size]. rewrite app_length, (IH c (or_introl eq_refl)).
      f_equal. apply IHr. intros x Hx. apply IH. right. exact Hx. }
    rewrite G. lia.
Qed.
Lemma aftoks_elem ty a m cs :
  atoks (Elem ty a m cs) = if is_leaf_ty s ty then [ALeaf ty a m] else AOpen ty a m :: aftoks cs ++ [AClose ty a m].
Proof.
  cbn [DiffSpec.atoks]. destruct (is_leaf_ty s ty); reflexivity.
Qed.

(* the first token of a node in normal form; it is never a close token, and two nodes with different markup
   start with tokens that differ *)
Lemma first_atok n : canon n = true -> exists t r, atoks n = t :: r /\ match t with AClose _ _ _ => False | _ => True end.
Proof.
  destruct n as [t m|ty a m cs]; intros H.
  - cbn [DiffSpec.atoks]. destruct t as [|c t]; [discriminate|]. cbn [units].
    destruct (N.leb 65536 c); cbn [List.map]; eexists _, _; (split; [reflexivity|exact I]).
  - rewrite aftoks_elem. destruct (is_leaf_ty s ty); eexists _, _; (split; [reflexivity|exact I]).
Qed.

Lemma lcp_diff_markup x y Rx Ry : canon x = true -> canon y = true -> same_markup x y = false ->
  lcp (atoks x ++ Rx) (atoks y ++ Ry) = 0.
Proof.
  intros Cx Cy Hm. destruct x as [t m|ty a mk cs]; destruct y as [t' m'|ty' a' mk' cs'].
  - cbn [same_markup] in Hm. cbn [DiffSpec.atoks]. destruct t as [|c t]; [discriminate|]. destruct t' as [|c' t']; [discriminate|].
    cbn [units]. destruct (N.leb 65536 c); destruct (N.leb 65536 c'); cbn [List.map app lcp atok_eqb]; rewrite Hm, andb_false_r; reflexivity.
  - rewrite aftoks_elem. cbn [DiffSpec.atoks]. destruct t as [|c t]; [discriminate|]. cbn [units].
    destruct (N.leb 65536 c); destruct (is_leaf_ty s ty'); reflexivity.
  - rewrite aftoks_elem. cbn [DiffSpec.atoks]. destruct t' as [|c t']; [discriminate|]. cbn [units].
    destruct (N.leb 65536 c); destruct (is_leaf_ty s ty); reflexivity.
  - cbn [same_markup] in Hm. rewrite !aftoks_elem.
    destruct (is_leaf_ty s ty) eqn:L1; destruct (is_leaf_ty s ty') eqn:L2; cbn [app lcp atok_eqb]; try reflexivity; rewrite Hm; reflexivity.
Qed.

(* ------------------------------------------------------------------ the scan *)
Definition TermA (R : list atok) : Prop := match R with [] => True | AClose _ _ _ :: _ => True | _ => False end.

Lemma TermA_NoChar m R : TermA R -> NoChar m R.
Proof. destruct R as [|[| | |]]; cbn; auto; contradiction. Qed.

(* what follows a text node inside a list in normal form *)
Lemma NoChar_after t m r R m' : canon_list (Text t m :: r) = true -> TermA R -> marks_eqb m m' = true ->
  NoChar m' (aftoks r ++ R).
Proof.
  intros Hc HT Hm. destruct r as [|[t2 m2|ty2 a2 mk2 cs2] r'].
  - cbn [DiffSpec.aftoks app]. apply TermA_NoChar. exact HT.
  - apply (CL_cons2 s) in Hc. destruct Hc as (_ & Hs & Hr). cbn [seam] in Hs.
    assert (Ht2 : CN s (Text t2 m2)) by (eapply CL_head; exact Hr). unfold CN in Ht2. cbn in Ht2.
    cbn [DiffSpec.aftoks DiffSpec.atoks]. destruct t2 as [|c t2]; [discriminate|]. cbn [units].
    destruct (marks_eqb m2 m') eqn:E.
    + exfalso. rewrite marks_eqb_sym in E. rewrite (marks_eqb_trans _ _ _ Hm E) in Hs. discriminate.
    + destruct (N.leb 65536 c); cbn; exact E.
  - cbn [DiffSpec.aftoks]. rewrite aftoks_elem. destruct (is_leaf_ty s ty2); exact I.
Qed.

Definition NodeSpec (x : node) : Prop :=
  forall y pos Rx Ry, same_markup x y = true -> canon x = true -> canon y = true -> ok_node x = true -> ok_node y = true ->
    (forall t m, x = Text t m -> forall m', marks_eqb m m' = true -> NoChar m' Rx) ->
    (forall t m, y = Text t m -> forall m', marks_eqb m' m = true -> NoChar m' Ry) ->
    match nds x y pos with
    | Some p => pos <= p /\ lcp (atoks x ++ Rx) (atoks y ++ Ry) = p - pos
    | None => alleq (atoks x) (atoks y) = true
    end.

Lemma list_spec : forall a, (forall x, In x a -> NodeSpec x) ->
  forall b pos Ra Rb, canon_list a = true -> canon_list b = true -> ok_list a = true -> ok_list b = true ->
    TermA Ra -> TermA Rb ->
    match fds a b pos with
    | Some p => pos <= p /\ lcp (aftoks a ++ Ra) (aftoks b ++ Rb) = p - pos
    | None => alleq (aftoks a) (aftoks b) = true
    end.
Proof.
  induction a as [|x a IH]; intros Ha b pos Ra Rb Ca Cb Oa Ob Ta Tb.
  - destruct b as [|y b]; cbn [find_diff_start]; [reflexivity|]. split; [lia|]. rewrite Nat.sub_diag.
    destruct (canon_list_cons s _ _ Cb) as (Cy & _). destruct (first_atok y Cy) as (t & r & E & Ht).
    cbn [DiffSpec.aftoks app]. rewrite E. cbn [app]. destruct Ra as [|ra Ra']; [reflexivity|].
    cbn [lcp]. destruct ra; try contradiction. destruct t; try contradiction; reflexivity.
  - destruct (canon_list_cons s _ _ Ca) as (Cx & Ca').
    destruct b as [|y b]; cbn [find_diff_start].
    { split; [lia|]. rewrite Nat.sub_diag. destruct (first_atok x Cx) as (t & r & E & Ht).
      cbn [DiffSpec.aftoks app]. rewrite E. cbn [app]. destruct Rb as [|rb Rb']; [destruct t; reflexivity|].
      cbn [lcp]. destruct rb; try contradiction. destruct t; try contradiction; reflexivity. }
    destruct (canon_list_cons s _ _ Cb) as (Cy & Cb').
    cbn [ok_list] in Oa, Ob. apply andb_prop in Oa, Ob. destruct Oa as [Ox Oa']. destruct Ob as [Oy Ob'].
    unfold never at 1. cbn [DiffSpec.aftoks]. rewrite <- !app_assoc.
    destruct (same_markup x y) eqn:Em; cbn [negb].
    + assert (Hx := Ha x (or_introl eq_refl) y pos (aftoks a ++ Ra) (aftoks b ++ Rb) Em Cx Cy Ox Oy).
      assert (N1 : forall t m, x = Text t m -> forall m', marks_eqb m m' = true -> NoChar m' (aftoks a ++ Ra)).
      { intros t m -> m' Hm. eapply NoChar_after; eauto. }
      assert (N2 : forall t m, y = Text t m -> forall m', marks_eqb m' m = true -> NoChar m' (aftoks b ++ Rb)).
      { intros t m -> m' Hm. eapply NoChar_after; eauto. rewrite marks_eqb_sym. exact Hm. }
      specialize (Hx N1 N2). destruct (nds x y pos) as [p|] eqn:En; [exact Hx|].
      assert (IHa := IH (fun z Hz => Ha z (or_intror Hz)) b (pos + nsize x) Ra Rb Ca' Cb' Oa' Ob' Ta Tb).
      rewrite (lcp_alleq _ _ _ _ Hx), atoks_length.
      destruct (fds a b (pos + nsize x)) as [p|].
      * destruct IHa as (H1 & H2). split; [lia|]. rewrite H2. lia.
      * apply alleq_app; assumption.
    + split; [lia|]. rewrite Nat.sub_diag. apply lcp_diff_markup; auto.
Qed.

Theorem node_spec : forall x, NodeSpec x.
Proof.
  induction x as [t m|ty a m cs IH] using node_ind2; intros y pos Rx Ry Em Cx Cy Ox Oy N1 N2.
  - destruct y as [t' m'|]; [|discriminate]. cbn [same_markup] in Em. cbn [node_diff_start DiffSpec.atoks].
    fold (achars m (units t)). fold (achars m' (units t')).
    destruct (cps_eqb t t') eqn:Et.
    + apply cps_eqb_eq in Et. subst t'. apply alleq_achars. exact Em.
    + split; [lia|]. replace (pos + lcp_units (units t) (units t') - pos) with (lcp_units (units t) (units t')) by lia.
      apply lcp_achars; auto.
      * apply (N1 t m eq_refl m' Em).
      * apply (N2 t' m' eq_refl m). exact Em.
      * intros Hv. cbn [ok_node] in Ox, Oy. pose proof (vals_inj t t' Ox Oy Hv) as E. subst t'. rewrite cps_eqb_refl in Et. discriminate.
  - destruct y as [|ty' a' m' cs']; [discriminate|]. rewrite nds_elem.
    cbn [same_markup] in Em. apply andb_prop in Em. destruct Em as [Em Emm]. apply andb_prop in Em. destruct Em as [Et Ea].
    apply Nat.eqb_eq in Et. subst ty'.
    rewrite canon_elem in Cx, Cy. apply andb_prop in Cx, Cy. destruct Cx as [Lx Cx]. destruct Cy as [Ly Cy].
    rewrite ok_node_elem in Ox, Oy. rewrite !aftoks_elem.
    destruct (is_leaf_ty s ty) eqn:El.
    + destruct cs; [|discriminate]. destruct cs'; [|discriminate]. cbn. rewrite Nat.eqb_refl, Ea, Emm. reflexivity.
    + destruct ((fsize cs =? 0) && (fsize cs' =? 0)) eqn:Ez.
      * apply andb_prop in Ez. destruct Ez as [E1 E2]. apply Nat.eqb_eq in E1, E2.
        assert (Hnil : forall l, canon_list l = true -> fsize l = 0 -> l = []).
        { intros [|c l] Hc Hs; [reflexivity|]. exfalso. destruct (canon_list_cons s _ _ Hc) as (Hcc & _).
          pose proof (CN_size_pos s c Hcc). cbn [frag_size] in Hs. lia. }
        rewrite (Hnil cs Cx E1), (Hnil cs' Cy E2). cbn. rewrite Nat.eqb_refl, Ea, Emm. reflexivity.
      * assert (HL := list_spec cs IH cs' (pos + 1) (AClose ty a m :: Rx) (AClose ty a' m' :: Ry) Cx Cy Ox Oy I I).
        cbn [app lcp atok_eqb]. rewrite Nat.eqb_refl, Ea, Emm. cbn [andb]. rewrite <- !app_assoc. cbn [app].
        destruct (fds cs cs' (pos + 1)) as [p|].
        -- destruct HL as (H1 & H2). split; [lia|]. rewrite H2. lia.
        -- cbn [alleq atok_eqb]. rewrite Nat.eqb_refl, Ea, Emm. cbn [andb]. apply alleq_app; [exact HL|].
           cbn. rewrite Nat.eqb_refl, Ea, Emm. reflexivity.
Qed.

(* the theorem: the reported position is the start position plus the length of the common token prefix *)
Theorem find_diff_start_position a b pos p :
  canon_list a = true -> canon_list b = true -> ok_list a = true -> ok_list b = true ->
  fds a b pos = Some p -> pos <= p /\ p - pos = lcp (aftoks a) (aftoks b).
Proof.
  intros Ca Cb Oa Ob H.
  pose proof (list_spec a (fun x _ => node_spec x) b pos [] [] Ca Cb Oa Ob I I) as HL. rewrite H in HL.
  rewrite !app_nil_r in HL. destruct HL as (H1 & H2). split; [exact H1|]. symmetry. exact H2.
Qed.

End WithSchema.
