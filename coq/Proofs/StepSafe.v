(* No step dies with an internal error (C01): for an element document, Step.apply of every step type - whatever the
   positions, slice, insert offset, mark or attribute, as a peer may send them - returns a document, fails, or
   raises in the ValueError family; it never takes an internal-error branch (IndexError, AttributeError, assertion,
   exhausted recursion).  Built on Proofs/ReplaceSafe.v (Node.replace). *)
From Coq Require Import ZArith NArith List Bool Arith Lia.
From PM Require Import Model.Data Model.Mark Model.Tree Model.Resolve Model.StepMap Model.Step Spec.Tokens
  Proofs.DataProofs Proofs.NodeInd Proofs.ReplaceValid Proofs.SliceSides Proofs.TokenBasics Proofs.PathTokens Proofs.ReplaceTokens Proofs.SliceCut
  Proofs.AroundTokens Proofs.ReplaceSafe.
Import ListNotations.
Local Open Scope nat_scope.

Section WithSchema.
Variable s : schema.
Notation nsize := (node_size s).
Notation fsize := (frag_size s).

Definition SNI (r : sresult) : Prop := forall e, r = RErr e -> e = ErrReplace \/ e = ErrValue.
Lemma SNI_fail : SNI RFail. Proof. intros e H. discriminate. Qed.
Lemma SNI_ok d : SNI (ROk d). Proof. intros e H. discriminate. Qed.
Lemma lift_SNI {A} (r : res A) k : NI r -> (forall a, r = Ok a -> SNI (k a)) -> SNI (lift r k).
Proof.
  intros Hr Hk. destruct r as [a|e]; cbn [lift]; [apply Hk; reflexivity|]. intros e' E. inversion E; subst. apply Hr. reflexivity.
Qed.
Lemma from_replace_SNI doc from to sl : is_elem doc -> SNI (from_replace s doc from to sl).
Proof.
  intros He. unfold from_replace. pose proof (node_replace_NI s doc from to sl He) as Hn.
  destruct (node_replace s doc from to sl) as [d|e]; [apply SNI_ok|].
  destruct e; try apply SNI_fail; intros e' E; inversion E; subst; apply Hn; reflexivity.
Qed.

(* ------------------------------------------------------------------ find_index *)
Lemma find_index_go_NI : forall l i cur pos, cur < pos -> pos <= cur + fsize l -> NI (find_index_go s l i cur pos).
Proof.
  induction l as [|c r IH]; intros i cur pos Hlt H; cbn [find_index_go].
  - cbn [frag_size] in H. lia.
  - cbv zeta. cbn [frag_size] in H. destruct (pos <=? cur + nsize c) eqn:E.
    + destruct (cur + nsize c =? pos); apply NI_ok.
    + apply Nat.leb_gt in E. apply IH; lia.
Qed.
Lemma find_index_NI l pos : NI (find_index s l pos).
Proof.
  unfold find_index. destruct (pos =? 0) eqn:E0; [apply NI_ok|]. destruct (pos =? fsize l); [apply NI_ok|].
  destruct (fsize l <? pos) eqn:E; [ni_err|]. apply Nat.ltb_ge in E. apply Nat.eqb_neq in E0.
  apply find_index_go_NI; lia.
Qed.

(* ------------------------------------------------------------------ content_between *)
Lemma rp_index_after_NI r d : WP s r -> d <= rp_depth r -> NI (rp_index_after r d).
Proof. intros H Hd. unfold rp_index_after. apply NI_bind; [apply (rp_index_NI s); assumption|intros; apply NI_ok]. Qed.

Lemma cb_up_spec r : WP s r -> forall depth dist, depth <= rp_depth r ->
  NI (cb_up r dist depth) /\ forall d2 k, cb_up r dist depth = Ok (d2, k) -> k <= rp_depth r.
Proof.
  intros Hw. induction depth as [|d IH]; intros dist Hd; cbn [cb_up].
  - split; [apply NI_ok|]. intros d2 k H. inversion H. lia.
  - destruct (dist =? 0); [split; [apply NI_ok|intros d2 k H; inversion H; lia]|].
    destruct (WP_at s r (S d) Hw Hd) as (n & i & o & _ & _ & _ & En & Ei & _).
    unfold rp_index_after. rewrite Ei, En. cbn [bind].
    destruct (_ =? length (node_content n)); [apply IH; lia|split; [apply NI_ok|intros d2 k H; inversion H; lia]].
Qed.

Lemma content_between_NI doc from to : is_elem doc -> NI (content_between s doc from to).
Proof.
  intros He. unfold content_between.
  destruct (resolve s doc from) as [r|e] eqn:Er.
  2:{ cbn [bind]. pose proof (resolve_NI s doc from He) as Hn. rewrite Er in Hn. exact (NI_cast _ Hn). }
  cbn [bind]. destruct (resolve_WP s doc from r He Er) as (Hw & _).
  destruct (cb_up_spec r Hw (rp_depth r) (to - from) (le_n _)) as (Hni & Hk).
  apply NI_bind; [exact Hni|]. intros [dist depth] Edd. specialize (Hk _ _ Edd).
  destruct (dist =? 0); [apply NI_ok|].
  apply NI_bind; [apply (rp_node_NI s); assumption|]. intros n _.
  apply NI_bind; [apply rp_index_after_NI; assumption|intros; apply NI_ok].
Qed.

(* ------------------------------------------------------------------ Node.slice *)
Lemma rp_start_at r d : WP s r -> d <= rp_depth r -> exists st, rp_start r d = Ok st.
Proof.
  intros Hw Hd. destruct d as [|d']; [cbn; eauto|]. cbn [rp_start].
  destruct (WP_at s r d' Hw ltac:(lia)) as (n & i & o & _ & _ & _ & _ & _ & Eo & _). rewrite Eo. cbn [bind]. eauto.
Qed.

Lemma shared_depth_go_spec r pos : WP s r -> forall d, d <= rp_depth r ->
  exists k, shared_depth_go s r pos d = Ok k /\ k <= d /\
    (0 < k -> exists st n, rp_start r k = Ok st /\ rp_node r k = Ok n /\ st <= pos /\ pos <= st + fsize (node_content n)).
Proof.
  intros Hw. induction d as [|d IH]; intros Hd; cbn [shared_depth_go].
  - exists 0. split; [reflexivity|]. split; [lia|]. intros H; lia.
  - destruct (rp_start_at r (S d) Hw Hd) as (st & Est). rewrite Est. cbn [bind].
    destruct (WP_at s r (S d) Hw Hd) as (n & i & o & _ & _ & _ & En & _).
    unfold rp_end. rewrite Est, En. cbn [bind].
    destruct ((st <=? pos) && (pos <=? st + fsize (node_content n))) eqn:E.
    + apply andb_prop in E. destruct E as [E1 E2]. apply Nat.leb_le in E1, E2.
      exists (S d). split; [reflexivity|]. split; [lia|]. intros _. exists st, n. auto.
    + destruct (IH ltac:(lia)) as (k & Ek & Hk & Hsp). exists k. split; [exact Ek|]. split; [lia|exact Hsp].
Qed.

Lemma node_slice_NI doc from to : is_elem doc -> NI (node_slice s doc from to).
Proof.
  intros He. unfold node_slice. destruct (from =? to); [apply NI_ok|].
  destruct (resolve s doc from) as [rf|e] eqn:Ef.
  2:{ cbn [bind]. pose proof (resolve_NI s doc from He) as Hn. rewrite Ef in Hn. exact (NI_cast _ Hn). }
  cbn [bind]. destruct (resolve s doc to) as [rt|e] eqn:Et.
  2:{ cbn [bind]. pose proof (resolve_NI s doc to He) as Hn. rewrite Et in Hn. exact (NI_cast _ Hn). }
  cbn [bind]. destruct (resolve_WP s doc from rf He Ef) as (Wf & _).
  destruct (shared_depth_go_spec rf to Wf (rp_depth rf) (le_n _)) as (k & Ek & Hk & Hsp).
  unfold shared_depth. rewrite Ek. cbn [bind].
  destruct (rp_start_at rf k Wf Hk) as (st & Est). rewrite Est. cbn [bind].
  destruct (WP_at s rf k Wf Hk) as (n & i & o & Hp & _ & _ & En & _). rewrite En. cbn [bind].
  apply NI_bind; [|intros; apply NI_ok]. apply frag_cut_NI.
  destruct k as [|k'].
  - (* the root: to <= size of the document *)
    cbn in Est. inversion Est; subst st. rewrite Nat.sub_0_r.
    destruct (resolve_tokens s _ _ _ Et) as (Hto & _).
    destruct (resolve_spec s _ _ _ Ef) as (_ & _ & _ & (i0 & o0 & rest & Hh) & _).
    unfold path_at in Hp. rewrite Hh in Hp. cbn in Hp. inversion Hp; subst n. exact Hto.
  - destruct (Hsp ltac:(lia)) as (st' & n' & Est' & En' & H1 & H2). rewrite Est in Est'. rewrite En in En'.
    inversion Est'; inversion En'; subst. lia.
Qed.

(* ------------------------------------------------------------------ insert_at *)
Lemma insert_into_NI : forall fuel content dist ins, fsize content < fuel -> NI (insert_into s fuel content dist ins).
Proof.
  induction fuel as [|fuel IH]; intros content dist ins Hf; [lia|]. cbn [insert_into].
  destruct (find_index s content dist) as [[index offset]|e] eqn:Efi.
  2:{ cbn [bind]. pose proof (find_index_NI content dist) as Hn. rewrite Efi in Hn. exact (NI_cast _ Hn). }
  cbn [bind]. destruct (find_index_spec s _ _ _ _ Efi) as (Hoff & Hidx & Hle & Hpos).
  assert (Hcuts : NI (do a <- frag_cut s content 0 dist; do b <- frag_cut s content dist (fsize content);
                      Ok (Some (frag_append (frag_append a ins) b)))).
  { apply NI_bind; [apply frag_cut_NI; exact Hle|]. intros a _.
    apply NI_bind; [apply frag_cut_NI; apply le_n|intros; apply NI_ok]. }
  destruct ((offset =? dist) || match nth_error content index with Some c => node_is_text c | None => false end) eqn:Ec.
  - destruct (nth_error content index) as [c|] eqn:En; [exact Hcuts|].
    destruct (offset =? dist) eqn:Eo; [exact Hcuts|]. apply Nat.eqb_neq in Eo.
    destruct Hpos as [Hp|(c & Hc & _)]; [lia|]. discriminate Hc.
  - apply orb_false_elim in Ec. destruct Ec as [Eo _]. apply Nat.eqb_neq in Eo.
    destruct Hpos as [Hp|(c & Hc & Hin)]; [lia|]. rewrite Hc.
    apply NI_bind; [|intros inner _; destruct inner; apply NI_ok].
    apply IH.
    (* the child is smaller than the content it lies in *)
    assert (Hcs : nsize c <= fsize content).
    { rewrite (split_at_index content index c Hc). rewrite frag_size_app. cbn [frag_size]. lia. }
    destruct c as [t m|ty a m cs]; cbn [node_content]; [cbn; lia|].
    pose proof (node_size_elem s ty a m cs) as Hs. destruct (is_leaf_ty s ty); lia.
Qed.

Lemma insert_at_NI sl pos frag : NI (insert_at s sl pos frag).
Proof.
  unfold insert_at. apply NI_bind; [apply insert_into_NI; lia|]. intros c _. destruct c; apply NI_ok.
Qed.

(* ------------------------------------------------------------------ Node.node_at *)
(* leaf-typed nodes have no children (what every constructor and parser produces; part of the normal form) *)
Fixpoint leaves_empty (n : node) : Prop :=
  match n with
  | Text _ _ => True
  | Elem ty _ _ cs =>
    (is_leaf_ty s ty = true -> cs = []) /\
    (fix all (l : list node) : Prop := match l with [] => True | c :: r => leaves_empty c /\ all r end) cs
  end.
Fixpoint leaves_empty_b (n : node) : bool :=
  match n with
  | Text _ _ => true
  | Elem ty _ _ cs =>
    (if is_leaf_ty s ty then match cs with [] => true | _ => false end else true) &&
    (fix all (l : list node) : bool := match l with [] => true | c :: r => leaves_empty_b c && all r end) cs
  end.
Lemma leaves_empty_b_spec : forall n, leaves_empty_b n = true -> leaves_empty n.
Proof.
  induction n as [t m|ty a m cs IH] using node_ind2; intros H; [exact I|]. cbn [leaves_empty_b] in H. apply andb_prop in H.
  destruct H as [H1 H2]. cbn [leaves_empty]. split.
  - intros El. rewrite El in H1. destruct cs; [reflexivity|discriminate].
  - clear H1. induction cs as [|c cs IHcs]; [exact I|]. apply andb_prop in H2. destruct H2 as [Hc Hr].
    split; [apply IH; [left; reflexivity|exact Hc]|apply IHcs; [intros x Hx; apply IH; right; exact Hx|exact Hr]].
Qed.

Lemma leaves_empty_child ty a m cs c : leaves_empty (Elem ty a m cs) -> In c cs -> leaves_empty c.
Proof.
  cbn [leaves_empty]. intros (_ & H) Hin. induction cs as [|x cs IH]; [destruct Hin|].
  destruct H as (Hx & Hr). destruct Hin as [<-|Hin]; [exact Hx|apply IH; assumption].
Qed.

Lemma node_at_NI : forall fuel n pos, leaves_empty n -> nsize n < fuel -> NI (node_at s fuel n pos).
Proof.
  induction fuel as [|fuel IH]; intros n pos Hle Hf; [lia|]. cbn [node_at].
  apply NI_bind; [apply find_index_NI|]. intros [index offset] _.
  destruct (child_at n index) as [c|] eqn:Ec; [|apply NI_ok].
  destruct ((offset =? pos) || node_is_text c); [apply NI_ok|].
  destruct n as [t m|ty a m cs]; [destruct index; discriminate|]. unfold child_at in Ec. cbn [node_content] in Ec.
  assert (Hin : In c cs) by (eapply nth_error_In; exact Ec).
  apply IH; [eapply leaves_empty_child; eauto|].
  assert (Hcs : nsize c <= fsize cs).
  { rewrite (split_at_index cs index c Ec). rewrite frag_size_app. cbn [frag_size]. lia. }
  pose proof (node_size_elem s ty a m cs) as Hs. destruct (is_leaf_ty s ty) eqn:El; [|lia].
  destruct Hle as (Hnil & _). rewrite (Hnil El) in Hin. destruct Hin.
Qed.

(* ------------------------------------------------------------------ Step.apply *)
Lemma compute_attrs_NI decls a : NI (compute_attrs decls a).
Proof.
  induction decls as [|d r IH]; cbn [compute_attrs]; [apply NI_ok|].
  apply NI_bind; [exact IH|]. intros rest _.
  destruct (lookup_attr a (ad_name d)) as [[]|]; try apply NI_ok; destruct (ad_default d); try apply NI_ok; ni_err.
Qed.
Lemma type_create_NI ty a c ms : NI (type_create s ty a c ms).
Proof.
  unfold type_create. destruct (is_text_ty s ty); [ni_err|]. apply NI_bind; [apply compute_attrs_NI|intros; apply NI_ok].
Qed.

Lemma node_step_SNI doc pos upd : is_elem doc -> leaves_empty doc -> (forall n, NI (upd n)) -> SNI (node_step s doc pos upd tt).
Proof.
  intros He Hle Hu. unfold node_step. apply lift_SNI; [apply node_at_NI; [exact Hle|lia]|].
  intros [n|] _; [|apply SNI_fail]. apply lift_SNI; [apply Hu|]. intros updated _. apply from_replace_SNI. exact He.
Qed.

Theorem apply_error_class st doc : is_elem doc -> leaves_empty doc -> SNI (apply s st doc).
Proof.
  intros He Hle. destruct st; cbn [apply].
  - apply lift_SNI; [destruct structure; [apply content_between_NI; exact He|apply NI_ok]|].
    intros cb _. destruct cb; [apply SNI_fail|apply from_replace_SNI; exact He].
  - apply lift_SNI.
    { destruct structure; [|apply NI_ok]. apply NI_bind; [apply content_between_NI; exact He|].
      intros a _. destruct a; [apply NI_ok|apply content_between_NI; exact He]. }
    intros cb _. destruct cb; [apply SNI_fail|].
    apply lift_SNI; [apply node_slice_NI; exact He|]. intros gap _.
    destruct (negb _ || negb _); [apply SNI_fail|].
    apply lift_SNI; [apply insert_at_NI|]. intros [sl'|] _; [apply from_replace_SNI; exact He|apply SNI_fail].
  - apply lift_SNI; [apply node_slice_NI; exact He|]. intros old _.
    destruct (resolve s doc from) as [rf|e] eqn:Ef.
    2:{ cbn [lift]. pose proof (resolve_NI s doc from He) as Hn. rewrite Ef in Hn. intros e' E. inversion E; subst. apply (Hn e' eq_refl). }
    cbn [lift]. destruct (resolve_WP s doc from rf He Ef) as (Wf & _).
    destruct (shared_depth_go_spec rf to Wf (rp_depth rf) (le_n _)) as (k & Ek & Hk & _).
    unfold shared_depth. rewrite Ek. cbn [lift].
    destruct (WP_at s rf k Wf Hk) as (n & i & o & _ & _ & _ & En & _). rewrite En. cbn [lift].
    apply from_replace_SNI. exact He.
  - apply lift_SNI; [apply node_slice_NI; exact He|]. intros old _. apply from_replace_SNI. exact He.
  - apply node_step_SNI; auto. intros n. apply type_create_NI.
  - apply node_step_SNI; auto. intros n. apply type_create_NI.
  - apply node_step_SNI; auto. intros n. apply type_create_NI.
  - apply lift_SNI; [apply type_create_NI|]. intros d _. apply SNI_ok.
Qed.

Corollary apply_no_internal_error st doc : is_elem doc -> leaves_empty doc -> apply s st doc <> RErr ErrInternal.
Proof. intros He Hle E. destruct (apply_error_class st doc He Hle _ E); discriminate. Qed.

End WithSchema.
