(* Proofs about Model/Fill.v (property C15): soundness of fill_before and of find_wrapping *)
From Coq Require Import ZArith List Bool Arith Lia.
From PM Require Import Model.Data Model.Mark Model.Tree Model.Step Model.Fill.
Import ListNotations.

Section WithSchema.
Variable s : schema.

(* compiled content automata are deterministic: a state has at most one edge per node type
   (boolean-checkable on any schema value: [det_schema]) *)
Fixpoint nodup_keys (l : list (nat * nat)) : bool :=
  match l with
  | [] => true
  | (t, _) :: r => negb (existsb (fun e => Nat.eqb (fst e) t) r) && nodup_keys r
  end.
Definition det_schema : bool := forallb (fun st => nodup_keys (cs_next st)) (s_states s).

Lemma assoc_nodup l : nodup_keys l = true -> forall t nx, In (t, nx) l -> assoc_nat l t = Some nx.
Proof.
  induction l as [|[a b] l IH]; simpl; intros Hn t nx Hin; [contradiction|].
  apply andb_prop in Hn. destruct Hn as [Hn1 Hn2].
  destruct Hin as [Hin|Hin].
  - inversion Hin; subst. rewrite Nat.eqb_refl. reflexivity.
  - destruct (Nat.eqb_spec a t).
    + subst. exfalso. apply negb_true_iff in Hn1.
      assert (existsb (fun e => fst e =? t) l = true); [|congruence].
      apply existsb_exists. exists (t, nx). simpl. rewrite Nat.eqb_refl. auto.
    + apply IH; auto.
Qed.

Lemma det_match_type : det_schema = true -> forall q t nx,
  In (t, nx) (cs_next (state_of s q)) -> match_type s q t = Some nx.
Proof.
  unfold det_schema, match_type, state_of. intros Hd q t nx Hin.
  apply assoc_nodup; auto.
  destruct (nth_in_or_default q (s_states s) dummy_state) as [Hi|He].
  - rewrite forallb_forall in Hd. apply Hd; auto.
  - rewrite He in *. simpl in Hin. contradiction.
Qed.

Definition finished (after : list node) (te : bool) (st : nat) (q : nat) : bool :=
  match match_fragment s q after st (length after) with
  | Some qf => negb te || valid_end s qf
  | None => false
  end.

Lemma match_types_snoc q ts t :
  match_types s q (ts ++ [t]) =
  match match_types s q ts with Some q' => match_type s q' t | None => None end.
Proof.
  revert q. induction ts as [|x ts IH]; intros q; simpl.
  - destruct (match_type s q t); auto.
  - destruct (match_type s q x); auto.
Qed.

Hypothesis Hdet : det_schema = true.

(* the edge loop of the search, as a named function *)
Definition edge_loop fuel after te st types :=
  fix edges (l : list (nat * nat)) (seen : list nat) {struct l} : option (list nat) * list nat :=
    match l with
    | [] => (None, seen)
    | (t, nx) :: r =>
      if generatable s t && negb (nat_mem nx seen)
      then match fb_search s fuel after te st nx (types ++ [t]) (nx :: seen) with
           | (Some x, seen'0) => (Some x, seen'0)
           | (None, seen'0) => edges r seen'0
           end
      else edges r seen
    end.

(* what the search returns extends the types it was called with by generatable types only, follows the
   automaton, and ends in a state from which the rest of the content matches (to a valid end if asked) *)
Lemma fb_search_sound after te st : forall fuel q0 q types seen res seen',
  match_types s q0 types = Some q ->
  fb_search s fuel after te st q types seen = (Some res, seen') ->
  exists extra qe,
    res = types ++ extra /\ forallb (generatable s) extra = true /\
    match_types s q0 res = Some qe /\ finished after te st qe = true.
Proof.
  induction fuel as [|fuel IH]; intros q0 q types seen res seen' Hq H; [discriminate|].
  cbn [fb_search] in H. fold (finished after te st q) in H.
  destruct (finished after te st q) eqn:Ef.
  - inversion H; subst. exists [], q. rewrite app_nil_r. auto.
  - fold (edge_loop fuel after te st types) in H.
    assert (Hedges : forall (l : list (nat * nat)) seen0,
      incl l (cs_next (state_of s q)) ->
      edge_loop fuel after te st types l seen0 = (Some res, seen') ->
      exists extra qe, res = types ++ extra /\ forallb (generatable s) extra = true /\
                       match_types s q0 res = Some qe /\ finished after te st qe = true).
    { induction l as [|[t nx] l IHl]; intros seen0 Hincl Hl; [discriminate|].
      cbn [edge_loop] in Hl. fold (edge_loop fuel after te st types) in Hl.
      assert (Hincl' : incl l (cs_next (state_of s q))) by (intros x Hx; apply Hincl; right; auto).
      destruct (generatable s t && negb (nat_mem nx seen0)) eqn:Eg; [|eapply IHl; eauto].
      destruct (fb_search s fuel after te st nx (types ++ [t]) (nx :: seen0)) as [[x|] sn] eqn:Es;
        [|eapply IHl; eauto].
      inversion Hl; subst x sn.
      assert (Hm : match_types s q0 (types ++ [t]) = Some nx).
      { rewrite match_types_snoc, Hq. apply det_match_type; auto. apply Hincl. left; auto. }
      destruct (IH q0 nx (types ++ [t]) (nx :: seen0) res seen' Hm Es) as (extra & qe & He & Hg & Hmt & Hf).
      exists (t :: extra), qe. repeat split; auto.
      - rewrite He, <- app_assoc. reflexivity.
      - simpl. apply andb_prop in Eg. destruct Eg as [Eg _]. rewrite Eg. exact Hg. }
    eapply Hedges; eauto. apply incl_refl.
Qed.

(* fill_before is sound: the node types it proposes are generatable and really make the content match *)
Theorem fill_before_types_sound q after te st tys :
  fill_before_types s q after te st = Some tys ->
  forallb (generatable s) tys = true /\
  exists q1, match_types s q tys = Some q1 /\ finished after te st q1 = true.
Proof.
  unfold fill_before_types. intros H.
  destruct (fb_search s (S (length (s_states s))) after te st q [] [q]) as [r sn] eqn:E.
  simpl in H. subst r.
  destruct (fb_search_sound after te st _ q q [] [q] tys sn eq_refl E) as (extra & qe & He & Hg & Hm & Hf).
  simpl in He. subst extra. split; auto. eauto.
Qed.

(* ---- find_wrapping ---- *)
(* a wrapper chain w1..wn fits at state q for target t: q accepts w1; each wi may hold w(i+1) as its only
   child (valid end right after it); wn accepts t as first child; none is a leaf or has required attributes *)
Fixpoint chain_fits (q : nat) (chain : list nat) (target : nat) (initial : bool) : Prop :=
  match chain with
  | [] => exists q', match_type s q target = Some q'
  | w :: rest =>
    (exists nx, match_type s q w = Some nx /\ (initial = true \/ valid_end s nx = true)) /\
    is_leaf_ty s w = false /\ has_required_attrs (nt_attrs (ntype_of s w)) = false /\
    chain_fits (nt_start (ntype_of s w)) rest target false
  end.

(* invariant of the BFS queue: every active entry (q, chain (innermost first), initial) is reachable:
   following [rev chain] from the start state fits up to q *)
Fixpoint chain_reaches (q0 : nat) (rchain : list nat) (initial : bool) (q : nat) : Prop :=
  match rchain with
  | [] => q = q0
  | w :: rest =>
    (exists nx, match_type s q0 w = Some nx /\ (initial = true \/ valid_end s nx = true)) /\
    is_leaf_ty s w = false /\ has_required_attrs (nt_attrs (ntype_of s w)) = false /\
    chain_reaches (nt_start (ntype_of s w)) rest false q
  end.

Lemma reaches_fits rchain : forall q0 initial q target,
  chain_reaches q0 rchain initial q -> (exists q', match_type s q target = Some q') ->
  chain_fits q0 rchain target initial.
Proof.
  induction rchain as [|w rest IH]; simpl; intros q0 initial q target Hr Ht.
  - subst. exact Ht.
  - destruct Hr as (H1 & H2 & H3 & H4). repeat split; auto. eapply IH; eauto.
Qed.

Lemma reaches_snoc rchain : forall q0 initial q t nx,
  chain_reaches q0 rchain initial q ->
  match_type s q t = Some nx ->
  ((rchain = [] /\ initial = true) \/ valid_end s nx = true) ->
  is_leaf_ty s t = false -> has_required_attrs (nt_attrs (ntype_of s t)) = false ->
  chain_reaches q0 (rchain ++ [t]) initial (nt_start (ntype_of s t)).
Proof.
  induction rchain as [|w rest IH]; simpl; intros q0 initial q t nx Hr Hm Hv Hl Ha.
  - subst. repeat split; auto. exists nx. split; auto. destruct Hv as [[_ ->]|Hv]; auto.
  - destruct Hr as (H1 & H2 & H3 & H4). repeat split; auto.
    eapply IH; eauto. destruct Hv as [[Hc _]|Hv]; [discriminate|auto].
Qed.

Definition entry_ok (q0 : nat) (e : nat * list nat * bool) : Prop :=
  let '(q, chain, initial) := e in
  chain_reaches q0 (rev chain) true q /\ (initial = true <-> chain = []).

Lemma wrap_bfs_sound q0 target : forall fuel active seen res,
  Forall (entry_ok q0) active ->
  wrap_bfs s fuel target active seen = Some res ->
  chain_fits q0 res target true.
Proof.
  induction fuel as [|fuel IH]; intros active seen res Hall H; [discriminate|].
  cbn [wrap_bfs] in H. destruct active as [|[[q chain] initial] rest]; [discriminate|].
  inversion Hall as [|? ? Hhd Hrest]; subst. simpl in Hhd. destruct Hhd as [Hr Hi].
  destruct (match_type s q target) as [q'|] eqn:Em.
  - inversion H; subst. eapply reaches_fits; eauto.
  - apply IH in H; auto.
    apply Forall_app. split; auto.
    (* entries added by this round *)
    assert (G : forall (edges : list (nat * nat)) added sn,
      incl edges (cs_next (state_of s q)) -> Forall (entry_ok q0) added ->
      Forall (entry_ok q0)
        (fst (fold_left (fun (acc : list (nat * list nat * bool) * list nat) (e : nat * nat) =>
            let '(added, sn) := acc in
            let '(t, nx) := e in
            if negb (is_leaf_ty s t) && negb (has_required_attrs (nt_attrs (ntype_of s t)))
               && negb (nat_mem t sn) && (initial || valid_end s nx)
            then (added ++ [(nt_start (ntype_of s t), t :: chain, false)], t :: sn)
            else (added, sn)) edges (added, sn)))).
    { induction edges as [|[t nx] edges IHe]; intros added sn Hincl Hadd; simpl; auto.
      assert (Hincl' : incl edges (cs_next (state_of s q))) by (intros x Hx; apply Hincl; right; auto).
      destruct (negb (is_leaf_ty s t) && negb (has_required_attrs (nt_attrs (ntype_of s t)))
                && negb (nat_mem t sn) && (initial || valid_end s nx)) eqn:Ec; [|apply IHe; auto].
      apply IHe; auto. apply Forall_app. split; auto. constructor; [|constructor].
      apply andb_prop in Ec. destruct Ec as [Ec Hv]. apply andb_prop in Ec. destruct Ec as [Ec _].
      apply andb_prop in Ec. destruct Ec as [Hl Ha].
      apply negb_true_iff in Hl. apply negb_true_iff in Ha.
      split.
      - simpl. eapply reaches_snoc; eauto.
        + apply det_match_type; auto. apply Hincl. left; auto.
        + apply orb_prop in Hv. destruct Hv as [Hv|Hv]; auto.
          left. split; auto. destruct Hi as [Hi _]. rewrite Hi; auto.
      - split; intros; discriminate. }
    apply G; auto. apply incl_refl.
Qed.

(* find_wrapping is sound: the returned chain of wrapper types really fits *)
Theorem find_wrapping_sound q target chain :
  find_wrapping s q target = Some chain -> chain_fits q chain target true.
Proof.
  unfold find_wrapping. intros H. eapply (wrap_bfs_sound q target); [|exact H].
  constructor; [|constructor]. simpl. split; auto. split; auto.
Qed.

End WithSchema.
