(* Exact undo of an AddNodeMarkStep that displaces nothing (C04): when adding the mark is a plain insertion into the
   node's mark set (the set grows by one), the inverse the step builds is RemoveNodeMarkStep of the same mark, and it
   gives back the original token sequence.  (When the new mark displaces marks the undo is not exact - recorded upstream
   findings C04-node-mark-one-sided-exclusion / -displaces-several.) *)
From Coq Require Import ZArith NArith List Bool Arith Lia.
From PM Require Import Model.Data Model.Mark Model.Tree Model.Resolve Model.StepMap Model.Step Spec.Tokens
  Proofs.DataProofs Proofs.MarkProofs Proofs.CanonicalMarks Proofs.JsonProofs
  Proofs.ReplaceValid Proofs.SliceSides Proofs.TokenBasics Proofs.PathTokens Proofs.ReplaceTokens Proofs.SliceShape
  Proofs.StepFaithful Proofs.TokenLaws Proofs.NodeSteps Proofs.MarkMerge Proofs.AttrUndo.
Import ListNotations.
Local Open Scope nat_scope.
Local Open Scope list_scope.

Section WithSchema.
Variable s : schema.
Notation nsize := (node_size s).
Notation V := (V s).
Notation DT := (DT s).
Notation decls ty := (nt_attrs (ntype_of s ty)).

Lemma remove_inserted mk set : (forall o, In o set -> ok2 s mk o) -> remove_from_set mk (insert_sorted mk set) = set.
Proof.
  intros H. unfold remove_from_set. induction set as [|x r IH]; cbn [insert_sorted filter].
  - rewrite mark_eqb_refl. reflexivity.
  - assert (Hx : mark_eqb x mk = false) by (destruct (H x (or_introl eq_refl)) as (E & _); rewrite mark_eqb_sym; exact E).
    destruct (Nat.ltb (m_ty mk) (m_ty x)); cbn [filter].
    + rewrite mark_eqb_refl. cbn [negb]. rewrite Hx. cbn [negb]. f_equal.
      clear IH. induction r as [|y r IHr]; [reflexivity|]. cbn [filter].
      assert (Hy : mark_eqb y mk = false) by (destruct (H y (or_intror (or_introl eq_refl))) as (E & _); rewrite mark_eqb_sym; exact E).
      rewrite Hy. cbn [negb]. f_equal. apply IHr. intros o [<-|Ho]; apply H; [left; reflexivity|right; right; exact Ho].
    + rewrite Hx. cbn [negb]. f_equal. apply IH. intros o Ho. apply H. right. exact Ho.
Qed.

Theorem add_node_mark_undo_on pos mk doc d' inv e d'' :
  V doc ->
  (forall n, node_at s (S (nsize doc)) doc pos = Ok (Some n) ->
     NodeNormal s n /\ List.length (add_to_set s mk (node_marks n)) = S (List.length (node_marks n))) ->
  apply s (SAddNodeMark pos mk) doc = ROk d' ->
  invert_step s (SAddNodeMark pos mk) doc = Ok inv ->
  V e -> DT e = DT d' ->
  apply s inv e = ROk d'' ->
  inv = SRemoveNodeMark pos mk /\ DT d'' = DT doc.
Proof.
  intros Hd Hn Ha Hi He HeT Hb.
  destruct (node_step_splice s (SAddNodeMark pos mk) pos _ _ Hd eq_refl Ha) as (ty & a & m & cs & a1 & m1 & En & Eu & Hnth & E').
  destruct (Hn _ En) as ((Hnd & Hfix & Hsr) & Hlen). cbn [node_marks] in Hlen.
  cbn [invert_step] in Hi. rewrite En in Hi. cbn [bind node_marks] in Hi.
  assert (Hne : (List.length (add_to_set s mk m) =? List.length m) = false) by (apply Nat.eqb_neq; lia).
  rewrite Hne in Hi. inversion Hi; subst inv. clear Hi. split; [reflexivity|].
  destruct (add_length_full s mk m Hlen) as (Hok & Eadd).
  destruct (node_step_splice s (SRemoveNodeMark pos mk) pos _ _ He eq_refl Hb) as (ty2 & a2 & m2 & cs2 & a3 & m3 & En2 & Eu2 & Hnth2 & E'').
  rewrite HeT in Hnth2, E''.
  cbn [node_update node_ty node_attrs node_marks] in Eu, Eu2. unfold type_create in Eu, Eu2.
  destruct (is_text_ty s ty); [discriminate|]. destruct (is_text_ty s ty2); [discriminate|].
  rewrite Hfix in Eu. cbn [bind] in Eu.
  destruct (compute_attrs (decls ty2) a2) as [x3|] eqn:E3; [|discriminate]. cbn [bind] in Eu2.
  inversion Eu; subst a1 m1. inversion Eu2; subst x3 m3. clear Eu Eu2.
  assert (Hsorted : sorted_rank (add_to_set s mk m)) by (apply add_to_set_sorted; exact Hsr).
  rewrite (set_from_sorted _ Hsorted) in E'.
  assert (Hp : pos < List.length (DT doc)) by (apply nth_error_Some; rewrite Hnth; discriminate).
  assert (Hlf : List.length (firstn pos (DT doc)) = pos) by (rewrite firstn_length; lia).
  assert (Hsame : tnorm (head_tok s ty2 a2 m2) = tnorm (head_tok s ty a (add_to_set s mk m))).
  { rewrite E' in Hnth2. rewrite nth_error_app2 in Hnth2 by lia. rewrite Hlf, Nat.sub_diag in Hnth2.
    cbn in Hnth2. inversion Hnth2. reflexivity. }
  destruct (head_tok_norm_inj s _ _ _ _ _ _ Hsame) as (-> & Ha2 & Hm2).
  destruct (compute_attrs_norm _ _ _ _ Ha2 E3) as (ry & Ery & Hry). rewrite Hfix in Ery. inversion Ery; subst ry.
  assert (Hm3 : msnorm (set_from (remove_from_set mk m2)) = msnorm m).
  { rewrite set_from_norm, remove_from_set_norm, Hm2, <- remove_from_set_norm, <- set_from_norm.
    rewrite Eadd, (remove_inserted mk m Hok), (set_from_sorted _ Hsr). reflexivity. }
  assert (Htok : tnorm (head_tok s ty a3 (set_from (remove_from_set mk m2))) = tnorm (head_tok s ty a m)).
  { unfold head_tok. destruct (is_leaf_ty s ty); cbn [tnorm]; rewrite Hry, Hm3; reflexivity. }
  rewrite E'', Htok, E'. apply set_nth_back. exact Hnth.
Qed.

Lemma remove_absent mk set : is_in_set mk set = false -> remove_from_set mk set = set.
Proof.
  unfold remove_from_set, is_in_set. induction set as [|x r IH]; [reflexivity|]. cbn [existsb filter]. intros H.
  apply orb_false_iff in H. destruct H as (H1 & H2). rewrite H1. cbn [negb]. f_equal. exact (IH H2).
Qed.

(* RemoveNodeMarkStep: when the mark is not on the node the step changes nothing and is its own inverse; when it is,
   the inverse re-adds it, which is exact as soon as re-adding puts it back where it was
   ([add_to_set mk (remove_from_set mk marks)] is [marks] up to attribute order: true unless another mark of the same type follows it - the
   recorded finding C04-node-mark-same-type-order) *)
Theorem remove_node_mark_undo_on pos mk doc d' inv e d'' :
  V doc ->
  (forall n, node_at s (S (nsize doc)) doc pos = Ok (Some n) ->
     NodeNormal s n /\ msnorm (add_to_set s mk (remove_from_set mk (node_marks n))) = msnorm (node_marks n)) ->
  apply s (SRemoveNodeMark pos mk) doc = ROk d' ->
  invert_step s (SRemoveNodeMark pos mk) doc = Ok inv ->
  V e -> DT e = DT d' ->
  apply s inv e = ROk d'' ->
  DT d'' = DT doc.
Proof.
  intros Hd Hn Ha Hi He HeT Hb.
  destruct (node_step_splice s (SRemoveNodeMark pos mk) pos _ _ Hd eq_refl Ha) as (ty & a & m & cs & a1 & m1 & En & Eu & Hnth & E').
  destruct (Hn _ En) as ((Hnd & Hfix & Hsr) & Hre). cbn [node_marks] in Hre.
  cbn [invert_step] in Hi. rewrite En in Hi. cbn [bind node_marks] in Hi.
  cbn [node_update node_ty node_attrs node_marks] in Eu. unfold type_create in Eu.
  destruct (is_text_ty s ty) eqn:Ett; [discriminate|]. rewrite Hfix in Eu. cbn [bind] in Eu. inversion Eu; subst a1 m1. clear Eu.
  assert (Hsf : sorted_rank (remove_from_set mk m)) by (apply sorted_filter; exact Hsr).
  rewrite (set_from_sorted _ Hsf) in E'.
  assert (Hp : pos < List.length (DT doc)) by (apply nth_error_Some; rewrite Hnth; discriminate).
  assert (Hlf : List.length (firstn pos (DT doc)) = pos) by (rewrite firstn_length; lia).
  assert (Hfinish : forall inv', inv = inv' -> forall mm,
            (forall m2, msnorm m2 = msnorm (remove_from_set mk m) -> msnorm (mm m2) = msnorm m) ->
            (forall n2, node_update s inv' n2 = type_create s (node_ty s n2) (node_attrs n2) [] (mm (node_marks n2))) ->
            is_node_step inv' = Some pos -> DT d'' = DT doc).
  { intros inv' -> mm Hmm Hupd Hns.
    destruct (node_step_splice s inv' pos _ _ He Hns Hb) as (ty2 & a2 & m2 & cs2 & a3 & m3 & En2 & Eu2 & Hnth2 & E'').
    rewrite HeT in Hnth2, E''. rewrite Hupd in Eu2. cbn [node_ty node_attrs node_marks] in Eu2. unfold type_create in Eu2.
    destruct (is_text_ty s ty2); [discriminate|].
    destruct (compute_attrs (decls ty2) a2) as [x3|] eqn:E3; [|discriminate]. cbn [bind] in Eu2.
    inversion Eu2; subst x3 m3. clear Eu2.
    assert (Hsame : tnorm (head_tok s ty2 a2 m2) = tnorm (head_tok s ty a (remove_from_set mk m))).
    { rewrite E' in Hnth2. rewrite nth_error_app2 in Hnth2 by lia. rewrite Hlf, Nat.sub_diag in Hnth2.
      cbn in Hnth2. inversion Hnth2. reflexivity. }
    destruct (head_tok_norm_inj s _ _ _ _ _ _ Hsame) as (-> & Ha2 & Hm2).
    destruct (compute_attrs_norm _ _ _ _ Ha2 E3) as (ry & Ery & Hry). rewrite Hfix in Ery. inversion Ery; subst ry.
    assert (Hm3 : msnorm (set_from (mm m2)) = msnorm m).
    { rewrite set_from_norm, (Hmm _ Hm2), <- set_from_norm, (set_from_sorted _ Hsr). reflexivity. }
    assert (Htok : tnorm (head_tok s ty a3 (set_from (mm m2))) = tnorm (head_tok s ty a m)).
    { unfold head_tok. destruct (is_leaf_ty s ty); cbn [tnorm]; rewrite Hry, Hm3; reflexivity. }
    rewrite E'', Htok, E'. apply set_nth_back. exact Hnth. }
  destruct (is_in_set mk m) eqn:Ein.
  - inversion Hi; subst inv. eapply (Hfinish _ eq_refl (add_to_set s mk)); [|reflexivity|reflexivity].
    intros m2 Hm2. rewrite add_to_set_norm, Hm2, <- add_to_set_norm, Hre. reflexivity.
  - inversion Hi; subst inv. eapply (Hfinish _ eq_refl (remove_from_set mk)); [|reflexivity|reflexivity].
    intros m2 Hm2. rewrite remove_from_set_norm, Hm2, <- remove_from_set_norm, !(remove_absent _ _ Ein). reflexivity.
Qed.

(* the re-insertion condition holds whenever no OTHER mark of the set has the mark's type *)
Lemma mark_eqb_of_norm a b : mnorm a = mnorm b -> mark_eqb a b = true.
Proof. intros H. rewrite <- mark_eqb_mnorm_l, H, mark_eqb_mnorm_l. apply mark_eqb_refl. Qed.

Lemma mark_eqb_ty a b : mark_eqb a b = true -> m_ty a = m_ty b.
Proof. unfold mark_eqb. intros H. apply andb_prop in H. destruct H as [H _]. apply Nat.eqb_eq in H. exact H. Qed.

Lemma readd_in_place_ins mk : forall set,
  sorted_rank set -> PairOK s set -> is_in_set mk set = true ->
  (forall o, In o set -> m_ty o = m_ty mk -> mark_eqb o mk = true) ->
  msnorm (insert_sorted mk (remove_from_set mk set)) = msnorm set.
Proof.
  unfold remove_from_set, is_in_set. induction set as [|x r IH]; intros Hs Hp Hin Hty; [discriminate|].
  cbn [sorted_rank PairOK] in Hs, Hp. destruct Hs as [Hs1 Hs2]. destruct Hp as [Hp1 Hp2]. cbn [existsb filter] in *.
  destruct (mark_eqb x mk) eqn:Ex; cbn [negb].
  - assert (Hno : forall y, In y r -> mark_eqb y mk = false).
    { intros y Hy. destruct (mark_eqb y mk) eqn:Ey; [|reflexivity]. exfalso.
      destruct (Hp1 y Hy) as (Hxy & _). rewrite (mark_eqb_of_norm x y) in Hxy; [discriminate|].
      rewrite (mark_eqb_norm _ _ Ex), (mark_eqb_norm _ _ Ey). reflexivity. }
    assert (Hf : filter (fun item => negb (mark_eqb item mk)) r = r).
    { clear - Hno. induction r as [|y r IHr]; [reflexivity|]. cbn [filter]. rewrite (Hno y (or_introl eq_refl)). cbn [negb].
      f_equal. apply IHr. intros z Hz. apply Hno. right. exact Hz. }
    rewrite Hf. pose proof (mark_eqb_ty _ _ Ex) as Et.
    destruct r as [|y r']; cbn [insert_sorted msnorm List.map]; [rewrite (mark_eqb_norm _ _ Ex); reflexivity|].
    assert (Hlt : m_ty mk < m_ty y).
    { pose proof (Hs1 y (or_introl eq_refl)) as Hle. destruct (Nat.eq_dec (m_ty y) (m_ty mk)) as [E|E]; [|lia].
      exfalso. pose proof (Hty y (or_intror (or_introl eq_refl)) E) as H1. rewrite (Hno y (or_introl eq_refl)) in H1. discriminate. }
    apply Nat.ltb_lt in Hlt. rewrite Hlt. cbn [msnorm List.map]. rewrite (mark_eqb_norm _ _ Ex). reflexivity.
  - cbn [orb] in Hin. cbn [insert_sorted].
    assert (Hge : m_ty x <= m_ty mk).
    { apply existsb_exists in Hin. destruct Hin as (y & Hy & Ey). rewrite <- (mark_eqb_ty _ _ Ey). apply Hs1. exact Hy. }
    assert (Hlt : Nat.ltb (m_ty mk) (m_ty x) = false) by (apply Nat.ltb_ge; exact Hge).
    rewrite Hlt. cbn [msnorm List.map]. f_equal.
    apply IH; auto. intros o Ho. apply Hty. right. exact Ho.
Qed.

Lemma readd_in_place mk set :
  sorted_rank set -> PairOK s set -> is_in_set mk set = true ->
  (forall o, In o set -> m_ty o = m_ty mk -> mark_eqb o mk = true) ->
  msnorm (add_to_set s mk (remove_from_set mk set)) = msnorm set.
Proof.
  intros Hs Hp Hin Hty. rewrite <- (readd_in_place_ins mk set Hs Hp Hin Hty). f_equal.
  unfold is_in_set in Hin. apply existsb_exists in Hin. destruct Hin as (x & Hx & Ex).
  assert (Hok : forall o, In o (remove_from_set mk set) -> ok2 s mk o).
  { intros o Ho. unfold remove_from_set in Ho. apply filter_In in Ho. destruct Ho as (Ho & Eo). apply negb_true_iff in Eo.
    assert (Hxo : ok2 s x o).
    { assert (Hne : x <> o) by (intros ->; congruence).
      clear - Hp Hx Ho Hne. induction set as [|y r IHr]; [destruct Hx|]. cbn [PairOK] in Hp. destruct Hp as [H1 H2].
      destruct Hx as [->|Hx], Ho as [->|Ho]; [congruence|apply H1; exact Ho|apply ok2_sym; apply H1; exact Hx|apply IHr; assumption]. }
    destruct Hxo as (_ & H2 & H3). pose proof (mark_eqb_ty _ _ Ex) as Et. split; [rewrite mark_eqb_sym; exact Eo|].
    rewrite <- Et. split; assumption. }
  rewrite add_to_set_spec, (ok2_not_blocked s mk _ Hok), kept_all; [reflexivity|].
  intros o Ho. destruct (Hok o Ho) as (_ & H & _). exact H.
Qed.

End WithSchema.
