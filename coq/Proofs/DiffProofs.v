(* Proofs about Model/Diff.v (property C20) *)
From Coq Require Import ZArith NArith List Bool Arith Lia.
From PM Require Import Model.Data Model.Mark Model.Tree Spec.Tokens Model.Diff Proofs.DataProofs.
Import ListNotations.

Section WithSchema.
Variable s : schema.

Definition never (_ _ : node) : bool := false.

(* an admissible identity oracle only answers true on equal nodes *)
Definition sound_oracle (o : node -> node -> bool) : Prop := forall x y, o x y = true -> x = y.

Lemma same_markup_refl x : same_markup x x = true.
Proof.
  destruct x as [t m|ty a m cs]; simpl.
  - apply marks_eqb_refl.
  - rewrite Nat.eqb_refl, attrs_eqb_refl, marks_eqb_refl. reflexivity.
Qed.

Lemma nds_elem (o : node -> node -> bool) ty a m cs ty' a' m' cs' pos :
  node_diff_start s o (Elem ty a m cs) (Elem ty' a' m' cs') pos =
  if (frag_size s cs =? 0) && (frag_size s cs' =? 0) then None else find_diff_start s o cs cs' (pos + 1).
Proof.
  cbn [node_diff_start]. destruct ((frag_size s cs =? 0) && (frag_size s cs' =? 0)); auto.
Qed.

Lemma never_false x y : never x y = false.
Proof. reflexivity. Qed.

(* ---- a node compared with itself has no difference, whatever the oracle ---- *)
Lemma nds_refl (o : node -> node -> bool) : forall x pos, node_diff_start s o x x pos = None.
Proof.
  fix IH 1. intros [t m|ty a m cs] pos; simpl.
  - rewrite cps_eqb_refl. reflexivity.
  - destruct ((frag_size s cs =? 0) && (frag_size s cs =? 0)); auto.
    generalize (pos + 1). induction cs as [|c cs IHcs]; intros p; auto.
    destruct (o c c); [apply IHcs|].
    rewrite same_markup_refl. simpl. rewrite IH. apply IHcs.
Qed.

Lemma fds_refl (o : node -> node -> bool) : forall a pos, find_diff_start s o a a pos = None.
Proof.
  induction a as [|x a IH]; intros pos; simpl; auto.
  destruct (o x x); [apply IH|]. rewrite same_markup_refl. simpl. rewrite nds_refl. apply IH.
Qed.

(* ---- the identity fast path never changes the answer ---- *)
Lemma nds_irrelevant (o : node -> node -> bool) (Ho : sound_oracle o) :
  forall x y pos, node_diff_start s o x y pos = node_diff_start s never x y pos.
Proof.
  fix IH 1. intros [t m|ty a m cs] [t' m'|ty' a' m' cs'] pos; try reflexivity.
  rewrite !nds_elem.
  destruct ((frag_size s cs =? 0) && (frag_size s cs' =? 0)); auto.
  generalize (pos + 1). revert cs'. induction cs as [|c cs IHcs]; intros [|c' cs'] p; try reflexivity.
  cbn [find_diff_start]. rewrite never_false.
  destruct (o c c') eqn:E.
  - apply Ho in E. subst c'. rewrite same_markup_refl. cbn [negb].
    rewrite nds_refl. apply IHcs.
  - destruct (negb (same_markup c c')); auto.
    rewrite IH. destruct (node_diff_start s never c c' p); auto.
Qed.

Theorem diff_start_oracle_irrelevant (o : node -> node -> bool) (Ho : sound_oracle o) :
  forall a b pos, find_diff_start s o a b pos = find_diff_start s never a b pos.
Proof.
  induction a as [|x a IH]; intros [|y b] pos; simpl; auto.
  destruct (o x y) eqn:E.
  - apply Ho in E. subst y. rewrite same_markup_refl. cbn [negb]. rewrite nds_refl. apply IH.
  - destruct (negb (same_markup x y)); auto.
    rewrite (nds_irrelevant o Ho). destruct (node_diff_start s never x y pos); auto.
Qed.

(* ---- no difference exactly when the fragments are equal ---- *)
(* text nodes are never empty (TextNode's constructor refuses empty text) *)
Fixpoint wf_text (n : node) : bool :=
  match n with
  | Text t _ => match t with [] => false | _ => true end
  | Elem _ _ _ cs => (fix go (l : list node) : bool := match l with [] => true | c :: r => wf_text c && go r end) cs
  end.
Fixpoint wf_text_list (l : list node) : bool :=
  match l with [] => true | c :: r => wf_text c && wf_text_list r end.

Lemma node_size_pos n : wf_text n = true -> 1 <= node_size s n.
Proof.
  destruct n as [t m|ty a m cs]; intros H.
  - simpl in *. destruct t as [|c t]; [discriminate|]. simpl. unfold cp_units. destruct (N.leb 65536 c); lia.
  - rewrite node_size_elem. destruct (is_leaf_ty s ty); lia.
Qed.

Lemma frag_size_zero l : wf_text_list l = true -> frag_size s l = 0 -> l = [].
Proof.
  destruct l as [|c l]; auto. simpl. intros H Hs.
  apply andb_prop in H. destruct H as [H _]. pose proof (node_size_pos c H). lia.
Qed.

Lemma wf_text_elem ty a m cs : wf_text (Elem ty a m cs) = wf_text_list cs.
Proof. simpl. induction cs; simpl; auto. Qed.

Lemma node_eqb_elem ty a m cs ty' a' m' cs' :
  node_eqb (Elem ty a m cs) (Elem ty' a' m' cs') =
  (Nat.eqb ty ty' && attrs_eqb a a' && marks_eqb m m' && frag_eqb cs cs').
Proof.
  simpl. f_equal.
Qed.

Lemma node_eqb_same_markup x y : node_eqb x y = true -> same_markup x y = true.
Proof.
  destruct x as [t m|ty a m cs], y as [t' m'|ty' a' m' cs']; try discriminate.
  - simpl. intros H. apply andb_prop in H. tauto.
  - rewrite node_eqb_elem. simpl. intros H. apply andb_prop in H. tauto.
Qed.

Lemma nds_none_iff : forall x y pos,
  wf_text x = true -> wf_text y = true -> same_markup x y = true ->
  (node_diff_start s never x y pos = None <-> node_eqb x y = true).
Proof.
  fix IH 1. intros [t m|ty a m cs] [t' m'|ty' a' m' cs'] pos Hx Hy Hm; try discriminate.
  - simpl in *. rewrite Hm, andb_true_r. destruct (cps_eqb t t'); split; intros; try discriminate; auto.
  - rewrite node_eqb_elem. simpl in Hm. rewrite Hm. cbn [andb].
    rewrite wf_text_elem in Hx, Hy. rewrite nds_elem.
    destruct ((frag_size s cs =? 0) && (frag_size s cs' =? 0)) eqn:Ez.
    + apply andb_prop in Ez. destruct Ez as [E1 E2]. apply Nat.eqb_eq in E1, E2.
      rewrite (frag_size_zero cs Hx E1), (frag_size_zero cs' Hy E2). simpl. tauto.
    + clear Ez. generalize (pos + 1). revert cs' Hy.
      induction cs as [|c cs IHcs]; intros [|c' cs'] Hy p; simpl; try (split; intros; (discriminate || reflexivity)).
      simpl in Hx, Hy. apply andb_prop in Hx, Hy. destruct Hx as [Hc Hcs], Hy as [Hc' Hcs'].
      destruct (same_markup c c') eqn:Esm; cbn [negb].
      * destruct (node_diff_start s never c c' p) eqn:End.
        -- split; [discriminate|]. intros H. apply andb_prop in H. destruct H as [H _].
           apply (IH c c' p Hc Hc' Esm) in H. congruence.
        -- assert (Heq : node_eqb c c' = true) by (apply (IH c c' p Hc Hc' Esm); auto).
           rewrite Heq. cbn [andb]. apply IHcs; auto.
      * split; [discriminate|]. intros H. apply andb_prop in H. destruct H as [H _].
        apply node_eqb_same_markup in H. congruence.
Qed.

Theorem diff_start_none_iff : forall a b pos,
  wf_text_list a = true -> wf_text_list b = true ->
  (find_diff_start s never a b pos = None <-> frag_eqb a b = true).
Proof.
  induction a as [|x a IH]; intros [|y b] pos Ha Hb; simpl; try (split; intros; (discriminate || reflexivity)).
  simpl in Ha, Hb. apply andb_prop in Ha, Hb. destruct Ha as [Hx Ha], Hb as [Hy Hb].
  destruct (same_markup x y) eqn:Esm; cbn [negb].
  - destruct (node_diff_start s never x y pos) eqn:End.
    + split; [discriminate|]. intros H. apply andb_prop in H. destruct H as [H _].
      apply (nds_none_iff x y pos Hx Hy Esm) in H. congruence.
    + assert (Heq : node_eqb x y = true) by (apply (nds_none_iff x y pos Hx Hy Esm); auto).
      rewrite Heq. cbn [andb]. apply IH; auto.
  - split; [discriminate|]. intros H. apply andb_prop in H. destruct H as [H _].
    apply node_eqb_same_markup in H. congruence.
Qed.

(* with any admissible oracle *)
Theorem diff_start_none_iff_oracle (o : node -> node -> bool) (Ho : sound_oracle o) a b pos :
  wf_text_list a = true -> wf_text_list b = true ->
  (find_diff_start s o a b pos = None <-> frag_eqb a b = true).
Proof. intros. rewrite (diff_start_oracle_irrelevant o Ho). apply diff_start_none_iff; auto. Qed.

(* a reported difference never lies before the starting position *)
Lemma nds_ge : forall x y pos p, node_diff_start s never x y pos = Some p -> pos <= p.
Proof.
  fix IH 1. intros [t m|ty a m cs] [t' m'|ty' a' m' cs'] pos p; try discriminate.
  - simpl. destruct (cps_eqb t t'); [discriminate|]. intros H; inversion H; lia.
  - rewrite nds_elem. destruct ((frag_size s cs =? 0) && (frag_size s cs' =? 0)); [discriminate|].
    assert (G : forall q, find_diff_start s never cs cs' q = Some p -> q <= p).
    { revert cs'. induction cs as [|c cs IHcs]; intros [|c' cs'] q; simpl; try discriminate;
        try (intros H; inversion H; lia).
      destruct (negb (same_markup c c')); [intros H; inversion H; lia|].
      destruct (node_diff_start s never c c' q) eqn:E.
      - intros H; inversion H; subst. apply IH in E. lia.
      - intros H. apply IHcs in H. lia. }
    intros H. apply G in H. lia.
Qed.

End WithSchema.
