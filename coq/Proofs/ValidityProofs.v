(* Proofs for C07: the validity questions agree with the definition of validity *)
From Coq Require Import ZArith NArith List Bool Arith Lia.
From PM Require Import Model.Data Model.Mark Model.Tree.
Import ListNotations.

Section WithSchema.
Variable s : schema.

(* the schema's definition: the child type sequence is accepted by the parent's
   content automaton and every child's marks are allowed by the parent *)
Definition accepts (q : nat) (ts : list nat) : bool :=
  match match_types s q ts with Some q' => valid_end s q' | None => false end.
Definition valid_children (ty : nat) (cs : list node) : bool :=
  accepts (nt_start (ntype_of s ty)) (types_of s cs) && forallb (fun c => allows_marks s ty (node_marks c)) cs.

Lemma match_types_app q a b :
  match_types s q (a ++ b) =
  match match_types s q a with Some q' => match_types s q' b | None => None end.
Proof.
  revert q. induction a as [|t a IH]; intros q; simpl; auto.
  destruct (match_type s q t); auto.
Qed.

Lemma types_of_app a b : types_of s (a ++ b) = types_of s a ++ types_of s b.
Proof. unfold types_of. apply map_app. Qed.

Theorem valid_content_iff ty cs : valid_content s ty cs = valid_children ty cs.
Proof.
  unfold valid_content, valid_children, accepts, match_fragment.
  rewrite Nat.sub_0_r. simpl. rewrite firstn_all.
  destruct (match_types s (nt_start (ntype_of s ty)) (types_of s cs)); auto.
Qed.

Lemma firstn_skipn_all {A} (l : list A) to : firstn (length l - to) (skipn to l) = skipn to l.
Proof. rewrite <- (skipn_length to l). apply firstn_all. Qed.

(* Node.can_replace answers exactly: "would the resulting child sequence be
   accepted, and are the inserted children's marks allowed?" *)
Theorem can_replace_iff n from to repl start end_ q :
  content_match_at s n from = Ok q ->
  can_replace s n from to repl start end_ =
  Ok (accepts (node_start_state s n)
        (types_of s (firstn from (node_content n) ++ sub_list repl start end_ ++ skipn to (node_content n)))
      && forallb (fun c => allows_marks s (node_ty s n) (node_marks c)) (sub_list repl start end_)).
Proof.
  unfold can_replace, content_match_at. intros Hq.
  destruct (match_fragment s (node_start_state s n) (node_content n) 0 from) as [q0|] eqn:E0; [|discriminate].
  inversion Hq; subst q0; clear Hq. simpl.
  unfold match_fragment in *. rewrite Nat.sub_0_r in E0. simpl in E0.
  unfold accepts. rewrite !types_of_app, match_types_app, E0, match_types_app.
  fold (sub_list repl start end_).
  destruct (match_types s q (types_of s (sub_list repl start end_))) as [q1|]; simpl; auto.
  rewrite firstn_skipn_all.
  destruct (match_types s q1 (types_of s (skipn to (node_content n)))) as [q2|]; simpl; auto.
  destruct (valid_end s q2); simpl; auto.
Qed.

(* in a parent whose kept children carry allowed marks (every valid parent),
   can_replace is exactly validity of the resulting children *)
Theorem can_replace_valid n from to repl start end_ q :
  content_match_at s n from = Ok q ->
  forallb (fun c => allows_marks s (node_ty s n) (node_marks c)) (node_content n) = true ->
  can_replace s n from to repl start end_ =
  Ok (valid_children (node_ty s n)
        (firstn from (node_content n) ++ sub_list repl start end_ ++ skipn to (node_content n))).
Proof.
  intros Hq Hm. rewrite (can_replace_iff _ _ _ _ _ _ _ Hq). f_equal.
  unfold valid_children, node_start_state. f_equal.
  rewrite !forallb_app.
  assert (H1 : forallb (fun c => allows_marks s (node_ty s n) (node_marks c)) (firstn from (node_content n)) = true).
  { apply forallb_forall. intros x Hx. rewrite forallb_forall in Hm. apply Hm.
    rewrite <- (firstn_skipn from (node_content n)). apply in_or_app; left; exact Hx. }
  assert (H2 : forallb (fun c => allows_marks s (node_ty s n) (node_marks c)) (skipn to (node_content n)) = true).
  { apply forallb_forall. intros x Hx. rewrite forallb_forall in Hm. apply Hm.
    rewrite <- (firstn_skipn to (node_content n)). apply in_or_app; right; exact Hx. }
  rewrite H1, H2. simpl. rewrite andb_true_r. reflexivity.
Qed.

Theorem can_replace_with_iff n from to ty ms q :
  content_match_at s n from = Ok q ->
  can_replace_with s n from to ty ms =
  Ok ((match ms with [] => true | _ => allows_marks s (node_ty s n) ms end) &&
      accepts (node_start_state s n)
        (types_of s (firstn from (node_content n)) ++ [ty] ++ types_of s (skipn to (node_content n)))).
Proof.
  unfold can_replace_with, content_match_at. intros Hq.
  destruct (match_fragment s (node_start_state s n) (node_content n) 0 from) as [q0|] eqn:E0; [|discriminate].
  inversion Hq; subst q0; clear Hq.
  unfold match_fragment in *. rewrite Nat.sub_0_r in E0. simpl in E0.
  unfold accepts. rewrite match_types_app, E0, match_types_app.
  destruct ms as [|m ms]; simpl.
  - destruct (match_type s q ty) as [q1|]; simpl; auto.
    rewrite firstn_skipn_all.
    destruct (match_types s q1 (types_of s (skipn to (node_content n)))); auto.
  - destruct (allows_marks s (node_ty s n) (m :: ms)); simpl; auto.
    destruct (match_type s q ty) as [q1|]; simpl; auto.
    rewrite firstn_skipn_all.
    destruct (match_types s q1 (types_of s (skipn to (node_content n)))); auto.
Qed.

(* content_match_at raises exactly when the prefix does not match *)
Theorem content_match_at_spec n index :
  content_match_at s n index =
  match match_types s (node_start_state s n) (types_of s (firstn index (node_content n))) with
  | Some q => Ok q
  | None => Err ErrValue
  end.
Proof. unfold content_match_at, match_fragment. rewrite Nat.sub_0_r. reflexivity. Qed.

(* can_append with non-empty content is the validity question for the concatenation *)
Theorem can_append_iff n other q :
  frag_size s (node_content other) <> 0 ->
  content_match_at s n (length (node_content n)) = Ok q ->
  can_append s n other =
  Ok (accepts (node_start_state s n) (types_of s (node_content n ++ node_content other))
      && forallb (fun c => allows_marks s (node_ty s n) (node_marks c)) (node_content other)).
Proof.
  intros Hsz Hq. unfold can_append.
  destruct (frag_size s (node_content other) =? 0) eqn:E; [apply Nat.eqb_eq in E; contradiction|]. simpl.
  rewrite (can_replace_iff _ _ _ _ _ _ _ Hq).
  unfold sub_list. rewrite Nat.sub_0_r. simpl. rewrite !firstn_all, skipn_all, app_nil_r. reflexivity.
Qed.

(* whole-document check = validity at every node *)
Fixpoint valid (n : node) : bool :=
  match n with
  | Text _ m => marks_canonical s m
  | Elem ty _ m cs =>
    valid_children ty cs && marks_canonical s m &&
    (fix all (l : list node) : bool := match l with [] => true | c :: r => valid c && all r end) cs
  end.

Theorem check_iff : forall n, check s n = valid n.
Proof.
  fix IH 1. intros [t m|ty a m cs]; simpl; auto.
  rewrite valid_content_iff. f_equal.
  induction cs as [|c cs IHcs]; simpl; auto. rewrite IH, IHcs. reflexivity.
Qed.

End WithSchema.
