(* Steps with an empty position map (mark, attribute and node-mark steps): the map sends every position to itself
   and every token of the old document is found at its own position in the new document - identical outside the
   step's own range / addressed node, the same token up to marks (attributes for an attribute step) inside it
   (C03 for these step types; C13 says what the marks become). *)
From Coq Require Import ZArith NArith List Bool Arith Lia.
From PM Require Import Model.Data Model.Mark Model.Tree Model.Resolve Model.StepMap Model.Step Spec.Tokens
  Proofs.ReplaceValid Proofs.SliceSides Proofs.TokenBasics Proofs.PathTokens Proofs.ReplaceTokens Proofs.SliceShape
  Proofs.StepFaithful Proofs.TokenLaws Proofs.NodeSteps Proofs.MarkSteps.
Import ListNotations.
Local Open Scope nat_scope.

Section WithSchema.
Variable s : schema.
Notation V := (V s).
Notation DT := (DT s).

Lemma empty_map_id p a : map empty_map p a = p.
Proof. unfold map, map_result, empty_map. cbn. lia. Qed.

Lemma nth_firstn_eq {A} (l l' : list A) k p : firstn k l = firstn k l' -> p < k -> nth_error l p = nth_error l' p.
Proof. intros H Hp. rewrite <- (nth_firstn l k p Hp), <- (nth_firstn l' k p Hp), H. reflexivity. Qed.
Lemma nth_skipn_eq {A} (l l' : list A) k p : skipn k l = skipn k l' -> length l = length l' -> k <= p ->
  nth_error l p = nth_error l' p.
Proof.
  intros H Hl Hp. replace p with (k + (p - k)) by lia. rewrite <- !nth_skipn, H. reflexivity.
Qed.

Theorem mark_step_map_faithful st from to doc d' :
  V doc -> from <= to -> mark_step_range st = Some (from, to) -> apply s st doc = ROk d' ->
  get_map s st = empty_map /\
  length (DT d') = length (DT doc) /\
  (forall p, p < from \/ to <= p -> nth_error (DT d') (Z.to_nat (map (get_map s st) (Z.of_nat p) 1)) = nth_error (DT doc) p) /\
  (forall p, option_map sh (nth_error (DT d') (Z.to_nat (map (get_map s st) (Z.of_nat p) 1))) = option_map sh (nth_error (DT doc) p)).
Proof.
  intros Hd Hft Hr H. destruct (mark_step_tokens s st from to doc d' Hd Hft Hr H) as (Hl & Hf & Hs & Hsh).
  assert (Hm : get_map s st = empty_map) by (destruct st; try discriminate; reflexivity).
  split; [exact Hm|]. split; [exact Hl|]. rewrite Hm. split.
  - intros p Hp. rewrite empty_map_id, Nat2Z.id. destruct Hp as [Hp|Hp].
    + apply (nth_firstn_eq _ _ from); assumption.
    + apply (nth_skipn_eq _ _ to); assumption.
  - intros p. rewrite empty_map_id, Nat2Z.id. unfold shs in Hsh. rewrite <- !nth_error_map, Hsh. reflexivity.
Qed.

Theorem node_step_map_faithful st pos doc d' :
  V doc -> is_node_step st = Some pos -> apply s st doc = ROk d' ->
  get_map s st = empty_map /\
  length (DT d') = length (DT doc) /\
  (forall p, p <> pos -> nth_error (DT d') (Z.to_nat (map (get_map s st) (Z.of_nat p) 1)) = nth_error (DT doc) p).
Proof.
  intros Hd Hst H.
  destruct (node_step_splice s st pos doc d' Hd Hst H) as (ty & a & m & cs & a' & m' & _ & _ & Hnth & E).
  assert (Hm : get_map s st = empty_map) by (destruct st; try discriminate; reflexivity).
  assert (Hp : pos < length (DT doc)) by (apply nth_error_Some; rewrite Hnth; discriminate).
  assert (Hlf : length (firstn pos (DT doc)) = pos) by (rewrite firstn_length; lia).
  split; [exact Hm|]. split.
  - rewrite E, !app_length, firstn_length, skipn_length. cbn [length]. lia.
  - intros p Hne. rewrite Hm, empty_map_id, Nat2Z.id, E.
    destruct (Nat.lt_ge_cases p pos) as [Hlt|Hge].
    + rewrite nth_error_app1 by lia. apply nth_firstn. exact Hlt.
    + rewrite nth_error_app2 by lia. rewrite Hlf. destruct (p - pos) as [|k] eqn:Ek; [lia|]. cbn [app nth_error].
      rewrite nth_skipn. f_equal. lia.
Qed.

End WithSchema.
