(* Undoing a whole history (C04): the inverses of the recorded steps, applied in reverse order, restore the
   token sequence of the starting document - for histories of replace, replace-around, attribute,
   document-attribute and (non-displacing) node-mark steps - and, for replace-step histories over normal-form documents, a document EQUAL to it. *)
From Coq Require Import ZArith NArith List Bool Arith Lia String.
From PM Require Import Model.Data Model.Mark Model.Tree Model.Resolve Model.StepMap Model.Step Spec.Tokens
  Proofs.ReplaceValid Proofs.SliceSides Proofs.TokenBasics Proofs.PathTokens Proofs.ReplaceTokens Proofs.SliceShape
  Proofs.StepFaithful Proofs.SliceTokens Proofs.SliceCut Proofs.TokenLaws Proofs.StepAlgebra Proofs.StepTokens
  Proofs.AroundTokens Proofs.AroundUndo Proofs.AttrUndo Proofs.NodeMarkUndo Proofs.TransformProofs
  Proofs.DataProofs Proofs.TokenInj Proofs.ReplaceCanon Proofs.DocEquality.
Import ListNotations.
Local Open Scope nat_scope.
Local Open Scope list_scope.

Fixpoint node_eqb_refl (n : node) : node_eqb n n = true.
Proof.
  destruct n as [t m|ty a m cs].
  - cbn. rewrite DataProofs.cps_eqb_refl, DataProofs.marks_eqb_refl. reflexivity.
  - rewrite TokenInj.node_eqb_elem, Nat.eqb_refl, DataProofs.attrs_eqb_refl, DataProofs.marks_eqb_refl. cbn [andb].
    induction cs as [|c cs IH]; [reflexivity|]. cbn [frag_eqb]. rewrite node_eqb_refl, IH. reflexivity.
Qed.

Section WithSchema.
Variable s : schema.
Notation nsize := (node_size s).
Notation V := (V s).
Notation DT := (DT s).
Notation IT := (IT s).
Notation ShapeS sl := (Shape s (sl_content sl) (sl_open_start sl) (sl_open_end sl)).
Notation OpenS sl := (OpenOK s (sl_content sl) (sl_open_start sl) (sl_open_end sl)).

(* the inverse, applied to any valid document with the result's tokens, restores the original's tokens *)
Definition TokUndo (st : step) (doc : node) : Prop :=
  forall d' inv e d'', apply s st doc = ROk d' -> invert_step s st doc = Ok inv ->
    V e -> DT e = DT d' -> apply s inv e = ROk d'' -> DT d'' = DT doc.

(* the steps the single-step undo theorems cover, with their hypotheses *)
Definition Undoable (st : step) (doc : node) : Prop :=
  match st with
  | SReplace from to sl _ => V doc /\ OpenS sl /\ from <= to
  | SReplaceAround from to gf gt sl ins _ =>
    V doc /\ ShapeS sl /\ from <= gf /\ gf <= gt /\ gt <= to /\ ins <= List.length (IT sl)
  | SAttr pos _ _ => V doc /\ forall n, node_at s (S (nsize doc)) doc pos = Ok (Some n) -> NodeNormal s n
  | SDocAttr _ _ => True
  | SAddNodeMark pos mk =>
    V doc /\ forall n, node_at s (S (nsize doc)) doc pos = Ok (Some n) ->
               NodeNormal s n /\ List.length (add_to_set s mk (node_marks n)) = S (List.length (node_marks n))
  | SRemoveNodeMark pos mk =>
    V doc /\ forall n, node_at s (S (nsize doc)) doc pos = Ok (Some n) ->
               NodeNormal s n /\ msnorm (add_to_set s mk (remove_from_set mk (node_marks n))) = msnorm (node_marks n)
  | _ => False
  end.

Lemma undoable_tok_undo st doc : Undoable st doc -> TokUndo st doc.
Proof.
  destruct st as [from to sl st|from to gf gt sl ins st| | |pos mk|pos mk|pos attr value|attr value]; cbn [Undoable]; intros H; try contradiction;
    intros d' inv e d'' Ha Hi He HeT Hb.
  - destruct H as (Hd & Ho & Hft). exact (replace_step_undo_on s _ _ _ _ _ _ _ _ _ Hd Ho Hft Ha Hi He HeT Hb).
  - destruct H as (Hd & Hs & H1 & H2 & H3 & H4).
    exact (around_step_undo_on s _ _ _ _ _ _ _ _ _ _ _ _ Hd Hs H1 H2 H3 H4 Ha Hi He HeT Hb).
  - destruct H as (Hd & Hn). exact (proj2 (add_node_mark_undo_on s _ _ _ _ _ _ _ Hd Hn Ha Hi He HeT Hb)).
  - destruct H as (Hd & Hn). exact (remove_node_mark_undo_on s _ _ _ _ _ _ _ Hd Hn Ha Hi He HeT Hb).
  - destruct H as (Hd & Hn). exact (attr_step_undo_on s _ _ _ _ _ _ _ _ Hd Hn Ha Hi He HeT Hb).
  - cbn [invert_step] in Hi. destruct (lookup_attr (node_attrs doc) attr) as [v0|]; [|discriminate].
    inversion Hi; subst inv. rewrite (doc_attr_step_tokens s _ _ _ _ Hb), HeT. exact (doc_attr_step_tokens s _ _ _ _ Ha).
Qed.

(* the inverses of a list of steps run from [d], in undo order (last step's inverse first) *)
Fixpoint inverses (d : node) (sts : list step) : res (list step) :=
  match sts with
  | [] => Ok []
  | st :: r =>
    match apply s st d with
    | ROk d1 => do inv <- invert_step s st d; do rest <- inverses d1 r; Ok (rest ++ [inv])
    | _ => Err ErrInternal
    end
  end.

Fixpoint UndoableAll (d : node) (sts : list step) : Prop :=
  match sts with
  | [] => True
  | st :: r => Undoable st d /\ forall d1, apply s st d = ROk d1 -> UndoableAll d1 r
  end.

(* running a list of steps, every step applied to a valid document *)
Fixpoint Run (e : node) (sts : list step) (r : node) : Prop :=
  match sts with
  | [] => r = e
  | st :: rest => V e /\ exists e1, apply s st e = ROk e1 /\ Run e1 rest r
  end.

Lemma Run_app : forall a b e r, Run e (a ++ b) r -> exists m, Run e a m /\ Run m b r.
Proof.
  induction a as [|st a IH]; intros b e r H; cbn [app Run] in *.
  - exists e. split; [reflexivity|exact H].
  - destruct H as (He & e1 & Ha & Hr). destruct (IH _ _ _ Hr) as (m & H1 & H2). exists m. split; [|exact H2].
    split; [exact He|]. exists e1. split; assumption.
Qed.

Theorem history_undo_tokens : forall sts d dn invs,
  replay s d sts = ROk dn -> inverses d sts = Ok invs -> UndoableAll d sts ->
  forall e r, DT e = DT dn -> Run e invs r -> DT r = DT d.
Proof.
  induction sts as [|st sts IH]; intros d dn invs Hrep Hinv Hall e r HeT Hrun.
  - cbn in Hrep, Hinv. inversion Hrep; subst dn. inversion Hinv; subst invs. cbn in Hrun. subst r. exact HeT.
  - cbn [replay inverses UndoableAll] in *. destruct Hall as (Hu & Hall).
    destruct (apply s st d) as [d1| |] eqn:Ea; try discriminate.
    destruct (invert_step s st d) as [inv|] eqn:Ei; [|discriminate]. cbn [bind] in Hinv.
    destruct (inverses d1 sts) as [rest|] eqn:Er; [|discriminate]. cbn [bind] in Hinv. inversion Hinv; subst invs.
    destruct (Run_app _ _ _ _ Hrun) as (m & Hr1 & Hr2).
    pose proof (IH d1 dn rest Hrep Er (Hall d1 eq_refl) e m HeT Hr1) as Hm.
    cbn [Run] in Hr2. destruct Hr2 as (Hvm & e1 & Hap & ->).
    exact (undoable_tok_undo st d Hu d1 inv m e1 Ea Ei Hvm Hm Hap).
Qed.

(* ------------------------------------------------------------------ replace-step histories: an equal document *)
Notation NormalDoc := (NormalDoc s).
Notation CL := (CL s).

Definition is_replace_cl (st : step) : Prop :=
  match st with SReplace _ _ sl _ => CL (sl_content sl) | _ => False end.

Fixpoint ReplaceHist (d : node) (sts : list step) : Prop :=
  match sts with
  | [] => True
  | st :: r => is_replace_cl st /\ forall d1, apply s st d = ROk d1 -> ReplaceHist d1 r
  end.

Definition same_root (d1 d2 : node) : Prop :=
  exists ty a m cs1 cs2, d1 = Elem ty a m cs1 /\ d2 = Elem ty a m cs2.
Lemma same_root_trans a b c : same_root a b -> same_root b c -> same_root a c.
Proof.
  intros (ty & at_ & m & c1 & c2 & -> & ->) (ty' & a' & m' & c3 & c4 & E & ->). inversion E; subst.
  exists ty', a', m', c1, c4. split; reflexivity.
Qed.

(* running replace steps with normal-form slices keeps the normal form and the root's markup *)
Lemma run_replace_normal : forall sts e r,
  Forall is_replace_cl sts -> NormalDoc e -> Run e sts r -> NormalDoc r /\ (sts <> [] -> same_root e r).
Proof.
  induction sts as [|st sts IH]; intros e r Hall Hn Hrun.
  - cbn in Hrun. subst r. split; [exact Hn|]. intros H; contradiction H; reflexivity.
  - inversion Hall as [|? ? Hst Hall']; subst. cbn [Run] in Hrun. destruct Hrun as (_ & e1 & Ha & Hr).
    destruct st; try contradiction. cbn [is_replace_cl] in Hst.
    destruct (apply_replace_normal s _ _ _ _ _ _ Hn Hst Ha) as (Hn1 & ty & a & m & cs & cs' & -> & ->).
    destruct (IH _ _ Hall' Hn1 Hr) as (Hnr & Hroot). split; [exact Hnr|]. intros _.
    destruct sts as [|st2 sts'].
    + cbn in Hr. subst r. exists ty, a, m, cs, cs'. split; reflexivity.
    + eapply same_root_trans; [|apply Hroot; discriminate]. exists ty, a, m, cs, cs'. split; reflexivity.
Qed.

(* the forward run of a replace history: normal form kept, and every inverse is a replace step with a normal-form slice *)
Lemma replace_hist_forward : forall sts d dn invs,
  NormalDoc d -> ReplaceHist d sts -> replay s d sts = ROk dn -> inverses d sts = Ok invs ->
  NormalDoc dn /\ (sts <> [] -> same_root d dn) /\ Forall is_replace_cl invs /\ (sts = [] -> invs = []).
Proof.
  induction sts as [|st sts IH]; intros d dn invs Hn Hh Hrep Hinv.
  - cbn in Hrep, Hinv. inversion Hrep; subst dn. inversion Hinv; subst invs.
    split; [exact Hn|]. split; [intros H; contradiction H; reflexivity|]. split; [constructor|reflexivity].
  - cbn [replay inverses ReplaceHist] in *. destruct Hh as (Hst & Hh).
    destruct (apply s st d) as [d1| |] eqn:Ea; try discriminate.
    destruct (invert_step s st d) as [inv|] eqn:Ei; [|discriminate]. cbn [bind] in Hinv.
    destruct (inverses d1 sts) as [rest|] eqn:Er; [|discriminate]. cbn [bind] in Hinv. inversion Hinv; subst invs.
    destruct st as [from to sl structure| | | | | | |]; try contradiction. cbn [is_replace_cl] in Hst.
    destruct (apply_replace_normal s _ _ _ _ _ _ Hn Hst Ea) as (Hn1 & ty & a & m & cs & cs' & -> & ->).
    destruct (IH _ _ _ Hn1 (Hh _ eq_refl) Hrep Er) as (Hnn & Hroot & Hfa & _).
    cbn [invert_step] in Ei. destruct (node_slice s (Elem ty a m cs) from to) as [old|] eqn:Eo; [|discriminate]. cbn [bind] in Ei.
    inversion Ei; subst inv.
    assert (Hco : CL (sl_content old)) by (eapply node_slice_CL; [apply Hn|exact Eo]).
    split; [exact Hnn|]. split; [|split].
    + intros _. destruct sts as [|st2 sts'].
      * cbn in Hrep. inversion Hrep; subst dn. exists ty, a, m, cs, cs'. split; reflexivity.
      * eapply same_root_trans; [|apply Hroot; discriminate]. exists ty, a, m, cs, cs'. split; reflexivity.
    + apply Forall_app. split; [exact Hfa|]. constructor; [exact Hco|constructor].
    + discriminate.
Qed.

Theorem replace_history_undo_eq sts d dn invs r :
  NormalDoc d -> ReplaceHist d sts -> UndoableAll d sts ->
  replay s d sts = ROk dn -> inverses d sts = Ok invs -> Run dn invs r ->
  node_eqb r d = true.
Proof.
  intros Hn Hh Hu Hrep Hinv Hrun.
  pose proof (history_undo_tokens _ _ _ _ Hrep Hinv Hu dn r eq_refl Hrun) as HT.
  destruct (replace_hist_forward _ _ _ _ Hn Hh Hrep Hinv) as (Hnn & Hroot & Hfa & Hnil).
  destruct (run_replace_normal _ _ _ Hfa Hnn Hrun) as (Hnr & Hroot2).
  destruct sts as [|st sts'].
  - rewrite (Hnil eq_refl) in Hrun. cbn in Hrun, Hrep. inversion Hrep; subst dn. subst r. apply node_eqb_refl.
  - assert (Hne : invs <> []).
    { cbn [inverses] in Hinv. destruct (apply s st d); try discriminate. destruct (invert_step s st d); [|discriminate].
      cbn [bind] in Hinv. destruct (inverses _ sts'); [|discriminate]. cbn [bind] in Hinv. inversion Hinv.
      intros E. apply (f_equal (@List.length step)) in E. rewrite app_length in E. cbn in E. lia. }
    destruct (Hroot ltac:(discriminate)) as (ty & a & m & c1 & c2 & -> & ->).
    destruct (Hroot2 Hne) as (ty' & a' & m' & c3 & c4 & E & ->). inversion E; subst ty' a' m' c3.
    eapply NormalDoc_eq; eauto.
Qed.

End WithSchema.
