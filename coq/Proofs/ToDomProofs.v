(* DOMSerializer.serialize_fragment (Model/ToDom.v): every node of the fragment ends up, in order, inside wrapper elements
   for exactly its own rendered marks, outermost first (C19: what export does with marks). *)
From Coq Require Import List Bool Arith Lia.
From PM Require Import Model.Data Model.Mark Model.ToDom Proofs.DataProofs.
Import ListNotations.

Section WithSchema.
Variable s : schema.
Variable rendered spanning : mark -> bool.
Notation ser_node := (ser_node s rendered spanning).
Notation ser_step := (ser_step s rendered spanning).
Notation match_keep := (match_keep rendered spanning).
Notation open_marks := (open_marks rendered).

(* the items of a rendered list with the marks of the wrappers around them, outermost first *)
Fixpoint flat (enc : list mark) (d : dom) {struct d} : list (dom * list mark) :=
  match d with
  | DMark m kids =>
    (fix go (l : list dom) : list (dom * list mark) := match l with [] => [] | x :: r => flat (enc ++ [m]) x ++ go r end) kids
  | other => [(other, enc)]
  end.
Definition flat_list (enc : list mark) (l : list dom) : list (dom * list mark) := flat_map (flat enc) l.

Lemma flat_mark enc m kids : flat enc (DMark m kids) = flat_list (enc ++ [m]) kids.
Proof. cbn [flat]. unfold flat_list. induction kids as [|x r IH]; [reflexivity|]. cbn [flat_map]. rewrite IH. reflexivity. Qed.

Lemma flat_list_app enc a b : flat_list enc (a ++ b) = flat_list enc a ++ flat_list enc b.
Proof. unfold flat_list. apply flat_map_app. Qed.

Definition not_mark (d : dom) : Prop := match d with DMark _ _ => False | _ => True end.
Lemma flat_item enc d : not_mark d -> flat enc d = [(d, enc)].
Proof. destruct d; cbn; intros H; try reflexivity. destruct H. Qed.

(* the open state read the same way: frames outermost first *)
Fixpoint frames_flat (frames : list frame) (enc : list mark) : list (dom * list mark) :=
  match frames with
  | [] => []
  | (m, kids) :: r => flat_list (enc ++ [m]) kids ++ frames_flat r (enc ++ [m])
  end.
Definition active (st : sstate) : list mark := rev (List.map fst (fst st)).
Definition sflat (st : sstate) : list (dom * list mark) := flat_list [] (snd st) ++ frames_flat (rev (fst st)) [].

Lemma frames_flat_app a : forall b enc,
  frames_flat (a ++ b) enc = frames_flat a enc ++ frames_flat b (enc ++ List.map fst a).
Proof.
  induction a as [|[m kids] a IH]; intros b enc; cbn [app frames_flat List.map]; [rewrite app_nil_r; reflexivity|].
  rewrite IH, <- !app_assoc. cbn [app]. reflexivity.
Qed.

Lemma sflat_add_child d st : not_mark d -> sflat (add_child d st) = sflat st ++ [(d, active st)].
Proof.
  intros Hd. destruct st as [[|[m kids] r] done]; unfold sflat, active; cbn [add_child fst snd List.map rev].
  - cbn [frames_flat]. rewrite flat_list_app, !app_nil_r. unfold flat_list at 2. cbn [flat_map]. rewrite (flat_item [] d Hd), app_nil_r. reflexivity.
  - rewrite !frames_flat_app. cbn [frames_flat]. rewrite !app_nil_r, flat_list_app. unfold flat_list at 3. cbn [flat_map].
    rewrite (flat_item _ d Hd), app_nil_r. rewrite map_rev. cbn [app]. rewrite <- !app_assoc. reflexivity.
Qed.

Lemma active_add_child d st : active (add_child d st) = active st.
Proof. destruct st as [[|[m k] r] done]; reflexivity. Qed.

Lemma sflat_pop st : sflat (pop st) = sflat st /\ active (pop st) = removelast (active st).
Proof.
  destruct st as [[|[m kids] r] done]; [split; reflexivity|]. cbn [pop].
  destruct r as [|[m' kids'] r']; unfold sflat, active; cbn [add_child fst snd List.map rev].
  - cbn [frames_flat app]. rewrite flat_list_app. unfold flat_list at 2. cbn [flat_map]. rewrite flat_mark, !app_nil_r. split; reflexivity.
  - rewrite !frames_flat_app. cbn [frames_flat]. rewrite !app_nil_r, flat_list_app. unfold flat_list at 3. cbn [flat_map].
    rewrite flat_mark, app_nil_r. rewrite !map_app, !map_rev. cbn [List.map app fst]. rewrite <- !app_assoc. cbn [app]. split; [reflexivity|].
    rewrite removelast_app by discriminate. cbn [removelast]. reflexivity.
Qed.

Lemma sflat_pop_n : forall n st, sflat (pop_n n st) = sflat st /\ active (pop_n n st) = firstn (length (active st) - n) (active st).
Proof.
  induction n as [|n IH]; intros st; cbn [pop_n].
  - split; [reflexivity|]. rewrite Nat.sub_0_r, firstn_all. reflexivity.
  - destruct (IH (pop st)) as (H1 & H2). destruct (sflat_pop st) as (P1 & P2). rewrite H1, P1, H2, P2. split; [reflexivity|].
    destruct (active st) as [|a l] eqn:E using rev_ind; [reflexivity|]. clear IHl.
    rewrite removelast_app by discriminate. cbn [removelast]. rewrite app_nil_r, app_length. cbn [length].
    replace (length l + 1 - S n) with (length l - n) by lia. rewrite firstn_app.
    replace (length l - n - length l) with 0 by lia. cbn [firstn]. rewrite app_nil_r. reflexivity.
Qed.

Lemma sflat_open ms : forall st, sflat (open_marks ms st) = sflat st /\ active (open_marks ms st) = active st ++ filter rendered ms.
Proof.
  unfold open_marks. induction ms as [|m ms IH]; intros st; cbn [fold_left filter]; [rewrite app_nil_r; auto|].
  destruct (rendered m).
  - destruct (IH ((m, @nil dom) :: fst st, snd st)) as (H1 & H2). split.
    + eapply eq_trans; [exact H1|]. unfold sflat. cbn [fst snd rev]. rewrite frames_flat_app. cbn [frames_flat].
      unfold flat_list at 3. cbn [flat_map]. rewrite !app_nil_r. reflexivity.
    + eapply eq_trans; [exact H2|]. unfold active. cbn [fst snd List.map rev]. rewrite <- app_assoc. reflexivity.
  - apply IH.
Qed.

(* what the keep loop decides *)
Definition marks_match (a b : list mark) : Prop := Forall2 (fun x y => mark_eqb x y = true) a b.

Lemma match_keep_spec : forall marks act k rest,
  match_keep act marks = (k, rest) ->
  exists pre, marks = pre ++ rest /\ k <= length act /\ marks_match (filter rendered pre) (firstn k act).
Proof.
  induction marks as [|m mr IH]; intros act k rest H; cbn [ToDom.match_keep] in H.
  - inversion H; subst. exists []. split; [reflexivity|]. split; [lia|]. cbn. constructor.
  - destruct act as [|a ar].
    + inversion H; subst. exists []. split; [reflexivity|]. split; [cbn; lia|]. cbn. constructor.
    + destruct (rendered m) eqn:Er; cbn [negb] in H.
      * destruct (negb (mark_eqb m a) || negb (spanning m)) eqn:Eb.
        -- inversion H; subst. exists []. split; [reflexivity|]. split; [lia|]. cbn. constructor.
        -- destruct (match_keep ar mr) as [k' rest'] eqn:Em. inversion H; subst k rest.
           destruct (IH ar k' rest' Em) as (pre & E & Hk & Hm). exists (m :: pre). split; [cbn; rewrite E; reflexivity|].
           split; [cbn [length]; lia|]. cbn [filter]. rewrite Er. cbn [firstn]. constructor; [|exact Hm].
           apply orb_false_elim in Eb. destruct Eb as [Eb _]. apply negb_false_iff in Eb. exact Eb.
      * destruct (IH (a :: ar) k rest H) as (pre & E & Hk & Hm). exists (m :: pre). split; [cbn; rewrite E; reflexivity|].
        split; [exact Hk|]. cbn [filter]. rewrite Er. exact Hm.
Qed.

Lemma ser_node_not_mark c : not_mark (ser_node c).
Proof. destruct c as [t m|ty a m cs]; cbn [ToDom.ser_node]; [exact I|]. destruct (is_leaf_ty s ty); exact I. Qed.

(* one node: it lands inside wrappers for exactly its rendered marks *)
Lemma ser_step_spec st c :
  exists enc, sflat (ser_step st c) = sflat st ++ [(ser_node c, enc)] /\ active (ser_step st c) = enc /\
              marks_match (filter rendered (node_marks c)) enc.
Proof.
  unfold ToDom.ser_step. fold (active st).
  destruct (match_keep (active st) (node_marks c)) as [keep rest] eqn:Em.
  destruct (match_keep_spec _ _ _ _ Em) as (pre & E & Hk & Hm).
  set (st1 := pop_n (length (active st) - keep) st).
  destruct (sflat_pop_n (length (active st) - keep) st) as (P1 & P2). fold st1 in P1, P2.
  replace (length (active st) - (length (active st) - keep)) with keep in P2 by lia.
  destruct (sflat_open rest st1) as (O1 & O2).
  exists (firstn keep (active st) ++ filter rendered rest).
  rewrite (sflat_add_child _ _ (ser_node_not_mark c)), O1, P1, O2, P2. split; [reflexivity|].
  split.
  - rewrite active_add_child, O2, P2. reflexivity.
  - rewrite E, filter_app. unfold marks_match. apply Forall2_app; [exact Hm|].
    clear. induction (filter rendered rest) as [|x l IH]; constructor; [apply mark_eqb_refl|exact IH].
Qed.

Theorem ser_fragment_marks : forall l,
  exists encs, flat_list [] (ser_fragment s rendered spanning l) = combine (List.map ser_node l) encs /\
               length encs = length l /\
               Forall2 (fun c enc => marks_match (filter rendered (node_marks c)) enc) l encs.
Proof.
  intros l. unfold ser_fragment, close_all.
  assert (G : forall l st, exists encs,
            sflat (fold_left ser_step l st) = sflat st ++ combine (List.map ser_node l) encs /\ length encs = length l /\
            Forall2 (fun c enc => marks_match (filter rendered (node_marks c)) enc) l encs).
  { induction l0 as [|c r IH]; intros st; cbn [fold_left List.map].
    - exists []. rewrite app_nil_r. repeat split; constructor.
    - destruct (ser_step_spec st c) as (enc & S1 & _ & S3). destruct (IH (ser_step st c)) as (encs & I1 & I2 & I3).
      exists (enc :: encs). rewrite I1, S1, <- app_assoc. cbn [combine app length]. repeat split; [lia|constructor; assumption]. }
  destruct (G l ([], [])) as (encs & H1 & H2 & H3). exists encs. split; [|split; assumption].
  set (stf := fold_left ser_step l ([], [])) in *.
  destruct (sflat_pop_n (length (fst stf)) stf) as (P1 & P2).
  assert (Hact : fst (pop_n (length (fst stf)) stf) = []).
  { assert (L : length (active stf) = length (fst stf)) by (unfold active; rewrite rev_length, map_length; reflexivity).
    rewrite L, Nat.sub_diag in P2. cbn [firstn] in P2. unfold active in P2.
    destruct (fst (pop_n (length (fst stf)) stf)) as [|f r]; [reflexivity|]. cbn [List.map rev] in P2.
    apply (f_equal (@length mark)) in P2. rewrite app_length in P2. cbn in P2. lia. }
  unfold sflat in P1 at 1. rewrite Hact in P1. cbn [rev frames_flat] in P1. rewrite app_nil_r in P1.
  rewrite P1, H1. reflexivity.
Qed.

(* the children of a rendered node are its content serialised the same way *)
Lemma ser_node_elem ty a m cs : is_leaf_ty s ty = false ->
  ser_node (Elem ty a m cs) = DElem ty a (ser_fragment s rendered spanning cs).
Proof.
  intros El. cbn [ToDom.ser_node]. rewrite El. f_equal. unfold ser_fragment, close_all.
  match goal with |- snd (pop_n (length (fst (?F cs ?st0))) (?F cs ?st0)) = _ => set (go := F) end.
  assert (G : forall l st, go l st = fold_left ser_step l st).
  { induction l as [|c r IH]; intros st; [reflexivity|]. cbn [fold_left]. rewrite <- IH. unfold ToDom.ser_step.
    cbn [go]. destruct (match_keep (rev (List.map fst (fst st))) (node_marks c)) as [keep rest]. reflexivity. }
  rewrite G. reflexivity.
Qed.

End WithSchema.
