(* A node-level step (attribute, add / remove node mark) and a replace-around step that touch separated parts of a
   document commute after rebasing (C17): neither is dropped, and both orders give the same token sequence. *)
From Coq Require Import ZArith NArith List Bool Arith Lia.
From PM Require Import Model.Data Model.Mark Model.Tree Model.StepMap Model.Step Spec.Tokens
  Proofs.ReplaceValid Proofs.SliceSides Proofs.TokenBasics Proofs.ReplaceTokens Proofs.SliceShape Proofs.TokenLaws
  Proofs.StepFaithful Proofs.StepAlgebra Proofs.SliceTokens Proofs.AroundTokens Proofs.NodeSteps Proofs.MarkMerge Proofs.AttrUndo
  Proofs.NodeStepCommute Proofs.MarkCommute Proofs.AroundCommute.
Import ListNotations.
Local Open Scope nat_scope.
Local Open Scope list_scope.

(* one token rewritten *)
Definition upd1 {A} (T : list A) (p : nat) (x : A) : list A := firstn p T ++ [x] ++ skipn (S p) T.

Lemma upd1_length {A} (T : list A) p x : p < length T -> length (upd1 T p x) = length T.
Proof. intros H. unfold upd1. rewrite !app_length, firstn_length, skipn_length. cbn [length]. lia. Qed.

Lemma nth_upd1 {A} (T : list A) p x i : p < length T -> nth_error (upd1 T p x) i = if i =? p then Some x else nth_error T i.
Proof. apply nth_splice1. Qed.

Lemma firstn_upd1_ge {A} (T : list A) p x n : n <= p -> p < length T -> firstn n (upd1 T p x) = firstn n T.
Proof.
  intros H Hp. apply nth_error_ext_eq. intros i. destruct (Nat.lt_ge_cases i n) as [Hi|Hi].
  - rewrite !nth_firstn by lia. rewrite nth_upd1 by lia. destruct (i =? p) eqn:E; [apply Nat.eqb_eq in E; lia|reflexivity].
  - transitivity (@None A); [|symmetry]; apply nth_error_None; rewrite firstn_length; lia.
Qed.

Lemma skipn_upd1_lt {A} (T : list A) p x n : p < n -> p < length T -> skipn n (upd1 T p x) = skipn n T.
Proof.
  intros H Hp. apply nth_error_ext_eq. intros i. rewrite !nth_skipn, nth_upd1 by lia.
  destruct (n + i =? p) eqn:E; [apply Nat.eqb_eq in E; lia|reflexivity].
Qed.

Lemma firstn_upd1_lt {A} (T : list A) p x n : p < n -> n <= length T -> firstn n (upd1 T p x) = upd1 (firstn n T) p x.
Proof.
  intros H Hn. apply nth_error_ext_eq. intros i. destruct (Nat.lt_ge_cases i n) as [Hi|Hi].
  - rewrite nth_firstn by lia. rewrite !nth_upd1 by (rewrite ?firstn_length; lia).
    destruct (i =? p); [reflexivity|]. rewrite nth_firstn by lia. reflexivity.
  - transitivity (@None A); [|symmetry]; apply nth_error_None.
    + rewrite firstn_length. lia.
    + rewrite upd1_length by (rewrite firstn_length; lia). rewrite firstn_length. lia.
Qed.

Lemma skipn_upd1_ge {A} (T : list A) p x n : n <= p -> p < length T -> skipn n (upd1 T p x) = upd1 (skipn n T) (p - n) x.
Proof.
  intros H Hp. apply nth_error_ext_eq. intros i. rewrite nth_skipn, !nth_upd1 by (rewrite ?skipn_length; lia).
  destruct (n + i =? p) eqn:E1; destruct (i =? p - n) eqn:E2; try reflexivity;
    try (apply Nat.eqb_eq in E1); try (apply Nat.eqb_eq in E2); try (apply Nat.eqb_neq in E1); try (apply Nat.eqb_neq in E2); try lia.
  rewrite nth_skipn. reflexivity.
Qed.

Lemma seg_upd1_out {A} (T : list A) p x a b : p < a \/ b <= p -> a <= b -> p < length T -> seg (upd1 T p x) a b = seg T a b.
Proof.
  intros H Hab Hp. unfold seg. apply nth_error_ext_eq. intros i. destruct (Nat.lt_ge_cases i (b - a)) as [Hi|Hi].
  - rewrite !nth_firstn by lia. rewrite !nth_skipn, nth_upd1 by lia.
    destruct (a + i =? p) eqn:E; [apply Nat.eqb_eq in E; lia|reflexivity].
  - transitivity (@None A); [|symmetry]; apply nth_error_None; rewrite firstn_length; lia.
Qed.

Lemma seg_upd1_in {A} (T : list A) p x a b : a <= p -> p < b -> b <= length T -> seg (upd1 T p x) a b = upd1 (seg T a b) (p - a) x.
Proof.
  intros Ha Hb Hl. assert (Ls : length (seg T a b) = b - a) by (unfold seg; rewrite firstn_length, skipn_length; lia).
  apply nth_error_ext_eq. intros i. rewrite nth_upd1 by lia. unfold seg. destruct (Nat.lt_ge_cases i (b - a)) as [Hi|Hi].
  - rewrite !nth_firstn by lia. rewrite !nth_skipn, nth_upd1 by lia.
    destruct (a + i =? p) eqn:E1; destruct (i =? p - a) eqn:E2; try reflexivity;
      try (apply Nat.eqb_eq in E1); try (apply Nat.eqb_eq in E2); try (apply Nat.eqb_neq in E1); try (apply Nat.eqb_neq in E2); lia.
  - destruct (i =? p - a) eqn:E2; [apply Nat.eqb_eq in E2; lia|].
    transitivity (@None A); [|symmetry]; apply nth_error_None; rewrite firstn_length, skipn_length; try rewrite upd1_length by lia; lia.
Qed.

Lemma upd1_app_l {A} (P Q : list A) p x : p < length P -> upd1 (P ++ Q) p x = upd1 P p x ++ Q.
Proof.
  intros H. unfold upd1. rewrite firstn_app, skipn_app. replace (p - length P) with 0 by lia. replace (S p - length P) with 0 by lia.
  cbn [firstn skipn]. rewrite app_nil_r, <- !app_assoc. reflexivity.
Qed.

Lemma upd1_app_r {A} (P Q : list A) k x : upd1 (P ++ Q) (length P + k) x = P ++ upd1 Q k x.
Proof.
  unfold upd1. rewrite firstn_app, skipn_app. rewrite firstn_all2 by lia. rewrite skipn_all2 by lia.
  replace (length P + k - length P) with k by lia. replace (S (length P + k) - length P) with (S k) by lia.
  cbn [app]. rewrite <- !app_assoc. reflexivity.
Qed.

Section WithSchema.
Variable s : schema.
Notation V := (V s).
Notation DT := (DT s).
Notation IT := (IT s).
Notation ShapeS sl := (Shape s (sl_content sl) (sl_open_start sl) (sl_open_end sl)).

(* what a successful node step does to the tokens, as a one-token update *)
Lemma node_step_upd st pos doc d' :
  V doc -> is_node_step st = Some pos -> apply s st doc = ROk d' ->
  exists ty a m cs a' m',
    node_update s st (Elem ty a m cs) = Ok (Elem ty a' m' []) /\
    nth_error (DT doc) pos = Some (tnorm (head_tok s ty a m)) /\
    DT d' = upd1 (DT doc) pos (tnorm (head_tok s ty a' m')).
Proof. apply node_step_result. Qed.

(* the same step applied to two documents that carry the same token at its position writes the same token *)
Lemma node_step_same_token st pos d1 d1' d2 d2' p2 :
  V d1 -> V d2 -> is_node_step st = Some pos ->
  apply s st d1 = ROk d1' -> apply s (move_step st p2) d2 = ROk d2' ->
  nth_error (DT d2) p2 = nth_error (DT d1) pos ->
  exists x, DT d1' = upd1 (DT d1) pos x /\ DT d2' = upd1 (DT d2) p2 x /\ pos < length (DT d1).
Proof.
  intros H1 H2 Hst A1 A2 Hn.
  destruct (node_step_upd st pos d1 d1' H1 Hst A1) as (ty & a & m & cs & a' & m' & Hu & Hn1 & E1).
  destruct (node_step_upd (move_step st p2) p2 d2 d2' H2 (move_is_node_step _ _ _ Hst) A2) as (ty2 & a2 & m2 & cs2 & a2' & m2' & Hu2 & Hn2 & E2).
  rewrite move_node_update in Hu2. rewrite Hn, Hn1 in Hn2. inversion Hn2 as [Hsame].
  destruct (head_tok_norm_inj s _ _ _ _ _ _ Hsame) as (<- & _ & _).
  assert (Hx : tnorm (head_tok s ty a2' m2') = tnorm (head_tok s ty a' m')).
  { eapply (node_update_norm s st pos ty a2 m2 cs2 a2' m2' a m cs a' m'); eauto. }
  exists (tnorm (head_tok s ty a' m')). split; [exact E1|]. split; [rewrite E2, Hx; reflexivity|].
  apply nth_error_Some. rewrite Hn1. discriminate.
Qed.

Lemma move_step_id st pos : is_node_step st = Some pos -> move_step st pos = st.
Proof. destruct st; cbn; intros H; inversion H; reflexivity. Qed.

(* ------------------------------------------------------------------ the node step lies in front of the replace-around step *)
Theorem node_step_before_around_commute from to gf gt sl ins str st pos doc da db :
  V doc -> ShapeS sl -> from <= gf -> gf <= gt -> gt <= to -> ins <= length (IT sl) ->
  is_node_step st = Some pos -> pos < from ->
  apply s (SReplaceAround from to gf gt sl ins str) doc = ROk da ->
  apply s st doc = ROk db ->
  step_map st (get_map s (SReplaceAround from to gf gt sl ins str)) = Some st /\
  step_map (SReplaceAround from to gf gt sl ins str) (get_map s st) = Some (SReplaceAround from to gf gt sl ins str) /\
  forall dab dba,
    V da -> V db -> apply s st da = ROk dab -> apply s (SReplaceAround from to gf gt sl ins str) db = ROk dba ->
    DT dab = DT dba.
Proof.
  intros Hd Hs Hfg Hg Hgt Hi Hst Hsep Ha Hb.
  assert (Mb : get_map s st = empty_map) by (destruct st; try discriminate; reflexivity).
  split; [|split].
  - destruct st; try discriminate; cbn [is_node_step] in Hst; inversion Hst; subst;
      cbn [step_map get_map]; rewrite !map_result_two_before by lia;
      cbn [deleted_after mr_del mr_pos Z.land Z.lor Z.ltb Z.compare]; rewrite Nat2Z.id; reflexivity.
  - rewrite Mb. cbn [step_map]. unfold StepMap.map, map_result, empty_map. cbn [ranges inverted map_go mr_pos mr_del].
    unfold deleted. cbn [mr_del Z.land Z.ltb Z.compare andb orb]. rewrite !Z.add_0_r.
    assert (E1 : (Z.of_nat gf <? Z.of_nat from)%Z = false) by (apply Z.ltb_ge; lia).
    assert (E2 : (Z.of_nat to <? Z.of_nat gt)%Z = false) by (apply Z.ltb_ge; lia).
    rewrite E1, E2. cbn [orb]. rewrite !Nat2Z.id. reflexivity.
  - intros dab dba Hda Hdb Hab Hba.
    destruct (replace_around_splice s _ _ _ _ _ _ _ _ _ Hd Hs Hg Hi Ha) as (Hfr & Hto & Ea).
    destruct (replace_around_splice s _ _ _ _ _ _ _ _ _ Hdb Hs Hg Hi Hba) as (_ & _ & Eba).
    rewrite <- (move_step_id st pos Hst) in Hab at 1.
    assert (Hn : nth_error (DT da) pos = nth_error (DT doc) pos).
    { rewrite Ea. rewrite nth_error_app1 by (rewrite firstn_length; lia). apply nth_firstn. lia. }
    destruct (node_step_same_token st pos doc db da dab pos Hd Hda Hst Hb Hab Hn) as (x & Eb & Eab & Hp).
    set (T := DT doc) in *.
    rewrite Eab, Ea, Eba, Eb.
    rewrite upd1_app_l by (rewrite firstn_length; lia).
    rewrite firstn_upd1_lt by lia. rewrite seg_upd1_out by lia. rewrite skipn_upd1_lt by lia. reflexivity.
Qed.

(* ------------------------------------------------------------------ the node step lies behind the replace-around step *)
Theorem node_step_after_around_commute from to gf gt sl ins str st pos doc da db :
  V doc -> ShapeS sl -> from <= gf -> gf <= gt -> gt <= to -> ins <= length (IT sl) ->
  is_node_step st = Some pos -> to < pos ->
  apply s (SReplaceAround from to gf gt sl ins str) doc = ROk da ->
  apply s st doc = ROk db ->
  let pos' := pos + length (IT sl) + (gt - gf) - (to - from) in
  step_map st (get_map s (SReplaceAround from to gf gt sl ins str)) = Some (move_step st pos') /\
  step_map (SReplaceAround from to gf gt sl ins str) (get_map s st) = Some (SReplaceAround from to gf gt sl ins str) /\
  forall dab dba,
    V da -> V db -> apply s (move_step st pos') da = ROk dab -> apply s (SReplaceAround from to gf gt sl ins str) db = ROk dba ->
    DT dab = DT dba.
Proof.
  intros Hd Hs Hfg Hg Hgt Hi Hst Hsep Ha Hb pos'.
  pose proof (IT_length s sl Hs) as Hl.
  assert (Mb : get_map s st = empty_map) by (destruct st; try discriminate; reflexivity).
  split; [|split].
  - destruct st; try discriminate; cbn [is_node_step] in Hst; inversion Hst; subst;
      cbn [step_map get_map move_step]; rewrite !map_result_two_after by lia;
      cbn [deleted_after mr_del mr_pos Z.land Z.lor Z.ltb Z.compare]; rewrite <- Hl; unfold pos'; repeat f_equal; lia.
  - rewrite Mb. cbn [step_map]. unfold StepMap.map, map_result, empty_map. cbn [ranges inverted map_go mr_pos mr_del].
    unfold deleted. cbn [mr_del Z.land Z.ltb Z.compare andb orb]. rewrite !Z.add_0_r.
    assert (E1 : (Z.of_nat gf <? Z.of_nat from)%Z = false) by (apply Z.ltb_ge; lia).
    assert (E2 : (Z.of_nat to <? Z.of_nat gt)%Z = false) by (apply Z.ltb_ge; lia).
    rewrite E1, E2. cbn [orb]. rewrite !Nat2Z.id. reflexivity.
  - intros dab dba Hda Hdb Hab Hba.
    destruct (replace_around_splice s _ _ _ _ _ _ _ _ _ Hd Hs Hg Hi Ha) as (Hfr & Hto & Ea).
    destruct (replace_around_splice s _ _ _ _ _ _ _ _ _ Hdb Hs Hg Hi Hba) as (_ & _ & Eba).
    set (T := DT doc) in *. set (I := IT sl) in *.
    set (H := firstn from T ++ firstn ins I ++ seg T gf gt ++ skipn ins I).
    assert (LH : length H = from + length I + (gt - gf)).
    { unfold H. rewrite !app_length, !firstn_length, skipn_length. unfold seg. rewrite firstn_length, skipn_length. lia. }
    assert (Eda : DT da = H ++ skipn to T) by (rewrite Ea; unfold H; rewrite <- !app_assoc; reflexivity).
    assert (Hpos' : pos' = length H + (pos - to)) by (unfold pos'; lia).
    assert (Hn : nth_error (DT da) pos' = nth_error T pos).
    { rewrite Eda, Hpos'. rewrite nth_error_app2 by lia. replace (length H + (pos - to) - length H) with (pos - to) by lia.
      rewrite nth_skipn. f_equal. lia. }
    destruct (node_step_same_token st pos doc db da dab pos' Hd Hda Hst Hb Hab Hn) as (x & Eb & Eab & Hp).
    rewrite Eab, Eda, Hpos', upd1_app_r. rewrite Eba, Eb.
    rewrite firstn_upd1_ge by lia. rewrite seg_upd1_out by lia. rewrite skipn_upd1_ge by lia.
    unfold H. rewrite <- !app_assoc. reflexivity.
Qed.

(* ------------------------------------------------------------------ the node step addresses a node strictly inside the gap
   (the kept content); at the gap's first token the rebased step can be dropped - upstream's deletedAfter - so gf < pos *)
Lemma map_result_two_gap (f x y g x' y' p a : Z) : (0 <= x)%Z -> (f + x < p)%Z -> (p < g)%Z ->
  map_result {| ranges := [(f, x, y); (g, x', y')]; inverted := false |} p a =
    {| mr_pos := p + (y - x); mr_del := 0; mr_recover := None |}.
Proof.
  intros Hx H1 H2. unfold map_result. cbn [inverted ranges map_go start_of old_of new_of].
  destruct (f - 0 >? p)%Z eqn:E0; [destruct (Z.gtb_spec (f - 0) p); [lia|discriminate]|].
  destruct (p <=? f - 0 + x)%Z eqn:E1; [apply Z.leb_le in E1; lia|].
  destruct (g - 0 >? p)%Z eqn:E2; [f_equal; lia|]. destruct (Z.gtb_spec (g - 0) p); [discriminate|lia].
Qed.

Theorem node_step_in_gap_commute from to gf gt sl ins str st pos doc da db :
  V doc -> ShapeS sl -> from <= gf -> gf <= gt -> gt <= to -> ins <= length (IT sl) ->
  is_node_step st = Some pos -> gf < pos -> pos < gt ->
  apply s (SReplaceAround from to gf gt sl ins str) doc = ROk da ->
  apply s st doc = ROk db ->
  let pos' := pos + ins - (gf - from) in
  step_map st (get_map s (SReplaceAround from to gf gt sl ins str)) = Some (move_step st pos') /\
  step_map (SReplaceAround from to gf gt sl ins str) (get_map s st) = Some (SReplaceAround from to gf gt sl ins str) /\
  forall dab dba,
    V da -> V db -> apply s (move_step st pos') da = ROk dab -> apply s (SReplaceAround from to gf gt sl ins str) db = ROk dba ->
    DT dab = DT dba.
Proof.
  intros Hd Hs Hfg Hg Hgt Hi Hst Hp1 Hp2 Ha Hb pos'.
  assert (Mb : get_map s st = empty_map) by (destruct st; try discriminate; reflexivity).
  split; [|split].
  - destruct st; try discriminate; cbn [is_node_step] in Hst; inversion Hst; subst;
      cbn [step_map get_map move_step]; rewrite !map_result_two_gap by lia;
      cbn [deleted_after mr_del mr_pos Z.land Z.lor Z.ltb Z.compare]; unfold pos'; repeat f_equal; lia.
  - rewrite Mb. cbn [step_map]. unfold StepMap.map, map_result, empty_map. cbn [ranges inverted map_go mr_pos mr_del].
    unfold deleted. cbn [mr_del Z.land Z.ltb Z.compare andb orb]. rewrite !Z.add_0_r.
    assert (E1 : (Z.of_nat gf <? Z.of_nat from)%Z = false) by (apply Z.ltb_ge; lia).
    assert (E2 : (Z.of_nat to <? Z.of_nat gt)%Z = false) by (apply Z.ltb_ge; lia).
    rewrite E1, E2. cbn [orb]. rewrite !Nat2Z.id. reflexivity.
  - intros dab dba Hda Hdb Hab Hba.
    destruct (replace_around_splice s _ _ _ _ _ _ _ _ _ Hd Hs Hg Hi Ha) as (Hfr & Hto & Ea).
    destruct (replace_around_splice s _ _ _ _ _ _ _ _ _ Hdb Hs Hg Hi Hba) as (_ & _ & Eba).
    set (T := DT doc) in *. set (I := IT sl) in *.
    set (H := firstn from T ++ firstn ins I).
    assert (LH : length H = from + ins) by (unfold H; rewrite !app_length, !firstn_length; lia).
    assert (Lseg : length (seg T gf gt) = gt - gf) by (unfold seg; rewrite firstn_length, skipn_length; lia).
    assert (Eda : DT da = H ++ seg T gf gt ++ skipn ins I ++ skipn to T) by (rewrite Ea; unfold H; rewrite <- !app_assoc; reflexivity).
    assert (Hpos' : pos' = length H + (pos - gf)) by (unfold pos'; lia).
    assert (Hn : nth_error (DT da) pos' = nth_error T pos).
    { rewrite Eda, Hpos'. rewrite nth_error_app2 by lia. replace (length H + (pos - gf) - length H) with (pos - gf) by lia.
      rewrite nth_error_app1 by lia. unfold seg. rewrite nth_firstn by lia. rewrite nth_skipn. f_equal. lia. }
    destruct (node_step_same_token st pos doc db da dab pos' Hd Hda Hst Hb Hab Hn) as (x & Eb & Eab & Hp).
    fold T in Eb, Hp.
    rewrite Eab, Eda, Hpos', upd1_app_r. rewrite upd1_app_l by lia. rewrite Eba, Eb.
    rewrite firstn_upd1_ge by lia. rewrite seg_upd1_in by lia. rewrite skipn_upd1_lt by lia.
    unfold H. rewrite <- !app_assoc. reflexivity.
Qed.

End WithSchema.
