(* Basic facts about the flat token picture (Spec/Tokens.v): sizes are token counts, text cuts are
   token segments, and equality of tokens up to Python's `==` on attribute values (True == 1) is
   equality after normalising the attribute values. *)
From Coq Require Import ZArith NArith List Bool Arith Lia String.
From PM Require Import Model.Data Model.Mark Model.Tree Spec.Tokens Proofs.DataProofs.
Import ListNotations.
Local Open Scope nat_scope.

(* ---------------------------------------------------------------- normal form of attribute values *)
Fixpoint jnorm (j : json) : json :=
  match j with
  | JBool b => JInt (if b then 1 else 0)
  | JArr l => JArr (List.map jnorm l)
  | JObj l => JObj (List.map (fun kv => (fst kv, jnorm (snd kv))) l)
  | x => x
  end.
Definition anorm (a : attrs) : attrs := List.map (fun kv => (fst kv, jnorm (snd kv))) a.
Definition mnorm (m : mark) : mark := {| m_ty := m_ty m; m_attrs := anorm (m_attrs m) |}.
Definition msnorm (ms : list mark) : list mark := List.map mnorm ms.
Definition tnorm (t : tok) : tok :=
  match t with
  | TOpen ty a m => TOpen ty (anorm a) (msnorm m)
  | TClose => TClose
  | TLeaf ty a m => TLeaf ty (anorm a) (msnorm m)
  | TChar u m => TChar u (msnorm m)
  end.

Lemma cps_eqb_eq a : forall b, cps_eqb a b = true -> a = b.
Proof.
  induction a as [|x a IH]; destruct b as [|y b]; simpl; try discriminate; auto.
  intros H. apply andb_prop in H. destruct H as [H1 H2]. apply N.eqb_eq in H1. subst. f_equal. auto.
Qed.

Fixpoint json_eqb_norm (a b : json) {struct a} : json_eqb a b = true -> jnorm a = jnorm b.
Proof.
  destruct a, b; simpl; try discriminate; auto.
  - destruct b, b0; simpl; try discriminate; auto.
  - intros H. apply Z.eqb_eq in H. subst. reflexivity.
  - intros H. apply Z.eqb_eq in H. subst. reflexivity.
  - intros H. apply Z.eqb_eq in H. subst. reflexivity.
  - intros H. apply cps_eqb_eq in H. subst. reflexivity.
  - intros H. f_equal. revert l0 H. induction l as [|x l IH]; destruct l0 as [|y l0]; try discriminate; auto.
    intros H. apply andb_prop in H. destruct H as [H1 H2]. simpl. f_equal; [apply json_eqb_norm; exact H1|apply IH; exact H2].
  - intros H. f_equal. revert l0 H. induction l as [|[k x] l IH]; destruct l0 as [|[k' y] l0]; try discriminate; auto.
    intros H. apply andb_prop in H. destruct H as [H1 H2]. apply andb_prop in H1. destruct H1 as [Hk Hx].
    apply String.eqb_eq in Hk. subst. simpl. f_equal; [f_equal; apply json_eqb_norm; exact Hx|apply IH; exact H2].
Qed.

Lemma attrs_eqb_norm a : forall b, attrs_eqb a b = true -> anorm a = anorm b.
Proof.
  induction a as [|[k x] a IH]; destruct b as [|[k' y] b]; simpl; try discriminate; auto.
  intros H. apply andb_prop in H. destruct H as [H1 H2]. apply andb_prop in H1. destruct H1 as [Hk Hx].
  apply String.eqb_eq in Hk. subst. f_equal; [f_equal; apply json_eqb_norm; exact Hx|apply IH; exact H2].
Qed.

Lemma mark_eqb_norm a b : mark_eqb a b = true -> mnorm a = mnorm b.
Proof.
  unfold mark_eqb, mnorm. intros H. apply andb_prop in H. destruct H as [H1 H2]. apply Nat.eqb_eq in H1.
  apply attrs_eqb_norm in H2. rewrite H1, H2. reflexivity.
Qed.

Lemma marks_eqb_norm a : forall b, marks_eqb a b = true -> msnorm a = msnorm b.
Proof.
  induction a as [|x a IH]; destruct b as [|y b]; simpl; try discriminate; auto.
  intros H. apply andb_prop in H. destruct H as [H1 H2]. f_equal; [apply mark_eqb_norm; auto|apply IH; auto].
Qed.

(* ---------------------------------------------------------------- token counts *)
Section WithSchema.
Variable s : schema.
Notation nsize := (node_size s).
Notation fsize := (frag_size s).
Notation toks := (toks s).
Notation ftoks := (ftoks s).

Lemma toks_elem ty a m cs :
  toks (Elem ty a m cs) = if is_leaf_ty s ty then [TLeaf ty a m] else TOpen ty a m :: ftoks cs ++ [TClose].
Proof.
  cbn [Tokens.toks]. destruct (is_leaf_ty s ty); reflexivity.
Qed.

Lemma ftoks_app a b : ftoks (a ++ b) = ftoks a ++ ftoks b.
Proof. induction a as [|x a IH]; simpl; auto. rewrite IH, app_assoc. reflexivity. Qed.

Lemma units_length t : List.length (units t) = text_length t.
Proof.
  induction t as [|c t IH]; simpl; auto. unfold cp_units. destruct (N.leb 65536 c); simpl; rewrite IH; reflexivity.
Qed.

Lemma units_app a b : units (a ++ b) = units a ++ units b.
Proof. induction a as [|c a IH]; simpl; auto. destruct (N.leb 65536 c); simpl; rewrite IH; reflexivity. Qed.

Lemma toks_length : forall n, List.length (toks n) = nsize n.
Proof.
  fix IH 1. intros [t m|ty a m cs].
  - cbn [Tokens.toks node_size]. rewrite map_length. apply units_length.
  - rewrite toks_elem, node_size_elem. destruct (is_leaf_ty s ty); [reflexivity|].
    cbn [List.length]. rewrite app_length. cbn [List.length]. f_equal.
    assert (H : List.length (ftoks cs) = fsize cs).
    { induction cs as [|c r IHr]; [reflexivity|]. cbn [Tokens.ftoks frag_size]. rewrite app_length, IH, IHr. reflexivity. }
    lia.
Qed.

Lemma ftoks_length l : List.length (ftoks l) = fsize l.
Proof. induction l as [|c r IH]; simpl; auto. rewrite app_length, toks_length, IH. reflexivity. Qed.

(* ---------------------------------------------------------------- text cuts are token segments *)
Fixpoint good (l : list unit16) : Prop :=
  match l with
  | [] => True
  | UBmp c :: r => N.leb 65536 c = false /\ good r
  | UHi c :: r => N.leb 65536 c = true /\ (match r with [] => True | e :: _ => e = ULo c end) /\ good r
  | ULo c :: r => good r
  end.

Lemma good_units t : good (units t).
Proof.
  induction t as [|c t IH]; simpl; auto. destruct (N.leb 65536 c) eqn:E; simpl; auto.
Qed.
Lemma good_tail u l : good (u :: l) -> good l.
Proof. destruct u; simpl; tauto. Qed.
Lemma good_skipn a : forall l, good l -> good (skipn a l).
Proof. induction a as [|a IH]; intros l H; [exact H|]. destruct l as [|u l]; [exact I|]. simpl. apply IH. eapply good_tail; eauto. Qed.
Lemma good_firstn b : forall l, good l -> good (firstn b l).
Proof.
  induction b as [|b IH]; intros l H; [exact I|]. destruct l as [|u l]; [exact I|]. cbn [firstn].
  pose proof (IH l (good_tail _ _ H)) as Hr. destruct u as [c|c|c]; simpl in *.
  - tauto.
  - destruct H as (H1 & H2 & H3). split; [auto|]. split; [|auto].
    destruct b as [|b]; [exact I|]. destruct l as [|e l]; [exact I|]. exact H2.
  - auto.
Qed.

Lemma decode_units : forall l x, good l -> decode l = Some x -> units x = l.
Proof.
  fix IH 1. intros l x Hg H. destruct l as [|u l]; [inversion H; reflexivity|].
  destruct u as [c|c|c]; simpl in H.
  - destruct (decode l) as [y|] eqn:E; [|discriminate]. inversion H; subst. simpl in Hg. destruct Hg as [Hc Hg].
    simpl. rewrite Hc. f_equal. apply IH; auto.
  - destruct l as [|[c'|c'|c'] r]; try discriminate.
    destruct (decode r) as [y|] eqn:E; [|discriminate]. inversion H; subst. simpl in Hg.
    destruct Hg as (Hc & He & Hg). inversion He; subst c'. simpl. rewrite Hc. f_equal. f_equal. apply IH; auto.
  - discriminate.
Qed.

Definition seg {A} (l : list A) (a b : nat) : list A := firstn (b - a) (skipn a l).

Lemma map_seg {A B} (f : A -> B) l a b : List.map f (seg l a b) = seg (List.map f l) a b.
Proof. unfold seg. rewrite skipn_map, firstn_map. reflexivity. Qed.

Lemma text_cut_toks t m a b n :
  text_cut t m a b = Ok n -> toks n = seg (toks (Text t m)) a b.
Proof.
  unfold text_cut. destruct ((a =? 0) && (b =? text_length t)) eqn:E.
  - apply andb_prop in E. destruct E as [E1 E2]. apply Nat.eqb_eq in E1, E2. subst a b.
    intros H; inversion H; subst. unfold seg. cbn [skipn]. rewrite Nat.sub_0_r.
    rewrite <- (toks_length (Text t m)) at 1. rewrite firstn_all. reflexivity.
  - unfold cut_text. destruct (decode (firstn (b - a) (skipn a (units t)))) as [x|] eqn:Ed; [|discriminate].
    cbn [bind]. destruct x as [|c x]; [discriminate|]. intros H; inversion H; subst.
    cbn [Tokens.toks]. rewrite <- map_seg. f_equal. unfold seg. apply decode_units; auto.
    apply good_firstn, good_skipn, good_units.
Qed.

End WithSchema.
