(* Undoing a whole history that also contains add-mark / remove-mark steps (C04): the undo theorem of HistoryUndo.v,
   extended by the two range mark steps under the pointwise conditions of MarkUndo.v.  A mark step reads the type of the
   document's root (the context of top-level tokens), so the documents the inverses run on must have the root type of the
   recorded ones - every step keeps it. *)
From Coq Require Import ZArith NArith List Bool Arith Lia String.
From PM Require Import Model.Data Model.Mark Model.Tree Model.Resolve Model.StepMap Model.Step Spec.Tokens
  Proofs.ReplaceValid Proofs.SliceSides Proofs.TokenBasics Proofs.ReplaceTokens Proofs.SliceShape
  Proofs.TokenLaws Proofs.StepAlgebra Proofs.StepTokens Proofs.NodeSteps
  Proofs.AroundTokens Proofs.AroundUndo Proofs.AttrUndo Proofs.NodeMarkUndo Proofs.TransformProofs
  Proofs.MarkSteps Proofs.MarkPointwise Proofs.MarkMerge Proofs.MarkCommute Proofs.AroundCommute Proofs.MarkUndo Proofs.HistoryUndo.
Import ListNotations.
Local Open Scope nat_scope.
Local Open Scope list_scope.

Section WithSchema.
Variable s : schema.
Notation V := (V s).
Notation DT := (DT s).

(* every step keeps the type of the root *)
Lemma apply_root st d d' : apply s st d = ROk d' -> node_ty s d' = node_ty s d.
Proof.
  intros H. destruct st as [from to sl str|from to gf gt sl ins str|f t m|f t m|pos mk|pos mk|pos attr value|attr value].
  - exact (replace_step_root s _ _ _ _ _ _ H).
  - exact (around_step_root s _ _ _ _ _ _ _ _ _ H).
  - exact (proj1 (mark_step_root s (SAddMark f t m) f t d d' eq_refl H)).
  - exact (proj1 (mark_step_root s (SRemoveMark f t m) f t d d' eq_refl H)).
  - exact (node_step_root s (SAddNodeMark pos mk) pos d d' eq_refl H).
  - exact (node_step_root s (SRemoveNodeMark pos mk) pos d d' eq_refl H).
  - exact (node_step_root s (SAttr pos attr value) pos d d' eq_refl H).
  - cbn [apply] in H. unfold lift, type_create in H.
    destruct (is_text_ty s (node_ty s d)); [discriminate|].
    destruct (compute_attrs _ _) as [a1|]; [|discriminate]. cbn [bind] in H. inversion H. reflexivity.
Qed.

Definition TokUndoR (st : step) (doc : node) : Prop :=
  forall d' inv e d'', apply s st doc = ROk d' -> invert_step s st doc = Ok inv ->
    V e -> DT e = DT d' -> node_ty s e = node_ty s d' -> apply s inv e = ROk d'' ->
    DT d'' = DT doc /\ node_ty s d'' = node_ty s doc.

(* the steps of HistoryUndo.Undoable, and mark steps under the conditions of MarkUndo.v *)
Definition UndoableM (st : step) (doc : node) : Prop :=
  match st with
  | SAddMark f t m => V doc /\ AddUndoCond s f t m doc
  | SRemoveMark f t m => V doc /\ RemoveUndoCond s f t m doc
  | _ => Undoable s st doc
  end.

Lemma undoableM_tok_undo st doc : UndoableM st doc -> TokUndoR st doc.
Proof.
  intros H d' inv e d'' Ha Hi He HeT Hety Hb.
  assert (Generic : Undoable s st doc -> DT d'' = DT doc /\ node_ty s d'' = node_ty s doc).
  { intros Hu. split; [exact (undoable_tok_undo s st doc Hu d' inv e d'' Ha Hi He HeT Hb)|].
    rewrite (apply_root _ _ _ Hb), Hety. exact (apply_root _ _ _ Ha). }
  destruct st as [from to sl str|from to gf gt sl ins str|f t m|f t m|pos mk|pos mk|pos attr value|attr value];
    try (apply Generic; exact H).
  - destruct H as (Hd & Hc). cbn [invert_step] in Hi. inversion Hi; subst inv.
    exact (add_mark_step_undo_on s f t m doc d' e d'' Hd He Ha HeT Hety Hb Hc).
  - destruct H as (Hd & Hc). cbn [invert_step] in Hi. inversion Hi; subst inv.
    exact (remove_mark_step_undo_on s f t m doc d' e d'' Hd He Ha HeT Hety Hb Hc).
Qed.

Fixpoint UndoableAllM (d : node) (sts : list step) : Prop :=
  match sts with
  | [] => True
  | st :: r => UndoableM st d /\ forall d1, apply s st d = ROk d1 -> UndoableAllM d1 r
  end.

Lemma Run_root : forall invs e r, Run s e invs r -> node_ty s r = node_ty s e.
Proof.
  induction invs as [|st invs IH]; intros e r H; cbn [Run] in H; [subst r; reflexivity|].
  destruct H as (_ & e1 & Ha & Hr). rewrite (IH _ _ Hr). exact (apply_root _ _ _ Ha).
Qed.

Theorem history_undo_tokens_marks : forall sts d dn invs,
  replay s d sts = ROk dn -> inverses s d sts = Ok invs -> UndoableAllM d sts ->
  forall e r, DT e = DT dn -> node_ty s e = node_ty s dn -> Run s e invs r ->
    DT r = DT d /\ node_ty s r = node_ty s d.
Proof.
  induction sts as [|st sts IH]; intros d dn invs Hrep Hinv Hall e r HeT Hety Hrun.
  - cbn in Hrep, Hinv. inversion Hrep; subst dn. inversion Hinv; subst invs. cbn in Hrun. subst r. auto.
  - cbn [replay inverses UndoableAllM] in *. destruct Hall as (Hu & Hall).
    destruct (apply s st d) as [d1| |] eqn:Ea; try discriminate.
    destruct (invert_step s st d) as [inv|] eqn:Ei; [|discriminate]. cbn [bind] in Hinv.
    destruct (inverses s d1 sts) as [rest|] eqn:Er; [|discriminate]. cbn [bind] in Hinv. inversion Hinv; subst invs.
    destruct (Run_app s _ _ _ _ Hrun) as (m & Hr1 & Hr2).
    destruct (IH d1 dn rest Hrep Er (Hall d1 eq_refl) e m HeT Hety Hr1) as (Hm & Hmt).
    cbn [Run] in Hr2. destruct Hr2 as (Hvm & e1 & Hap & ->).
    exact (undoableM_tok_undo st d Hu d1 inv m e1 Ea Ei Hvm Hm Hmt Hap).
Qed.

End WithSchema.
