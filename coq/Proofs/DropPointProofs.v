(* drop_point (C12): on a valid document it returns an answer for every position and every slice that is as open as
   it claims, and the position it answers lies within the document. *)
From Coq Require Import ZArith NArith List Bool Arith Lia.
From PM Require Import Model.Data Model.Mark Model.Tree Model.Resolve Model.StepMap Model.Step Model.Fill Model.StructOps
  Model.DropPoint Spec.Tokens
  Proofs.DataProofs Proofs.NodeInd Proofs.ValidityProofs Proofs.ReplaceValid Proofs.SliceSides Proofs.TokenBasics
  Proofs.PathTokens Proofs.ReplaceTokens Proofs.SliceShape Proofs.SliceTokens Proofs.SliceCut Proofs.ReplaceSafe Proofs.HelperRanges Proofs.HelperSafe.
Import ListNotations.
Local Open Scope nat_scope.

Section WithSchema.
Variable s : schema.
Notation fsize := (frag_size s).
Notation V := (V s).

Lemma rp_start_ok r d : VP s r -> d <= rp_depth r -> Succeeds (rp_start r d).
Proof.
  intros (Hw & _) Hd. destruct d as [|d']; [apply Succ_ok|]. cbn [rp_start].
  destruct (WP_at s r d' Hw ltac:(lia)) as (n & i & o & _ & _ & _ & _ & _ & Eo & _). rewrite Eo. apply Succ_ok.
Qed.
Lemma rp_end_ok r d : VP s r -> d <= rp_depth r -> Succeeds (rp_end s r d).
Proof.
  intros Hvp Hd. unfold rp_end. destruct (rp_start_ok r d Hvp Hd) as (st & ->). cbn [bind].
  destruct Hvp as (Hw & _). destruct (WP_at s r d Hw Hd) as (n & i & o & _ & _ & _ & En & _). rewrite En. apply Succ_ok.
Qed.

Lemma dp_pass_spec doc pos r second content : V doc -> is_elem doc -> resolve s doc pos = Ok r -> VP s r ->
  (second = true -> content <> []) ->
  forall d, d <= rp_depth r ->
  Succeeds (dp_pass s r second content d) /\
  forall p, dp_pass s r second content d = Ok (Some p) -> p <= fsize (node_content doc).
Proof.
  intros Hv He Er Hvp Hne. destruct (resolve_tokens s _ _ _ Er) as (Hpos & _).
  destruct (resolve_spec s _ _ _ Er) as (Hrp & _).
  induction d as [|d IH]; intros Hd; cbn [dp_pass]; [split; [apply Succ_ok|discriminate]|].
  destruct (VP_at s r (S d) Hvp Hd) as (parent & index & Epar & Eidx & Hvpar & Hepar & _).
  assert (Hbias : Succeeds (if S d =? rp_depth r then Ok 0%Z
       else do a <- rp_start r (S (S d)); do b <- rp_end s r (S (S d));
            Ok (if 2 * rp_pos r <=? a + b then (-1)%Z else 1%Z))).
  { destruct (S d =? rp_depth r) eqn:E; [apply Succ_ok|]. apply Nat.eqb_neq in E.
    apply Succ_bind; [apply rp_start_ok; [assumption|lia]|]. intros a _.
    apply Succ_bind; [apply rp_end_ok; [assumption|lia]|intros; apply Succ_ok]. }
  destruct Hbias as (bias & Eb).
  assert (Hside : bias <> 0%Z -> S (S d) <= rp_depth r).
  { intros Hb. destruct (S d =? rp_depth r) eqn:E; [inversion Eb; subst; contradiction|]. apply Nat.eqb_neq in E. lia. }
  rewrite Eb. cbn [bind]. rewrite Eidx. cbn [bind]. rewrite Epar. cbn [bind].
  set (insert_pos := index + (if (0 <? bias)%Z then 1 else 0)).
  assert (Hfits : Succeeds (if negb second then can_replace s parent insert_pos insert_pos content 0 (length content)
       else match content with
            | [] => Err ErrInternal
            | first :: _ => do q <- content_match_at s parent insert_pos;
                match find_wrapping s q (node_ty s first) with
                | Some (w0 :: _) => can_replace_with s parent insert_pos insert_pos w0 []
                | _ => Ok false end end)).
  { destruct second; cbn [negb]; [|apply can_replace_ok; assumption].
    destruct content as [|first rest]; [exfalso; apply (Hne eq_refl); reflexivity|].
    apply Succ_bind; [apply content_match_at_ok; assumption|]. intros q _.
    destruct (find_wrapping s q (node_ty s first)) as [[|w0 ws]|]; try apply Succ_ok. apply can_replace_with_ok; assumption. }
  destruct Hfits as (fits & Ef). rewrite Ef. cbn [bind].
  destruct fits; [|apply IH; lia].
  destruct (bias =? 0)%Z eqn:E0.
  - split; [apply Succ_ok|]. intros p H. inversion H; subst p. rewrite Hrp. exact Hpos.
  - apply Z.eqb_neq in E0. specialize (Hside E0).
    destruct (bias <? 0)%Z.
    + destruct (rp_before_ok s r (S (S d)) Hvp ltac:(lia) Hside) as (p0 & Ep). rewrite Ep. cbn [bind].
      split; [apply Succ_ok|]. intros p H. inversion H; subst p. eapply rp_before_in_range; eauto.
    + destruct (rp_after_ok s r (S (S d)) Hvp ltac:(lia) Hside) as (p0 & Ep). rewrite Ep. cbn [bind].
      split; [apply Succ_ok|]. intros p H. inversion H; subst p. eapply rp_after_in_range; eauto.
Qed.

(* the slice's content opened [open_start] levels deep exists when the slice is as open as it claims *)
Lemma open_content_ok : forall k content oe, Shape s content k oe -> Succeeds (open_content content k).
Proof.
  induction k as [|k IH]; intros content oe H; cbn [open_content]; [apply Succ_ok|].
  destruct (Shape_LR s _ _ _ H) as (HL & _). cbn [SliceShape.ShapeL] in HL.
  destruct content as [|[t m|ty a m cs] r]; try contradiction. cbn [node_content].
  destruct oe as [|b].
  - cbn [SliceShape.Shape] in H. cbn [SliceShape.ShapeL] in H. destruct H as (_ & H). apply (IH cs 0).
    destruct k; [exact I|]. cbn [SliceShape.Shape]. exact H.
  - cbn [SliceShape.Shape] in H.
    destruct H as [(ty0 & a0 & m0 & cs0 & E & _ & Hs)|(ty1 & a1 & m1 & cs1 & mid & ty2 & a2 & m2 & cs2 & E & _ & _ & Hl & _)].
    + inversion E; subst. apply (IH cs0 b Hs).
    + inversion E; subst. apply (IH cs1 0). destruct k; [exact I|]. cbn [SliceShape.Shape]. exact Hl.
Qed.

Theorem drop_point_spec doc pos sl :
  V doc -> is_elem doc -> pos <= fsize (node_content doc) ->
  Shape s (sl_content sl) (sl_open_start sl) (sl_open_end sl) ->
  Succeeds (drop_point s doc pos sl) /\
  forall p, drop_point s doc pos sl = Ok (Some p) -> p <= fsize (node_content doc).
Proof.
  intros Hv He Hp Hsh. destruct (resolve_VP s doc pos Hv He Hp) as (r & Er & Hvp).
  unfold drop_point. rewrite Er. cbn [bind].
  destruct (fsize (sl_content sl) =? 0) eqn:Ez; [split; [apply Succ_ok|intros p H; inversion H; subst; exact Hp]|].
  destruct (open_content_ok _ _ _ Hsh) as (content & Ec). rewrite Ec. cbn [bind].
  destruct (dp_pass_spec doc pos r false content Hv He Er Hvp ltac:(discriminate) (rp_depth r) (le_n _)) as ((first & E1) & R1).
  rewrite E1. cbn [bind]. destruct first as [p1|]; [split; [apply Succ_ok|intros p H; inversion H; subst; apply R1; exact E1]|].
  destruct ((sl_open_start sl =? 0) && negb (slice_size s sl =? 0)%Z) eqn:E2; [|split; [apply Succ_ok|discriminate]].
  apply andb_prop in E2. destruct E2 as [E2 _]. apply Nat.eqb_eq in E2.
  assert (Hc : content = sl_content sl) by (rewrite E2 in Ec; cbn in Ec; inversion Ec; reflexivity).
  assert (Hne : content <> []).
  { rewrite Hc. intros E. rewrite E in Ez. cbn in Ez. discriminate. }
  apply (dp_pass_spec doc pos r true content Hv He Er Hvp (fun _ => Hne) (rp_depth r) (le_n _)).
Qed.

End WithSchema.
