(* The step builders of Transform.split / wrap (Model.StructOps) emit structure-only steps: the slice
   consists of nested empty copies / freshly created wrappers, nothing is deleted, so the sequence of text
   and leaf tokens of the document is exactly preserved whenever the step applies (C12). *)
From Coq Require Import ZArith NArith List Bool Arith Lia.
From PM Require Import Model.Data Model.Mark Model.Tree Model.Resolve Model.StepMap Model.Step Model.StructOps Spec.Tokens
  Proofs.ReplaceValid Proofs.SliceSides Proofs.TokenBasics Proofs.PathTokens Proofs.ReplaceTokens Proofs.SliceShape
  Proofs.StepFaithful Proofs.SliceTokens Proofs.SliceCut Proofs.TokenLaws Proofs.StepAlgebra Proofs.StepTokens
  Proofs.AroundTokens Proofs.AroundLaws Proofs.ContentBetween.
Import ListNotations.
Local Open Scope nat_scope.

Section WithSchema.
Variable s : schema.
Notation nsize := (node_size s).
Notation fsize := (frag_size s).
Notation toks := (toks s).
Notation ftoks := (ftoks s).
Notation V := (V s).
Notation DT := (DT s).
Notation IT := (IT s).
Notation ShapeL := (ShapeL s).
Notation ShapeR := (ShapeR s).
Notation Shape := (Shape s).

(* a chain of k nested non-leaf element nodes with nothing else inside *)
Fixpoint Chain (l : list node) (k : nat) : Prop :=
  match k with
  | 0 => l = []
  | S k' => exists ty a m cs, l = [Elem ty a m cs] /\ is_leaf_ty s ty = false /\ Chain cs k'
  end.

Lemma Chain_ShapeL : forall k l, Chain l k -> ShapeL l k.
Proof. induction k as [|k IH]; intros l H; [exact I|]. destruct H as (ty & a & m & cs & -> & Hn & Hc). cbn. split; [exact Hn|apply IH; exact Hc]. Qed.
Lemma Chain_ShapeR : forall k l, Chain l k -> ShapeR l k.
Proof.
  induction k as [|k IH]; intros l H; [exact I|]. destruct H as (ty & a & m & cs & -> & Hn & Hc).
  exists [], ty, a, m, cs. split; [reflexivity|]. split; [exact Hn|apply IH; exact Hc].
Qed.
Lemma Chain_size : forall k l, Chain l k -> fsize l = 2 * k.
Proof.
  induction k as [|k IH]; intros l H; [cbn in H; subst; reflexivity|]. destruct H as (ty & a & m & cs & -> & Hn & Hc).
  cbn [frag_size]. rewrite node_size_elem, Hn, (IH _ Hc). lia.
Qed.
Lemma Chain_leaves : forall k l, Chain l k -> leaves (ftoks l) = [].
Proof.
  induction k as [|k IH]; intros l H; [cbn in H; subst; reflexivity|]. destruct H as (ty & a & m & cs & -> & Hn & Hc).
  cbn [Tokens.ftoks]. rewrite app_nil_r, toks_elem, Hn. unfold leaves. cbn [filter is_leaf_tok]. rewrite filter_app.
  fold (leaves (ftoks cs)). rewrite (IH _ Hc). reflexivity.
Qed.

Lemma leaves_nt l : leaves (nt l) = nt (leaves l).
Proof.
  unfold leaves, nt. induction l as [|t l IH]; [reflexivity|]. cbn [List.map filter].
  replace (is_leaf_tok (tnorm t)) with (is_leaf_tok t) by (destruct t; reflexivity).
  destruct (is_leaf_tok t); cbn [List.map]; rewrite IH; reflexivity.
Qed.
Lemma leaves_nil_firstn n l : leaves l = [] -> leaves (firstn n l) = [].
Proof.
  intros H. pose proof (filter_firstn_skipn is_leaf_tok l n) as E. fold (leaves l) in E. rewrite H in E.
  symmetry in E. apply app_eq_nil in E. tauto.
Qed.
Lemma leaves_nil_skipn n l : leaves l = [] -> leaves (skipn n l) = [].
Proof.
  intros H. pose proof (filter_firstn_skipn is_leaf_tok l n) as E. fold (leaves l) in E. rewrite H in E.
  symmetry in E. apply app_eq_nil in E. tauto.
Qed.

Lemma IT_leaves_nil sl : leaves (ftoks (sl_content sl)) = [] -> leaves (IT sl) = [].
Proof.
  intros H. unfold IT, inner_toks. rewrite leaves_nt. rewrite leaves_nil_firstn; [reflexivity|]. apply leaves_nil_skipn. exact H.
Qed.

Lemma frag_append_leaves a b : leaves (ftoks a) = [] -> leaves (ftoks b) = [] -> leaves (ftoks (frag_append a b)) = [].
Proof.
  intros Ha Hb. pose proof (frag_append_toks s a b) as H. apply (f_equal leaves) in H.
  rewrite leaves_nt, <- nt_app, leaves_nt in H. unfold leaves in H at 2. rewrite filter_app in H.
  fold (leaves (ftoks a)) (leaves (ftoks b)) in H. rewrite Ha, Hb in H. cbn in H.
  destruct (leaves (ftoks (frag_append a b))); [reflexivity|discriminate].
Qed.

(* ------------------------------------------------------------------ Transform.split *)
Lemma split_wrap_Chain : forall fuel r d e before after b a j,
  PathShape s r -> split_wrap fuel r d e before after = Ok (b, a) ->
  Chain before j -> Chain after j -> e <= d ->
  Chain b (j + (d - e)) /\ Chain a (j + (d - e)).
Proof.
  induction fuel as [|fuel IH]; intros r d e before after b a j Hp H Hb Ha Hed; [discriminate|]. cbn [split_wrap] in H.
  destruct (d <=? e) eqn:E.
  - apply Nat.leb_le in E. inversion H; subst. replace (d - e) with 0 by lia. rewrite Nat.add_0_r. auto.
  - apply Nat.leb_gt in E. destruct (rp_node r d) as [n|] eqn:En; [|discriminate]. cbn [bind] in H.
    destruct (Hp _ _ En) as ((ty & at_ & m & cs & ->) & Hnl). specialize (Hnl ltac:(lia)). unfold nonleaf in Hnl. cbn [node_ty] in Hnl.
    cbn [node_copy] in H.
    destruct (IH _ _ _ _ _ _ _ (S j) Hp H) as (H1 & H2).
    + exists ty, at_, m, before. auto.
    + exists ty, at_, m, after. auto.
    + lia.
    + replace (j + (d - e)) with (S j + (d - 1 - e)) by lia. auto.
Qed.

Theorem split_step_structure_only doc pos depth st d' :
  V doc -> split_step s doc pos depth = Ok st -> apply s st doc = ROk d' ->
  leaves (DT d') = leaves (DT doc).
Proof.
  intros Hd Hb Ha. unfold split_step in Hb.
  destruct (resolve s doc pos) as [r|] eqn:Er; [|discriminate]. cbn [bind] in Hb.
  destruct (rp_depth r <? depth) eqn:Ed; [discriminate|]. apply Nat.ltb_ge in Ed.
  destruct (split_wrap (S (rp_depth r)) r (rp_depth r) (rp_depth r - depth) [] []) as [[before after]|] eqn:Ew; [|discriminate].
  cbn [bind] in Hb. inversion Hb; subst st. clear Hb.
  assert (Hle0 : rp_depth r - depth <= rp_depth r) by lia.
  destruct (split_wrap_Chain _ _ _ _ _ _ _ _ 0 (resolve_PathShape s _ _ _ Er) Ew eq_refl eq_refl Hle0) as (Cb & Ca).
  replace (0 + (rp_depth r - (rp_depth r - depth))) with depth in Cb, Ca by lia.
  eapply (replace_step_structure_only s pos pos); [exact Hd| |lia|exact Ha| |].
  - cbn [sl_content sl_open_start sl_open_end]. apply frag_append_shape.
    + destruct depth; cbn [SliceShape.Shape]; [exact I|]. apply (Chain_ShapeL (S depth)). exact Cb.
    + cbn [SliceShape.Shape]. apply Chain_ShapeR. exact Ca.
  - rewrite seg_nil by lia. reflexivity.
  - apply IT_leaves_nil. cbn [sl_content]. apply frag_append_leaves; eapply Chain_leaves; eauto.
Qed.

(* ------------------------------------------------------------------ Transform.wrap *)
Lemma wrap_content_Chain : forall ws content,
  (forall w, In w ws -> is_leaf_ty s (fst w) = false) ->
  wrap_content s ws = Ok content -> Chain content (length ws).
Proof.
  induction ws as [|[ty a] rest IH]; intros content Hnl H; cbn [wrap_content] in H.
  - inversion H. reflexivity.
  - destruct (wrap_content s rest) as [inner|] eqn:Ei; [|discriminate]. cbn [bind] in H.
    destruct (if negb (fsize inner =? 0) then _ else Ok tt) as [[]|]; [|discriminate]. cbn [bind] in H.
    unfold type_create in H. destruct (is_text_ty s ty); [discriminate|].
    destruct (compute_attrs (nt_attrs (ntype_of s ty)) a) as [a'|]; [|discriminate]. cbn [bind] in H. inversion H; subst content.
    cbn [length Chain]. exists ty, a', (set_from []), inner. split; [reflexivity|]. split; [apply (Hnl (ty, a)); left; reflexivity|].
    apply IH; [intros w Hw; apply Hnl; right; exact Hw|reflexivity].
Qed.

Theorem wrap_step_structure_only r ws doc st d' :
  V doc -> (forall w, In w ws -> is_leaf_ty s (fst w) = false) ->
  wrap_step s r ws = Ok st -> apply s st doc = ROk d' ->
  (forall a b, nr_start r = Ok a -> nr_end s r = Ok b -> a <= b) ->
  leaves (DT d') = leaves (DT doc).
Proof.
  intros Hd Hnl Hb Ha Hle. unfold wrap_step in Hb.
  destruct (wrap_content s ws) as [content|] eqn:Ec; [|discriminate]. cbn [bind] in Hb.
  destruct (nr_start r) as [start|] eqn:Es; [|discriminate]. cbn [bind] in Hb.
  destruct (nr_end s r) as [end_|] eqn:Ee; [|discriminate]. cbn [bind] in Hb. inversion Hb; subst st. clear Hb.
  pose proof (wrap_content_Chain _ _ Hnl Ec) as Hc. specialize (Hle _ _ eq_refl eq_refl).
  assert (HlI : length (IT (SL content 0 0)) = 2 * length ws).
  { unfold IT, nt, inner_toks. cbn [sl_content sl_open_start sl_open_end]. rewrite map_length, firstn_length, skipn_length, ftoks_length.
    rewrite (Chain_size _ _ Hc). lia. }
  eapply (around_step_structure_only s start end_ start end_); [exact Hd| | | | | |exact Ha| | |].
  - cbn [sl_content sl_open_start sl_open_end SliceShape.Shape SliceShape.ShapeR]. exact I.
  - lia.
  - exact Hle.
  - lia.
  - rewrite HlI. lia.
  - rewrite seg_nil by lia. reflexivity.
  - rewrite seg_nil by lia. reflexivity.
  - apply IT_leaves_nil. cbn [sl_content]. eapply Chain_leaves; eauto.
Qed.

(* ------------------------------------------------------------------ the structure flag *)
Hypothesis text_is_leaf : is_leaf_ty s (s_text s) = true.

Lemma structure_replace_no_content from to sl doc d' r :
  apply s (SReplace from to sl true) doc = ROk d' -> from <= to ->
  resolve s doc from = Ok r -> rp_text_offset r = 0 ->
  leaves (seg (DT doc) from to) = [].
Proof.
  intros H Hft Hr Hoff. cbn [apply] in H. unfold lift in H.
  destruct (content_between s doc from to) as [cb|] eqn:Ecb; [|discriminate]. destruct cb; [discriminate|].
  unfold DT, nt. rewrite <- map_seg. fold (nt (seg (ftoks (node_content doc)) from to)). rewrite leaves_nt.
  rewrite (content_between_no_leaves s text_is_leaf _ _ _ _ Hr Hoff Hft Ecb). reflexivity.
Qed.

Lemma structure_around_no_content from to gf gt sl ins doc d' r1 r2 :
  apply s (SReplaceAround from to gf gt sl ins true) doc = ROk d' -> from <= gf -> gt <= to ->
  resolve s doc from = Ok r1 -> rp_text_offset r1 = 0 ->
  resolve s doc gt = Ok r2 -> rp_text_offset r2 = 0 ->
  leaves (seg (DT doc) from gf) = [] /\ leaves (seg (DT doc) gt to) = [].
Proof.
  intros H H1 H2 Hr1 Ho1 Hr2 Ho2. cbn [apply] in H. unfold lift in H.
  destruct (content_between s doc from gf) as [a|] eqn:Ea; [|discriminate]. cbn [bind] in H.
  destruct a; [discriminate|].
  destruct (content_between s doc gt to) as [b|] eqn:Eb; [|discriminate]. destruct b; [discriminate|].
  unfold DT, nt. rewrite <- !map_seg.
  fold (nt (seg (ftoks (node_content doc)) from gf)). fold (nt (seg (ftoks (node_content doc)) gt to)). rewrite !leaves_nt.
  rewrite (content_between_no_leaves s text_is_leaf _ _ _ _ Hr1 Ho1 H1 Ea).
  rewrite (content_between_no_leaves s text_is_leaf _ _ _ _ Hr2 Ho2 H2 Eb). auto.
Qed.

(* ------------------------------------------------------------------ Transform.join *)
Theorem join_step_structure_only doc pos depth st d' r :
  V doc -> join_step pos depth = Ok st -> apply s st doc = ROk d' ->
  resolve s doc (pos - depth) = Ok r -> rp_text_offset r = 0 ->
  leaves (DT d') = leaves (DT doc).
Proof.
  intros Hd Hb Ha Hr Hoff. unfold join_step in Hb. destruct (pos <? depth); [discriminate|]. inversion Hb; subst st.
  assert (Hle : pos - depth <= pos + depth) by lia.
  eapply (replace_step_structure_only s (pos - depth) (pos + depth) slice_empty); [exact Hd|exact I|exact Hle|exact Ha| |reflexivity].
  eapply structure_replace_no_content; eauto.
Qed.

(* ------------------------------------------------------------------ Transform.lift *)
Lemma lift_before_spec : forall fuel r d target splitting before os start b os' start',
  PathShape s (nr_from r) -> lift_before fuel r d target splitting before os start = Ok (b, os', start') ->
  Chain before os -> target <= d -> Chain b os' /\ start' <= start.
Proof.
  induction fuel as [|fuel IH]; intros r d target splitting before os start b os' start' Hp H Hc Htd; [discriminate|].
  cbn [lift_before] in H. destruct (d <=? target) eqn:E.
  - inversion H; subst. auto.
  - apply Nat.leb_gt in E. destruct (rp_index (nr_from r) d) as [idx|]; [|discriminate]. cbn [bind] in H.
    destruct (splitting || (0 <? idx)).
    + destruct (rp_node (nr_from r) d) as [n|] eqn:En; [|discriminate]. cbn [bind] in H.
      destruct (Hp _ _ En) as ((ty & at_ & m & cs & ->) & Hnl). specialize (Hnl ltac:(lia)). unfold nonleaf in Hnl. cbn [node_ty] in Hnl.
      cbn [node_copy] in H. eapply (IH _ _ _ _ _ (S os)); [exact Hp|exact H| |lia].
      exists ty, at_, m, before. auto.
    + destruct start as [|st']; [discriminate|].
      destruct (IH _ _ _ _ _ _ _ _ _ _ Hp H Hc ltac:(lia)) as (H1 & H2). split; [exact H1|lia].
Qed.

Lemma lift_after_spec : forall fuel r d target splitting after oe end_ a oe' end',
  PathShape s (nr_to r) -> lift_after s fuel r d target splitting after oe end_ = Ok (a, oe', end') ->
  Chain after oe -> target <= d -> Chain a oe' /\ end_ <= end'.
Proof.
  induction fuel as [|fuel IH]; intros r d target splitting after oe end_ a oe' end' Hp H Hc Htd; [discriminate|].
  cbn [lift_after] in H. destruct (d <=? target) eqn:E.
  - inversion H; subst. auto.
  - apply Nat.leb_gt in E. destruct (rp_after s (nr_to r) (S d)) as [af|]; [|discriminate]. cbn [bind] in H.
    destruct (rp_end s (nr_to r) d) as [en|]; [|discriminate]. cbn [bind] in H.
    destruct (splitting || (af <? en)).
    + destruct (rp_node (nr_to r) d) as [n|] eqn:En; [|discriminate]. cbn [bind] in H.
      destruct (Hp _ _ En) as ((ty & at_ & m & cs & ->) & Hnl). specialize (Hnl ltac:(lia)). unfold nonleaf in Hnl. cbn [node_ty] in Hnl.
      cbn [node_copy] in H. eapply (IH _ _ _ _ _ (S oe)); [exact Hp|exact H| |lia].
      exists ty, at_, m, after. auto.
    + destruct (IH _ _ _ _ _ _ _ _ _ _ Hp H Hc ltac:(lia)) as (H1 & H2). split; [exact H1|lia].
Qed.

Theorem lift_step_structure_only doc rf rt depth target st d' :
  V doc -> PathShape s rf -> PathShape s rt ->
  lift_step s {| nr_from := rf; nr_to := rt; nr_depth := depth |} target = Ok st -> apply s st doc = ROk d' ->
  (* the range is a range: its start is not after its end; the step's ends are not inside text nodes *)
  (forall from to gf gt sl ins b, st = SReplaceAround from to gf gt sl ins b ->
     gf <= gt /\ exists r1 r2, resolve s doc from = Ok r1 /\ rp_text_offset r1 = 0 /\
                              resolve s doc gt = Ok r2 /\ rp_text_offset r2 = 0) ->
  leaves (DT d') = leaves (DT doc).
Proof.
  intros Hd Hpf Hpt Hb Ha Hside. unfold lift_step in Hb. cbn [nr_from nr_to nr_depth] in Hb.
  destruct (rp_before rf (S depth)) as [gap_start|]; [|discriminate]. cbn [bind] in Hb.
  destruct (rp_after s rt (S depth)) as [gap_end|]; [|discriminate]. cbn [bind] in Hb.
  destruct (lift_before (S depth) _ depth target false [] 0 gap_start) as [[[before os] start]|] eqn:Eb; [|discriminate]. cbn [bind] in Hb.
  destruct (lift_after s (S depth) _ depth target false [] 0 gap_end) as [[[after oe] end_]|] eqn:Ea; [|discriminate]. cbn [bind] in Hb.
  inversion Hb; subst st. clear Hb.
  destruct (Nat.le_gt_cases target depth) as [Htd|Htd].
  2:{ (* target above the range depth: nothing is wrapped, the step is a no-op shaped one; still handled *)
      cbn [lift_before] in Eb. replace (depth <=? target) with true in Eb by (symmetry; apply Nat.leb_le; lia).
      cbn [lift_after] in Ea. replace (depth <=? target) with true in Ea by (symmetry; apply Nat.leb_le; lia).
      inversion Eb; subst. inversion Ea; subst.
      destruct (Hside _ _ _ _ _ _ _ eq_refl) as (Hg & r1 & r2 & Hr1 & Ho1 & Hr2 & Ho2).
      eapply (around_step_structure_only s start end_ start end_ (SL (frag_append [] []) 0 0)); [exact Hd|exact I|lia|exact Hg|lia| |exact Ha| | |reflexivity].
      - cbn. lia.
      - rewrite seg_nil by lia. reflexivity.
      - rewrite seg_nil by lia. reflexivity. }
  set (rg := {| nr_from := rf; nr_to := rt; nr_depth := depth |}) in *.
  destruct (lift_before_spec _ rg _ _ _ _ _ _ _ _ _ Hpf Eb eq_refl Htd) as (Cb & Hs).
  destruct (lift_after_spec _ rg _ _ _ _ _ _ _ _ _ Hpt Ea eq_refl Htd) as (Ca & He).
  destruct (Hside _ _ _ _ _ _ _ eq_refl) as (Hg & r1 & r2 & Hr1 & Ho1 & Hr2 & Ho2).
  destruct (structure_around_no_content _ _ _ _ _ _ _ _ _ _ Ha Hs He Hr1 Ho1 Hr2 Ho2) as (L1 & L2).
  pose proof (Chain_size _ _ Cb) as Sb. pose proof (Chain_size _ _ Ca) as Sa.
  assert (Hshape : Shape (frag_append before after) os oe).
  { apply frag_append_shape.
    - destruct os; cbn [SliceShape.Shape]; [exact I|]. apply (Chain_ShapeL (S os)). exact Cb.
    - cbn [SliceShape.Shape]. apply Chain_ShapeR. exact Ca. }
  assert (HlI : length (IT (SL (frag_append before after) os oe)) = os + oe).
  { unfold IT, nt, inner_toks. cbn [sl_content sl_open_start sl_open_end]. rewrite map_length, firstn_length, skipn_length.
    assert (Hl : length (ftoks (frag_append before after)) = 2 * os + 2 * oe).
    { rewrite <- (map_length tnorm). fold (nt (ftoks (frag_append before after))). rewrite frag_append_toks, app_length.
      unfold nt. rewrite !map_length, !ftoks_length. lia. }
    rewrite Hl. lia. }
  eapply (around_step_structure_only s start end_ gap_start gap_end (SL (frag_append before after) os oe)); [exact Hd|exact Hshape|exact Hs|exact Hg|exact He| |exact Ha|exact L1|exact L2|].
  - rewrite HlI. lia.
  - apply IT_leaves_nil. cbn [sl_content]. apply frag_append_leaves; eapply Chain_leaves; eauto.
Qed.

End WithSchema.
