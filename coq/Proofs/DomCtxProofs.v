(* ParseContext.matches_context against a declarative reading of context expressions (C19):
   "a/b/" = the current node is a `b` directly inside an `a`; "a//b/" = ... inside an `a` at any depth;
   a leading "/" and the trailing "/" carry no meaning; ancestors above the first part are not constrained. *)
From Coq Require Import ZArith List Bool Arith String Lia.
From PM Require Import Model.Data Model.DomCtx.
Import ListNotations.
Local Open Scope string_scope.
Local Open Scope nat_scope.
Local Open Scope list_scope.

Section WithSchema.
Variable s : schema.

(* the reading: [rparts] are the parts from the LAST to the first, [rstack] the open nodes from the CURRENT
   one up to the root *)
Inductive CM : list string -> list nat -> Prop :=
| CM_done : forall st, CM [] st
| CM_part : forall p ps t st, p <> "" -> type_matches s t p = true -> CM ps st -> CM (p :: ps) (t :: st)
| CM_gap : forall ps skip st, CM ps st -> CM ("" :: ps) (skip ++ st).

(* one trailing and one leading empty part are dropped *)
Definition drop_head_empty (l : list string) : list string :=
  match l with "" :: (_ :: _) as r => r | _ => l end.
Fixpoint drop_last_empty (l : list string) : list string :=
  match l with
  | [] => []
  | [""] => []
  | x :: r => x :: drop_last_empty r
  end.

(* well-formed: no two adjacent empty parts (in the reversed list, after the trailing one was dropped) *)
Fixpoint NoAdj (l : list string) : Prop :=
  match l with
  | "" :: (("" :: _) as r) => False
  | _ :: r => NoAdj r
  | [] => True
  end.

Definition rem_of (stack : list nat) (depth : option nat) : list nat :=
  match depth with None => [] | Some d => rev (firstn (S d) stack) end.

Lemma rem_of_step stack d t : nth_error stack d = Some t ->
  rem_of stack (Some d) = t :: rem_of stack (match d with 0 => None | S d' => Some d' end).
Proof.
  intros H. unfold rem_of.
  assert (Hf : firstn (S d) stack = firstn d stack ++ [t]).
  { revert d H. induction stack as [|x l IH]; intros [|d] H; try discriminate; cbn in H.
    - inversion H. reflexivity.
    - cbn [firstn]. rewrite (IH d H) at 1. reflexivity. }
  rewrite Hf, rev_app_distr. cbn [rev app]. destruct d; reflexivity.
Qed.

Lemma rem_of_skip stack d k : d < List.length stack -> k <= d ->
  rem_of stack (Some (d - k)) = skipn k (rem_of stack (Some d)).
Proof.
  intros Hd Hk. unfold rem_of.
  assert (G : forall n m (l : list nat), n + m <= List.length l -> rev (firstn n l) = skipn m (rev (firstn (n + m) l))).
  { intros n m l Hl. rewrite <- (firstn_skipn n (firstn (n + m) l)) at 1.
    rewrite firstn_firstn, Nat.min_l by lia. rewrite rev_app_distr.
    rewrite skipn_app. rewrite rev_length, skipn_length, firstn_length, Nat.min_l by lia.
    replace (n + m - n) with m by lia. rewrite Nat.sub_diag. cbn [skipn].
    rewrite skipn_all2 by (rewrite rev_length, skipn_length, firstn_length; lia). reflexivity. }
  replace (S d) with (S (d - k) + k) by lia. apply G. lia.
Qed.

Lemma CM_nonempty_part p ps st : p <> "" -> CM (p :: ps) st -> st <> [].
Proof. intros Hp H. inversion H; subst; [discriminate|contradiction]. Qed.

Lemma mc_CM stack : forall rp depth,
  NoAdj rp -> (forall d, depth = Some d -> d < List.length stack) ->
  mc s stack rp false depth = true <-> CM (drop_last_empty rp) (rem_of stack depth).
Proof.
  induction rp as [|p rest IH]; intros depth Hw Hd.
  - cbn. split; [intros; constructor|reflexivity].
  - cbn [mc]. destruct (String.eqb p "") eqn:Ep.
    + apply String.eqb_eq in Ep. subst p. destruct rest as [|q rest2].
      * cbn. split; [intros; constructor|reflexivity].
      * assert (Hq : q <> "") by (intros ->; cbn in Hw; exact Hw).
        assert (Hw' : NoAdj (q :: rest2)) by (destruct q; [contradiction|exact Hw]).
        change (drop_last_empty ("" :: q :: rest2)) with ("" :: drop_last_empty (q :: rest2)).
        assert (Hdq : exists r', drop_last_empty (q :: rest2) = q :: r').
        { cbn [drop_last_empty]. destruct q as [|c q']; [contradiction|]. eauto. }
        destruct Hdq as (r' & Hdq).
        destruct depth as [d|].
        -- specialize (Hd d eq_refl). split.
           ++ intros H. apply existsb_exists in H. destruct H as (k & Hk & H). apply in_seq in Hk.
              apply (IH (Some (d - k)) Hw') in H; [|intros d0 E; inversion E; lia].
              rewrite (rem_of_skip stack d k) in H by lia.
              rewrite <- (firstn_skipn k (rem_of stack (Some d))). apply CM_gap. exact H.
           ++ intros H. rewrite Hdq in H.
              assert (HlenR : List.length (rem_of stack (Some d)) = S d).
              { unfold rem_of. rewrite rev_length, firstn_length. lia. }
              remember (rem_of stack (Some d)) as R eqn:ER.
              inversion H as [|p0 ps0 t0 st0 Hp0 Hm0 Hc0 E1 E2|ps skip st Hc E1 E2]; [exfalso; apply Hp0; reflexivity|].
              subst ps. apply existsb_exists.
              pose proof (CM_nonempty_part _ _ _ Hq Hc) as Hne.
              assert (Hlen : List.length skip + List.length st = S d) by (rewrite <- app_length, E2; exact HlenR).
              assert (Hst : 0 < List.length st) by (destruct st; [contradiction|cbn; lia]).
              exists (List.length skip). split; [apply in_seq; lia|].
              apply (IH (Some (d - List.length skip)) Hw'); [intros d0 E; inversion E; lia|].
              rewrite (rem_of_skip stack d (List.length skip)) by lia. rewrite <- ER, <- E2.
              rewrite skipn_app, skipn_all, Nat.sub_diag. cbn [app skipn]. rewrite Hdq. exact Hc.
        -- split; [discriminate|]. intros H. cbn [rem_of] in H. rewrite Hdq in H.
           inversion H as [|p0 ps0 t0 st0 Hp0 Hm0 Hc0 E1 E2|ps skip st Hc E1 E2]; subst. apply (CM_nonempty_part _ _ _ Hq) in Hc.
           destruct skip; [cbn in E2; subst st; contradiction|discriminate].
    + apply String.eqb_neq in Ep.
      assert (Hw' : NoAdj rest) by (destruct p as [|c p']; [contradiction|exact Hw]).
      assert (Hdp : drop_last_empty (p :: rest) = p :: drop_last_empty rest).
      { cbn [drop_last_empty]. destruct p as [|c p']; [contradiction|]. reflexivity. }
      rewrite Hdp. destruct depth as [d|].
      * specialize (Hd d eq_refl). destruct (nth_error stack d) as [t|] eqn:En; [|apply nth_error_None in En; lia].
        rewrite (rem_of_step stack d t En).
        destruct (type_matches s t p) eqn:Et.
        -- rewrite (IH (match d with 0 => None | S d' => Some d' end) Hw').
           ++ split; [intros H; constructor; auto|]. intros H. inversion H; subst; [assumption|exfalso; apply Ep; reflexivity].
           ++ intros d0 E. destruct d; inversion E. lia.
        -- split; [discriminate|]. intros H. inversion H; subst; [congruence|exfalso; apply Ep; reflexivity].
      * split; [discriminate|]. intros H. cbn [rem_of] in H. inversion H; subst. exfalso; apply Ep; reflexivity.
Qed.

(* the reading of one alternative *)
Definition ctx_reading (stack : list nat) (parts : list string) : Prop :=
  CM (drop_last_empty (drop_head_empty (rev parts))) (rev stack).

Theorem matches_context_alt_spec stack parts :
  stack <> [] -> NoAdj (drop_head_empty (rev parts)) ->
  matches_context_alt s stack parts = true <-> ctx_reading stack parts.
Proof.
  intros Hs Hw. unfold matches_context_alt, ctx_reading.
  assert (Hrem : rem_of stack (Some (List.length stack - 1)) = rev stack).
  { unfold rem_of. replace (S (List.length stack - 1)) with (List.length stack) by (destruct stack; [contradiction|cbn; lia]).
    rewrite firstn_all. reflexivity. }
  assert (Hd : forall d, Some (List.length stack - 1) = Some d -> d < List.length stack).
  { intros d E. inversion E. destruct stack; [contradiction|cbn; lia]. }
  rewrite <- Hrem.
  destruct (rev parts) as [|p rest] eqn:Er.
  - cbn. split; [intros; constructor|reflexivity].
  - destruct (String.eqb p "") eqn:Ep.
    + apply String.eqb_eq in Ep. subst p. destruct rest as [|q rest2].
      * cbn. split; [intros; constructor|reflexivity].
      * cbn [drop_head_empty] in *.
        change (mc s stack ("" :: q :: rest2) true (Some (List.length stack - 1)))
          with (mc s stack (q :: rest2) false (Some (List.length stack - 1))).
        apply mc_CM; assumption.
    + assert (Hdh : drop_head_empty (p :: rest) = p :: rest).
      { apply String.eqb_neq in Ep. destruct p as [|c p']; [contradiction|]. reflexivity. }
      rewrite Hdh in *.
      (* is_last plays no role for a non-empty part *)
      assert (Hmc : mc s stack (p :: rest) true (Some (List.length stack - 1)) = mc s stack (p :: rest) false (Some (List.length stack - 1))).
      { cbn [mc]. rewrite Ep. reflexivity. }
      rewrite Hmc. apply mc_CM; assumption.
Qed.

(* alternatives *)
Theorem matches_context_spec stack alts :
  stack <> [] -> (forall parts, In parts alts -> NoAdj (drop_head_empty (rev parts))) ->
  matches_context s stack alts = true <-> exists parts, In parts alts /\ ctx_reading stack parts.
Proof.
  intros Hs Hw. unfold matches_context. rewrite existsb_exists. split.
  - intros (parts & Hin & H). exists parts. split; [exact Hin|]. apply matches_context_alt_spec; auto.
  - intros (parts & Hin & H). exists parts. split; [exact Hin|]. apply matches_context_alt_spec; auto.
Qed.

End WithSchema.
