(* More proofs about Model/StepMap.v (property C08): range enumeration, touches,
   mappings as compositions, mirror round trip. *)
From Coq Require Import ZArith List Bool Lia ZifyBool.
From PM Require Import Model.StepMap Proofs.StepMapProofs.
Import ListNotations.
Open Scope Z_scope.

(* ---------------------------------------------------------------- for_each *)
Lemma for_each_go_app inv pre : forall post d,
  for_each_go inv (pre ++ post) d =
  for_each_go inv pre d ++
  for_each_go inv post (d + fold_right (fun r acc => (new_of inv r - old_of inv r) + acc) 0 pre).
Proof.
  induction pre as [|r pre IH]; intros post d; simpl.
  - f_equal. lia.
  - f_equal. rewrite IH. f_equal. f_equal. lia.
Qed.

(* the k-th reported quadruple: old coordinates are the range itself, new coordinates are shifted by the
   size differences of the ranges before it *)
Theorem for_each_spec pre s x y post :
  nth_error (for_each {| ranges := pre ++ (s, x, y) :: post; inverted := false |}) (length pre) =
  Some (s, s + x, s + total_diff pre, s + total_diff pre + y).
Proof.
  unfold for_each; simpl. rewrite for_each_go_app.
  assert (Hl : length (for_each_go false pre 0) = length pre).
  { generalize 0. induction pre as [|r pre IH]; intros d; simpl; auto. }
  rewrite nth_error_app2 by lia. rewrite Hl, Nat.sub_diag. simpl.
  unfold total_diff. rewrite !Z.sub_0_r. reflexivity.
Qed.

(* the enumeration agrees with how the map maps: the new start is where the old start goes with
   assoc = -1, the new end is where the old end goes with assoc = 1 *)
Theorem for_each_consistent pre s x y post :
  all_before pre s -> 0 <= x ->
  map {| ranges := pre ++ (s, x, y) :: post; inverted := false |} s (-1) = s + total_diff pre /\
  map {| ranges := pre ++ (s, x, y) :: post; inverted := false |} (s + x) 1 = s + total_diff pre + y.
Proof.
  intros Hb Hx.
  assert (Hb2 : all_before pre (s + x)).
  { clear -Hb Hx. induction pre as [|[[a b] c] pre IH]; simpl in *; auto. destruct Hb as [[H1 H2] H3]. repeat split; auto; lia. }
  destruct (Z.eq_dec x 0) as [->|Hne].
  - replace (s + 0) with s by lia. split.
    + rewrite rule_insertion by auto. simpl. lia.
    + rewrite rule_insertion by auto. simpl. lia.
  - split.
    + apply rule_at_start; auto; lia.
    + apply rule_at_end; auto; lia.
Qed.

(* inverting swaps the old and new side of every reported range *)
Lemma for_each_go_invert rs : forall d,
  for_each_go true rs (- d) =
  List.map (fun q => match q with (a, b, c, e) => (c, e, a, b) end) (for_each_go false rs d).
Proof.
  induction rs as [|[[s x] y] rs IH]; intros d; simpl; auto.
  replace (- d + (x - y)) with (- (d + (y - x))) by lia. rewrite IH.
  replace (s - - d) with (s + d) by lia. rewrite !Z.add_0_r, Z.sub_0_r. reflexivity.
Qed.

Theorem for_each_invert rs :
  for_each (invert {| ranges := rs; inverted := false |}) =
  List.map (fun q => match q with (a, b, c, e) => (c, e, a, b) end) (for_each {| ranges := rs; inverted := false |}).
Proof. unfold for_each, invert; simpl. apply (for_each_go_invert rs 0). Qed.

Theorem invert_involutive m : invert (invert m) = m.
Proof. destruct m as [rs inv]. unfold invert; simpl. rewrite negb_involutive. reflexivity. Qed.

(* ---------------------------------------------------------------- touches *)
Lemma touches_go_skip pre : forall post i d p idx,
  all_before pre p -> (forall k, (k < length pre)%nat -> i + Z.of_nat k <> idx) ->
  touches_go false (pre ++ post) i d p idx =
  touches_go false post (i + Z.of_nat (length pre)) (d + total_diff pre) p idx.
Proof.
  induction pre as [|[[s x] y] pre IH]; intros post i d p idx Hb Hk.
  - simpl. f_equal; lia.
  - destruct Hb as [[Hb0 Hb1] Hb2]. cbn [app touches_go start_of old_of new_of].
    replace (s - 0) with s by lia.
    assert (E1 : (s >? p) = false) by lia. rewrite E1.
    assert (E2 : (p <=? s + x) = false) by lia. rewrite E2. cbn [andb].
    rewrite IH; auto.
    + unfold total_diff; cbn [fold_right new_of old_of length]. f_equal; lia.
    + intros k Hlt. specialize (Hk (S k) ltac:(simpl; lia)). lia.
Qed.

Lemma touches_go_past rs : forall i d p idx, idx < i -> touches_go false rs i d p idx = false.
Proof.
  induction rs as [|[[s x] y] rs IH]; intros i d p idx H; simpl; auto.
  destruct (s - 0 >? p); auto.
  assert (E : (i =? idx) = false) by lia. rewrite E, andb_false_r. apply IH. lia.
Qed.

(* touches(pos, recover) is true exactly when pos lies in the closed old interval of the range the
   recover value names (for positions not already swallowed by an earlier range) *)
Theorem touches_spec pre s x y post p v :
  all_before pre p -> recover_index v = Z.of_nat (length pre) -> 0 <= x ->
  touches {| ranges := pre ++ (s, x, y) :: post; inverted := false |} p v = ((s <=? p) && (p <=? s + x)).
Proof.
  intros Hb Hv Hx. unfold touches; simpl. rewrite touches_go_skip; auto.
  - simpl. replace (s - 0) with s by lia. rewrite Hv, Z.eqb_refl, andb_true_r.
    rewrite touches_go_past by lia.
    destruct (s >? p) eqn:E1; destruct (p <=? s + x) eqn:E2; simpl; lia.
  - intros k Hk. lia.
Qed.

(* ---------------------------------------------------------------- mappings without mirrors *)
Lemma get_mirror_nil n : get_mirror_go [] n = None.
Proof. reflexivity. Qed.

Lemma nthZ_skipn {A} (l : list A) (i : Z) x rest :
  0 <= i -> skipn (Z.to_nat i) l = x :: rest -> nthZ l i = Some x /\ skipn (Z.to_nat (i + 1)) l = rest.
Proof.
  intros Hi H. unfold nthZ. assert (E : (i <? 0) = false) by lia. rewrite E.
  replace (Z.to_nat (i + 1)) with (S (Z.to_nat i)) by lia.
  generalize dependent (Z.to_nat i). clear. intros n. revert l.
  induction n as [|n IH]; intros l H.
  - simpl in H. subst l. simpl. auto.
  - destruct l as [|y l]; simpl in H; [discriminate|]. simpl. apply IH; auto.
Qed.

(* without mirror registrations Mapping._map is the left-to-right composition of the maps in its window *)
Lemma mapping_go_compose : forall (w : list stepmap) mp fuel i pos assoc del,
  mirror mp = [] -> 0 <= i ->
  firstn (Z.to_nat (mto mp - i)) (skipn (Z.to_nat i) (maps mp)) = w ->
  length w = Z.to_nat (mto mp - i) ->
  (length w <= fuel)%nat ->
  exists del', mapping_go fuel mp i pos assoc del = Some (fold_maps w pos assoc, del').
Proof.
  induction w as [|m w IH]; intros mp fuel i pos assoc del Hm Hi Hw Hlen Hf.
  - simpl in Hlen. assert (E : (i <? mto mp) = false) by lia.
    destruct fuel; simpl; rewrite E; eauto.
  - simpl in Hlen. assert (E : (i <? mto mp) = true) by lia.
    destruct fuel as [|fuel]; [simpl in Hf; lia|]. cbn [mapping_go]. rewrite E.
    destruct (skipn (Z.to_nat i) (maps mp)) as [|x rest] eqn:Es.
    { rewrite firstn_nil in Hw. discriminate. }
    replace (Z.to_nat (mto mp - i)) with (S (Z.to_nat (mto mp - (i + 1)))) in Hw by lia.
    simpl in Hw. inversion Hw; subst x.
    destruct (nthZ_skipn _ _ _ _ Hi Es) as [Hn Hs]. rewrite Hn.
    unfold get_mirror. rewrite Hm.
    assert (Hj : match mr_recover (map_result m pos assoc) with
                 | Some rv => match get_mirror_go [] i with
                              | Some corr => if (corr >? i) && (corr <? mto mp) then Some (corr, rv) else None
                              | None => None end
                 | None => None end = None).
    { destruct (mr_recover (map_result m pos assoc)); reflexivity. }
    rewrite Hj. simpl fold_maps. unfold map. rewrite ?H1.
    apply IH; auto; try lia.
    + rewrite Hs. exact H1.
    + simpl in Hf. lia.
Qed.

Theorem mapping_map_compose mp w pos assoc :
  mirror mp = [] -> window (maps mp) (mfrom mp) (mto mp) = Some w -> 0 <= mfrom mp <= mto mp ->
  mto mp <= Z.of_nat (length (maps mp)) ->
  mapping_map mp pos assoc = Some (fold_maps w pos assoc) /\
  exists d, mapping_map_result mp pos assoc = Some {| mr_pos := fold_maps w pos assoc; mr_del := d; mr_recover := None |}.
Proof.
  intros Hm Hw Hr Hto. unfold mapping_map, mapping_map_result. rewrite Hm, Hw. split; auto.
  unfold window in Hw.
  assert (E : (mfrom mp <? 0) || (Z.of_nat (length (maps mp)) <? mto mp) = false) by lia.
  rewrite E in Hw. inversion Hw as [Hw'].
  destruct (mapping_go_compose w mp (Z.to_nat (mto mp - mfrom mp)) (mfrom mp) pos assoc 0 Hm) as [d Hd]; try lia; auto.
  - rewrite <- Hw'. rewrite firstn_length, skipn_length. lia.
  - rewrite <- Hw'. rewrite firstn_length, skipn_length. lia.
  - rewrite Hw', Hd. eauto.
Qed.

(* slicing / appending are operations on the window and the map list *)
Theorem slice_spec mp f t : maps (mslice mp f t) = maps mp /\ mfrom (mslice mp f t) = f /\ mto (mslice mp f t) = t
                            /\ mirror (mslice mp f t) = mirror mp.
Proof. unfold mslice; simpl; auto. Qed.

Theorem append_map_spec mp m :
  maps (append_map mp m None) = maps mp ++ [m] /\ mto (append_map mp m None) = Z.of_nat (length (maps mp)) + 1 /\
  mirror (append_map mp m None) = mirror mp.
Proof. unfold append_map; simpl; auto. Qed.

Lemma append_mapping_go_maps other : forall rest self i st,
  maps (append_mapping_go self other rest i st) = maps self ++ rest.
Proof.
  induction rest as [|m rest IH]; intros self i st; simpl.
  - rewrite app_nil_r. reflexivity.
  - rewrite IH. destruct (match get_mirror other i with Some k => if k <? i then Some (st + k) else None | None => None end);
      simpl; rewrite <- app_assoc; reflexivity.
Qed.

Theorem append_mapping_spec self other : maps (append_mapping self other) = maps self ++ maps other.
Proof. unfold append_mapping. apply append_mapping_go_maps. Qed.

Lemma append_mapping_inverted_go_maps other : forall rest self i tot,
  maps (append_mapping_inverted_go self other rest i tot) = maps self ++ List.map invert rest.
Proof.
  induction rest as [|m rest IH]; intros self i tot; simpl.
  - rewrite app_nil_r. reflexivity.
  - rewrite IH. destruct (match get_mirror other i with Some k => if k >? i then Some (tot - k - 1) else None | None => None end);
      simpl; rewrite <- app_assoc; reflexivity.
Qed.

Theorem append_mapping_inverted_spec self other :
  maps (append_mapping_inverted self other) = maps self ++ List.map invert (rev (maps other)).
Proof. unfold append_mapping_inverted. apply append_mapping_inverted_go_maps. Qed.

Theorem minvert_spec mp : maps (minvert mp) = List.map invert (rev (maps mp)).
Proof. unfold minvert. rewrite append_mapping_inverted_spec. reflexivity. Qed.

(* ---------------------------------------------------------------- mirror round trip *)
(* mapping forward through m and back through its inverse returns the position, when the forward step
   produced no recover value (positions outside deleted content); ranges at least one token apart *)
Lemma inverse_norecover rs : forall i j d p a lo,
  sep_ranges lo rs -> lo < p ->
  mr_recover (map_go false rs i d p a) = None ->
  mr_pos (map_go true rs j (- d) (mr_pos (map_go false rs i d p a)) a) = p.
Proof.
  induction rs as [|[[s x] y] rs IH]; intros i j d p a lo Hsep Hlo Hrec.
  - simpl. lia.
  - destruct Hsep as (H1 & H2 & H3 & H4). cbn [map_go start_of old_of new_of] in *.
    replace (s - 0) with s in * by lia.
    replace (s - - d) with (s + d) by lia.
    destruct (s >? p) eqn:E1.
    + (* before the range on both sides *)
      cbn [mr_pos]. assert (E : (s + d >? p + d) = true) by lia. rewrite E. cbn [mr_pos]. lia.
    + destruct (p <=? s + x) eqn:E2.
      * (* inside or on an edge: no recover value means p is the edge on the association side *)
        cbn [mr_pos mr_recover] in *.
        destruct (p =? (if a <? 0 then s else s + x)) eqn:E3; [|discriminate].
        destruct (a <? 0) eqn:Ea.
        -- assert (p = s) by lia. subst p.
           assert (Es : (if x =? 0 then a else if s =? s then -1 else if s =? s + x then 1 else a) <? 0 = true).
           { destruct (x =? 0); [lia|]. rewrite Z.eqb_refl. reflexivity. }
           rewrite Es.
           assert (E4 : (s + d >? s + d + 0) = false) by lia. rewrite E4.
           assert (E5 : (s + d + 0 <=? s + d + y) = true) by lia. rewrite E5. cbn [mr_pos].
           assert (Es2 : (if y =? 0 then a else if s + d + 0 =? s + d then -1 else if s + d + 0 =? s + d + y then 1 else a) <? 0 = true).
           { destruct (y =? 0); [lia|]. replace (s + d + 0 =? s + d) with true by lia. reflexivity. }
           rewrite Es2. lia.
        -- assert (p = s + x) by lia. subst p.
           assert (Es : (if x =? 0 then a else if s + x =? s then -1 else if s + x =? s + x then 1 else a) <? 0 = false).
           { destruct (x =? 0) eqn:Ex; [lia|]. replace (s + x =? s) with false by lia. rewrite Z.eqb_refl. reflexivity. }
           rewrite Es.
           assert (E4 : (s + d >? s + d + y) = false) by lia. rewrite E4.
           assert (E5 : (s + d + y <=? s + d + y) = true) by lia. rewrite E5. cbn [mr_pos].
           assert (Es2 : (if y =? 0 then a else if s + d + y =? s + d then -1 else if s + d + y =? s + d + y then 1 else a) <? 0 = false).
           { destruct (y =? 0) eqn:Ey; [lia|]. replace (s + d + y =? s + d) with false by lia. rewrite Z.eqb_refl. reflexivity. }
           rewrite Es2. lia.
      * (* past the range: the image is strictly past the range's image too *)
        pose proof (map_go_lower rs (i + 1) (d + (y - x)) p a (s + x + 1)) as Hlow.
        assert (Hwf : wf_ranges (s + x + 1) rs).
        { destruct rs as [|[[s' x'] y'] rs']; simpl in *; auto. destruct H4 as (G1 & G2 & G3 & G4).
          repeat split; try lia. apply sep_wf in G4. auto. }
        specialize (Hlow Hwf ltac:(lia)).
        set (q := mr_pos (map_go false rs (i + 1) (d + (y - x)) p a)) in *.
        assert (E4 : (s + d >? q) = false) by lia. rewrite E4.
        assert (E5 : (q <=? s + d + y) = false) by lia. rewrite E5.
        replace (- d + (x - y)) with (- (d + (y - x))) by lia.
        unfold q. apply (IH _ _ _ _ _ (s + x)); auto. lia.
Qed.

(* one loop iteration of Mapping._map, as rewriting lemmas *)
Lemma mapping_go_done fuel mp i pos a del : mto mp <= i -> mapping_go fuel mp i pos a del = Some (pos, del).
Proof. intros H. assert (E : (i <? mto mp) = false) by lia. destruct fuel; simpl; rewrite E; reflexivity. Qed.

Lemma mapping_go_jump fuel mp i pos a del m rv corr mc p' :
  i < mto mp -> nthZ (maps mp) i = Some m -> mr_recover (map_result m pos a) = Some rv ->
  get_mirror mp i = Some corr -> i < corr < mto mp -> nthZ (maps mp) corr = Some mc -> recover mc rv = Some p' ->
  mapping_go (S fuel) mp i pos a del = mapping_go fuel mp (corr + 1) p' a del.
Proof.
  intros Hi Hn Hr Hg Hc Hn2 Hrec. cbn [mapping_go].
  assert (E : (i <? mto mp) = true) by lia. rewrite E, Hn, Hr, Hg.
  assert (E2 : (corr >? i) && (corr <? mto mp) = true) by lia. rewrite E2, Hn2, Hrec. reflexivity.
Qed.

Lemma mapping_go_plain fuel mp i pos a del m :
  i < mto mp -> nthZ (maps mp) i = Some m ->
  (mr_recover (map_result m pos a) = None \/
   match get_mirror mp i with Some corr => (corr >? i) && (corr <? mto mp) = false | None => True end) ->
  mapping_go (S fuel) mp i pos a del =
  mapping_go fuel mp (i + 1) (mr_pos (map_result m pos a)) a (Z.lor del (mr_del (map_result m pos a))).
Proof.
  intros Hi Hn Hc. cbn [mapping_go].
  assert (E : (i <? mto mp) = true) by lia. rewrite E, Hn.
  destruct Hc as [Hc|Hc].
  - rewrite Hc. reflexivity.
  - destruct (mr_recover (map_result m pos a)); auto.
    destruct (get_mirror mp i) as [corr|]; auto. rewrite Hc. reflexivity.
Qed.

(* one map and its inverse registered as mirrors: every position comes back, including positions inside
   deleted content (through the recover value) *)
Theorem mirror_roundtrip_single rs p a :
  sep_ranges (-1) rs -> 0 <= p -> Z.of_nat (length rs) <= 65536 ->
  let m := {| ranges := rs; inverted := false |} in
  mapping_map {| maps := [m; invert m]; mirror := [(0, 1)]; mfrom := 0; mto := 2 |} p a = Some p.
Proof.
  intros Hsep Hp Hlen m.
  set (mp := {| maps := [m; invert m]; mirror := [(0, 1)]; mfrom := 0; mto := 2 |}).
  unfold mapping_map, mapping_map_result. cbn [mirror mp maps mfrom mto].
  change (Z.to_nat (2 - 0)) with 2%nat.
  assert (Hres : exists d, mapping_go 2 mp 0 p a 0 = Some (p, d)).
  { destruct (mr_recover (map_result m p a)) as [rv|] eqn:Er.
    - (* deleted content: jump through the recover value to just after the mirror *)
      assert (J : mapping_go 2 mp 0 p a 0 = mapping_go 1 mp (1 + 1) p a 0).
      { apply (mapping_go_jump 1 mp 0 p a 0 m rv 1 (invert m) p).
        - simpl; lia.
        - reflexivity.
        - exact Er.
        - reflexivity.
        - simpl; lia.
        - reflexivity.
        - apply (recover_roundtrip m p a rv); auto. }
      rewrite J. rewrite mapping_go_done by (simpl; lia). eauto.
    - assert (Hback : mr_pos (map_result (invert m) (mr_pos (map_result m p a)) a) = p).
      { unfold map_result, invert, m; simpl.
        replace 0 with (- 0) at 3 by lia. apply (inverse_norecover rs 0 0 0 p a (-1)); auto. lia. }
      assert (J1 : mapping_go 2 mp 0 p a 0 =
                   mapping_go 1 mp (0 + 1) (mr_pos (map_result m p a)) a (Z.lor 0 (mr_del (map_result m p a)))).
      { apply (mapping_go_plain 1 mp 0 p a 0 m).
        - simpl; lia.
        - reflexivity.
        - left. exact Er. }
      rewrite J1.
      assert (J2 : forall q dl, mapping_go 1 mp (0 + 1) q a dl =
                   mapping_go 0 mp (0 + 1 + 1) (mr_pos (map_result (invert m) q a)) a (Z.lor dl (mr_del (map_result (invert m) q a)))).
      { intros q dl. apply (mapping_go_plain 0 mp (0 + 1) q a dl (invert m)).
        - simpl; lia.
        - reflexivity.
        - right. reflexivity. }
      rewrite J2. rewrite mapping_go_done by (simpl; lia). rewrite Hback. eauto. }
  destruct Hres as [d Hd]. rewrite Hd. reflexivity.
Qed.
