(* Exact undo of add-mark / remove-mark steps (C04).  The inverse ReplaceStep-style "naive" inverse of a mark step (the
   opposite step over the same range) restores the original token sequence exactly when, token by token, the opposite
   update undoes the update - which is what Transform.add_mark arranges: it removes displaced marks first and adds a mark
   only where it is absent. *)
From Coq Require Import ZArith NArith List Bool Arith Lia.
From PM Require Import Model.Data Model.Mark Model.Tree Model.Resolve Model.StepMap Model.Step Model.MarkOps Spec.Tokens
  Proofs.DataProofs Proofs.MarkProofs Proofs.CanonicalMarks
  Proofs.ReplaceValid Proofs.TokenBasics Proofs.ReplaceTokens Proofs.SliceShape Proofs.TokenLaws Proofs.MarkSteps
  Proofs.MarkPointwise Proofs.MarkMerge Proofs.MarkOpsProofs Proofs.NodeMarkUndo.
Import ListNotations.
Local Open Scope nat_scope.

Section WithSchema.
Variable s : schema.
Notation V := (V s).
Notation DT := (DT s).

Definition opposite (st : step) : step :=
  match st with
  | SAddMark f t m => SRemoveMark f t m
  | SRemoveMark f t m => SAddMark f t m
  | _ => st
  end.

Lemma invert_mark_step st f t doc : mark_step_range st = Some (f, t) -> invert_step s st doc = Ok (opposite st).
Proof. destruct st; try discriminate; reflexivity. Qed.

Theorem mark_step_undo_cond st f t doc d' d'' :
  V doc -> V d' -> mark_step_range st = Some (f, t) ->
  apply s st doc = ROk d' -> apply s (opposite st) d' = ROk d'' ->
  (forall i t0, f <= i -> i < t -> nth_error (DT doc) i = Some t0 ->
     let p := snd (ctxT (node_ty s doc) (DT doc) i) in
     ftok s (step_updN s (opposite st)) p (ftok s (step_updN s st) p t0) = t0) ->
  DT d'' = DT doc.
Proof.
  intros Hd Hd' Hr Ha Hb Hcond.
  assert (Hr' : mark_step_range (opposite st) = Some (f, t)) by (destruct st; try discriminate; exact Hr).
  assert (Hrun : RunV s doc [st; opposite st] d'').
  { cbn [RunV]. split; [exact Hd|]. exists d'. split; [exact Ha|]. split; [exact Hd'|]. exists d''. split; [exact Hb|reflexivity]. }
  assert (Hall : Forall IsMarkStep [st; opposite st]).
  { constructor; [exists f, t; exact Hr|]. constructor; [exists f, t; exact Hr'|constructor]. }
  destruct (mark_run_pointwise s _ _ _ Hall Hrun) as (_ & Hlen & _ & Hnth).
  apply nth_error_ext_eq. intros i. destruct (nth_error (DT doc) i) as [t0|] eqn:Hn.
  - rewrite (Hnth i t0 Hn). cbn [fold_left]. unfold apply_tok, touches_tok. rewrite Hr, Hr'.
    destruct ((f <=? i) && (i <? t)) eqn:E; [|reflexivity].
    apply andb_prop in E. destruct E as [E1 E2]. apply Nat.leb_le in E1. apply Nat.ltb_lt in E2.
    f_equal. exact (Hcond i t0 E1 E2 Hn).
  - apply nth_error_None in Hn. apply nth_error_None. lia.
Qed.

(* the marks an inline token carries *)
Definition tmarks (t : tok) : list mark :=
  match t with TOpen _ _ ms | TLeaf _ _ ms | TChar _ ms => ms | TClose => [] end.

Definition tok_ty (t : tok) : nat :=
  match t with TOpen ty _ _ | TLeaf ty _ _ => ty | TChar _ _ => s_text s | TClose => 0 end.

Lemma ftok_id u p t : u p (tok_ty t) (tmarks t) = tmarks t -> ftok s u p t = t.
Proof.
  intros H. destruct t as [ty a ms| |ty a ms|c ms]; cbn [ftok tmarks tok_ty] in *; unfold retag; try reflexivity.
  - destruct (is_inline_ty s ty); [rewrite H|]; reflexivity.
  - destruct (is_inline_ty s ty); [rewrite H|]; reflexivity.
  - destruct (is_inline_ty s (s_text s)); [rewrite H|]; reflexivity.
Qed.

Lemma ftok_ftok u2 u1 p t : ftok s u2 p (ftok s u1 p t) = ftok s (fun p ty ms => u2 p ty (u1 p ty ms)) p t.
Proof.
  destruct t as [ty a ms| |ty a ms|c ms]; cbn [ftok]; unfold retag; try reflexivity;
    match goal with |- context [is_inline_ty s ?x] => destruct (is_inline_ty s x) end; reflexivity.
Qed.

(* AddMarkStep(from, to, m) is undone exactly by RemoveMarkStep(from, to, m) when, on every token of the range, the mark is
   absent, the marks are rank-sorted and none of them excludes m or is excluded by it (nothing is displaced): what
   Transform.add_mark establishes before it adds *)
Theorem add_mark_step_undo f t m doc d' d'' :
  V doc -> V d' ->
  apply s (SAddMark f t m) doc = ROk d' -> apply s (SRemoveMark f t m) d' = ROk d'' ->
  (forall i t0, f <= i -> i < t -> nth_error (DT doc) i = Some t0 ->
     sorted_rank (tmarks t0) /\ forall o, In o (tmarks t0) -> ok2 s (mnorm m) o) ->
  DT d'' = DT doc.
Proof.
  intros Hd Hd' Ha Hb Hcond.
  apply (mark_step_undo_cond (SAddMark f t m) f t doc d' d'' Hd Hd' eq_refl Ha Hb).
  intros i t0 H1 H2 Hn p. cbn [opposite step_updN]. rewrite ftok_ftok. apply ftok_id. set (ty := tok_ty t0).
  destruct (Hcond i t0 H1 H2 Hn) as (Hs & Hok). unfold u_remove, u_add.
  assert (Habs : remove_from_set (mnorm m) (tmarks t0) = tmarks t0).
  { apply remove_absent. unfold is_in_set. destruct (existsb (fun item => mark_eqb item (mnorm m)) (tmarks t0)) eqn:E; [|reflexivity].
    exfalso. apply existsb_exists in E. destruct E as (o & Ho & Eo). destruct (Hok o Ho) as (Hne & _).
    rewrite mark_eqb_sym in Hne. congruence. }
  destruct (is_atom_ty s ty && allows_mark_type s p (m_ty (mnorm m))); [|exact Habs].
  rewrite add_to_set_spec, (ok2_not_blocked s _ _ Hok), kept_all by (intros o Ho; destruct (Hok o Ho) as (_ & H & _); exact H).
  apply (remove_inserted s). exact Hok.
Qed.

(* RemoveMarkStep(from, to, m) is undone exactly by AddMarkStep(from, to, m) when every token of the range that carries the mark
   is one the add step reaches (an atom whose enclosing node allows the mark) and re-adding puts the mark back in place -
   which holds for canonical mark sets with no other mark of that type (C04_readd_in_place) *)
Theorem remove_mark_step_undo f t m doc d' d'' :
  V doc -> V d' ->
  apply s (SRemoveMark f t m) doc = ROk d' -> apply s (SAddMark f t m) d' = ROk d'' ->
  (forall i t0, f <= i -> i < t -> nth_error (DT doc) i = Some t0 ->
     let p := snd (ctxT (node_ty s doc) (DT doc) i) in
     if is_atom_ty s (tok_ty t0) && allows_mark_type s p (m_ty m)
     then add_to_set s (mnorm m) (remove_from_set (mnorm m) (tmarks t0)) = tmarks t0
     else is_in_set (mnorm m) (tmarks t0) = false) ->
  DT d'' = DT doc.
Proof.
  intros Hd Hd' Ha Hb Hcond.
  apply (mark_step_undo_cond (SRemoveMark f t m) f t doc d' d'' Hd Hd' eq_refl Ha Hb).
  intros i t0 H1 H2 Hn p. cbn [opposite step_updN]. rewrite ftok_ftok. apply ftok_id.
  pose proof (Hcond i t0 H1 H2 Hn) as Hc. cbv zeta in Hc. fold p in Hc. unfold u_remove, u_add.
  replace (m_ty (mnorm m)) with (m_ty m) by reflexivity.
  destruct (is_atom_ty s (tok_ty t0) && allows_mark_type s p (m_ty m)); [exact Hc|].
  apply remove_absent. exact Hc.
Qed.

(* ------------------------------------------------------------------ the same on ANY valid document with the tokens and root
   type of the step's result (what an undo stack holds): needed to chain undos through a history *)
Theorem mark_step_undo_cond_on st f t doc d' e d'' :
  V doc -> V e -> mark_step_range st = Some (f, t) ->
  apply s st doc = ROk d' -> DT e = DT d' -> node_ty s e = node_ty s d' -> apply s (opposite st) e = ROk d'' ->
  (forall i t0, f <= i -> i < t -> nth_error (DT doc) i = Some t0 ->
     let p := snd (ctxT (node_ty s doc) (DT doc) i) in
     ftok s (step_updN s (opposite st)) p (ftok s (step_updN s st) p t0) = t0) ->
  DT d'' = DT doc /\ node_ty s d'' = node_ty s doc.
Proof.
  intros Hd He Hr Ha HeT Hety Hb Hcond.
  assert (Hr' : mark_step_range (opposite st) = Some (f, t)) by (destruct st; try discriminate; exact Hr).
  assert (R1 : RunV s doc [st] d') by (cbn [RunV]; split; [exact Hd|]; exists d'; split; [exact Ha|reflexivity]).
  assert (R2 : RunV s e [opposite st] d'') by (cbn [RunV]; split; [exact He|]; exists d''; split; [exact Hb|reflexivity]).
  assert (A1 : Forall IsMarkStep [st]) by (constructor; [exists f, t; exact Hr|constructor]).
  assert (A2 : Forall IsMarkStep [opposite st]) by (constructor; [exists f, t; exact Hr'|constructor]).
  destruct (mark_run_pointwise s _ _ _ A1 R1) as (T1 & L1 & C1 & N1).
  destruct (mark_run_pointwise s _ _ _ A2 R2) as (T2 & L2 & C2 & N2).
  split; [|rewrite T2, Hety, T1; reflexivity].
  apply nth_error_ext_eq. intros i. destruct (nth_error (DT doc) i) as [t0|] eqn:Hn.
  - pose proof (N1 i t0 Hn) as H1. cbn [fold_left] in H1. rewrite <- HeT in H1.
    rewrite (N2 i _ H1). cbn [fold_left]. rewrite Hety, T1, HeT, C1.
    unfold apply_tok, touches_tok. rewrite Hr, Hr'.
    destruct ((f <=? i) && (i <? t)) eqn:E; [|reflexivity].
    apply andb_prop in E. destruct E as [E1 E2]. apply Nat.leb_le in E1. apply Nat.ltb_lt in E2.
    f_equal. exact (Hcond i t0 E1 E2 Hn).
  - apply nth_error_None in Hn. apply nth_error_None. rewrite L2, HeT, L1. exact Hn.
Qed.

Definition AddUndoCond (f t : nat) (m : mark) (doc : node) : Prop :=
  forall i t0, f <= i -> i < t -> nth_error (DT doc) i = Some t0 ->
    sorted_rank (tmarks t0) /\ forall o, In o (tmarks t0) -> ok2 s (mnorm m) o.

Definition RemoveUndoCond (f t : nat) (m : mark) (doc : node) : Prop :=
  forall i t0, f <= i -> i < t -> nth_error (DT doc) i = Some t0 ->
    let p := snd (ctxT (node_ty s doc) (DT doc) i) in
    if is_atom_ty s (tok_ty t0) && allows_mark_type s p (m_ty m)
    then add_to_set s (mnorm m) (remove_from_set (mnorm m) (tmarks t0)) = tmarks t0
    else is_in_set (mnorm m) (tmarks t0) = false.

Theorem add_mark_step_undo_on f t m doc d' e d'' :
  V doc -> V e -> apply s (SAddMark f t m) doc = ROk d' -> DT e = DT d' -> node_ty s e = node_ty s d' ->
  apply s (SRemoveMark f t m) e = ROk d'' -> AddUndoCond f t m doc ->
  DT d'' = DT doc /\ node_ty s d'' = node_ty s doc.
Proof.
  intros Hd He Ha HeT Hety Hb Hcond.
  apply (mark_step_undo_cond_on (SAddMark f t m) f t doc d' e d'' Hd He eq_refl Ha HeT Hety Hb).
  intros i t0 H1 H2 Hn p. cbn [opposite step_updN]. rewrite ftok_ftok. apply ftok_id. set (ty := tok_ty t0).
  destruct (Hcond i t0 H1 H2 Hn) as (Hs & Hok). unfold u_remove, u_add.
  assert (Habs : remove_from_set (mnorm m) (tmarks t0) = tmarks t0).
  { apply remove_absent. unfold is_in_set. destruct (existsb (fun item => mark_eqb item (mnorm m)) (tmarks t0)) eqn:E; [|reflexivity].
    exfalso. apply existsb_exists in E. destruct E as (o & Ho & Eo). destruct (Hok o Ho) as (Hne & _).
    rewrite mark_eqb_sym in Hne. congruence. }
  destruct (is_atom_ty s ty && allows_mark_type s p (m_ty (mnorm m))); [|exact Habs].
  rewrite add_to_set_spec, (ok2_not_blocked s _ _ Hok), kept_all by (intros o Ho; destruct (Hok o Ho) as (_ & H & _); exact H).
  apply (remove_inserted s). exact Hok.
Qed.

Theorem remove_mark_step_undo_on f t m doc d' e d'' :
  V doc -> V e -> apply s (SRemoveMark f t m) doc = ROk d' -> DT e = DT d' -> node_ty s e = node_ty s d' ->
  apply s (SAddMark f t m) e = ROk d'' -> RemoveUndoCond f t m doc ->
  DT d'' = DT doc /\ node_ty s d'' = node_ty s doc.
Proof.
  intros Hd He Ha HeT Hety Hb Hcond.
  apply (mark_step_undo_cond_on (SRemoveMark f t m) f t doc d' e d'' Hd He eq_refl Ha HeT Hety Hb).
  intros i t0 H1 H2 Hn p. cbn [opposite step_updN]. rewrite ftok_ftok. apply ftok_id.
  pose proof (Hcond i t0 H1 H2 Hn) as Hc. cbv zeta in Hc. fold p in Hc. unfold u_remove, u_add.
  replace (m_ty (mnorm m)) with (m_ty m) by reflexivity.
  destruct (is_atom_ty s (tok_ty t0) && allows_mark_type s p (m_ty m)); [exact Hc|].
  apply remove_absent. exact Hc.
Qed.

End WithSchema.
