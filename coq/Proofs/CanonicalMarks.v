(* The canonical form Node.check demands of a mark list (re-adding every mark gives the same list) is exactly:
   rank-sorted, no two equal marks, no mark excluding another (C07, C14); Mark.add_to_set, remove_from_set and
   set_from keep it. *)
From Coq Require Import ZArith NArith List Bool Lia Arith.
From PM Require Import Model.Data Model.Mark Proofs.DataProofs Proofs.MarkProofs.
Import ListNotations.
Local Open Scope nat_scope.

Section WithSchema.
Variable s : schema.
Notation excl a b := (excludes s a b).
Notation add := (add_to_set s).

(* two marks that can stand in one set *)
Definition ok2 (x y : mark) : Prop :=
  mark_eqb x y = false /\ excl (m_ty x) (m_ty y) = false /\ excl (m_ty y) (m_ty x) = false.
Lemma ok2_sym x y : ok2 x y -> ok2 y x.
Proof. intros (H1 & H2 & H3). split; [rewrite mark_eqb_sym; exact H1|]. split; assumption. Qed.

Fixpoint PairOK (l : list mark) : Prop :=
  match l with [] => True | x :: r => (forall y, In y r -> ok2 x y) /\ PairOK r end.

Definition Clean (l : list mark) : Prop := sorted_rank l /\ PairOK l.

Lemma PairOK_filter f l : PairOK l -> PairOK (filter f l).
Proof.
  induction l as [|x l IH]; cbn [filter PairOK]; auto. intros [H1 H2]. destruct (f x); cbn [PairOK]; auto.
  split; auto. intros y Hy. apply filter_In in Hy. apply H1. tauto.
Qed.
Lemma PairOK_insert m l : PairOK l -> (forall y, In y l -> ok2 m y) -> PairOK (insert_sorted m l).
Proof.
  induction l as [|x l IH]; cbn [insert_sorted PairOK]; intros H Hm.
  - split; [intros y []|exact I].
  - destruct H as [H1 H2]. destruct (Nat.ltb (m_ty m) (m_ty x)); cbn [PairOK].
    + split; [exact Hm|]. split; assumption.
    + split.
      * intros y Hy. apply in_insert_sorted in Hy. destruct Hy as [->|Hy]; [apply ok2_sym; apply Hm; left; reflexivity|auto].
      * apply IH; auto. intros y Hy. apply Hm. right. exact Hy.
Qed.

(* when an addition is a plain insertion *)
Lemma not_blocked_kept m set :
  blocked s m set = false -> (forall o, In o set -> excl (m_ty m) (m_ty o) = false) -> forall o, In o set -> ok2 m o.
Proof.
  intros Hb Hk o Ho. unfold blocked in Hb.
  assert (Hbo : blocks s m o = false).
  { destruct (blocks s m o) eqn:E; [|reflexivity]. exfalso.
    assert (existsb (blocks s m) set = true) by (apply existsb_exists; exists o; auto). congruence. }
  unfold blocks in Hbo. apply orb_false_elim in Hbo. destruct Hbo as [He Hx]. rewrite (Hk o Ho) in Hx. cbn [negb andb] in Hx.
  split; [exact He|]. split; [apply Hk; exact Ho|exact Hx].
Qed.

Lemma kept_all m set : (forall o, In o set -> excl (m_ty m) (m_ty o) = false) -> kept s m set = set.
Proof.
  intros H. unfold kept. induction set as [|o r IH]; [reflexivity|]. cbn [filter]. rewrite (H o (or_introl eq_refl)). cbn [negb].
  f_equal. apply IH. intros x Hx. apply H. right. exact Hx.
Qed.

Lemma ok2_not_blocked m set : (forall o, In o set -> ok2 m o) -> blocked s m set = false.
Proof.
  intros H. unfold blocked. destruct (existsb (blocks s m) set) eqn:E; [|reflexivity]. exfalso.
  apply existsb_exists in E. destruct E as (o & Ho & Hb). destruct (H o Ho) as (H1 & H2 & H3).
  unfold blocks in Hb. rewrite H1, H3, andb_false_r in Hb. discriminate.
Qed.

(* ------------------------------------------------------------------ Clean lists are fixed points of re-adding *)
Lemma Clean_app_inv pre x l : sorted_rank (pre ++ x :: l) -> PairOK (pre ++ x :: l) ->
  (forall y, In y pre -> m_ty y <= m_ty x /\ ok2 x y).
Proof.
  induction pre as [|p pre IH]; intros Hs Hp y Hy; [destruct Hy|].
  cbn [app sorted_rank PairOK] in Hs, Hp. destruct Hs as [Hs1 Hs2]. destruct Hp as [Hp1 Hp2].
  destruct Hy as [->|Hy]; [|apply IH; assumption].
  assert (Hin : In x (pre ++ x :: l)) by (apply in_or_app; right; left; reflexivity).
  split; [apply Hs1; exact Hin|apply ok2_sym; apply Hp1; exact Hin].
Qed.

Lemma readd_clean : forall l pre, sorted_rank (pre ++ l) -> PairOK (pre ++ l) ->
  fold_left (fun acc m => add m acc) l pre = pre ++ l.
Proof.
  induction l as [|x l IH]; intros pre Hs Hp; cbn [fold_left]; [rewrite app_nil_r; reflexivity|].
  pose proof (Clean_app_inv pre x l Hs Hp) as Hx.
  assert (Ha : add x pre = pre ++ [x]).
  { rewrite add_to_set_spec. rewrite (ok2_not_blocked x pre (fun o Ho => proj2 (Hx o Ho))).
    rewrite kept_all by (intros o Ho; destruct (Hx o Ho) as (_ & _ & H2 & _); exact H2).
    apply insert_sorted_all_le. intros y Hy. apply Hx. exact Hy. }
  rewrite Ha. replace (pre ++ x :: l) with ((pre ++ [x]) ++ l) in * by (rewrite <- app_assoc; reflexivity).
  apply IH; assumption.
Qed.

Theorem clean_canonical ms : Clean ms -> marks_canonical s ms = true.
Proof.
  intros [Hs Hp]. unfold marks_canonical, same_set, readd. rewrite (readd_clean ms [] Hs Hp). apply marks_eqb_refl.
Qed.

(* ------------------------------------------------------------------ and only they are *)
Lemma filter_length_le {A} (f : A -> bool) l : length (filter f l) <= length l.
Proof. induction l as [|x l IH]; [reflexivity|]. cbn [filter]. destruct (f x); cbn [length]; lia. Qed.

Lemma add_length m set : length (add m set) <= S (length set).
Proof.
  rewrite add_to_set_spec. destruct (blocked s m set); [lia|].
  assert (H : forall l, length (insert_sorted m l) = S (length l)).
  { induction l as [|x l IH]; [reflexivity|]. cbn [insert_sorted]. destruct (Nat.ltb (m_ty m) (m_ty x)); cbn [length]; lia. }
  rewrite H. unfold kept. pose proof (filter_length_le (fun o => negb (excl (m_ty m) (m_ty o))) set). lia.
Qed.

Lemma filter_full {A} (f : A -> bool) l : length (filter f l) = length l -> forall x, In x l -> f x = true.
Proof.
  induction l as [|y l IH]; intros H x Hx; [destruct Hx|]. cbn [filter] in H.
  destruct (f y) eqn:E.
  - cbn [length] in H. destruct Hx as [->|Hx]; [exact E|apply IH; [lia|exact Hx]].
  - pose proof (filter_length_le f l). cbn [length] in H. lia.
Qed.

Lemma add_length_full m set : length (add m set) = S (length set) ->
  (forall o, In o set -> ok2 m o) /\ add m set = insert_sorted m set.
Proof.
  intros H. rewrite add_to_set_spec in H |- *. destruct (blocked s m set) eqn:Hb; [lia|].
  assert (Hl : forall l, length (insert_sorted m l) = S (length l)).
  { induction l as [|x l IH]; [reflexivity|]. cbn [insert_sorted]. destruct (Nat.ltb (m_ty m) (m_ty x)); cbn [length]; lia. }
  rewrite Hl in H. assert (Hk : forall o, In o set -> excl (m_ty m) (m_ty o) = false).
  { assert (Hf : length (filter (fun o => negb (excl (m_ty m) (m_ty o))) set) = length set) by (unfold kept in H; lia).
    intros o Ho. pose proof (filter_full _ set Hf o Ho) as E. apply negb_true_iff in E. exact E. }
  split; [exact (not_blocked_kept m set Hb Hk)|]. rewrite (kept_all m set Hk). reflexivity.
Qed.

Lemma fold_add_length : forall l acc, length (fold_left (fun acc m => add m acc) l acc) <= length acc + length l.
Proof.
  induction l as [|x l IH]; intros acc; cbn [fold_left length]; [lia|]. specialize (IH (add x acc)).
  pose proof (add_length x acc). lia.
Qed.

Lemma fold_add_full : forall l acc,
  length (fold_left (fun acc m => add m acc) l acc) = length acc + length l ->
  (forall x, In x l -> forall y, In y acc -> ok2 x y) /\ PairOK l.
Proof.
  induction l as [|x l IH]; intros acc H; cbn [fold_left length] in H.
  - split; [intros x []|exact I].
  - pose proof (fold_add_length l (add x acc)) as L1. pose proof (add_length x acc) as L2.
    assert (Hx : length (add x acc) = S (length acc)) by lia.
    destruct (add_length_full x acc Hx) as (Hok & Ea).
    assert (Hrest : length (fold_left (fun acc m => add m acc) l (add x acc)) = length (add x acc) + length l) by lia.
    destruct (IH (add x acc) Hrest) as (Hc & Hp).
    assert (Hin : forall y, In y (add x acc) <-> y = x \/ In y acc) by (intros y; rewrite Ea; apply in_insert_sorted).
    split.
    + intros z [<-|Hz] y Hy; [apply Hok; exact Hy|]. apply (Hc z Hz y). apply Hin. right. exact Hy.
    + cbn [PairOK]. split; [|exact Hp]. intros y Hy. apply ok2_sym. apply (Hc y Hy x). apply Hin. left. reflexivity.
Qed.

Lemma marks_eqb_types : forall a b, marks_eqb a b = true -> List.map m_ty a = List.map m_ty b.
Proof.
  induction a as [|x a IH]; intros [|y b] H; try discriminate; [reflexivity|]. cbn [marks_eqb] in H.
  apply andb_prop in H. destruct H as [H1 H2]. unfold mark_eqb in H1. apply andb_prop in H1. destruct H1 as [H1 _].
  apply Nat.eqb_eq in H1. cbn [List.map]. rewrite H1, (IH b H2). reflexivity.
Qed.

Lemma sorted_by_types : forall a b, List.map m_ty a = List.map m_ty b -> sorted_rank a -> sorted_rank b.
Proof.
  induction a as [|x a IH]; intros [|y b] H Hs; try discriminate; [exact I|]. cbn [List.map] in H. inversion H as [[H1 H2]].
  cbn [sorted_rank] in *. destruct Hs as [Hs1 Hs2]. split; [|apply (IH b H2 Hs2)].
  intros z Hz. apply (in_map m_ty) in Hz. rewrite <- H2 in Hz. apply in_map_iff in Hz. destruct Hz as (w & Hw & Hin).
  rewrite <- H1, <- Hw. apply Hs1. exact Hin.
Qed.

Lemma readd_sorted : forall l acc, sorted_rank acc -> sorted_rank (fold_left (fun acc m => add m acc) l acc).
Proof. induction l as [|x l IH]; intros acc H; cbn [fold_left]; [exact H|]. apply IH. apply add_to_set_sorted. exact H. Qed.

Theorem canonical_clean ms : marks_canonical s ms = true -> Clean ms.
Proof.
  unfold marks_canonical, same_set, readd. intros H.
  pose proof (marks_eqb_types _ _ H) as Ht.
  assert (Hl : length (fold_left (fun acc m => add m acc) ms []) = length ms).
  { apply (f_equal (@length nat)) in Ht. rewrite !map_length in Ht. exact Ht. }
  split.
  - apply (sorted_by_types _ _ Ht). apply readd_sorted. exact I.
  - assert (Hl0 : length (fold_left (fun acc m => add m acc) ms []) = length (@nil mark) + length ms) by (cbn [length]; lia).
    destruct (fold_add_full ms [] Hl0) as (_ & Hp). exact Hp.
Qed.

Theorem canonical_iff_clean ms : marks_canonical s ms = true <-> Clean ms.
Proof. split; [apply canonical_clean|apply clean_canonical]. Qed.

(* ------------------------------------------------------------------ the set operations keep the canonical form *)
Theorem add_to_set_clean m set : Clean set -> Clean (add m set).
Proof.
  intros [Hs Hp]. split; [apply add_to_set_sorted; exact Hs|]. rewrite add_to_set_spec.
  destruct (blocked s m set) eqn:Hb; [exact Hp|].
  apply PairOK_insert; [apply PairOK_filter; exact Hp|].
  intros y Hy. unfold kept in Hy. apply filter_In in Hy. destruct Hy as [Hy Hk]. apply negb_true_iff in Hk.
  unfold blocked in Hb.
  assert (Hbo : blocks s m y = false).
  { destruct (blocks s m y) eqn:E; [|reflexivity]. exfalso.
    assert (existsb (blocks s m) set = true) by (apply existsb_exists; exists y; auto). congruence. }
  unfold blocks in Hbo. apply orb_false_elim in Hbo. destruct Hbo as [He Hx]. rewrite Hk in Hx. cbn [negb andb] in Hx.
  split; [exact He|]. split; assumption.
Qed.
Theorem remove_from_set_clean m set : Clean set -> Clean (remove_from_set m set).
Proof. intros [Hs Hp]. split; [apply remove_from_set_sorted; exact Hs|apply PairOK_filter; exact Hp]. Qed.

Theorem add_to_set_canonical m set : marks_canonical s set = true -> marks_canonical s (add m set) = true.
Proof. intros H. apply clean_canonical, add_to_set_clean, canonical_clean, H. Qed.
Theorem remove_from_set_canonical m set : marks_canonical s set = true -> marks_canonical s (remove_from_set m set) = true.
Proof. intros H. apply clean_canonical, remove_from_set_clean, canonical_clean, H. Qed.

End WithSchema.
